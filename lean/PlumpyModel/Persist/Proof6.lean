import PlumpyModel.Persist.Proof5
/-!
# Restoring a checkpoint and continuing (helper lemmas for C08, plain processes)

`restore_mid`: at a step boundary the restored instance — under the logs of its predecessors — is related to the
uninterrupted configuration exactly as the abandoned instance was.  `chain_sim`: a callback with any number of
checkpoint / restore cuts ends where the uninterrupted callback ends.  `crun_rel`: the whole history.
-/
namespace PMF

theorem ext_nil (c : Cfg) : ext c {} = c := by
  cases c; simp [ext]

theorem tickF_ext (L : Logs) (P : Prog) (n : Nat) (c : Cfg) : tickF P n (ext c L) = ext (tickF P n c) L := by
  cases hpc : c.pc with
  | notStarted => simp only [tickF, ext_pc, hpc]; exact loopHead_ext L P n c
  | done => simp only [tickF, ext_pc, hpc]
  | crashed e => simp only [tickF, ext_pc, hpc]
  | inUser b =>
    by_cases ha : b.awaits = 0
    · simp only [tickF, ext_pc, hpc, ha, if_true]; rw [finishUser_ext, loopHead_ext]
    · simp only [tickF, ext_pc, hpc, ha, if_false]; rfl
  | awaitWaiting wf =>
    cases hw : c.wfs[wf]? with
    | none => simp only [tickF, ext_pc, ext_wfs, hpc, hw]
    | some w =>
      cases w with
      | pending => simp only [tickF, ext_pc, ext_wfs, hpc, hw]
      | result v => simp only [tickF, ext_pc, ext_wfs, ext_st, hpc, hw]; rw [wake_ext, loopHead_ext]
      | interrupted k => simp only [tickF, ext_pc, ext_wfs, ext_st, hpc, hw]; rw [wake_ext, loopHead_ext]
      | failed e => simp only [tickF, ext_pc, ext_wfs, ext_st, hpc, hw]; rw [wake_ext, loopHead_ext]
  | awaitPaused pf =>
    have hb : stepBody P n (ext c L) = ext (stepBody P n c) L := stepBodyK_ext L P _ (loopHead_ext L P n) c
    by_cases h1 : c.pfs[pf]? = some true
    · cases hp : c.paused with
      | none => simp only [tickF, ext_pc, ext_pfs, ext_paused, hpc, h1, hp, if_true]; exact hb
      | some pf' =>
        by_cases h2 : c.pfs[pf']? = some false
        · simp only [tickF, ext_pc, ext_pfs, ext_paused, hpc, h1, hp, h2, if_true]; rfl
        · simp only [tickF, ext_pc, ext_pfs, ext_paused, hpc, h1, hp, h2, if_true, if_false]; exact hb
    · simp only [tickF, ext_pc, ext_pfs, hpc, h1, if_false]

theorem tickStepper_ext (L : Logs) (P : Prog) (c : Cfg) : tickStepper P (ext c L) = ext (tickStepper P c) L := by
  rw [← tickF_fuel0, ← tickF_fuel0]; exact tickF_ext L P fuel0 c

theorem tickEntry_ext (L : Logs) (c : Cfg) : tickEntry (ext c L) = (tickEntry c).map (fun d => ext d L) := by
  cases hpc : c.pc with
  | notStarted => simp only [tickEntry, ext_pc, hpc, Option.map]
  | done => simp only [tickEntry, ext_pc, hpc, Option.map]
  | crashed e => simp only [tickEntry, ext_pc, hpc, Option.map]
  | awaitPaused pf => simp only [tickEntry, ext_pc, hpc, Option.map]
  | inUser b =>
    by_cases ha : b.awaits = 0
    · simp only [tickEntry, ext_pc, hpc, ha, if_true, Option.map]; rw [finishUser_ext]
    · simp only [tickEntry, ext_pc, hpc, ha, if_false, Option.map]
  | awaitWaiting wf =>
    cases hw : c.wfs[wf]? with
    | none => simp only [tickEntry, ext_pc, ext_wfs, hpc, hw, Option.map]
    | some w =>
      cases w with
      | pending => simp only [tickEntry, ext_pc, ext_wfs, hpc, hw, Option.map]
      | result v => simp only [tickEntry, ext_pc, ext_wfs, ext_st, hpc, hw, Option.map]; rw [wake_ext]
      | interrupted k => simp only [tickEntry, ext_pc, ext_wfs, ext_st, hpc, hw, Option.map]; rw [wake_ext]
      | failed e => simp only [tickEntry, ext_pc, ext_wfs, ext_st, hpc, hw, Option.map]; rw [wake_ext]

theorem restoreSt_saveSt_label (s : SObj) : (restoreSt (saveSt s)).label = s.label := by cases s <;> rfl

theorem restoreSt_saveSt_nw (s : SObj) (h : NotWaiting s) : restoreSt (saveSt s) = s := by
  cases s with
  | waiting fn wf wk aw => exact absurd rfl (h fn wf wk aw)
  | _ => rfl

theorem boundary_iff (c : Cfg) : boundary c = true ↔ c.stepping = false ∧ terminal c.st.label = false ∧ waitFresh c = true := by
  unfold boundary
  cases c.stepping <;> cases terminal c.st.label <;> simp

/-- **restoring at a step boundary**: the restored instance, with the logs of the abandoned one under its own, is related to
the uninterrupted configuration as the abandoned instance was -/
theorem restore_mid (b d : Cfg) (L : Logs) (hm : BMid (ext b L) d) (hcl : Clean d) (hI : Inv d) (hb : boundary b = true) :
    ∃ L' : Logs, L'.t = b.trace ++ L.t ∧ BMid (ext (restoreCfg (saveCfg b)) L') d ∧
      (restoreCfg (saveCfg b)).pc = .notStarted := by
  obtain ⟨hbs, hbl, hbw⟩ := (boundary_iff b).mp hb
  obtain ⟨g1, g2, g3, g4, g5, g6, g7, g8, g9, g10, g11, g12, g13, g14, g15⟩ := sh_fields hm.both.core.sh
  simp only [ext_stepping, ext_fut, ext_futHasKillCb, ext_closed, ext_cleanups, ext_efs, ext_efCb, ext_efKeys, ext_ctx,
    ext_ready, ext_entered, ext_trace, ext_loopErrs, ext_killing] at g1 g2 g3 g4 g5 g6 g7 g8 g9 g10 g11 g12 g13 g15
  have hlab : b.st.label = d.st.label := hm.both.label
  have hld : terminal d.st.label = false := hlab ▸ hbl
  obtain ⟨hf, hk, hc, hcu⟩ := hcl.live hld
  have hbk : b.killing = none := hm.both.core.ckill
  have hbp : b.paused = none := hm.both.cpaused
  have hent : d.entered = d.st.label :: d.entered.tail := by
    have := hI.head
    cases he : d.entered with
    | nil => rw [he] at this; cases this
    | cons x xs => rw [he] at this; simp at this; simp [this]
  refine ⟨{ t := b.trace ++ L.t, e := d.entered.tail, n := d.notif }, rfl, ⟨⟨⟨?_, ?_, rfl, hm.both.core.dint, hm.both.core.dpaused⟩, rfl, ?_⟩,
    rfl, (by intro e he; cases he), hm.ncd⟩, rfl⟩
  · rw [sh_eq_iff]
    refine ⟨by rw [← g1, hbs]; rfl, by rw [← g2]; rfl, ?_, hc.symm, hcu.symm, hcl.efs.symm, hcl.efCb.symm, hcl.efKeys.symm,
      by rw [← g9]; rfl, hcl.ready.symm, ?_, by rw [← g12]; rfl, hcl.loopErrs.symm, rfl, by rw [← g15, hbk]; rfl⟩
    · show decide (b.fut = PFut.pending) = d.futHasKillCb
      rw [hk, g2, hf]; rfl
    · show [(restoreSt (saveSt b.st)).label] ++ d.entered.tail = d.entered
      rw [restoreSt_saveSt_label, hlab]; exact hent.symm
  · -- state objects
    rcases hm.both.core.st with ⟨heq, hnw⟩ | ⟨fn, wf, aw, wf', w, h1, h2, h3, h4, h5⟩
    · simp only [ext_st] at heq hnw
      left
      refine ⟨?_, ?_⟩
      · show restoreSt (saveSt b.st) = d.st
        rw [restoreSt_saveSt_nw b.st hnw]; exact heq
      · show NotWaiting (restoreSt (saveSt b.st))
        rw [restoreSt_saveSt_nw b.st hnw]; exact hnw
    · simp only [ext_st, ext_wfs] at h1 h3
      have haw : aw = [] := hcl.aw _ _ _ _ h2
      subst haw
      have hw : w = .pending := by
        unfold waitFresh at hbw
        rw [h1] at hbw
        simp only [h3] at hbw
        cases w <;> first | rfl | cases hbw
      subst hw
      right
      refine ⟨fn, 0, [], wf', .pending, ?_, h2, ?_, h4, h5⟩
      · show restoreSt (saveSt b.st) = _
        rw [h1]; rfl
      · show (restoreCfg (saveCfg b)).wfs[0]? = some WF.pending
        simp only [restoreCfg, saveCfg, h1, saveSt]; rfl
  · show (if b.paused.isSome = true then some 0 else none) = none
    rw [hbp]; rfl

theorem tickEntry_notStarted (c : Cfg) (h : c.pc = .notStarted) : tickEntry c = some c := by
  simp only [tickEntry, h]

theorem boundary_ext (c : Cfg) (L : Logs) : boundary (ext c L) = boundary c := rfl

/-- **one callback with checkpoint / restore cuts**: started where the instance of the history with crashes enters the loop
from `c0` while the uninterrupted callback still has `f` iterations' worth of fuel from `d0`, it ends related to where the
uninterrupted callback ends -/
theorem chain_sim (P : Prog) (hP : NoWaitOn P) : ∀ (cuts : List Nat) (s : CState) (c0 d0 : Cfg) (L : Logs) (f : Nat),
    tickEntry s.cur = some c0 → L.t = s.past → BMid (ext c0 L) d0 → Clean d0 → Inv d0 → f ≤ fuel0 →
    loopDone P f d0 = true → cutsOk P cuts s.cur = true →
    ∃ L' : Logs, L'.t = (crashTick P cuts s).past ∧ At (ext (crashTick P cuts s).cur L') (loopHead P f d0) ∧
      PcOk (loopHead P f d0) := by
  intro cuts
  induction cuts with
  | nil =>
    intro s c0 d0 L f he hL hm hcl _ hf hD _
    refine ⟨L, hL, ?_⟩
    show At (ext (tickStepper P s.cur) L) (loopHead P f d0) ∧ _
    rw [← tickF_fuel0, tickF_entry P fuel0 s.cur c0 he, ← loopHead_ext]
    exact loop_sim P hP f fuel0 (ext c0 L) d0 hf hm hcl hD
  | cons n ns ih =>
    intro s c0 d0 L f he hL hm hcl hI hf hD hok
    simp only [cutsOk, Bool.and_eq_true] at hok
    obtain ⟨hb, hrest⟩ := hok
    have hbe : tickF P n s.cur = loopHead P n c0 := tickF_entry P n s.cur c0 he
    rw [hbe] at hb hrest
    obtain ⟨hbs, hbl, _⟩ := (boundary_iff _).mp hb
    have hcut := loop_cut P hP n (ext c0 L) d0 hm hcl (by rw [loopHead_ext]; exact hbs) (by rw [loopHead_ext]; exact hbl)
    rw [loopHead_ext] at hcut
    obtain ⟨hm1, hsplit⟩ := hcut
    obtain ⟨f', hf1, hf2, hf3⟩ := hsplit f hD
    obtain ⟨L', hL', hm2, hpc⟩ := restore_mid (loopHead P n c0) (loopHead P n d0) L hm1 (loopHead_clean P hP n d0 hcl)
      (loopHead_inv P n d0 hI) hb
    show ∃ L'' : Logs, L''.t = (crashTick P ns _).past ∧ At (ext (crashTick P ns _).cur L'') (loopHead P f d0) ∧ _
    rw [hbe, hf2]
    exact ih { cur := restoreCfg (saveCfg (loopHead P n c0)), past := (loopHead P n c0).trace ++ s.past, restores := s.restores + 1 }
      _ (loopHead P n d0) L' f' (tickEntry_notStarted _ hpc) (by rw [hL', hL]) hm2 (loopHead_clean P hP n d0 hcl)
      (loopHead_inv P n d0 hI) (by omega) hf3 hrest

/-- the invariant of the history with crashes against the uninterrupted one -/
structure RelS (s : CState) (d : Cfg) : Prop where
  ex : ∃ L : Logs, L.t = s.past ∧ At (ext s.cur L) d
  clean : Clean d
  pcOk : PcOk d
  inv : Inv d

theorem deliver_frame (c : Cfg) (o : WF) : (deliver c o).interrupt = c.interrupt ∧ (deliver c o).paused = c.paused ∧
    (deliver c o).pc = c.pc ∧ (deliver c o).st.label = c.st.label := by
  unfold deliver
  split
  · rename_i hst
    split
    · exact ⟨rfl, rfl, rfl, rfl⟩
    · split
      · exact ⟨rfl, rfl, rfl, by rw [hst]; rfl⟩
      · exact ⟨rfl, rfl, rfl, rfl⟩
    · exact ⟨rfl, rfl, rfl, rfl⟩
  · exact ⟨rfl, rfl, rfl, rfl⟩

theorem resume_frame (c : Cfg) (v : Option Val) : (resume c v).1.interrupt = c.interrupt ∧ (resume c v).1.paused = c.paused ∧
    (resume c v).1.pc = c.pc ∧ (resume c v).1.st.label = c.st.label := by
  unfold resume
  split
  · exact deliver_frame c _
  · exact ⟨rfl, rfl, rfl, rfl⟩

theorem resume_at (c d : Cfg) (v : Option Val) (h : At c d) : At (resume c v).1 (resume d v).1 := by
  have hi := resume_inStep c d v h.inStep
  obtain ⟨f1, f2, f3, f4⟩ := resume_frame c v
  refine ⟨⟨hi.core, f1.trans h.both.cint, f2.trans h.both.cpaused⟩, hi.pc, fun hr => (hi.run hr).1, fun hr => (hi.idle hr).1, ?_, ?_⟩
  · intro hp; rw [f3] at hp; rw [f4]; exact h.pcdone hp
  · intro e he; rw [f3] at he; exact h.nc e he

theorem cstep_rel (P : Prog) (hP : NoWaitOn P) (s : CState) (d : Cfg) (e : CEv) (h : RelS s d)
    (hadm : (match e with | .tick cuts => cutsOk P cuts s.cur | .resume _ => true) = true)
    (hD : (match e.ref with | .tick => tickDone P d | _ => true) = true) :
    RelS (cstep P s e) (step P d e.ref).1 := by
  obtain ⟨⟨L, hL, hat⟩, hcl, hpo, hI⟩ := h
  cases e with
  | resume v =>
    show RelS { s with cur := (resume s.cur v).1 } (resume d v).1
    refine ⟨⟨L, hL, ?_⟩, resume_clean d v hcl, pcOk_of_pc hpo (resume_frame d v).2.2.1, resume_inv d v hI⟩
    show At (ext (resume s.cur v).1 L) (resume d v).1
    rw [← resume_ext]; exact resume_at _ _ v hat
  | tick cuts =>
    have hD' : tickDone P d = true := hD
    have hclean : Clean (tickStepper P d) := by rw [← tickF_fuel0]; exact tickF_clean P hP fuel0 d hcl hpo
    have hinv : Inv (tickStepper P d) := tickStepper_inv P d hI
    show RelS (crashTick P cuts s) (tickStepper P d)
    cases cuts with
    | nil =>
      obtain ⟨h1, h2⟩ := tick_sim P hP (ext s.cur L) d hat hcl hpo hD'
      rw [tickStepper_ext] at h1
      exact ⟨⟨L, hL, h1⟩, hclean, h2, hinv⟩
    | cons n ns =>
      have hok : cutsOk P (n :: ns) s.cur = true := hadm
      rcases tickEntry_sim P (ext s.cur L) d hat with ⟨h1, _, _, h4, _⟩ | ⟨c0', d0, h1, h2, h3, h4⟩
      · -- the callback does not enter the loop: the instance is not at a step boundary, no checkpoint can be taken
        exfalso
        simp only [cutsOk, Bool.and_eq_true] at hok
        obtain ⟨hbs, hbl, _⟩ := (boundary_iff _).mp hok.1
        have e1 : tickF P 0 (ext s.cur L) = ext (tickF P n s.cur) L := by
          rw [← tickF_idle P n (ext s.cur L) h1 hat.not_awaitPaused.1, tickF_ext]
        rw [e1] at h4
        rcases h4 with h4 | h4
        · rw [ext_stepping, hbs] at h4; cases h4
        · rw [ext_st, hbl] at h4; cases h4
      · rw [tickEntry_ext] at h1
        cases hte : tickEntry s.cur with
        | none => rw [hte] at h1; cases h1
        | some c0 =>
          rw [hte] at h1
          simp only [Option.map] at h1
          cases h1
          rw [tickDone_entry P d d0 h2] at hD'
          obtain ⟨L', hL', hat', hpo'⟩ := chain_sim P hP (n :: ns) s c0 d0 L fuel0 hte hL h3 (h4 hcl hpo)
            (by
              -- `d0` is `d` itself, or the end of the step that `d` was executing
              cases hpc : d.pc with
              | notStarted => simp only [tickEntry, hpc] at h2; cases h2; exact hI
              | inUser b =>
                simp only [tickEntry, hpc] at h2
                split at h2
                · cases h2; exact finishUser_inv d b.out hI
                · cases h2
              | awaitWaiting wf =>
                cases hw : d.wfs[wf]? with
                | none => simp only [tickEntry, hpc, hw] at h2; cases h2
                | some w =>
                  cases w <;> simp only [tickEntry, hpc, hw] at h2 <;> cases h2 <;> exact wake_inv d _ _ _ hI
              | awaitPaused pf => simp only [tickEntry, hpc] at h2; cases h2
              | done => simp only [tickEntry, hpc] at h2; cases h2
              | crashed e => simp only [tickEntry, hpc] at h2; cases h2)
            (Nat.le_refl _) hD' hok
          have e2 : tickStepper P d = loopHead P fuel0 d0 := by rw [← tickF_fuel0]; exact tickF_entry P fuel0 d d0 h2
          rw [e2]
          rw [e2] at hclean hinv
          exact ⟨⟨L', hL', hat'⟩, hclean, hpo', hinv⟩

theorem both_refl_init : Both (init 0) (init 0) :=
  ⟨⟨rfl, Or.inl ⟨rfl, by intro a b c d h; cases h⟩, rfl, rfl, rfl⟩, rfl, rfl⟩

theorem relS_init : RelS cinit (init 0) := by
  refine ⟨⟨{}, rfl, ?_⟩, clean_init, (by intro b hb; cases hb), inv_init 0⟩
  show At (ext (init 0) {}) (init 0)
  rw [ext_nil]
  exact ⟨both_refl_init, rfl, fun h => by simp [isRunningPc, init] at h, fun _ => rfl, (fun h => by cases h),
    (by intro e he; cases he)⟩

/-- **the whole history** -/
theorem crun_rel (P : Prog) (hP : NoWaitOn P) : ∀ (evs : List CEv) (s : CState) (d : Cfg), RelS s d →
    cadm P s evs = true → fuelOk P d (evs.map CEv.ref) = true → RelS (crun P s evs) (run P d (evs.map CEv.ref)) := by
  intro evs
  induction evs with
  | nil => intro s d h _ _; exact h
  | cons e es ih =>
    intro s d h hadm hfuel
    simp only [cadm, Bool.and_eq_true] at hadm
    simp only [List.map_cons, fuelOk, Bool.and_eq_true] at hfuel
    have := cstep_rel P hP s d e h hadm.1 hfuel.1
    exact ih (cstep P s e) (step P d e.ref).1 this hadm.2 hfuel.2

end PMF
