import PlumpyModel.Persist.Tables
/-!
# Round-trip lemmas of the persistence model, part 1

`load ∘ save = id` for futures, the event helper, every state class and stepper states of any depth.
-/
namespace Persist
open Outline
set_option linter.unusedSimpArgs false

/-! ### mappings: get/set algebra -/
theorem bget_bset (b : Bundle) (k : String) (v : BVal) (k' : String) :
    bget (bset b k v) k' = if k' = k then some v else bget b k' := by
  induction b with
  | nil => simp [bset, bget, List.lookup]; split <;> simp_all
  | cons a r ih =>
    obtain ⟨ka, va⟩ := a
    simp only [bset]
    by_cases h : (ka == k) = true
    · have hk : ka = k := by simpa using h
      subst hk
      simp [bget, List.lookup]
      by_cases h2 : k' = ka
      · simp [h2]
      · have : (k' == ka) = false := by simpa using h2
        simp [h2, this]
    · have hk : ¬ ka = k := by simpa using h
      simp only [h]
      simp [bget, List.lookup] at ih ⊢
      by_cases h2 : k' = ka
      · subst h2; simp [hk]
      · have : (k' == ka) = false := by simpa using h2
        simp [this, ih]

theorem bget_bsetOpt (b : Bundle) (k : String) (o : Option BVal) (k' : String) :
    bget (bsetOpt b k o) k' = if k' = k then o.or (bget b k') else bget b k' := by
  cases o <;> simp [bsetOpt, bget_bset]

theorem metaOf_bset (b : Bundle) (k : String) (v : BVal) :
    metaOf (bset b k v) = if Gen.meta_key = k then (match v with | .dict m => m | _ => []) else metaOf b := by
  unfold metaOf; rw [bget_bset]; by_cases h : Gen.meta_key = k <;> simp [h] <;> cases v <;> rfl

theorem metaOf_bsetOpt (b : Bundle) (k : String) (o : Option BVal) :
    metaOf (bsetOpt b k o) = if Gen.meta_key = k then (match o with | some (.dict m) => m | some _ => [] | none => metaOf b) else metaOf b := by
  cases o with
  | none => simp [bsetOpt]
  | some x => simp [bsetOpt, metaOf_bset]; cases x <;> rfl

theorem metaOf_setMeta (b : Bundle) (k : String) (v : BVal) : metaOf (setMeta b k v) = bset (metaOf b) k v := by
  simp [setMeta, metaOf_bset]

theorem bget_setMeta (b : Bundle) (k : String) (v : BVal) (k' : String) :
    bget (setMeta b k v) k' = if k' = Gen.meta_key then some (.dict (bset (metaOf b) k v)) else bget b k' := by
  simp [setMeta, bget_bset]

theorem subOf_bset (m : Bundle) (k : String) (v : BVal) (k' : String) :
    subOf (bset m k v) k' = if k' = k then (match v with | .dict t => t | _ => []) else subOf m k' := by
  unfold subOf; rw [bget_bset]; by_cases h : k' = k <;> simp [h] <;> cases v <;> rfl

theorem metaOf_setMetaType (b : Bundle) (n t : String) :
    metaOf (setMetaType b n t) = bset (metaOf b) Gen.meta_types (.dict (bset (subOf (metaOf b) Gen.meta_types) n (.plain (.str t)))) := by
  simp [setMetaType, metaOf_setMeta]

theorem bget_setMetaType (b : Bundle) (n t : String) (k' : String) (h : k' ≠ Gen.meta_key) :
    bget (setMetaType b n t) k' = bget b k' := by
  simp [setMetaType, bget_setMeta, h]

@[simp] theorem metaOf_nil : metaOf [] = [] := rfl
@[simp] theorem bget_nil (k : String) : bget [] k = none := rfl
@[simp] theorem subOf_nil (k : String) : subOf [] k = [] := rfl

theorem saveChain_eq (cls : String) (val : String → String → Option (Option BVal)) (b : Bundle) :
    saveChain cls val b = (chainSyms cls).foldl (fun b p => p.2.foldl (handStep p.1 (val p.1)) b) b := by
  unfold saveChain chainSyms saveHand; rw [List.foldl_map]

theorem plainB_ok {v : Val} (h : okVal v = true) : plainB v = .plain v := by
  simp [okVal] at h; simp [plainB, h]
@[simp] theorem plainB_str (s : String) : plainB (.str s) = .plain (.str s) := rfl
@[simp] theorem plainB_none : plainB .none = .plain .none := rfl
@[simp] theorem plainB_nat (n : Nat) : plainB (.nat n) = .plain (.nat n) := rfl

/-- the loader a load ends up with: the one of the save context, else the global one -/
def effL (E : Env) (ctx : Option Loader) : Loader := ctx.getD E.glob

section Brute
attribute [local simp] saveChain_eq handStep bsetOpt saveMembers saveMember saveHeader setMeta setUserMeta setMetaType metaOf subOf
  bget bset getValue getMetaType getUserMeta plainOf List.lookup loadMembers bind Except.bind pure Except.pure
  Gen.meta_key Gen.meta_types Gen.meta_user Gen.meta_class_name Gen.meta_object_loader Gen.meta_type_savable
  Gen.futPending Gen.futFinished Gen.futCancelled
  members_fut members_eh members_created members_running members_waiting members_wcWaiting members_finished
  members_excepted members_killed members_fnStep members_retStep members_blockStep members_ifStep members_whileStep
  chain_fut chain_eh chain_created chain_running chain_waiting chain_wcWaiting chain_finished chain_excepted
  futCls ehCls procCls chainCls ctxCls createdCls runningCls waitingCls wcWaitingCls finishedCls exceptedCls killedCls
  fnStepCls retStepCls blockStepCls ifStepCls whileStepCls
  hk_values chain_killed chain_fnStep chain_retStep chain_blockStep chain_ifStep chain_whileStep

variable (E : Env) (ctx : Option Loader)

theorem loadFuture_saveFuture (f : FutV) (h : f.ok = true) : loadFuture (saveFuture E ctx f) = .ok f := by
  cases f <;> cases ctx <;> simp only [FutV.ok] at h <;>
    simp [saveFuture, futMember, loadFuture, plainB_ok, h]

theorem loadClass_saveFuture (hE : E.ok ctx) (f : FutV) : loadClass (effL E ctx) (saveFuture E ctx f) = .ok (cid futCls) := by
  cases ctx with
  | none => cases f <;> simp [saveFuture, futMember, loadClass, effL, hE.1 _]
  | some L => cases f <;> simp [saveFuture, futMember, loadClass, effL, (hE.2 L rfl).1 _]

theorem loadEH_saveEH (e : EHV) (h1 : okVal e.listenerType = true) (h2 : okVal e.listeners = true) :
    loadEH (saveEH E ctx e) = .ok e := by
  cases ctx <;> simp [saveEH, ehMember, loadEH, setEHMember, plainB_ok, h1, h2]

theorem loadClass_saveEH (hE : E.ok ctx) (e : EHV) : loadClass (effL E ctx) (saveEH E ctx e) = .ok (cid ehCls) := by
  cases ctx with
  | none => simp [saveEH, ehMember, loadClass, effL, hE.1 _]
  | some L => simp [saveEH, ehMember, loadClass, effL, (hE.2 L rfl).1 _]

theorem loadState_saveState (hG : E.glob.ok) (s : StateV) (h : s.ok = true) : loadState E (saveState E s) = .ok s := by
  have hG' := hG
  unfold Loader.ok at hG'
  cases s with
  | created i f a k =>
    simp only [StateV.ok, Bool.and_eq_true] at h
    simp [saveState, StateV.cls, stateMember, stateHand, StateV.inState, loadState, ensureLoader, loadClass, hG', cid_values,
      setStateMember, strAt, plainB_ok, h]
  | running i f a k =>
    simp only [StateV.ok, Bool.and_eq_true] at h
    simp [saveState, StateV.cls, stateMember, stateHand, StateV.inState, loadState, ensureLoader, loadClass, hG', cid_values,
      setStateMember, strAt, plainB_ok, h]
  | waiting i cb m d aw =>
    simp only [StateV.ok, Bool.and_eq_true] at h
    cases aw <;> cases cb <;>
    simp [saveState, StateV.cls, stateMember, stateHand, StateV.inState, loadState, ensureLoader, loadClass, hG', cid_values,
      setStateMember, strAt, plainB_ok, h]
  | finished i r ok =>
    simp only [StateV.ok, Bool.and_eq_true] at h
    simp [saveState, StateV.cls, stateMember, stateHand, StateV.inState, loadState, ensureLoader, loadClass, hG', cid_values,
      setStateMember, strAt, plainB_ok, h]
  | excepted i e =>
    simp only [StateV.ok, Bool.and_eq_true] at h
    simp [saveState, StateV.cls, stateMember, stateHand, StateV.inState, loadState, ensureLoader, loadClass, hG', cid_values,
      setStateMember, strAt, plainB_ok, h]
  | killed i m =>
    simp only [StateV.ok, Bool.and_eq_true] at h
    simp [saveState, StateV.cls, stateMember, stateHand, StateV.inState, loadState, ensureLoader, loadClass, hG', cid_values,
      setStateMember, strAt, plainB_ok, h]


def RI (i : Instr) : Prop := ∀ s, shapeI i s = true → restoreI E i (saveI E i s) = .ok s
def RB (is : Block) : Prop := ∀ s, shapeB is s = true → restoreB E is (saveB E is s) = .ok s

theorem rI_call (f : Nat) : RI E (.call f) := by
  intro s hs
  cases s with
  | node p c => simp [shapeI] at hs
  | leaf =>
    rw [saveI, restoreI]
    simp [setPos, strAt]

theorem rI_ret (c : Option Int) : RI E (.ret c) := by
  intro s hs
  cases s with
  | node p c => simp [shapeI] at hs
  | leaf => rw [restoreI]

theorem rI_while (p : Nat) (body : Block) (hb : RB E body) : RI E (.while_ p body) := by
  intro s hs
  match s, hs with
  | .leaf, hs => simp [shapeI] at hs
  | .node q none, hs =>
    have : q = 0 := by simpa [shapeI] using hs
    subst this
    simp [saveI, restoreI, childHand, posMember, childAt, setPos]
  | .node q (some c), hs =>
    have hq : q = 0 ∧ shapeB body c = true := by simpa [shapeI] using hs
    obtain ⟨rfl, hc⟩ := hq
    simp [saveI, restoreI, childHand, posMember, childAt, setPos, hb c hc]

theorem shapeI_ite_some {bs : List Branch} {pos : Nat} {br : Branch} (c : St) (h : bs[pos]? = some br) :
    shapeI (.ite bs) (.node pos (some c)) = shapeB br.2 c := by
  rw [shapeI]; split
  · rename_i br' h'; rw [h] at h'; cases h'; rfl
  · rename_i h'; rw [h] at h'; cases h'

theorem shapeI_ite_none {bs : List Branch} {pos : Nat} (c : St) (h : bs[pos]? = none) :
    shapeI (.ite bs) (.node pos (some c)) = false := by
  rw [shapeI]; split
  · rename_i br' h'; rw [h] at h'; cases h'
  · rfl

theorem shapeB_some {is : Block} {pos : Nat} {i : Instr} (c : St) (h : is[pos]? = some i) :
    shapeB is (.node pos (some c)) = shapeI i c := by
  rw [shapeB]; split
  · rename_i i' h'; rw [h] at h'; cases h'; rfl
  · rename_i h'; rw [h] at h'; cases h'

theorem shapeB_none {is : Block} {pos : Nat} (c : St) (h : is[pos]? = none) :
    shapeB is (.node pos (some c)) = false := by
  rw [shapeB]; split
  · rename_i i' h'; rw [h] at h'; cases h'
  · rfl

theorem rI_ite (bs : List Branch) (hb : ∀ br ∈ bs, RB E br.2) : RI E (.ite bs) := by
  intro s hs
  match s, hs with
  | .leaf, hs => simp [shapeI] at hs
  | .node pos none, _ =>
    simp [saveI, restoreI, childHand, posMember, childAt, setPos]
  | .node pos (some c), hs =>
    cases hget : bs[pos]? with
    | none => rw [shapeI_ite_none c hget] at hs; cases hs
    | some br =>
      rw [shapeI_ite_some c hget] at hs
      have hr := hb br (List.mem_of_getElem? hget) c hs
      have hsave : saveI E (.ite bs) (.node pos (some c)) =
          [(Gen.meta_key, .dict [(Gen.meta_class_name, .plain (.str (E.glob.ident (cid ifStepCls))))]),
           ("_pos", .plain (.nat pos)), ("stepper_state", .dict (saveB E br.2 c))] := by
        rw [saveI]; split
        · rename_i br' h'; rw [hget] at h'; cases h'
          simp [childHand, posMember]
        · rename_i h'; rw [hget] at h'; cases h'
      rw [hsave, restoreI]
      simp [childAt, setPos]
      split
      · rename_i h'; rw [hget] at h'; cases h'
      · rename_i br' h'; rw [hget] at h'; cases h'; simp [hr]

theorem rB_of_elems (is : Block) (hel : ∀ i ∈ is, RI E i) : RB E is := by
  intro s hs
  match s, hs with
  | .leaf, hs => simp [shapeB] at hs
  | .node pos none, _ =>
    simp [saveB, restoreB, childHand, posMember, childAt, setPos]
  | .node pos (some c), hs =>
    cases hget : is[pos]? with
    | none => rw [shapeB_none c hget] at hs; cases hs
    | some i =>
      rw [shapeB_some c hget] at hs
      have hr := hel i (List.mem_of_getElem? hget) c hs
      have hsave : saveB E is (.node pos (some c)) =
          [(Gen.meta_key, .dict [(Gen.meta_class_name, .plain (.str (E.glob.ident (cid blockStepCls))))]),
           ("_pos", .plain (.nat pos)), ("stepper_state", .dict (saveI E i c))] := by
        rw [saveB]; split
        · rename_i i' h'; rw [hget] at h'; cases h'
          simp [childHand, posMember]
        · rename_i h'; rw [hget] at h'; cases h'
      rw [hsave, restoreB]
      simp [childAt, setPos]
      split
      · rename_i h'; rw [hget] at h'; cases h'
      · rename_i i' h'; rw [hget] at h'; cases h'; simp [hr]

theorem restore_all : ∀ m : Nat,
    (∀ i : Instr, sizeOf i ≤ m → RI E i) ∧ (∀ is : Block, sizeOf is ≤ m → RB E is) := by
  intro m
  induction m with
  | zero =>
    refine ⟨fun i hi => ?_, fun is his => ?_⟩
    · cases i <;> simp at hi <;> omega
    · cases is <;> simp at his
  | succ m ih =>
    refine ⟨fun i hi => ?_, fun is his => ?_⟩
    · cases i with
      | call f => exact rI_call E f
      | ret c => exact rI_ret E c
      | while_ p b => exact rI_while E p b (ih.2 b (by simp at hi; omega))
      | ite bs =>
        refine rI_ite E bs (fun br hbr => ih.2 br.2 ?_)
        have h1 := List.sizeOf_lt_of_mem hbr
        have h2 : sizeOf br.2 < sizeOf br := by cases br; simp; omega
        simp at hi; omega
    · refine rB_of_elems E is (fun i hi => ih.1 i ?_)
      have := List.sizeOf_lt_of_mem hi
      omega

theorem restoreB_saveB (is : Block) (s : St) (h : shapeB is s = true) : restoreB E is (saveB E is s) = .ok s :=
  (restore_all E (sizeOf is)).2 is (Nat.le_refl _) s h
theorem restoreI_saveI (i : Instr) (s : St) (h : shapeI i s = true) : restoreI E i (saveI E i s) = .ok s :=
  (restore_all E (sizeOf i)).1 i (Nat.le_refl _) s h

theorem restoreTop_saveTop (is : Block) (s : St) (h : shapeTop is s = true) : restoreTop E is (saveTop E is s) = .ok s := by
  match is, s, h with
  | [], s, h => exact restoreB_saveB E _ _ (by simpa [shapeTop] using h)
  | _ :: _ :: _, s, h => exact restoreB_saveB E _ _ (by simpa [shapeTop] using h)
  | [i], .node 0 (some c), h =>
    have hc : shapeI i c = true := by simpa [shapeTop] using h
    simp [saveTop, restoreTop, restoreI_saveI E i c hc]
  | [i], .leaf, h => simp [shapeTop] at h
  | [i], .node (n+1) _, h => simp [shapeTop] at h
  | [i], .node 0 none, h => simp [shapeTop] at h

end Brute

end Persist
