import PlumpyModel.Persist.Plain
import PlumpyModel.Persist.Proof2
/-!
# What `saveCfg` keeps is inside what a bundle of the persistence model keeps (C08, plain processes)

`Persist/Plain.lean` describes a bundle from the point of view of the process-control model (`Saved`: state object, paused
flag, process future, context).  This file writes a `Saved` into the persisted view of `Persist/Model.lean` (`viewOf`: the
run function / done callback by name, `args`, `kwargs`, result, exception through an injective coding of the payloads; all
other members from a given view) and reads it back (`savedOf`).  With `load ∘ save = id` of C07 (whose member sets and keys
are the tables generated from the source) this gives: what `restoreCfg` builds a fresh instance from survives
`Persist.save` / `Persist.load`.
-/
namespace PMF

/-- the payloads of the process-control model that a bundle transports -/
inductive Payload
  | args (l : List Val)
  | kw (l : List (Nat × Val))
  | res (v : Option Val)
  | exc (e : Exc)
deriving DecidableEq, Repr

/-- how payloads are written as bundle values and step functions are named: any coding that is injective on the payloads and
function ids that occur (`dom`, `fnDom`) and never produces a live awaitable (the harness interns the values of a program as
integers, see `tableCodec`) -/
structure Codec where
  enc : Payload → Persist.Val
  dec : Persist.Val → Option Payload
  dom : Payload → Prop
  dec_enc : ∀ p, dom p → dec (enc p) = some p
  notLive : ∀ p, enc p ≠ .live
  fnName : Nat → String
  fnOf : String → Option Nat
  fnDom : Nat → Prop
  fnOf_name : ∀ n, fnDom n → fnOf (fnName n) = some n

/-- everything the saved state object and future mention is in the domain of the coding -/
def Codec.covers (K : Codec) (b : Saved) : Prop :=
  (match b.st with
   | .created fn => K.fnDom fn ∧ K.dom (.args []) ∧ K.dom (.kw [])
   | .running fn a k => K.fnDom fn ∧ K.dom (.args a) ∧ K.dom (.kw k)
   | .waiting fn => K.fnDom fn
   | .finished v _ => K.dom (.res v)
   | .excepted e => K.dom (.exc e)
   | .killed => True) ∧
  (match b.fut with | .exc e => K.dom (.exc e) | _ => True)

def stateV (K : Codec) : SSaved → Persist.StateV
  | .created fn => .created .none (K.fnName fn) (K.enc (.args [])) (K.enc (.kw []))
  | .running fn a k => .running .none (K.fnName fn) (K.enc (.args a)) (K.enc (.kw k))
  | .waiting fn => .waiting .none (some (K.fnName fn)) .none .none none
  | .finished v ok => .finished .none (K.enc (.res v)) (.bool ok)
  | .excepted e => .excepted .none (K.enc (.exc e))
  | .killed => .killed .none .none

def futV (K : Codec) : PFut → Persist.FutV
  | .pending => .pending
  | .result => .result .none
  | .exc e => .exc (K.enc (.exc e))
  | .cancelled => .cancelled

/-- the persisted view of a plain process whose process-control part is `b`; what the process-control model does not know
(pid, creation time, status, inputs, outputs, listeners) is taken from `base` -/
def viewOf (K : Codec) (base : Persist.View) (b : Saved) : Persist.View :=
  { base with state := stateV K b.st, paused := if b.paused then some .pending else none, future := futV K b.fut,
              chain := none }

def ssavedOf (K : Codec) : Persist.StateV → Option SSaved
  | .created _ f a k =>
      match K.fnOf f, K.dec a, K.dec k with
      | some fn, some (.args []), some (.kw []) => some (.created fn)
      | _, _, _ => none
  | .running _ f a k =>
      match K.fnOf f, K.dec a, K.dec k with
      | some fn, some (.args a), some (.kw k) => some (.running fn a k)
      | _, _, _ => none
  | .waiting _ (some f) _ _ none => (K.fnOf f).map .waiting
  | .waiting .. => none
  | .finished _ r (.bool ok) => (match K.dec r with | some (.res v) => some (.finished v ok) | _ => none)
  | .finished .. => none
  | .excepted _ e => (match K.dec e with | some (.exc e) => some (.excepted e) | _ => none)
  | .killed .. => some .killed

def pfutOf (K : Codec) : Persist.FutV → Option PFut
  | .pending => some .pending
  | .result _ => some .result
  | .exc e => (match K.dec e with | some (.exc e) => some (.exc e) | _ => none)
  | .cancelled => some .cancelled

/-- the process-control part of a persisted view of a plain process -/
def savedOf (K : Codec) (v : Persist.View) : Option Saved :=
  match ssavedOf K v.state, pfutOf K v.future with
  | some st, some fut => some { st := st, paused := v.paused.isSome, fut := fut, ctx := [] }
  | _, _ => none

theorem savedOf_viewOf (K : Codec) (base : Persist.View) (b : Saved) (h : b.ctx = []) (hcov : K.covers b) :
    savedOf K (viewOf K base b) = some b := by
  obtain ⟨st, p, f, cx⟩ := b
  simp only at h
  subst h
  obtain ⟨h1, h2⟩ := hcov
  simp only at h1 h2
  have e1 : ssavedOf K (stateV K st) = some st := by
    cases st with
    | created fn => obtain ⟨a, b, c⟩ := h1; simp [ssavedOf, stateV, K.fnOf_name fn a, K.dec_enc _ b, K.dec_enc _ c]
    | running fn x y => obtain ⟨a, b, c⟩ := h1; simp [ssavedOf, stateV, K.fnOf_name fn a, K.dec_enc _ b, K.dec_enc _ c]
    | waiting fn => simp [ssavedOf, stateV, K.fnOf_name fn h1]
    | finished v ok => simp [ssavedOf, stateV, K.dec_enc _ h1]
    | excepted e => simp [ssavedOf, stateV, K.dec_enc _ h1]
    | killed => simp [ssavedOf, stateV]
  have e2 : pfutOf K (futV K f) = some f := by
    cases f with
    | exc e => simp [pfutOf, futV, K.dec_enc _ h2]
    | _ => simp [pfutOf, futV]
  simp only [savedOf, viewOf, e1, e2]
  cases p <;> rfl

/-- the coding of a finite table of payloads and function names: the `i`-th payload is written as the integer `i` -/
def tableCodec (T : List Payload) (names : List String) : Codec where
  enc p := .nat (T.idxOf p)
  dec v := match v with | .nat i => T[i]? | _ => none
  dom p := p ∈ T
  dec_enc p hp := by
    show T[T.idxOf p]? = some p
    induction T with
    | nil => cases hp
    | cons a r ih =>
      by_cases h : a = p
      · subst h; simp
      · have hr : p ∈ r := by
          cases hp with
          | head => exact absurd rfl h
          | tail _ h' => exact h'
        have hne : (a == p) = false := by simpa using h
        simp only [List.idxOf_cons, hne, cond_false]
        rw [List.getElem?_cons_succ]
        exact ih hr
  notLive p := by intro h; cases h
  fnName n := names.getD n ""
  fnOf s := if s ∈ names then some (names.idxOf s) else none
  fnDom n := n < names.length ∧ names.idxOf (names.getD n "") = n
  fnOf_name n hn := by
    obtain ⟨h1, h2⟩ := hn
    have hm : names.getD n "" ∈ names := by
      rw [List.getD_eq_getElem?_getD, List.getElem?_eq_getElem h1]; exact List.getElem_mem h1
    simp only [hm, if_true, h2]

theorem okVal_enc (K : Codec) (p : Payload) : Persist.okVal (K.enc p) = true := by
  simp [Persist.okVal, K.notLive p]

theorem stateV_ok (K : Codec) (s : SSaved) : (stateV K s).ok = true := by
  cases s <;> simp [stateV, Persist.StateV.ok, Persist.okVal, K.notLive]

theorem futV_ok (K : Codec) (f : PFut) : (futV K f).ok = true := by
  cases f <;> simp [futV, Persist.FutV.ok, Persist.okVal, K.notLive]

/-- the view of a plain process built over a savable view is savable -/
theorem savable_viewOf (K : Codec) (C : Persist.Cls) (hC : C.outline = none) (base : Persist.View)
    (hb : Persist.savable C base = true) (b : Saved) : Persist.savable C (viewOf K base b) = true := by
  unfold Persist.savable at hb ⊢
  simp only [Bool.and_eq_true] at hb ⊢
  obtain ⟨⟨⟨⟨⟨⟨⟨⟨⟨⟨⟨⟨h1, h2⟩, h3⟩, h4⟩, _⟩, _⟩, h7⟩, h8⟩, h9⟩, h10⟩, h11⟩, _⟩, _⟩ := hb
  refine ⟨⟨⟨⟨⟨⟨⟨⟨⟨⟨⟨⟨h1, h2⟩, h3⟩, h4⟩, ?_⟩, futV_ok K b.fut⟩, h7⟩, h8⟩, h9⟩, h10⟩, h11⟩, stateV_ok K b.st⟩, ?_⟩
  · simp only [viewOf]
    cases b.paused <;> simp [Persist.FutV.ok]
  · simp only [viewOf, hC]

end PMF
