import PlumpyModel.Persist.Proof2
/-!
# Crash / restore chains of `_do_step` calls (C08)

`runSteps`: `n` consecutive `_do_step` calls; `runCrash`: the chain with a save / abandon / load of the stepper at the
listed step boundaries.  The world `σ` is the persisted context of the work chain (C07: restored exactly), so it is
handed over unchanged; the stepper state goes through `saveTop` / `restoreTop`.
-/
namespace Persist
open Outline

theorem shapeI_create (i : Instr) : shapeI i (create i) = true := by
  cases i <;> simp [create, shapeI]

theorem shapeB_createBlock (is : Block) : shapeB is (createBlock is) = true := by
  cases is with
  | nil => simp [createBlock, shapeB]
  | cons a r =>
    have : (a :: r)[0]? = some a := rfl
    simp [createBlock, shapeB_some _ this, shapeI_create]

def okOut {σ} (p : St → Bool) : Out σ → Prop
  | .ok _ _ s' _ => p s' = true
  | _ => True

def SI {σ} (W : World σ) (i : Instr) : Prop := ∀ s w, shapeI i s = true → okOut (shapeI i) (stepI W i s w)
def SB {σ} (W : World σ) (is : Block) : Prop := ∀ s w, shapeB is s = true → okOut (shapeB is) (stepB W is s w)

theorem sI_call {σ} (W : World σ) (f : Nat) : SI W (.call f) := by
  intro s w _
  simp [stepI, okOut, shapeI]

theorem sI_ret {σ} (W : World σ) (c : Option Int) : SI W (.ret c) := by
  intro s w _
  simp [stepI, okOut]

theorem sI_while {σ} (W : World σ) (p : Nat) (b : Block) (hb : SB W b) : SI W (.while_ p b) := by
  intro s w hs
  match s, hs with
  | .leaf, hs => simp [shapeI] at hs
  | .node q (some c), hs =>
    have hc : shapeB b c = true := by have := hs; simp [shapeI] at this; exact this.2
    have h := hb c w hc
    rw [stepI]
    cases hst : stepB W b c w with
    | error w' => simp [okOut]
    | propagate code w' => simp [okOut]
    | ok fin r c' w' =>
      rw [hst] at h
      simp only [okOut] at h ⊢
      cases fin <;> simp [shapeI, h]
  | .node q none, hs =>
    rw [stepI]
    cases hp : W.pred w p with
    | mk w1 t =>
      cases t with
      | false => simp [okOut, shapeI]
      | true =>
        have h := hb (createBlock b) w1 (shapeB_createBlock b)
        simp only [if_true]
        cases hst : stepB W b (createBlock b) w1 with
        | error w' => simp [okOut]
        | propagate code w' => simp [okOut]
        | ok fin r c' w' =>
          rw [hst] at h
          simp only [okOut] at h ⊢
          cases fin <;> simp [shapeI, h]

theorem sI_ite {σ} (W : World σ) (bs : List Branch) (hb : ∀ br ∈ bs, SB W br.2) : SI W (.ite bs) := by
  intro s w hs
  match s, hs with
  | .leaf, hs => simp [shapeI] at hs
  | .node pos (some c), hs =>
    cases hget : bs[pos]? with
    | none => rw [shapeI_ite_none c hget] at hs; cases hs
    | some br =>
      rw [shapeI_ite_some c hget] at hs
      have h := hb br (List.mem_of_getElem? hget) c w hs
      have hlt : pos < bs.length := (List.getElem?_eq_some_iff.mp hget).1
      have hposne : ¬ (pos = bs.length) := by omega
      have hstep : stepI W (.ite bs) (.node pos (some c)) w =
          (match stepB W br.2 c w with
           | .ok fin r c' w' => if fin then .ok true r (.node bs.length none) w' else .ok false r (.node pos (some c')) w'
           | o => o) := by
        rw [stepI]; simp only [hposne, if_false]
        split
        · rename_i h'; rw [hget] at h'; cases h'
        · rename_i br' h'; rw [hget] at h'; cases h'; rfl
      rw [hstep]
      cases hst : stepB W br.2 c w with
      | error w' => simp [okOut]
      | propagate code w' => simp [okOut]
      | ok fin r c' w' =>
        rw [hst] at h
        simp only [okOut] at h
        cases fin with
        | true => simp [okOut, shapeI]
        | false => simp [okOut, shapeI_ite_some c' hget, h]
  | .node pos none, _ =>
    rw [stepI]
    by_cases hfin : pos = bs.length
    · simp [hfin, okOut, shapeI]
    · simp only [hfin, if_false]
      cases hsc : scan W bs pos w with
      | mk pos' rest =>
        obtain ⟨w1, found⟩ := rest
        simp only
        by_cases hp' : pos' = bs.length
        · simp [hp', okOut, shapeI]
        · simp only [hp', if_false]
          split
          · simp [okOut]
          · rename_i br hget
            have h := hb br (List.mem_of_getElem? hget) (createBlock br.2) w1 (shapeB_createBlock _)
            cases hst : stepB W br.2 (createBlock br.2) w1 with
            | error w' => simp [okOut]
            | propagate code w' => simp [okOut]
            | ok fin r c' w' =>
              rw [hst] at h
              simp only [okOut] at h
              cases fin with
              | true => simp [okOut, shapeI]
              | false => simp [okOut, shapeI_ite_some c' hget, h]

theorem sB_of_elems {σ} (W : World σ) (is : Block) (hel : ∀ i ∈ is, SI W i) : SB W is := by
  intro s w hs
  match s, hs with
  | .leaf, hs => simp [shapeB] at hs
  | .node pos none, _ => simp [stepB, okOut]
  | .node pos (some c), hs =>
    cases hget : is[pos]? with
    | none => rw [shapeB_none c hget] at hs; cases hs
    | some i =>
      rw [shapeB_some c hget] at hs
      have h := hel i (List.mem_of_getElem? hget) c w hs
      unfold stepB
      split
      · simp [okOut]
      · rename_i i' hget'
        rw [hget] at hget'; cases hget'
        cases hst : stepI W i c w with
        | error w' => simp [okOut]
        | propagate code w' => simp [okOut]
        | ok fin r c' w' =>
          rw [hst] at h
          simp only [okOut] at h
          cases fin with
          | false => simp [okOut, shapeB_some c' hget, h]
          | true =>
            simp only [if_true, okOut]
            cases hget2 : is[pos+1]? with
            | none => simp [shapeB]
            | some i2 => simp [shapeB_some _ hget2, shapeI_create]

theorem shape_all {σ} (W : World σ) : ∀ m : Nat,
    (∀ i : Instr, sizeOf i ≤ m → SI W i) ∧ (∀ is : Block, sizeOf is ≤ m → SB W is) := by
  intro m
  induction m with
  | zero =>
    refine ⟨fun i hi => ?_, fun is his => ?_⟩
    · cases i <;> simp at hi <;> omega
    · cases is <;> simp at his
  | succ m ih =>
    refine ⟨fun i hi => ?_, fun is his => ?_⟩
    · cases i with
      | call f => exact sI_call W f
      | ret c => exact sI_ret W c
      | while_ p b => exact sI_while W p b (ih.2 b (by simp at hi; omega))
      | ite bs =>
        refine sI_ite W bs (fun br hbr => ih.2 br.2 ?_)
        have h1 := List.sizeOf_lt_of_mem hbr
        have h2 : sizeOf br.2 < sizeOf br := by cases br; simp; omega
        simp at hi; omega
    · refine sB_of_elems W is (fun i hi => ih.1 i ?_)
      have := List.sizeOf_lt_of_mem hi
      omega

/-- stepping a block keeps the stepper state one that the typed stepper objects can hold -/
theorem stepB_shape {σ} (W : World σ) (is : Block) (s : St) (w : σ) (h : shapeB is s = true) :
    okOut (shapeB is) (stepB W is s w) := (shape_all W (sizeOf is)).2 is (Nat.le_refl _) s w h

/-! ### live states of the top-level stepper -/
/-- the top-level stepper is not finished: it has a child at a valid position (and is well shaped) -/
def liveTop (is : Block) (s : St) : Bool :=
  match s with
  | .node pos (some c) => (match is[pos]? with | some i => shapeI i c | none => false)
  | _ => false

theorem liveTop_createBlock (is : Block) (h : is ≠ []) : liveTop is (createBlock is) = true := by
  cases is with
  | nil => exact absurd rfl h
  | cons a r => simp [createBlock, liveTop, shapeI_create]

theorem liveTop_shapeTop {is : Block} {s : St} (h : liveTop is s = true) : shapeTop is s = true := by
  match s, h with
  | .leaf, h => simp [liveTop] at h
  | .node pos none, h => simp [liveTop] at h
  | .node pos (some c), h =>
    simp only [liveTop] at h
    cases hget : is[pos]? with
    | none => simp [hget] at h
    | some i =>
      simp only [hget] at h
      match is, hget, h with
      | [], hget, _ => simp at hget
      | [j], hget, h =>
        cases pos with
        | zero => simp at hget; subst hget; simpa [shapeTop] using h
        | succ n => simp at hget
      | a :: b :: r, hget, h => simpa [shapeTop, shapeB_some c hget] using h

/-- a `_do_step` that asks to be continued leaves a live, well-shaped stepper -/
theorem doStep_live {σ} (W : World σ) (is : Block) (s : St) (w : σ) (h : liveTop is s = true)
    {s' : St} {w' : σ} {r : Ret} (hd : doStep W is s w = .cont s' w' r) : liveTop is s' = true := by
  match s, h with
  | .leaf, h => simp [liveTop] at h
  | .node pos none, h => simp [liveTop] at h
  | .node pos (some c), h =>
    simp only [liveTop] at h
    cases hget : is[pos]? with
    | none => simp [hget] at h
    | some i =>
      simp only [hget] at h
      have hsi := (shape_all W (sizeOf i)).1 i (Nat.le_refl _) c w h
      have hsb : stepB W is (.node pos (some c)) w =
          (match stepI W i c w with
           | .ok fin r c' w' =>
             if fin then .ok (pos + 1 == is.length) r (.node (pos + 1) ((is[pos + 1]?).map create)) w'
             else .ok false r (.node pos (some c')) w'
           | o => o) := by
        rw [stepB]
        split
        · rename_i h'; rw [hget] at h'; cases h'
        · rename_i i' h'; rw [hget] at h'; cases h'; rfl
      unfold doStep at hd
      rw [hsb] at hd
      cases hst : stepI W i c w with
      | error w2 => simp [hst] at hd
      | propagate code w2 => simp [hst] at hd
      | ok fin r2 c' w2 =>
        rw [hst] at hsi
        simp only [okOut] at hsi
        simp only [hst] at hd
        cases fin with
        | false =>
          simp only [Bool.false_eq_true, if_false] at hd
          split at hd
          · cases hd; simp [liveTop, hget, hsi]
          · cases hd
        | true =>
          simp only [if_true] at hd
          split at hd
          · rename_i hcond
            cases hd
            have hne : (pos + 1 == is.length) = false := by
              cases hb : (pos + 1 == is.length) <;> simp_all
            have hlt : pos + 1 < is.length := by
              have := (List.getElem?_eq_some_iff.mp hget).1
              have : ¬ (pos + 1 = is.length) := by simpa using hne
              omega
            have hget2 : is[pos+1]? = some is[pos+1] := by simp [hlt]
            simp [liveTop, hget2, shapeI_create]
          · cases hd

/-! ### chains (`runSteps`, `runCrash` are defined in Persist/Model.lean) -/
theorem runChain_add {σ} (W : World σ) (is : Block) (n m : Nat) (s : St) (w : σ) :
    runChain W is (n + m) s w =
      match runSteps W is n s w with
      | .running s' w' => runChain W is m s' w'
      | .finished r w' => some (r, w')
      | .failed => none := by
  induction n generalizing s w with
  | zero => simp [runSteps]
  | succ n ih =>
    have : n + 1 + m = (n + m) + 1 := by omega
    rw [this]
    simp only [runChain, runSteps]
    cases doStep W is s w with
    | cont s' w' r => simp only; exact ih s' w'
    | done r w' => rfl
    | error w' => rfl

theorem runSteps_live {σ} (W : World σ) (is : Block) (n : Nat) (s : St) (w : σ) (h : liveTop is s = true)
    {s' : St} {w' : σ} (hr : runSteps W is n s w = .running s' w') : liveTop is s' = true := by
  induction n generalizing s w with
  | zero => simp [runSteps] at hr; obtain ⟨rfl, rfl⟩ := hr; exact h
  | succ n ih =>
    simp only [runSteps] at hr
    cases hd : doStep W is s w with
    | cont s2 w2 r => rw [hd] at hr; exact ih s2 w2 (doStep_live W is s w h hd) hr
    | done r w2 => rw [hd] at hr; cases hr
    | error w2 => rw [hd] at hr; cases hr

end Persist
