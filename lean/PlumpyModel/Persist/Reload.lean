import PlumpyModel.Persist.Plain
/-!
# A process loaded from a checkpoint, then controlled like any other (C04)

`Persist/Plain.lean` defines what a bundle keeps of a configuration of the process-control model (`saveCfg`) and the fresh
instance that `load_instance_state` + `init()` build from it (`restoreCfg`).  C08 runs a restored instance with stepping-task
callbacks and `resume` only; C04 asks that it can still be KILLED — by `kill()` or by cancelling its future — whatever else
happens to it.  This file adds what the tie with the real library needs:

* `restoreCfgN m b` — `restoreCfg b` in an environment that holds `m` pending external futures (the futures a work chain
  awaits are the environment's, a bundle cannot carry them: C07; a restored work chain finds fresh ones).  `m = 0` is
  `restoreCfg` itself.
* `checkpointAt P c k` — the bundle `harness/props/c04.py` takes from inside the ENTERED callback of the state entry that
  makes the instance's ENTERED log `k` entries long, during the next callback of the stepping task of `c`: the callback is cut
  off (`tickF`) after the least number of loop iterations that reaches that entry; the checkpoint exists only if the
  configuration there is a step `boundary` (live, nothing delivered to the wait future).  In a history without requests
  nothing a bundle keeps changes between the ENTERED callback and the end of that loop iteration.
Core Lean only (linked into the driver: `pmodel pmr`).
-/
namespace PMF

/-- the instance built from a bundle in a fresh event loop whose environment holds `m` pending external futures -/
def restoreCfgN (m : Nat) (b : Saved) : Cfg := { restoreCfg b with efs := List.replicate m .pending }

theorem restoreCfgN_zero (b : Saved) : restoreCfgN 0 b = restoreCfg b := rfl

/-- least `n` (trying `n, n+1, …`, at most `g` values) such that the callback cut after `n` iterations has entered `k` states -/
def findCutAt (P : Prog) (c : Cfg) (k : Nat) : Nat → Nat → Option Nat
  | 0, _ => none
  | g+1, n => if (tickF P n c).entered.length ≥ k then some n else findCutAt P c k g (n + 1)

/-- the bundle taken at the `k`-th entry of the instance's ENTERED log, inside the next callback of the stepping task -/
def checkpointAt (P : Prog) (c : Cfg) (k : Nat) : Option Saved :=
  match findCutAt P c k 64 0 with
  | some n =>
      let b := tickF P n c
      if b.entered.length = k ∧ boundary b = true then some (saveCfg b) else none
  | none => none

end PMF
