import PlumpyModel.Persist.Proof
/-!
# Round-trip lemmas of the persistence model, part 2: the process (`load ∘ save = id` on every savable view)
-/
namespace Persist
open Outline
set_option linter.unusedSimpArgs false

theorem unplain_map (l : List (String × Val)) (h : l.all (fun kv => okVal kv.2) = true) :
    unplain (l.map (fun kv => (kv.1, plainB kv.2))) = .ok l := by
  induction l with
  | nil => rfl
  | cons a r ih =>
    simp only [List.all_cons, Bool.and_eq_true] at h
    obtain ⟨k, x⟩ := a
    simp [unplain, plainB_ok h.1, ih h.2, bind, Except.bind]

theorem decodeOpt_map (k : String) (o : Option Val) (h : (match o with | none => true | some x => okVal x) = true) :
    decodeOpt k (o.map plainB) = .ok o := by
  cases o with
  | none => rfl
  | some x => simp [decodeOpt, plainB_ok h]

@[simp] theorem decodeOpt_plain (k : String) (v : Val) : decodeOpt k (some (.plain v)) = .ok (some v) := rfl

theorem decodeOutputs_map (l : List (String × Val)) (h : l.all (fun kv => okVal kv.2) = true) :
    decodeOutputs (encodeOutputs l) = .ok l := by
  cases l with
  | nil => rfl
  | cons a r => simp only [encodeOutputs, List.isEmpty_cons, Bool.false_eq_true, if_false, decodeOutputs]; exact unplain_map _ h

theorem decodeStepper_map (E : Env) (is : Block) (o : Option St)
    (h : (match o with | none => true | some s => shapeTop is s) = true) :
    decodeStepper E is (o.map (fun s => .dict (saveTop E is s))) = .ok o := by
  cases o with
  | none => rfl
  | some s => simp [decodeStepper, restoreTop_saveTop E is s h, bind, Except.bind]

theorem loadSavable_fut (E : Env) (ctx : Option Loader) (hE : E.ok ctx) (f : FutV) :
    loadSavable (effL E ctx) futCls (saveFuture E ctx f) = .ok () := by
  simp [loadSavable, loadClass_saveFuture E ctx hE f, bind, Except.bind]

theorem loadSavable_eh (E : Env) (ctx : Option Loader) (hE : E.ok ctx) (e : EHV) :
    loadSavable (effL E ctx) ehCls (saveEH E ctx e) = .ok () := by
  simp [loadSavable, loadClass_saveEH E ctx hE e, bind, Except.bind]

section Proc
attribute [local simp] bget_bset bget_bsetOpt metaOf_bset metaOf_bsetOpt metaOf_setMeta bget_setMeta subOf_bset metaOf_setMetaType
  saveChain_eq handStep saveMembers saveMember saveHeader setUserMeta setMetaType getMetaType getUserMeta
  Gen.meta_key Gen.meta_types Gen.meta_user Gen.meta_class_name Gen.meta_object_loader Gen.meta_type_savable
  members_proc members_chain chain_proc chain_chain hk_values
  futCls ehCls procCls chainCls ctxCls procHand procMember Cls.base
  getValue loadMembers setProcMember plainOf optPlain decodeDict bind Except.bind pure Except.pure

variable (E : Env) (ctx : Option Loader) (C : Cls) (v : View)

/-- the loader found by a load that is given the save context's loader, or none at all -/
theorem ensureLoader_save (hE : E.ok ctx) (ctx' : Option Loader) (hc : ctx' = none ∨ ctx' = ctx) :
    ensureLoader E ctx' (save E C ctx v) = .ok (effL E ctx) := by
  cases ctx with
  | none =>
    have : ctx' = none := by cases hc <;> assumption
    subst this
    cases hC : C.outline <;> cases hp : v.paused <;> simp [ensureLoader, save, hC, hp, effL]
  | some L =>
    have hL := hE.2 L rfl
    have hG := hE.1
    unfold Loader.ok at hG
    rcases hc with rfl | rfl
    · cases hC : C.outline <;> cases hp : v.paused <;> simp [ensureLoader, save, hC, hp, effL, hG, hL.2]
    · simp [ensureLoader, effL]

theorem load_save (hE : E.ok ctx) (hs : savable C v = true) (ctx' : Option Loader) (hc : ctx' = none ∨ ctx' = ctx) :
    load E C ctx' (save E C ctx v) = .ok v := by
  have hens := ensureLoader_save E ctx C v hE ctx' hc
  have hLok : ∀ c, (effL E ctx).resolve ((effL E ctx).ident c) = some c := by
    cases ctx with
    | none => exact hE.1
    | some L => exact (hE.2 L rfl).1
  have hcls : loadClass (effL E ctx) (save E C ctx v) = .ok C.name := by
    cases ctx with
    | none =>
      have := hLok C.name
      simp only [effL, Option.getD] at this
      cases hC : C.outline <;> cases hp : v.paused <;> simp [loadClass, save, hC, hp, this, effL]
    | some L =>
      have := hLok C.name
      simp only [effL, Option.getD] at this
      cases hC : C.outline <;> cases hp : v.paused <;> simp [loadClass, save, hC, hp, this, effL]
  unfold load
  rw [hens]
  simp only [bind, Except.bind, hcls]
  generalize hL : effL E ctx = L at *
  have hfut := fun f => loadSavable_fut E ctx hE f
  have heh := fun e => loadSavable_eh E ctx hE e
  rw [hL] at hfut heh
  have hG := hE.1
  obtain ⟨pid, ctime, status, prePaused, paused, future, eh, raw, parsed, outs, st, chain⟩ := v
  simp only [savable, Bool.and_eq_true] at hs
  obtain ⟨⟨⟨⟨⟨⟨⟨⟨⟨⟨⟨⟨h1, h2⟩, h3⟩, h4⟩, h5⟩, h6⟩, h7⟩, h8⟩, h9⟩, h10⟩, h11⟩, h12⟩, h13⟩ := hs
  cases hC : C.outline with
  | none =>
    rw [hC] at h13
    cases chain with
    | some ch => simp at h13
    | none =>
      cases paused with
      | none =>
        cases ctx <;>
        simp [save, hC, blankView, plainB_ok, h1, h2, h3, h4, loadState_saveState E hG st h12,
          hfut, heh, loadFuture_saveFuture _ _ future h6, loadEH_saveEH _ _ eh h7 h8,
          decodeOpt_map _ raw h9, decodeOpt_map _ parsed h10, decodeOutputs_map outs h11]
      | some pf =>
        cases ctx <;>
        simp [save, hC, blankView, plainB_ok, h1, h2, h3, h4, loadState_saveState E hG st h12,
          hfut, heh, loadFuture_saveFuture _ _ future h6, loadFuture_saveFuture _ _ pf h5, loadEH_saveEH _ _ eh h7 h8,
          decodeOpt_map _ raw h9, decodeOpt_map _ parsed h10, decodeOutputs_map outs h11]
  | some is =>
    rw [hC] at h13
    cases chain with
    | none => simp at h13
    | some ch =>
      obtain ⟨cx, stp⟩ := ch
      simp only [Bool.and_eq_true] at h13
      cases paused with
      | none =>
        cases ctx <;>
        simp [save, hC, blankView, plainB_ok, h1, h2, h3, h4, h13.1, loadState_saveState E hG st h12,
          hfut, heh, loadFuture_saveFuture _ _ future h6, loadEH_saveEH _ _ eh h7 h8,
          decodeOpt_map _ raw h9, decodeOpt_map _ parsed h10, decodeOutputs_map outs h11, decodeOpt_plain,
          decodeStepper_map E is stp h13.2]
      | some pf =>
        cases ctx <;>
        simp [save, hC, blankView, plainB_ok, h1, h2, h3, h4, h13.1, loadState_saveState E hG st h12,
          hfut, heh, loadFuture_saveFuture _ _ future h6, loadFuture_saveFuture _ _ pf h5, loadEH_saveEH _ _ eh h7 h8,
          decodeOpt_map _ raw h9, decodeOpt_map _ parsed h10, decodeOutputs_map outs h11, decodeOpt_plain,
          decodeStepper_map E is stp h13.2]
end Proc

end Persist
