import PlumpyModel.PM.Model
/-!
# Crash / restore of a PLAIN process in the process-control model (C08)

`Persist/Model.lean` describes what a bundle carries (the persisted *view*: the state object with the name of its
function and `args` / `kwargs`, or the `done_callback` of a WAITING state; outputs, inputs, status, the paused flag, the
process future).  This file is the image of that view in the process-control model `PMF` (`PM/Model.lean`) and the
execution of a process whose running instance is abandoned at a checkpoint and continued from the bundle.

* `saveCfg c` — what the bundle keeps of a configuration: the state object WITHOUT the things `save_instance_state` does
  not write (the wait future of a `Waiting` state, a parked wake-up, awaited external futures), the paused flag, the
  process future (a `SavableFuture`), the context.  Everything else of a configuration (the stepping task and its
  program counter, the table of pending pause / kill actions, scheduled callbacks, heaps of wait / pause futures,
  listeners' logs, the call trace of *this instance*) is not in a bundle.
* `restoreCfg b` — the fresh configuration `load_instance_state` + `init()` build from a bundle: a new wait future for a
  WAITING state (`Waiting.load_instance_state`: `self._waiting_future = Future()`), a new pending pause future if the
  process was paused, the `try_killing` callback on a pending process future, stepping task not started, not closed,
  empty logs (the ENTERED log of the new instance starts at the restored state, as `harness/props/c08.py` counts it).
* `tickF P n c` — the callback of the stepping task cut off after `n` iterations of `step_until_terminated`'s loop
  (`tickF P fuel0 = tickStepper P`): the instance is abandoned inside that callback, at a step boundary.
* `CEv`, `cstep`, `crun` — a history of callbacks of the stepping task and `resume` requests in which a callback may
  carry *cuts*: `tick [n₁, …, n_k]` runs the callback for `n₁` steps, takes the checkpoint, abandons the instance, restores
  it, runs the stepping task of the restored instance for `n₂` steps, checkpoints again, … and finally lets the last
  instance run its callback to the end.  The uninterrupted history is the same list with the cuts erased (`CEv.ref`).
Core Lean only.
-/
namespace PMF

/-- the persisted form of a state object -/
inductive SSaved
  | created (fn : Nat)
  | running (fn : Nat) (args : List Val) (kw : List (Nat × Val))
  | waiting (fn : Nat)
  | finished (v : Option Val) (ok : Bool)
  | excepted (e : Exc)
  | killed
deriving Repr, DecidableEq, Inhabited

/-- `state.save()`: the run function / done callback by name, `args`, `kwargs`, result, exception -/
def saveSt : SObj → SSaved
  | .created fn => .created fn
  | .running fn args kw => .running fn args kw
  | .waiting fn _ _ _ => .waiting fn
  | .finished v ok => .finished v ok
  | .excepted e => .excepted e
  | .killed => .killed

/-- `Process.recreate_state`: a WAITING state gets a new wait future (index 0 of the new heap), no parked wake-up -/
def restoreSt : SSaved → SObj
  | .created fn => .created fn
  | .running fn args kw => .running fn args kw
  | .waiting fn => .waiting fn 0 none []
  | .finished v ok => .finished v ok
  | .excepted e => .excepted e
  | .killed => .killed

/-- what a bundle carries of a configuration -/
structure Saved where
  st : SSaved
  paused : Bool
  fut : PFut
  ctx : List (Nat × Val)
deriving Repr, DecidableEq, Inhabited

def saveCfg (c : Cfg) : Saved :=
  { st := saveSt c.st, paused := c.paused.isSome, fut := c.fut, ctx := c.ctx }

/-- the instance built from a bundle, in a fresh event loop -/
def restoreCfg (b : Saved) : Cfg :=
  { st := restoreSt b.st
    wfs := match b.st with | .waiting _ => [.pending] | _ => []
    paused := if b.paused then some 0 else none
    pfs := if b.paused then [false] else []
    fut := b.fut
    futHasKillCb := decide (b.fut = .pending)       -- `init()`: `if not self._future.done(): add_done_callback(try_killing)`
    ctx := b.ctx
    entered := [(restoreSt b.st).label] }

/-- the callback of the stepping task, abandoned after `fuel` iterations of the loop of `step_until_terminated` -/
def tickF (P : Prog) (fuel : Nat) (c : Cfg) : Cfg :=
  match c.pc with
  | .notStarted => loopHead P fuel c
  | .awaitPaused pf =>
      if c.pfs[pf]? = some true then
        match c.paused with
        | some pf' => if c.pfs[pf']? = some false then { c with pc := .awaitPaused pf' } else stepBody P fuel c
        | none => stepBody P fuel c
      else c
  | .inUser b =>
      if b.awaits = 0 then loopHead P fuel (finishUser c b.out) else { c with pc := .inUser { b with awaits := b.awaits - 1 } }
  | .awaitWaiting wf =>
      match c.wfs[wf]? with
      | some .pending => c
      | some w =>
          let fn := match c.st with | .waiting fn .. => fn | _ => 0
          loopHead P fuel (wake c fn wf w)
      | none => c
  | _ => c

theorem tickF_fuel0 (P : Prog) (c : Cfg) : tickF P fuel0 c = tickStepper P c := rfl

/-- the wait of a WAITING state has not been completed (a value delivered to the wait future is not in a bundle) -/
def waitFresh (c : Cfg) : Bool :=
  match c.st with
  | .waiting _ wf _ _ => (match c.wfs[wf]? with | some .pending => true | _ => false)
  | _ => true

/-- **step boundary** at which `harness/props/c08.py` checkpoints: a state of a live process has been entered, no step is
in flight, nothing has been delivered to the wait future yet -/
def boundary (c : Cfg) : Bool := !c.stepping && !terminal c.st.label && waitFresh c

/-- events of a history with crashes -/
inductive CEv
  | tick (cuts : List Nat)
  | resume (v : Option Val)
deriving Repr, DecidableEq, Inhabited

/-- the same event of the uninterrupted history -/
def CEv.ref : CEv → Ev
  | .tick _ => .tick
  | .resume v => .resume v

/-- the running instance, the call traces of the abandoned instances up to their checkpoints (newest first), the number
of restores -/
structure CState where
  cur : Cfg
  past : List Act := []
  restores : Nat := 0
deriving Repr, Inhabited

def crashTick (P : Prog) : List Nat → CState → CState
  | [], s => { s with cur := tickStepper P s.cur }
  | n :: ns, s =>
    let b := tickF P n s.cur
    crashTick P ns { cur := restoreCfg (saveCfg b), past := b.trace ++ s.past, restores := s.restores + 1 }

def cstep (P : Prog) (s : CState) : CEv → CState
  | .tick cuts => crashTick P cuts s
  | .resume v => { s with cur := (resume s.cur v).1 }

def crun (P : Prog) (s : CState) (evs : List CEv) : CState := evs.foldl (cstep P) s

def cinit : CState := { cur := init 0 }

/-- every cut of one callback is taken at a step boundary -/
def cutsOk (P : Prog) : List Nat → Cfg → Bool
  | [], _ => true
  | n :: ns, c => boundary (tickF P n c) && cutsOk P ns (restoreCfg (saveCfg (tickF P n c)))

/-- every checkpoint of the history is taken at a step boundary -/
def cadm (P : Prog) : CState → List CEv → Bool
  | _, [] => true
  | s, e :: es => (match e with | .tick cuts => cutsOk P cuts s.cur | .resume _ => true) && cadm P (cstep P s e) es

/-- the calls of user code made by all instances, newest first -/
def CState.trace (s : CState) : List Act := s.cur.trace ++ s.past

/-- a program of a plain process: no step awaits external futures (`ToContext` is a work-chain command; a WAITING state
holding live awaitables cannot be saved, C07) -/
def NoWaitOn (P : Prog) : Prop := ∀ fn args kw ctx f aw, (P fn args kw ctx).out ≠ .ret (.waitOn f aw)

end PMF
