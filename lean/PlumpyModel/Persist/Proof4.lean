import PlumpyModel.Persist.Plain
import PlumpyModel.PM.Proof4
/-!
# What a bundle does not carry is fresh at every step of a plain process (helper lemmas for C08)

`Clean c`: no scheduled callback, no external awaitable, no loop error; while the process is live its future is pending
and carries the `try_killing` callback, it is not closed and ran no cleanup; a WAITING state awaits no external future.
These are the fields `restoreCfg` sets to their initial values; `Clean` is preserved by the stepping task (any fuel) and by
`resume` for programs without `waitOn` — whatever pause / kill bookkeeping happens in between.
-/
namespace PMF

def AwEmpty (s : SObj) : Prop := ∀ fn wf wk aw, s = .waiting fn wf wk aw → aw = []

structure Clean (c : Cfg) : Prop where
  ready : c.ready = []
  efs : c.efs = []
  efCb : c.efCb = []
  efKeys : c.efKeys = []
  loopErrs : c.loopErrs = []
  live : terminal c.st.label = false → c.fut = .pending ∧ c.futHasKillCb = true ∧ c.closed = false ∧ c.cleanups = 0
  aw : AwEmpty c.st

/-- `c'` agrees with `c` on the five runtime fields that are never touched -/
def K5 (c c' : Cfg) : Prop :=
  c'.ready = c.ready ∧ c'.efs = c.efs ∧ c'.efCb = c.efCb ∧ c'.efKeys = c.efKeys ∧ c'.loopErrs = c.loopErrs
/-- … and on the outcome bookkeeping -/
def K4 (c c' : Cfg) : Prop :=
  c'.fut = c.fut ∧ c'.futHasKillCb = c.futHasKillCb ∧ c'.closed = c.closed ∧ c'.cleanups = c.cleanups
def K9 (c c' : Cfg) : Prop := K5 c c' ∧ K4 c c'

theorem K5.rfl' (c : Cfg) : K5 c c := ⟨rfl, rfl, rfl, rfl, rfl⟩
theorem K4.rfl' (c : Cfg) : K4 c c := ⟨rfl, rfl, rfl, rfl⟩
theorem K9.rfl' (c : Cfg) : K9 c c := ⟨K5.rfl' c, K4.rfl' c⟩
theorem K5.trans {a b c : Cfg} (h1 : K5 a b) (h2 : K5 b c) : K5 a c :=
  ⟨h2.1.trans h1.1, h2.2.1.trans h1.2.1, h2.2.2.1.trans h1.2.2.1, h2.2.2.2.1.trans h1.2.2.2.1, h2.2.2.2.2.trans h1.2.2.2.2⟩
theorem K4.trans {a b c : Cfg} (h1 : K4 a b) (h2 : K4 b c) : K4 a c :=
  ⟨h2.1.trans h1.1, h2.2.1.trans h1.2.1, h2.2.2.1.trans h1.2.2.1, h2.2.2.2.trans h1.2.2.2⟩
theorem K9.trans {a b c : Cfg} (h1 : K9 a b) (h2 : K9 b c) : K9 a c := ⟨h1.1.trans h2.1, h1.2.trans h2.2⟩

theorem k9_of_eq {c c' : Cfg} (h1 : c'.ready = c.ready) (h2 : c'.efs = c.efs) (h3 : c'.efCb = c.efCb)
    (h4 : c'.efKeys = c.efKeys) (h5 : c'.loopErrs = c.loopErrs) (h6 : c'.fut = c.fut)
    (h7 : c'.futHasKillCb = c.futHasKillCb) (h8 : c'.closed = c.closed) (h9 : c'.cleanups = c.cleanups) : K9 c c' :=
  ⟨⟨h1, h2, h3, h4, h5⟩, ⟨h6, h7, h8, h9⟩⟩

/-- `Clean` only looks at the nine fields and the state object -/
theorem Clean.of_k9 {c c' : Cfg} (h : Clean c) (k : K9 c c') (hst : c'.st = c.st) : Clean c' := by
  obtain ⟨⟨k1, k2, k3, k4, k5⟩, ⟨k6, k7, k8, k9⟩⟩ := k
  refine ⟨k1.trans h.ready, k2.trans h.efs, k3.trans h.efCb, k4.trans h.efKeys, k5.trans h.loopErrs, ?_, ?_⟩
  · intro hl; rw [hst] at hl; rw [k6, k7, k8, k9]; exact h.live hl
  · rw [hst]; exact h.aw

theorem setActionStatus_k9 (c : Cfg) (i s) : K9 c (setActionStatus c i s) ∧ (setActionStatus c i s).st = c.st := by
  unfold setActionStatus; split <;> exact ⟨K9.rfl' _, rfl⟩
theorem cancelAction_k9 (c : Cfg) (i) : K9 c (cancelAction c i) ∧ (cancelAction c i).st = c.st := by
  unfold cancelAction; split
  · exact setActionStatus_k9 ..
  · exact ⟨K9.rfl' _, rfl⟩
theorem setInterrupt_k9 (c : Cfg) (n) : K9 c (setInterrupt c n) ∧ (setInterrupt c n).st = c.st := by
  unfold setInterrupt; split
  · have := cancelAction_k9 c ‹_›
    exact ⟨K9.trans this.1 (K9.rfl' _), this.2⟩
  · exact ⟨K9.rfl' _, rfl⟩
theorem setInterruptFromExc_k9 (c : Cfg) (k n) : K9 c (setInterruptFromExc c k n) ∧ (setInterruptFromExc c k n).st = c.st := by
  unfold setInterruptFromExc cancelInterrupt
  split
  · have := cancelAction_k9 c ‹_›
    exact ⟨K9.trans this.1 (K9.rfl' _), this.2⟩
  · exact ⟨K9.rfl' _, rfl⟩

theorem freshFut_k5 (c : Cfg) : K5 c (freshFutIfCancelled c) ∧ (freshFutIfCancelled c).st = c.st ∧
    (freshFutIfCancelled c).closed = c.closed := by
  unfold freshFutIfCancelled; split <;> exact ⟨K5.rfl' _, rfl, rfl⟩
theorem setFutExc_k5 (c : Cfg) (e) : K5 c (setFutExc c e) ∧ (setFutExc c e).st = c.st ∧ (setFutExc c e).closed = c.closed := by
  unfold setFutExc; split <;> exact ⟨K5.rfl' _, rfl, rfl⟩
theorem onClose_k5 (c : Cfg) : K5 c (onClose c) ∧ (onClose c).st = c.st := by
  unfold onClose; split <;> exact ⟨K5.rfl' _, rfl⟩
theorem releasePause_k9 (c : Cfg) : K9 c (releasePause c) ∧ (releasePause c).st = c.st := by
  unfold releasePause; split
  · split <;> exact ⟨K9.rfl' _, rfl⟩
  · exact ⟨K9.rfl' _, rfl⟩
theorem onTerminated_k5 (c : Cfg) : K5 c (onTerminated c) ∧ (onTerminated c).st = c.st := by
  unfold onTerminated
  have h1 := releasePause_k9 c
  have h2 := onClose_k5 (releasePause c)
  exact ⟨h1.1.1.trans h2.1, h2.2.trans h1.2⟩

theorem exitState_k9 (c : Cfg) (h : c.efCb = []) : K9 c (exitState c) ∧ (exitState c).st = c.st := by
  unfold exitState; split
  · dsimp only
    split
    · exact ⟨k9_of_eq rfl rfl (by simp [h]) rfl rfl rfl rfl rfl rfl, rfl⟩
    · exact ⟨k9_of_eq rfl rfl (by simp [h]) rfl rfl rfl rfl rfl rfl, rfl⟩
  · exact ⟨K9.rfl' _, rfl⟩

theorem enteringHooks_k5 (c c2 : Cfg) (s : SObj) (h : enteringHooks c s = .ok c2) :
    K5 c c2 ∧ c2.st = c.st ∧ c2.closed = c.closed := by
  unfold enteringHooks at h
  split at h
  · dsimp only at h
    split at h
    · cases h; have := freshFut_k5 c; exact ⟨this.1.trans (K5.rfl' _), this.2.1, this.2.2⟩
    · cases h
  · dsimp only at h
    split at h
    · cases h; have := freshFut_k5 c; exact ⟨this.1.trans (K5.rfl' _), this.2.1, this.2.2⟩
    · cases h
  · cases h; exact setFutExc_k5 c _
  · cases h; exact ⟨K5.rfl' _, rfl, rfl⟩

/-- entering a live state needs no hook: nothing changes -/
theorem enteringHooks_live (c : Cfg) (s : SObj) (hs : terminal s.label = false) : enteringHooks c s = .ok c := by
  cases s <;> first | rfl | (simp [SObj.label, terminal, allowed] at hs)

theorem enterState_awEmpty (c : Cfg) (s : SObj) (h : AwEmpty s) : enterState c s = c := by
  unfold enterState
  split
  · rename_i fn wf wk aw
    have := h fn wf wk aw rfl
    subst this; rfl
  · rfl

theorem enteredHooks_k9 (c : Cfg) (s : SObj) : K9 c (enteredHooks c s) ∧ (enteredHooks c s).st = c.st := by
  unfold enteredHooks; dsimp only; split <;> split <;> exact ⟨K9.rfl' _, rfl⟩

theorem forceExcepted_k5 (c : Cfg) (e : Exc) : K5 c (forceExcepted c e) ∧ (forceExcepted c e).st = .excepted e := by
  unfold forceExcepted; split
  · exact ⟨K5.rfl' _, rfl⟩
  · have h1 := setFutExc_k5 c e
    have h2 := enteredHooks_k9 (setState (setFutExc c e) (.excepted e)) (.excepted e)
    have h3 := onTerminated_k5 (enteredHooks (setState (setFutExc c e) (.excepted e)) (.excepted e))
    refine ⟨h1.1.trans (K5.trans (K5.trans (show K5 (setFutExc c e) (setState (setFutExc c e) (.excepted e)) from K5.rfl' _) h2.1.1) h3.1), ?_⟩
    rw [h3.2, h2.2]; rfl

theorem awEmpty_excepted (e : Exc) : AwEmpty (.excepted e) := by intro a b c d h; cases h

/-- a transition out of a live state of a clean configuration -/
theorem transitionTo_clean (c : Cfg) (s : SObj) (h : Clean c) (hl : terminal c.st.label = false) (hs : AwEmpty s) :
    Clean (transitionTo c s) := by
  obtain ⟨hf, hk, hcl, hcu⟩ := h.live hl
  have hfe : ∀ (d : Cfg) (e : Exc), K5 c d → Clean (forceExcepted d e) := by
    intro d e hd
    have := forceExcepted_k5 d e
    have k := hd.trans this.1
    refine ⟨k.1.trans h.ready, k.2.1.trans h.efs, k.2.2.1.trans h.efCb, k.2.2.2.1.trans h.efKeys, k.2.2.2.2.trans h.loopErrs, ?_, ?_⟩
    · intro hl'; rw [this.2] at hl'; simp [SObj.label, terminal, allowed] at hl'
    · rw [this.2]; exact awEmpty_excepted e
  have hex := exitState_k9 c h.efCb
  unfold transitionTo
  split
  · dsimp only
    rw [hcl]; simp only [Bool.false_eq_true, if_false]
    by_cases hts : terminal s.label = true
    · -- a terminal target: only the five untouched fields matter
      split
      · rename_i e _; exact hfe _ e hex.1.1
      · rename_i c2 hok
        have h2 := enteringHooks_k5 _ c2 s hok
        unfold enterNext; dsimp only
        rw [enterState_awEmpty c2 s hs]
        simp only [hts, if_true]
        have h3 := enteredHooks_k9 (setState c2 s) s
        have h4 := onTerminated_k5 (enteredHooks (setState c2 s) s)
        have k : K5 c (onTerminated (enteredHooks (setState c2 s) s)) :=
          hex.1.1.trans (h2.1.trans (K5.trans (K5.trans (show K5 c2 (setState c2 s) from K5.rfl' _) h3.1.1) h4.1))
        have hst : (onTerminated (enteredHooks (setState c2 s) s)).st = s := by rw [h4.2, h3.2]; rfl
        refine ⟨k.1.trans h.ready, k.2.1.trans h.efs, k.2.2.1.trans h.efCb, k.2.2.2.1.trans h.efKeys, k.2.2.2.2.trans h.loopErrs, ?_, ?_⟩
        · intro hl'; rw [hst, hts] at hl'; cases hl'
        · rw [hst]; exact hs
    · have htf : terminal s.label = false := by simpa using hts
      rw [enteringHooks_live _ s htf]
      dsimp only
      unfold enterNext; dsimp only
      rw [enterState_awEmpty _ s hs]
      simp only [htf, Bool.false_eq_true, if_false]
      have h3 := enteredHooks_k9 (setState (exitState c) s) s
      have k : K9 c (enteredHooks (setState (exitState c) s) s) :=
        hex.1.trans (K9.trans (show K9 (exitState c) (setState (exitState c) s) from K9.rfl' _) h3.1)
      have hst : (enteredHooks (setState (exitState c) s) s).st = s := by rw [h3.2]; rfl
      obtain ⟨⟨k1, k2, k3, k4, k5⟩, ⟨k6, k7, k8, k9⟩⟩ := k
      refine ⟨k1.trans h.ready, k2.trans h.efs, k3.trans h.efCb, k4.trans h.efKeys, k5.trans h.loopErrs, ?_, ?_⟩
      · intro _; rw [k6, k7, k8, k9]; exact ⟨hf, hk, hcl, hcu⟩
      · rw [hst]; exact hs
  · exact hfe c _ (K5.rfl' c)

theorem doPauseHooks_clean (c : Cfg) (h : Clean c) : Clean (doPauseHooks c) := h.of_k9 (K9.rfl' _) rfl

theorem runAction_clean (c : Cfg) (i : Nat) (next : Option SObj) (h : Clean c) (hl : terminal c.st.label = false)
    (hn : ∀ s, next = some s → AwEmpty s) : Clean (runAction c i next) := by
  cases ha : c.actions[i]? with
  | none => simp only [runAction, ha]; exact h
  | some a =>
    by_cases hs : a.status = .pending
    · cases hk : a.kind with
      | pause =>
        cases next with
        | none =>
          simp only [runAction, ha, hs, hk, ne_eq, not_true_eq_false, if_false]
          have := setActionStatus_k9 (doPauseHooks c) i .done
          exact (doPauseHooks_clean _ h).of_k9 this.1 this.2
        | some s =>
          simp only [runAction, ha, hs, hk, ne_eq, not_true_eq_false, if_false]
          have h1 := transitionTo_clean c s h hl (hn s rfl)
          have := setActionStatus_k9 (doPauseHooks (transitionTo c s)) i .done
          exact (doPauseHooks_clean _ h1).of_k9 this.1 this.2
      | kill =>
        simp only [runAction, ha, hs, hk, ne_eq, not_true_eq_false, if_false]
        have h1 := transitionTo_clean c .killed h hl (by intro a b c d hh; cases hh)
        have h2 : Clean { transitionTo c .killed with killing := none } := h1.of_k9 (K9.rfl' _) rfl
        have := setActionStatus_k9 { transitionTo c .killed with killing := none } i .done
        exact h2.of_k9 this.1 this.2
    · simp only [runAction, ha, hs, ne_eq, not_false_eq_true, if_true]
      exact h.of_k9 (K9.rfl' _) rfl

theorem prepare_clean (c : Cfg) (r : StepEnd) (h : Clean c) : Clean (prepare c r).1 ∧ (prepare c r).1.st = c.st := by
  unfold prepare
  split
  · have := setInterrupt_k9 c none; exact ⟨h.of_k9 this.1 this.2, this.2⟩
  · exact ⟨h, rfl⟩
  · split
    · exact ⟨h, rfl⟩
    · have := setInterruptFromExc_k9 c (kindOfCookie c ‹_›) ‹_›; exact ⟨h.of_k9 this.1 this.2, this.2⟩
  · have := setInterrupt_k9 c none; exact ⟨h.of_k9 this.1 this.2, this.2⟩

theorem Clean.of_k9' {c c' : Cfg} (h : Clean c) (k : K9 c c') (hlab : c'.st.label = c.st.label) (haw : AwEmpty c'.st) :
    Clean c' := by
  obtain ⟨⟨k1, k2, k3, k4, k5⟩, ⟨k6, k7, k8, k9⟩⟩ := k
  refine ⟨k1.trans h.ready, k2.trans h.efs, k3.trans h.efCb, k4.trans h.efKeys, k5.trans h.loopErrs, ?_, haw⟩
  intro hl; rw [hlab] at hl; rw [k6, k7, k8, k9]; exact h.live hl

theorem dispatch_clean (c : Cfg) (next : Option SObj) (h : Clean c) (hn : ∀ s, next = some s → AwEmpty s) :
    Clean (dispatch c next) := by
  by_cases ht : terminal c.st.label = true
  · simp only [dispatch, ht, if_true]; exact h
  · have hl : terminal c.st.label = false := by simpa using ht
    cases next with
    | none =>
      unfold dispatch
      simp only [ht, Bool.false_eq_true, if_false]
      split
      · split
        · exact runAction_clean c _ none h hl hn
        · exact h
      · exact h
    | some s =>
      have htr := transitionTo_clean c s h hl (hn s rfl)
      unfold dispatch
      simp only [ht, Bool.false_eq_true, if_false]
      split
      · split
        · exact runAction_clean c _ (some s) h hl hn
        · exact htr
      · exact htr

theorem finally_clean (c : Cfg) (h : Clean c) : Clean (finally_ c) := by
  unfold finally_
  have h0 : Clean { c with stepping := false } := h.of_k9 (K9.rfl' _) rfl
  have := setInterrupt_k9 { c with stepping := false } none
  exact h0.of_k9 this.1 this.2

/-- the next state named by a step end awaits no external future -/
def EndAw (r : StepEnd) : Prop := ∀ s, r = .next (some s) → AwEmpty s

theorem prepare_snd_aw (c : Cfg) (r : StepEnd) (hr : EndAw r) : ∀ s, (prepare c r).2 = some s → AwEmpty s := by
  intro s hs
  unfold prepare at hs
  split at hs
  · cases hs; exact awEmpty_excepted _
  · rename_i n _; exact hr s (by rw [← hs])
  · split at hs <;> cases hs
  · cases hs; exact awEmpty_excepted _

theorem endOfStep_clean (c : Cfg) (r : StepEnd) (h : Clean c) (hr : EndAw r) : Clean (endOfStep c r) := by
  unfold endOfStep
  exact finally_clean _ (dispatch_clean _ _ (prepare_clean c r h).1 (prepare_snd_aw c r hr))

theorem endAw_running (fn : Nat) (a : List Val) (k : List (Nat × Val)) : EndAw (.next (some (.running fn a k))) := by
  intro s hs; cases hs; intro a b c d h; cases h
theorem endAw_none : EndAw (.next none) := by intro s hs; cases hs
theorem endAw_interruption (k : Nat) : EndAw (.interruption k) := by intro s hs; cases hs
theorem endAw_exception (e : Exc) : EndAw (.exception e) := by intro s hs; cases hs

theorem finishUser_clean (c : Cfg) (o : Outcome) (h : Clean c) (ho : ∀ f aw, o ≠ .ret (.waitOn f aw)) :
    Clean (finishUser c o) := by
  unfold finishUser
  cases o with
  | raise e =>
    exact endOfStep_clean c _ h (by intro s hs; cases hs; exact awEmpty_excepted e)
  | ret cmd =>
    cases cmd with
    | cont fn a k => exact endOfStep_clean c _ h (endAw_running fn a k)
    | wait fn =>
      refine endOfStep_clean _ _ (h.of_k9 (K9.rfl' _) rfl) ?_
      intro s hs; cases hs; intro a b c d hh; cases hh; rfl
    | waitOn f aw => exact absurd rfl (ho f aw)
    | stop v ok => exact endOfStep_clean c _ h (by intro s hs; cases hs; intro a b c d hh; cases hh)
    | kill => exact endOfStep_clean c _ h (by intro s hs; cases hs; intro a b c d hh; cases hh)

theorem wake_clean (c : Cfg) (fn wf : Nat) (w : WF) (h : Clean c) : Clean (wake c fn wf w) := by
  unfold wake
  cases w with
  | pending => exact h
  | result v => exact endOfStep_clean c _ h (endAw_running _ _ _)
  | failed e => exact endOfStep_clean c _ h (endAw_exception e)
  | interrupted k =>
    dsimp only
    refine endOfStep_clean _ _ ?_ (endAw_interruption k)
    split
    · rename_i f wf' wk aw hst
      split
      · refine h.of_k9' (K9.rfl' _) (by rw [hst]; rfl) ?_
        intro a b c' d hh; cases hh; exact h.aw _ _ _ _ hst
      · exact h
    · exact h

theorem stepBodyK_clean (P : Prog) (hP : NoWaitOn P) (k : Cfg → Cfg) (hk : ∀ d, Clean d → Clean (k d)) (c : Cfg) (h : Clean c) :
    Clean (stepBodyK P k c) := by
  have h1 : Clean { c with stepping := true } := h.of_k9 (K9.rfl' _) rfl
  unfold stepBodyK
  dsimp only
  split
  · exact hk _ (endOfStep_clean _ _ h1 (endAw_running _ _ _))
  · rename_i fn args kw _
    have h2 : Clean { c with stepping := true, trace := { fn := fn, args := args, kw := kw, paused := c.paused.isSome } :: c.trace } :=
      h.of_k9 (K9.rfl' _) rfl
    split
    · exact hk _ (finishUser_clean _ _ h2 (hP fn args kw c.ctx))
    · exact h2.of_k9 (K9.rfl' _) rfl
  · split
    · exact h1.of_k9 (K9.rfl' _) rfl
    · exact hk _ (wake_clean _ _ _ _ h1)
    · exact h1
  · exact hk _ (endOfStep_clean _ _ h1 endAw_none)

theorem loopHead_clean (P : Prog) (hP : NoWaitOn P) : ∀ (fuel : Nat) (c : Cfg), Clean c → Clean (loopHead P fuel c) := by
  intro fuel
  induction fuel with
  | zero => intro c h; exact h
  | succ n ih =>
    intro c h
    unfold loopHead
    split
    · exact h
    · split
      · exact h.of_k9 (K9.rfl' _) rfl
      · split
        · exact h.of_k9 (K9.rfl' _) rfl
        · split
          · split
            · exact h.of_k9 (K9.rfl' _) rfl
            · exact stepBodyK_clean P hP _ ih c h
          · exact stepBodyK_clean P hP _ ih c h

/-- the step function suspended in the stepping task does not end with `waitOn` -/
def PcOk (c : Cfg) : Prop := ∀ b, c.pc = .inUser b → ∀ f aw, b.out ≠ .ret (.waitOn f aw)

theorem tickF_clean (P : Prog) (hP : NoWaitOn P) (fuel : Nat) (c : Cfg) (h : Clean c) (hpc : PcOk c) :
    Clean (tickF P fuel c) := by
  unfold tickF
  split
  · exact loopHead_clean P hP fuel c h
  · split
    · split
      · split
        · exact h.of_k9 (K9.rfl' _) rfl
        · exact stepBodyK_clean P hP _ (loopHead_clean P hP fuel) c h
      · exact stepBodyK_clean P hP _ (loopHead_clean P hP fuel) c h
    · exact h
  · rename_i b hb
    split
    · exact loopHead_clean P hP fuel _ (finishUser_clean c b.out h (hpc b hb))
    · exact h.of_k9 (K9.rfl' _) rfl
  · split
    · exact h
    · exact loopHead_clean P hP fuel _ (wake_clean _ _ _ _ h)
    · exact h
  · exact h

theorem deliver_clean (c : Cfg) (o : WF) (h : Clean c) : Clean (deliver c o) := by
  unfold deliver
  split
  · rename_i fn wf wk aw hst
    split
    · exact h.of_k9 (K9.rfl' _) rfl
    · split
      · refine h.of_k9' (K9.rfl' _) (by rw [hst]; rfl) ?_
        intro a b c' d hh; cases hh; exact h.aw _ _ _ _ hst
      · exact h
    · exact h
  · exact h

theorem resume_clean (c : Cfg) (v : Option Val) (h : Clean c) : Clean (resume c v).1 := by
  unfold resume
  split
  · exact deliver_clean c _ h
  · exact h

theorem clean_init : Clean (init 0) := by
  refine ⟨rfl, rfl, rfl, rfl, rfl, fun _ => ⟨rfl, rfl, rfl, rfl⟩, ?_⟩
  intro a b c d h; cases h

end PMF
