import PlumpyModel.PM.Proof12
import PlumpyModel.Persist.Proof3
import PlumpyModel.Persist.Proof4
/-!
# Two runs of a plain process that agree up to the heap of wait futures (helper lemmas for C08)

`c` is the running instance of the history with crashes (with the logs of its predecessors put under its own, `ext`), `d`
the configuration of the uninterrupted run.  `Both c d`: the relation `Core` of the pause-transparency proof
(`PM/Proof12.lean`: equal shared fields, state objects equal up to the index of the wait future, whose outcomes agree), in
both directions — neither run has a pause or kill request pending.  `At c d`: both stepping tasks are suspended at the same
point.  `BMid c d`: both are between two steps of the loop run by one callback.
-/
namespace PMF

theorem SRel.symm {cw dw : List WF} {s s' : SObj} (h : SRel cw dw s s') : SRel dw cw s' s := by
  rcases h with ⟨rfl, hn⟩ | ⟨fn, wf, aw, wf', w, h1, h2, h3, h4, h5⟩
  · exact Or.inl ⟨rfl, hn⟩
  · exact Or.inr ⟨fn, wf', aw, wf, w, h2, h1, h4, h3, h5⟩

structure Both (c d : Cfg) : Prop where
  core : Core c d
  cint : c.interrupt = none
  cpaused : c.paused = none

theorem Both.symm {c d : Cfg} (h : Both c d) : Both d c := by
  have hk : c.killing = d.killing := congrArg ShRec.killing h.core.sh
  exact ⟨⟨h.core.sh.symm, h.core.st.symm, by rw [← hk]; exact h.core.ckill, h.cint, h.cpaused⟩, h.core.dint, h.core.dpaused⟩

theorem Both.stepping {c d : Cfg} (h : Both c d) : c.stepping = d.stepping := congrArg ShRec.stepping h.core.sh
theorem Both.closed {c d : Cfg} (h : Both c d) : c.closed = d.closed := congrArg ShRec.closed h.core.sh
theorem Both.trace {c d : Cfg} (h : Both c d) : c.trace = d.trace := congrArg ShRec.trace h.core.sh
theorem Both.ctx {c d : Cfg} (h : Both c d) : c.ctx = d.ctx := congrArg ShRec.ctx h.core.sh
theorem Both.label {c d : Cfg} (h : Both c d) : c.st.label = d.st.label := h.core.label

theorem NextRel.symm {c d : Cfg} {s s' : SObj} (h : NextRel c d s s') : NextRel d c s' s := by
  rcases h with ⟨rfl, hn⟩ | ⟨fn, wf, aw, wf', w, h1, h2, h3, h4, h5, h6, h7⟩
  · exact Or.inl ⟨rfl, hn⟩
  · exact Or.inr ⟨fn, wf', aw, wf, w, h2, h1, h4, h3, h5, h7, h6⟩

theorem NextOpt.symm {c d : Cfg} {n n' : Option SObj} (h : NextOpt c d n n') : NextOpt d c n' n := by
  rcases h with ⟨h1, h2⟩ | ⟨s, s', h1, h2, hr⟩
  · exact Or.inl ⟨h2, h1⟩
  · exact Or.inr ⟨s', s, h2, h1, hr.symm⟩

/-- what the end of a step establishes for both runs -/
structure EndB (c d c' d' : Cfg) : Prop where
  both : Both c' d'
  pcc : c'.pc = c.pc
  pcd : d'.pc = d.pc
  stepping : c'.stepping = false

theorem EndB.of {c d c' d' : Cfg} (h1 : EndRel c d c' d') (h2 : EndRel d c d' c') : EndB c d c' d' :=
  ⟨⟨h1.core, h1.int, h2.core.dpaused⟩, h1.pcc, h1.pcd, h1.stepping⟩

theorem endOfStep_both (c d : Cfg) (n n' : Option SObj) (h : Both c d) (hn : NextOpt c d n n') :
    EndB c d (endOfStep c (.next n)) (endOfStep d (.next n')) :=
  EndB.of (endOfStep_core c d n n' h.core (IntOk.of_none h.cint) hn)
    (endOfStep_core d c n' n h.symm.core (IntOk.of_none h.core.dint) hn.symm)

theorem finishUser_both (c d : Cfg) (o : Outcome) (h : Both c d) : EndB c d (finishUser c o) (finishUser d o) :=
  EndB.of (finishUser_core c d o h.core (IntOk.of_none h.cint)) (finishUser_core d c o h.symm.core (IntOk.of_none h.core.dint))

theorem wake_both (c d : Cfg) (fn wf wf' : Nat) (w : WF) (h : Both c d) (hw : ∀ k, w ≠ .interrupted k) (hp : w ≠ .pending) :
    EndB c d (wake c fn wf w) (wake d fn wf' w) :=
  EndB.of (wake_core c d fn wf wf' w h.core (IntOk.of_none h.cint) hw hp)
    (wake_core d c fn wf' wf w h.symm.core (IntOk.of_none h.core.dint) hw hp)

theorem both_stepping (c d : Cfg) (b : Bool) (h : Both c d) : Both { c with stepping := b } { d with stepping := b } :=
  ⟨core_stepping c d b h.core, h.cint, h.cpaused⟩

theorem both_pc (c d : Cfg) (p q : Pc) (h : Both c d) : Both { c with pc := p } { d with pc := q } :=
  ⟨core_pc c d p q h.core, h.cint, h.cpaused⟩

/-! ### one iteration of the loop: the configuration handed to the rest of the loop, or the suspended one -/

/-- the configuration with which the loop continues when the step completes without suspending -/
def stepNext (P : Prog) (c : Cfg) : Option Cfg :=
  let c := { c with stepping := true }
  match c.st with
  | .created fn => some (endOfStep c (.next (some (.running fn [] []))))
  | .running fn args kw =>
      let b := P fn args kw c.ctx
      let c := { c with trace := { fn := fn, args := args, kw := kw, paused := c.paused.isSome } :: c.trace }
      if b.awaits = 0 then some (finishUser c b.out) else none
  | .waiting fn wf _ _ =>
      match c.wfs[wf]? with
      | some .pending => none
      | some w => some (wake c fn wf w)
      | none => none
  | _ => some (endOfStep c (.next none))

/-- the configuration in which the stepping task suspends inside the step -/
def stepSusp (P : Prog) (c : Cfg) : Cfg :=
  let c := { c with stepping := true }
  match c.st with
  | .running fn args kw =>
      let b := P fn args kw c.ctx
      let c := { c with trace := { fn := fn, args := args, kw := kw, paused := c.paused.isSome } :: c.trace }
      { c with pc := .inUser { b with awaits := b.awaits - 1 } }
  | .waiting _ wf _ _ =>
      match c.wfs[wf]? with
      | some .pending => { c with pc := .awaitWaiting wf }
      | _ => c
  | _ => c

theorem stepBodyK_eq (P : Prog) (k : Cfg → Cfg) (c : Cfg) :
    stepBodyK P k c = match stepNext P c with | some e => k e | none => stepSusp P c := by
  cases hst : c.st with
  | created fn => simp only [stepBodyK, stepNext, stepSusp, hst]
  | running fn a kw =>
    simp only [stepBodyK, stepNext, stepSusp, hst]
    split <;> rfl
  | waiting fn wf wk aw =>
    cases hw : c.wfs[wf]? with
    | none => simp only [stepBodyK, stepNext, stepSusp, hst, hw]
    | some w => cases w <;> simp only [stepBodyK, stepNext, stepSusp, hst, hw]
  | finished v ok => simp only [stepBodyK, stepNext, stepSusp, hst]
  | excepted e => simp only [stepBodyK, stepNext, stepSusp, hst]
  | killed => simp only [stepBodyK, stepNext, stepSusp, hst]

theorem stepDoneK_eq (P : Prog) (k : Cfg → Bool) (c : Cfg) :
    stepDoneK P k c = match stepNext P c with | some e => k e | none => true := by
  cases hst : c.st with
  | created fn => simp only [stepDoneK, stepNext, hst]
  | running fn a kw =>
    simp only [stepDoneK, stepNext, hst]
    split <;> rfl
  | waiting fn wf wk aw =>
    cases hw : c.wfs[wf]? with
    | none => simp only [stepDoneK, stepNext, hst, hw]
    | some w => cases w <;> simp only [stepDoneK, stepNext, hst, hw]
  | finished v ok => simp only [stepDoneK, stepNext, hst]
  | excepted e => simp only [stepDoneK, stepNext, hst]
  | killed => simp only [stepDoneK, stepNext, hst]

theorem stepSusp_stepping (P : Prog) (c : Cfg) : (stepSusp P c).stepping = true := by
  cases hst : c.st with
  | waiting fn wf wk aw =>
    cases hw : c.wfs[wf]? with
    | none => simp only [stepSusp, hst, hw]
    | some w => cases w <;> simp only [stepSusp, hst, hw]
  | _ => simp only [stepSusp, hst]

/-! reduction by the kind of state -/
theorem stepNext_created (P : Prog) (c : Cfg) (fn : Nat) (h : c.st = .created fn) :
    stepNext P c = some (endOfStep { c with stepping := true } (.next (some (.running fn [] [])))) := by
  simp only [stepNext, h]

theorem stepNext_running (P : Prog) (c : Cfg) (fn : Nat) (args : List Val) (kw : List (Nat × Val)) (h : c.st = .running fn args kw) :
    stepNext P c =
      if (P fn args kw c.ctx).awaits = 0 then
        some (finishUser { c with stepping := true,
                                  trace := { fn := fn, args := args, kw := kw, paused := c.paused.isSome } :: c.trace }
               (P fn args kw c.ctx).out)
      else none := by
  simp only [stepNext, h]

theorem stepSusp_running (P : Prog) (c : Cfg) (fn : Nat) (args : List Val) (kw : List (Nat × Val)) (h : c.st = .running fn args kw) :
    stepSusp P c = { c with stepping := true,
                            trace := { fn := fn, args := args, kw := kw, paused := c.paused.isSome } :: c.trace,
                            pc := .inUser { P fn args kw c.ctx with awaits := (P fn args kw c.ctx).awaits - 1 } } := by
  simp only [stepSusp, h]

theorem stepNext_waiting_pending (P : Prog) (c : Cfg) (fn wf : Nat) (wk aw) (h : c.st = .waiting fn wf wk aw)
    (hw : c.wfs[wf]? = some .pending) : stepNext P c = none := by
  simp only [stepNext, h, hw]

theorem stepSusp_waiting_pending (P : Prog) (c : Cfg) (fn wf : Nat) (wk aw) (h : c.st = .waiting fn wf wk aw)
    (hw : c.wfs[wf]? = some .pending) : stepSusp P c = { c with stepping := true, pc := .awaitWaiting wf } := by
  simp only [stepSusp, h, hw]

theorem stepNext_waiting_done (P : Prog) (c : Cfg) (fn wf : Nat) (wk aw) (w : WF) (h : c.st = .waiting fn wf wk aw)
    (hw : c.wfs[wf]? = some w) (hp : w ≠ .pending) : stepNext P c = some (wake { c with stepping := true } fn wf w) := by
  cases w with
  | pending => exact absurd rfl hp
  | _ => simp only [stepNext, h, hw]

theorem stepNext_terminal (P : Prog) (c : Cfg) (ht : terminal c.st.label = true) :
    stepNext P c = some (endOfStep { c with stepping := true } (.next none)) := by
  cases hst : c.st with
  | created fn => rw [hst] at ht; simp [SObj.label, terminal, allowed] at ht
  | running fn a k => rw [hst] at ht; simp [SObj.label, terminal, allowed] at ht
  | waiting fn wf wk aw => rw [hst] at ht; simp [SObj.label, terminal, allowed] at ht
  | finished v ok => simp only [stepNext, hst]
  | excepted e => simp only [stepNext, hst]
  | killed => simp only [stepNext, hst]

/-- between two steps of the loop run by one callback (the program counters are stale there) -/
structure BMid (c d : Cfg) : Prop where
  both : Both c d
  stepping : c.stepping = false
  ncc : NotCrashed c
  ncd : NotCrashed d

/-- both stepping tasks are suspended at the same point (or have not started, or are done) -/
structure At (c d : Cfg) : Prop where
  both : Both c d
  pc : PcRelAt c.pc c d
  run : isRunningPc c.pc = true → c.stepping = true
  idle : isRunningPc c.pc = false → c.stepping = false
  pcdone : c.pc = .done → terminal c.st.label = true
  nc : NotCrashed c

theorem At.inStep {c d : Cfg} (h : At c d) : InStep c d :=
  ⟨h.both.core, IntOk.of_none h.both.cint, h.pc, fun hr => ⟨h.run hr, h.both.cpaused⟩, fun hi => ⟨h.idle hi, h.both.cint⟩⟩

theorem BMid.of_end {c d e e' : Cfg} (he : EndB c d e e') (hc : NotCrashed c) (hd : NotCrashed d) : BMid e e' :=
  ⟨he.both, he.stepping, by intro x hx; rw [he.pcc] at hx; exact hc x hx, by intro x hx; rw [he.pcd] at hx; exact hd x hx⟩

theorem both_traced (c d : Cfg) (a : Act) (h : Both c d) :
    Both { c with stepping := true, trace := a :: c.trace } { d with stepping := true, trace := a :: c.trace } := by
  refine ⟨⟨?_, h.core.st, h.core.ckill, h.core.dint, h.core.dpaused⟩, h.cint, h.cpaused⟩
  obtain ⟨g1, g2, g3, g4, g5, g6, g7, g8, g9, g10, g11, g12, g13, g14, g15⟩ := sh_fields h.core.sh
  rw [sh_eq_iff]; simp [*]

theorem notWaiting_running (fn : Nat) (a : List Val) (k : List (Nat × Val)) : NotWaiting (.running fn a k) := by
  intro a b c d h; cases h

/-- one iteration of the loop in both runs: both suspend at the same point, or both hand related configurations on -/
theorem stepNext_sim (P : Prog) (c d : Cfg) (hm : BMid c d) :
    (stepNext P c = none ∧ stepNext P d = none ∧ At (stepSusp P c) (stepSusp P d)) ∨
    (∃ e e', stepNext P c = some e ∧ stepNext P d = some e' ∧ BMid e e') := by
  have hc1 : Both { c with stepping := true } { d with stepping := true } := both_stepping c d true hm.both
  have cont : ∀ c1 d1 e e', EndB c1 d1 e e' → c1.pc = c.pc → d1.pc = d.pc → BMid e e' := by
    intro c1 d1 e e' he hpc hpd
    exact BMid.of_end he (by intro x hx; rw [hpc] at hx; exact hm.ncc x hx) (by intro x hx; rw [hpd] at hx; exact hm.ncd x hx)
  rcases hm.both.core.st with ⟨heq, hnw⟩ | ⟨fn, wf, aw, wf', w, h1, h2, h3, h4, h5⟩
  · cases hst : c.st with
    | created fn =>
      have hst' : d.st = .created fn := by rw [← heq]; exact hst
      right
      refine ⟨_, _, stepNext_created P c fn hst, stepNext_created P d fn hst', ?_⟩
      exact cont _ _ _ _ (endOfStep_both _ _ _ _ hc1 (Or.inr ⟨_, _, rfl, rfl, Or.inl ⟨rfl, notWaiting_running _ _ _⟩⟩)) rfl rfl
    | running fn args kw =>
      have hst' : d.st = .running fn args kw := by rw [← heq]; exact hst
      have hb : P fn args kw d.ctx = P fn args kw c.ctx := by rw [hm.both.ctx]
      have hpz : d.paused.isSome = c.paused.isSome := by rw [hm.both.cpaused, hm.both.core.dpaused]
      have htr : d.trace = c.trace := hm.both.trace.symm
      rw [stepNext_running P c fn args kw hst, stepNext_running P d fn args kw hst', stepSusp_running P c fn args kw hst,
        stepSusp_running P d fn args kw hst', hb, hpz, htr]
      have hc2 := both_traced c d { fn := fn, args := args, kw := kw, paused := c.paused.isSome } hm.both
      by_cases ha : (P fn args kw c.ctx).awaits = 0
      · right
        rw [if_pos ha, if_pos ha]
        exact ⟨_, _, rfl, rfl, cont _ _ _ _ (finishUser_both _ _ _ hc2) rfl rfl⟩
      · left
        rw [if_neg ha, if_neg ha]
        refine ⟨rfl, rfl, both_pc _ _ _ _ hc2, ⟨rfl, fn, args, kw, hst⟩, fun _ => rfl, fun h => by simp [isRunningPc] at h,
          (fun h => by cases h), (by intro e he; cases he)⟩
    | waiting fn wf wk aw => exact absurd hst (hnw _ _ _ _)
    | finished v ok =>
      have ht : terminal c.st.label = true := by rw [hst]; simp [SObj.label, terminal, allowed]
      have ht' : terminal d.st.label = true := by rw [← heq]; exact ht
      right
      exact ⟨_, _, stepNext_terminal P c ht, stepNext_terminal P d ht',
        cont _ _ _ _ (endOfStep_both _ _ _ _ hc1 (Or.inl ⟨rfl, rfl⟩)) rfl rfl⟩
    | excepted e =>
      have ht : terminal c.st.label = true := by rw [hst]; simp [SObj.label, terminal, allowed]
      have ht' : terminal d.st.label = true := by rw [← heq]; exact ht
      right
      exact ⟨_, _, stepNext_terminal P c ht, stepNext_terminal P d ht',
        cont _ _ _ _ (endOfStep_both _ _ _ _ hc1 (Or.inl ⟨rfl, rfl⟩)) rfl rfl⟩
    | killed =>
      have ht : terminal c.st.label = true := by rw [hst]; simp [SObj.label, terminal, allowed]
      have ht' : terminal d.st.label = true := by rw [← heq]; exact ht
      right
      exact ⟨_, _, stepNext_terminal P c ht, stepNext_terminal P d ht',
        cont _ _ _ _ (endOfStep_both _ _ _ _ hc1 (Or.inl ⟨rfl, rfl⟩)) rfl rfl⟩
  · by_cases hw : w = .pending
    · subst hw
      left
      rw [stepSusp_waiting_pending P c fn wf none aw h1 h3, stepSusp_waiting_pending P d fn wf' none aw h2 h4]
      refine ⟨stepNext_waiting_pending P c fn wf none aw h1 h3, stepNext_waiting_pending P d fn wf' none aw h2 h4,
        both_pc _ _ _ _ hc1, ⟨fn, none, aw, wf', h1, h2, rfl⟩, fun _ => rfl, fun h => by simp [isRunningPc] at h,
        (fun h => by cases h), (by intro e he; cases he)⟩
    · right
      exact ⟨_, _, stepNext_waiting_done P c fn wf none aw w h1 h3 hw, stepNext_waiting_done P d fn wf' none aw w h2 h4 hw,
        cont _ _ _ _ (wake_both _ _ fn wf wf' w hc1 h5 hw) rfl rfl⟩

end PMF
