import PlumpyModel.PM.Proof12
import PlumpyModel.Persist.Proof3
import PlumpyModel.Persist.Proof4
/-!
# Two runs of a plain process that agree up to the heap of wait futures (helper lemmas for C08)

`c` is the running instance of the history with crashes (with the logs of its predecessors put under its own, `ext`), `d`
the configuration of the uninterrupted run.  `Both c d`: the relation `Core` of the pause-transparency proof
(`PM/Proof12.lean`: equal shared fields, state objects equal up to the index of the wait future, whose outcomes agree), in
both directions — neither run has a pause or kill request pending.  `At c d`: both stepping tasks are suspended at the same
point.  `BMid c d`: both are between two steps of the loop run by one callback.
-/
namespace PMF
set_option linter.unusedSimpArgs false

theorem SRel.symm {cw dw : List WF} {s s' : SObj} (h : SRel cw dw s s') : SRel dw cw s' s := by
  rcases h with ⟨rfl, hn⟩ | ⟨fn, wf, aw, wf', w, h1, h2, h3, h4, h5⟩
  · exact Or.inl ⟨rfl, hn⟩
  · exact Or.inr ⟨fn, wf', aw, wf, w, h2, h1, h4, h3, h5⟩

structure Both (c d : Cfg) : Prop where
  core : Core c d
  cint : c.interrupt = none
  cpaused : c.paused = none

theorem Both.symm {c d : Cfg} (h : Both c d) : Both d c := by
  have hk : c.killing = d.killing := congrArg ShRec.killing h.core.sh
  exact ⟨⟨h.core.sh.symm, h.core.st.symm, by rw [← hk]; exact h.core.ckill, h.cint, h.cpaused⟩, h.core.dint, h.core.dpaused⟩

theorem Both.stepping {c d : Cfg} (h : Both c d) : c.stepping = d.stepping := congrArg ShRec.stepping h.core.sh
theorem Both.closed {c d : Cfg} (h : Both c d) : c.closed = d.closed := congrArg ShRec.closed h.core.sh
theorem Both.trace {c d : Cfg} (h : Both c d) : c.trace = d.trace := congrArg ShRec.trace h.core.sh
theorem Both.ctx {c d : Cfg} (h : Both c d) : c.ctx = d.ctx := congrArg ShRec.ctx h.core.sh
theorem Both.label {c d : Cfg} (h : Both c d) : c.st.label = d.st.label := h.core.label

theorem NextRel.symm {c d : Cfg} {s s' : SObj} (h : NextRel c d s s') : NextRel d c s' s := by
  rcases h with ⟨rfl, hn⟩ | ⟨fn, wf, aw, wf', w, h1, h2, h3, h4, h5, h6, h7⟩
  · exact Or.inl ⟨rfl, hn⟩
  · exact Or.inr ⟨fn, wf', aw, wf, w, h2, h1, h4, h3, h5, h7, h6⟩

theorem NextOpt.symm {c d : Cfg} {n n' : Option SObj} (h : NextOpt c d n n') : NextOpt d c n' n := by
  rcases h with ⟨h1, h2⟩ | ⟨s, s', h1, h2, hr⟩
  · exact Or.inl ⟨h2, h1⟩
  · exact Or.inr ⟨s', s, h2, h1, hr.symm⟩

/-- what the end of a step establishes for both runs -/
structure EndB (c d c' d' : Cfg) : Prop where
  both : Both c' d'
  pcc : c'.pc = c.pc
  pcd : d'.pc = d.pc
  stepping : c'.stepping = false

theorem EndB.of {c d c' d' : Cfg} (h1 : EndRel c d c' d') (h2 : EndRel d c d' c') : EndB c d c' d' :=
  ⟨⟨h1.core, h1.int, h2.core.dpaused⟩, h1.pcc, h1.pcd, h1.stepping⟩

theorem endOfStep_both (c d : Cfg) (n n' : Option SObj) (h : Both c d) (hn : NextOpt c d n n') :
    EndB c d (endOfStep c (.next n)) (endOfStep d (.next n')) :=
  EndB.of (endOfStep_core c d n n' h.core (IntOk.of_none h.cint) hn)
    (endOfStep_core d c n' n h.symm.core (IntOk.of_none h.core.dint) hn.symm)

theorem finishUser_both (c d : Cfg) (o : Outcome) (h : Both c d) : EndB c d (finishUser c o) (finishUser d o) :=
  EndB.of (finishUser_core c d o h.core (IntOk.of_none h.cint)) (finishUser_core d c o h.symm.core (IntOk.of_none h.core.dint))

theorem wake_both (c d : Cfg) (fn wf wf' : Nat) (w : WF) (h : Both c d) (hw : ∀ k, w ≠ .interrupted k) (hp : w ≠ .pending) :
    EndB c d (wake c fn wf w) (wake d fn wf' w) :=
  EndB.of (wake_core c d fn wf wf' w h.core (IntOk.of_none h.cint) hw hp)
    (wake_core d c fn wf' wf w h.symm.core (IntOk.of_none h.core.dint) hw hp)

theorem both_stepping (c d : Cfg) (b : Bool) (h : Both c d) : Both { c with stepping := b } { d with stepping := b } :=
  ⟨core_stepping c d b h.core, h.cint, h.cpaused⟩

theorem both_pc (c d : Cfg) (p q : Pc) (h : Both c d) : Both { c with pc := p } { d with pc := q } :=
  ⟨core_pc c d p q h.core, h.cint, h.cpaused⟩

/-! ### one iteration of the loop: the configuration handed to the rest of the loop, or the suspended one -/

/-- the configuration with which the loop continues when the step completes without suspending -/
def stepNext (P : Prog) (c : Cfg) : Option Cfg :=
  let c := { c with stepping := true }
  match c.st with
  | .created fn => some (endOfStep c (.next (some (.running fn [] []))))
  | .running fn args kw =>
      let b := P fn args kw c.ctx
      let c := { c with trace := { fn := fn, args := args, kw := kw, paused := c.paused.isSome } :: c.trace }
      if b.awaits = 0 then some (finishUser c b.out) else none
  | .waiting fn wf _ _ =>
      match c.wfs[wf]? with
      | some .pending => none
      | some w => some (wake c fn wf w)
      | none => none
  | _ => some (endOfStep c (.next none))

/-- the configuration in which the stepping task suspends inside the step -/
def stepSusp (P : Prog) (c : Cfg) : Cfg :=
  let c := { c with stepping := true }
  match c.st with
  | .running fn args kw =>
      let b := P fn args kw c.ctx
      let c := { c with trace := { fn := fn, args := args, kw := kw, paused := c.paused.isSome } :: c.trace }
      { c with pc := .inUser { b with awaits := b.awaits - 1 } }
  | .waiting _ wf _ _ =>
      match c.wfs[wf]? with
      | some .pending => { c with pc := .awaitWaiting wf }
      | _ => c
  | _ => c

theorem stepBodyK_eq (P : Prog) (k : Cfg → Cfg) (c : Cfg) :
    stepBodyK P k c = match stepNext P c with | some e => k e | none => stepSusp P c := by
  cases hst : c.st with
  | created fn => simp only [stepBodyK, stepNext, stepSusp, hst]
  | running fn a kw =>
    simp only [stepBodyK, stepNext, stepSusp, hst]
    split <;> rfl
  | waiting fn wf wk aw =>
    cases hw : c.wfs[wf]? with
    | none => simp only [stepBodyK, stepNext, stepSusp, hst, hw]
    | some w => cases w <;> simp only [stepBodyK, stepNext, stepSusp, hst, hw]
  | finished v ok => simp only [stepBodyK, stepNext, stepSusp, hst]
  | excepted e => simp only [stepBodyK, stepNext, stepSusp, hst]
  | killed => simp only [stepBodyK, stepNext, stepSusp, hst]

theorem stepDoneK_eq (P : Prog) (k : Cfg → Bool) (c : Cfg) :
    stepDoneK P k c = match stepNext P c with | some e => k e | none => true := by
  cases hst : c.st with
  | created fn => simp only [stepDoneK, stepNext, hst]
  | running fn a kw =>
    simp only [stepDoneK, stepNext, hst]
    split <;> rfl
  | waiting fn wf wk aw =>
    cases hw : c.wfs[wf]? with
    | none => simp only [stepDoneK, stepNext, hst, hw]
    | some w => cases w <;> simp only [stepDoneK, stepNext, hst, hw]
  | finished v ok => simp only [stepDoneK, stepNext, hst]
  | excepted e => simp only [stepDoneK, stepNext, hst]
  | killed => simp only [stepDoneK, stepNext, hst]

theorem stepSusp_stepping (P : Prog) (c : Cfg) : (stepSusp P c).stepping = true := by
  cases hst : c.st with
  | waiting fn wf wk aw =>
    cases hw : c.wfs[wf]? with
    | none => simp only [stepSusp, hst, hw]
    | some w => cases w <;> simp only [stepSusp, hst, hw]
  | _ => simp only [stepSusp, hst]

/-! reduction by the kind of state -/
theorem stepNext_created (P : Prog) (c : Cfg) (fn : Nat) (h : c.st = .created fn) :
    stepNext P c = some (endOfStep { c with stepping := true } (.next (some (.running fn [] [])))) := by
  simp only [stepNext, h]

theorem stepNext_running (P : Prog) (c : Cfg) (fn : Nat) (args : List Val) (kw : List (Nat × Val)) (h : c.st = .running fn args kw) :
    stepNext P c =
      if (P fn args kw c.ctx).awaits = 0 then
        some (finishUser { c with stepping := true,
                                  trace := { fn := fn, args := args, kw := kw, paused := c.paused.isSome } :: c.trace }
               (P fn args kw c.ctx).out)
      else none := by
  simp only [stepNext, h]

theorem stepSusp_running (P : Prog) (c : Cfg) (fn : Nat) (args : List Val) (kw : List (Nat × Val)) (h : c.st = .running fn args kw) :
    stepSusp P c = { c with stepping := true,
                            trace := { fn := fn, args := args, kw := kw, paused := c.paused.isSome } :: c.trace,
                            pc := .inUser { P fn args kw c.ctx with awaits := (P fn args kw c.ctx).awaits - 1 } } := by
  simp only [stepSusp, h]

theorem stepNext_waiting_pending (P : Prog) (c : Cfg) (fn wf : Nat) (wk aw) (h : c.st = .waiting fn wf wk aw)
    (hw : c.wfs[wf]? = some .pending) : stepNext P c = none := by
  simp only [stepNext, h, hw]

theorem stepSusp_waiting_pending (P : Prog) (c : Cfg) (fn wf : Nat) (wk aw) (h : c.st = .waiting fn wf wk aw)
    (hw : c.wfs[wf]? = some .pending) : stepSusp P c = { c with stepping := true, pc := .awaitWaiting wf } := by
  simp only [stepSusp, h, hw]

theorem stepNext_waiting_done (P : Prog) (c : Cfg) (fn wf : Nat) (wk aw) (w : WF) (h : c.st = .waiting fn wf wk aw)
    (hw : c.wfs[wf]? = some w) (hp : w ≠ .pending) : stepNext P c = some (wake { c with stepping := true } fn wf w) := by
  cases w with
  | pending => exact absurd rfl hp
  | _ => simp only [stepNext, h, hw]

theorem stepNext_terminal (P : Prog) (c : Cfg) (ht : terminal c.st.label = true) :
    stepNext P c = some (endOfStep { c with stepping := true } (.next none)) := by
  cases hst : c.st with
  | created fn => rw [hst] at ht; simp [SObj.label, terminal, allowed] at ht
  | running fn a k => rw [hst] at ht; simp [SObj.label, terminal, allowed] at ht
  | waiting fn wf wk aw => rw [hst] at ht; simp [SObj.label, terminal, allowed] at ht
  | finished v ok => simp only [stepNext, hst]
  | excepted e => simp only [stepNext, hst]
  | killed => simp only [stepNext, hst]

/-- between two steps of the loop run by one callback (the program counters are stale there) -/
structure BMid (c d : Cfg) : Prop where
  both : Both c d
  stepping : c.stepping = false
  ncc : NotCrashed c
  ncd : NotCrashed d

/-- both stepping tasks are suspended at the same point (or have not started, or are done) -/
structure At (c d : Cfg) : Prop where
  both : Both c d
  pc : PcRelAt c.pc c d
  run : isRunningPc c.pc = true → c.stepping = true
  idle : isRunningPc c.pc = false → c.stepping = false
  pcdone : c.pc = .done → terminal c.st.label = true
  nc : NotCrashed c

theorem At.inStep {c d : Cfg} (h : At c d) : InStep c d :=
  ⟨h.both.core, IntOk.of_none h.both.cint, h.pc, fun hr => ⟨h.run hr, h.both.cpaused⟩, fun hi => ⟨h.idle hi, h.both.cint⟩⟩

theorem BMid.of_end {c d e e' : Cfg} (he : EndB c d e e') (hc : NotCrashed c) (hd : NotCrashed d) : BMid e e' :=
  ⟨he.both, he.stepping, by intro x hx; rw [he.pcc] at hx; exact hc x hx, by intro x hx; rw [he.pcd] at hx; exact hd x hx⟩

theorem both_traced (c d : Cfg) (a : Act) (h : Both c d) :
    Both { c with stepping := true, trace := a :: c.trace } { d with stepping := true, trace := a :: c.trace } := by
  refine ⟨⟨?_, h.core.st, h.core.ckill, h.core.dint, h.core.dpaused⟩, h.cint, h.cpaused⟩
  obtain ⟨g1, g2, g3, g4, g5, g6, g7, g8, g9, g10, g11, g12, g13, g14, g15⟩ := sh_fields h.core.sh
  rw [sh_eq_iff]; simp [*]

theorem notWaiting_running (fn : Nat) (a : List Val) (k : List (Nat × Val)) : NotWaiting (.running fn a k) := by
  intro a b c d h; cases h

/-- one iteration of the loop in both runs: both suspend at the same point, or both hand related configurations on -/
theorem stepNext_sim (P : Prog) (c d : Cfg) (hm : BMid c d) :
    (stepNext P c = none ∧ stepNext P d = none ∧ At (stepSusp P c) (stepSusp P d) ∧ (NoWaitOn P → PcOk (stepSusp P d))) ∨
    (∃ e e', stepNext P c = some e ∧ stepNext P d = some e' ∧ BMid e e') := by
  have hc1 : Both { c with stepping := true } { d with stepping := true } := both_stepping c d true hm.both
  have cont : ∀ c1 d1 e e', EndB c1 d1 e e' → c1.pc = c.pc → d1.pc = d.pc → BMid e e' := by
    intro c1 d1 e e' he hpc hpd
    exact BMid.of_end he (by intro x hx; rw [hpc] at hx; exact hm.ncc x hx) (by intro x hx; rw [hpd] at hx; exact hm.ncd x hx)
  rcases hm.both.core.st with ⟨heq, hnw⟩ | ⟨fn, wf, aw, wf', w, h1, h2, h3, h4, h5⟩
  · cases hst : c.st with
    | created fn =>
      have hst' : d.st = .created fn := by rw [← heq]; exact hst
      right
      refine ⟨_, _, stepNext_created P c fn hst, stepNext_created P d fn hst', ?_⟩
      exact cont _ _ _ _ (endOfStep_both _ _ _ _ hc1 (Or.inr ⟨_, _, rfl, rfl, Or.inl ⟨rfl, notWaiting_running _ _ _⟩⟩)) rfl rfl
    | running fn args kw =>
      have hst' : d.st = .running fn args kw := by rw [← heq]; exact hst
      have hb : P fn args kw d.ctx = P fn args kw c.ctx := by rw [hm.both.ctx]
      have hpz : d.paused.isSome = c.paused.isSome := by rw [hm.both.cpaused, hm.both.core.dpaused]
      have htr : d.trace = c.trace := hm.both.trace.symm
      rw [stepNext_running P c fn args kw hst, stepNext_running P d fn args kw hst', stepSusp_running P c fn args kw hst,
        stepSusp_running P d fn args kw hst', hb, hpz, htr]
      have hc2 := both_traced c d { fn := fn, args := args, kw := kw, paused := c.paused.isSome } hm.both
      by_cases ha : (P fn args kw c.ctx).awaits = 0
      · right
        rw [if_pos ha, if_pos ha]
        exact ⟨_, _, rfl, rfl, cont _ _ _ _ (finishUser_both _ _ _ hc2) rfl rfl⟩
      · left
        rw [if_neg ha, if_neg ha]
        refine ⟨rfl, rfl, ⟨both_pc _ _ _ _ hc2, ⟨rfl, fn, args, kw, hst⟩, fun _ => rfl, fun h => by simp [isRunningPc] at h,
          (fun h => by cases h), (by intro e he; cases he)⟩, ?_⟩
        intro hP b hb f aw
        cases hb
        exact hP fn args kw c.ctx f aw
    | waiting fn wf wk aw => exact absurd hst (hnw _ _ _ _)
    | finished v ok =>
      have ht : terminal c.st.label = true := by rw [hst]; simp [SObj.label, terminal, allowed]
      have ht' : terminal d.st.label = true := by rw [← heq]; exact ht
      right
      exact ⟨_, _, stepNext_terminal P c ht, stepNext_terminal P d ht',
        cont _ _ _ _ (endOfStep_both _ _ _ _ hc1 (Or.inl ⟨rfl, rfl⟩)) rfl rfl⟩
    | excepted e =>
      have ht : terminal c.st.label = true := by rw [hst]; simp [SObj.label, terminal, allowed]
      have ht' : terminal d.st.label = true := by rw [← heq]; exact ht
      right
      exact ⟨_, _, stepNext_terminal P c ht, stepNext_terminal P d ht',
        cont _ _ _ _ (endOfStep_both _ _ _ _ hc1 (Or.inl ⟨rfl, rfl⟩)) rfl rfl⟩
    | killed =>
      have ht : terminal c.st.label = true := by rw [hst]; simp [SObj.label, terminal, allowed]
      have ht' : terminal d.st.label = true := by rw [← heq]; exact ht
      right
      exact ⟨_, _, stepNext_terminal P c ht, stepNext_terminal P d ht',
        cont _ _ _ _ (endOfStep_both _ _ _ _ hc1 (Or.inl ⟨rfl, rfl⟩)) rfl rfl⟩
  · by_cases hw : w = .pending
    · subst hw
      left
      rw [stepSusp_waiting_pending P c fn wf none aw h1 h3, stepSusp_waiting_pending P d fn wf' none aw h2 h4]
      refine ⟨stepNext_waiting_pending P c fn wf none aw h1 h3, stepNext_waiting_pending P d fn wf' none aw h2 h4,
        ⟨both_pc _ _ _ _ hc1, ⟨fn, none, aw, wf', h1, h2, rfl⟩, fun _ => rfl, fun h => by simp [isRunningPc] at h,
        (fun h => by cases h), (by intro e he; cases he)⟩, ?_⟩
      intro _ b hb
      cases hb
    · right
      exact ⟨_, _, stepNext_waiting_done P c fn wf none aw w h1 h3 hw, stepNext_waiting_done P d fn wf' none aw w h2 h4 hw,
        cont _ _ _ _ (wake_both _ _ fn wf wf' w hc1 h5 hw) rfl rfl⟩

/-- the configuration handed on by one iteration is clean if the one it started from was -/
theorem stepNext_clean (P : Prog) (hP : NoWaitOn P) (d e : Cfg) (h : Clean d) (hn : stepNext P d = some e) : Clean e := by
  have h1 : Clean { d with stepping := true } := h.of_k9 (K9.rfl' _) rfl
  cases hst : d.st with
  | created fn =>
    rw [stepNext_created P d fn hst] at hn; cases hn
    exact endOfStep_clean _ _ h1 (endAw_running _ _ _)
  | running fn args kw =>
    rw [stepNext_running P d fn args kw hst] at hn
    split at hn
    · cases hn
      exact finishUser_clean _ _ (h.of_k9 (K9.rfl' _) rfl) (hP fn args kw d.ctx)
    · cases hn
  | waiting fn wf wk aw =>
    cases hw : d.wfs[wf]? with
    | none => simp only [stepNext, hst, hw] at hn; cases hn
    | some w =>
      by_cases hp : w = .pending
      · subst hp; rw [stepNext_waiting_pending P d fn wf wk aw hst hw] at hn; cases hn
      · rw [stepNext_waiting_done P d fn wf wk aw w hst hw hp] at hn; cases hn
        exact wake_clean _ _ _ _ h1
  | finished v ok =>
    rw [stepNext_terminal P d (by rw [hst]; simp [SObj.label, terminal, allowed])] at hn; cases hn
    exact endOfStep_clean _ _ h1 endAw_none
  | excepted e' =>
    rw [stepNext_terminal P d (by rw [hst]; simp [SObj.label, terminal, allowed])] at hn; cases hn
    exact endOfStep_clean _ _ h1 endAw_none
  | killed =>
    rw [stepNext_terminal P d (by rw [hst]; simp [SObj.label, terminal, allowed])] at hn; cases hn
    exact endOfStep_clean _ _ h1 endAw_none

theorem pcOk_of_pc {c c' : Cfg} (h : PcOk c) (hp : c'.pc = c.pc) : PcOk c' := by
  intro b hb; rw [hp] at hb; exact h b hb

/-- **the loop of one callback in both runs**, the uninterrupted one (`d`) with enough fuel, the other with at least as much -/
theorem loop_sim (P : Prog) (hP : NoWaitOn P) : ∀ (n m : Nat) (c d : Cfg), n ≤ m → BMid c d → Clean d → loopDone P n d = true →
    At (loopHead P m c) (loopHead P n d) ∧ PcOk (loopHead P n d) := by
  intro n
  induction n with
  | zero => intro m c d _ _ _ hD; simp [loopDone] at hD
  | succ n ih =>
    intro m c d hnm hm hcl hD
    obtain ⟨m', rfl⟩ : ∃ m', m = m' + 1 := ⟨m - 1, by omega⟩
    have hlab := hm.both.label
    by_cases ht : terminal c.st.label = true
    · rw [loopHead_term P m' c hm.ncc ht, loopHead_term P n d hm.ncd (hlab ▸ ht)]
      refine ⟨⟨both_pc _ _ _ _ hm.both, rfl, fun h => by simp [isRunningPc] at h, fun _ => hm.stepping, fun _ => ht,
        (by intro e he; cases he)⟩, ?_⟩
      intro b hb; cases hb
    · have htf : terminal c.st.label = false := by simpa using ht
      have htd : terminal d.st.label = false := hlab ▸ htf
      have hcd : d.closed = false := (hcl.live htd).2.2.1
      have hcc : c.closed = false := hm.both.closed ▸ hcd
      rw [loopHead_go P m' c hm.ncc htf hcc (not_held_of_none hm.both.cpaused),
        loopHead_go P n d hm.ncd htd hcd (not_held_of_none hm.both.core.dpaused), stepBodyK_eq, stepBodyK_eq]
      rw [loopDone_go P n d hm.ncd htd hcd hm.both.core.dpaused, stepDoneK_eq] at hD
      rcases stepNext_sim P c d hm with ⟨h1, h2, h3, h4⟩ | ⟨e, e', h1, h2, h3⟩
      · rw [h1, h2]; exact ⟨h3, h4 hP⟩
      · rw [h1, h2]
        rw [h2] at hD
        exact ih m' e e' (by omega) h3 (stepNext_clean P hP d e' hcl h2) hD

/-- **both runs cut off after `n` iterations, at a step boundary of a live process**: they are still related there, and
the rest of the uninterrupted callback is the loop run from that boundary with the remaining fuel -/
theorem loop_cut (P : Prog) (hP : NoWaitOn P) : ∀ (n : Nat) (c d : Cfg), BMid c d → Clean d →
    (loopHead P n c).stepping = false → terminal (loopHead P n c).st.label = false →
    BMid (loopHead P n c) (loopHead P n d) ∧
    ∀ f, loopDone P f d = true →
      ∃ f', f = n + f' ∧ loopHead P f d = loopHead P f' (loopHead P n d) ∧ loopDone P f' (loopHead P n d) = true := by
  intro n
  induction n with
  | zero =>
    intro c d hm _ _ _
    exact ⟨hm, fun f hD => ⟨f, by omega, rfl, hD⟩⟩
  | succ n ih =>
    intro c d hm hcl hs hl
    have hlab := hm.both.label
    by_cases ht : terminal c.st.label = true
    · rw [loopHead_term P n c hm.ncc ht] at hl
      rw [show ({ c with pc := Pc.done } : Cfg).st = c.st from rfl, ht] at hl
      cases hl
    · have htf : terminal c.st.label = false := by simpa using ht
      have htd : terminal d.st.label = false := hlab ▸ htf
      have hcd : d.closed = false := (hcl.live htd).2.2.1
      have hcc : c.closed = false := hm.both.closed ▸ hcd
      have hgc := loopHead_go P n c hm.ncc htf hcc (not_held_of_none hm.both.cpaused)
      have hgd := fun k => loopHead_go P k d hm.ncd htd hcd (not_held_of_none hm.both.core.dpaused)
      rw [hgc, stepBodyK_eq] at hs hl
      rw [hgc, hgd n, stepBodyK_eq, stepBodyK_eq]
      rcases stepNext_sim P c d hm with ⟨h1, h2, h3, h4⟩ | ⟨e, e', h1, h2, h3⟩
      · rw [h1] at hs
        rw [stepSusp_stepping] at hs
        cases hs
      · rw [h1] at hs hl
        rw [h1, h2]
        obtain ⟨hb, hf⟩ := ih e e' h3 (stepNext_clean P hP d e' hcl h2) hs hl
        refine ⟨hb, ?_⟩
        intro f hD
        cases f with
        | zero => simp [loopDone] at hD
        | succ f0 =>
          rw [loopDone_go P f0 d hm.ncd htd hcd hm.both.core.dpaused, stepDoneK_eq, h2] at hD
          obtain ⟨f', hf1, hf2, hf3⟩ := hf f0 hD
          refine ⟨f', by omega, ?_, hf3⟩
          rw [hgd f0, stepBodyK_eq, h2]
          exact hf2

/-! ### one callback of the stepping task -/

/-- the configuration with which the callback of the stepping task (re-)enters the loop of `step_until_terminated`, if it
does (a callback that finds the step function or the wait still pending does not) -/
def tickEntry (c : Cfg) : Option Cfg :=
  match c.pc with
  | .notStarted => some c
  | .inUser b => if b.awaits = 0 then some (finishUser c b.out) else none
  | .awaitWaiting wf =>
      match c.wfs[wf]? with
      | some .pending => none
      | some w => some (wake c (match c.st with | .waiting fn .. => fn | _ => 0) wf w)
      | none => none
  | _ => none

theorem tickF_entry (P : Prog) (n : Nat) (c c0 : Cfg) (h : tickEntry c = some c0) : tickF P n c = loopHead P n c0 := by
  cases hpc : c.pc with
  | notStarted => simp only [tickEntry, hpc] at h; cases h; simp only [tickF, hpc]
  | inUser b =>
    simp only [tickEntry, hpc] at h
    split at h
    · rename_i ha; cases h; simp only [tickF, hpc, ha, if_true]
    · cases h
  | awaitWaiting wf =>
    cases hw : c.wfs[wf]? with
    | none => simp only [tickEntry, hpc, hw] at h; cases h
    | some w => cases w <;> simp only [tickEntry, hpc, hw] at h <;> cases h <;> (simp only [tickF, hpc, hw]; try rfl)
  | awaitPaused pf => simp only [tickEntry, hpc] at h; cases h
  | done => simp only [tickEntry, hpc] at h; cases h
  | crashed e => simp only [tickEntry, hpc] at h; cases h

theorem tickF_idle (P : Prog) (n : Nat) (c : Cfg) (h : tickEntry c = none) (hp : isAwaitPaused c.pc = false) :
    tickF P n c = tickF P 0 c := by
  cases hpc : c.pc with
  | notStarted => simp only [tickEntry, hpc] at h; cases h
  | inUser b =>
    simp only [tickEntry, hpc] at h
    split at h
    · cases h
    · rename_i ha; simp only [tickF, hpc, ha, if_false]
  | awaitWaiting wf =>
    cases hw : c.wfs[wf]? with
    | none => simp only [tickF, hpc, hw]
    | some w =>
      cases w with
      | pending => simp only [tickF, hpc, hw]
      | result v => simp only [tickEntry, hpc, hw] at h; cases h
      | interrupted k => simp only [tickEntry, hpc, hw] at h; cases h
      | failed e => simp only [tickEntry, hpc, hw] at h; cases h
  | awaitPaused pf => rw [hpc] at hp; simp [isAwaitPaused] at hp
  | done => simp only [tickF, hpc]
  | crashed e => simp only [tickF, hpc]

theorem tickDone_entry (P : Prog) (c c0 : Cfg) (h : tickEntry c = some c0) : tickDone P c = loopDone P fuel0 c0 := by
  cases hpc : c.pc with
  | notStarted => simp only [tickEntry, hpc] at h; cases h; simp only [tickDone, hpc]
  | inUser b =>
    simp only [tickEntry, hpc] at h
    split at h
    · rename_i ha; cases h; simp only [tickDone, hpc, ha, if_true]
    · cases h
  | awaitWaiting wf =>
    cases hw : c.wfs[wf]? with
    | none => simp only [tickEntry, hpc, hw] at h; cases h
    | some w => cases w <;> simp only [tickEntry, hpc, hw] at h <;> cases h <;> (simp only [tickDone, hpc, hw]; try rfl)
  | awaitPaused pf => simp only [tickEntry, hpc] at h; cases h
  | done => simp only [tickEntry, hpc] at h; cases h
  | crashed e => simp only [tickEntry, hpc] at h; cases h

/-- the callback in both runs: both leave the loop alone (and are then not at a step boundary of a live process), or both
enter it from related configurations -/
theorem tickEntry_sim (P : Prog) (c d : Cfg) (h : At c d) :
    (tickEntry c = none ∧ tickEntry d = none ∧ At (tickF P 0 c) (tickF P 0 d) ∧
      ((tickF P 0 c).stepping = true ∨ terminal (tickF P 0 c).st.label = true) ∧ (PcOk d → PcOk (tickF P 0 d))) ∨
    (∃ c0 d0, tickEntry c = some c0 ∧ tickEntry d = some d0 ∧ BMid c0 d0 ∧ (Clean d → PcOk d → Clean d0)) := by
  have hpcr := h.pc
  cases hpc : c.pc with
  | notStarted =>
    rw [hpc] at hpcr
    have hpd : d.pc = .notStarted := hpcr
    right
    refine ⟨c, d, by simp only [tickEntry, hpc], by simp only [tickEntry, hpd], ⟨h.both, h.idle (by rw [hpc]; rfl), h.nc, ?_⟩,
      fun hc _ => hc⟩
    intro e he; rw [hpd] at he; cases he
  | done =>
    rw [hpc] at hpcr
    have hpd : d.pc = .done := hpcr
    left
    have e1 : tickF P 0 c = c := by simp only [tickF, hpc]
    have e2 : tickF P 0 d = d := by simp only [tickF, hpd]
    rw [e1, e2]
    exact ⟨by simp only [tickEntry, hpc], by simp only [tickEntry, hpd], h, Or.inr (h.pcdone hpc), fun hh => hh⟩
  | crashed e => exact absurd hpc (h.nc e)
  | awaitPaused pf => rw [hpc] at hpcr; exact absurd hpcr (by simp [PcRelAt])
  | inUser b =>
    rw [hpc] at hpcr
    obtain ⟨hpd, fn, args, kw, hst⟩ := hpcr
    have hs := h.run (by rw [hpc]; rfl)
    by_cases ha : b.awaits = 0
    · right
      refine ⟨finishUser c b.out, finishUser d b.out, by simp only [tickEntry, hpc, ha, if_true],
        by simp only [tickEntry, hpd, ha, if_true], ?_, fun hc hp => finishUser_clean d b.out hc (hp b hpd)⟩
      exact BMid.of_end (finishUser_both c d b.out h.both) (by intro e he; rw [hpc] at he; cases he)
        (by intro e he; rw [hpd] at he; cases he)
    · left
      have e1 : tickF P 0 c = { c with pc := .inUser { b with awaits := b.awaits - 1 } } := by simp only [tickF, hpc, ha, if_false]
      have e2 : tickF P 0 d = { d with pc := .inUser { b with awaits := b.awaits - 1 } } := by simp only [tickF, hpd, ha, if_false]
      rw [e1, e2]
      refine ⟨by simp only [tickEntry, hpc, ha, if_false], by simp only [tickEntry, hpd, ha, if_false],
        ⟨both_pc _ _ _ _ h.both, ⟨rfl, fn, args, kw, hst⟩, fun _ => hs, fun hh => by simp [isRunningPc] at hh,
          (fun hh => by cases hh), (by intro e he; cases he)⟩, Or.inl hs, ?_⟩
      intro hp b' hb' f aw
      cases hb'
      exact hp b hpd f aw
  | awaitWaiting wf =>
    rw [hpc] at hpcr
    obtain ⟨fn, wk, aw, wf', hst, hst', hpd⟩ := hpcr
    obtain ⟨wf2, w, hwk, hst2, hw, hw', hni⟩ := h.both.core.st.waiting_inv hst
    rw [hst'] at hst2; cases hst2
    have hs := h.run (by rw [hpc]; rfl)
    by_cases hwp : w = .pending
    · subst hwp
      left
      have e1 : tickF P 0 c = c := by simp only [tickF, hpc, hw]
      have e2 : tickF P 0 d = d := by simp only [tickF, hpd, hw']
      rw [e1, e2]
      exact ⟨by simp only [tickEntry, hpc, hw], by simp only [tickEntry, hpd, hw'], h, Or.inl hs, fun hh => hh⟩
    · right
      have e1 : tickEntry c = some (wake c fn wf w) := by
        cases w with
        | pending => exact absurd rfl hwp
        | _ => simp only [tickEntry, hpc, hw, hst]
      have e2 : tickEntry d = some (wake d fn wf' w) := by
        cases w with
        | pending => exact absurd rfl hwp
        | _ => simp only [tickEntry, hpd, hw', hst']
      refine ⟨_, _, e1, e2, ?_, fun hc _ => wake_clean d fn wf' w hc⟩
      exact BMid.of_end (wake_both c d fn wf wf' w h.both hni hwp) (by intro e he; rw [hpc] at he; cases he)
        (by intro e he; rw [hpd] at he; cases he)

theorem At.not_awaitPaused {c d : Cfg} (h : At c d) : isAwaitPaused c.pc = false ∧ isAwaitPaused d.pc = false := by
  have hpcr := h.pc
  cases hpc : c.pc with
  | awaitPaused pf => rw [hpc] at hpcr; exact absurd hpcr (by simp [PcRelAt])
  | notStarted => rw [hpc] at hpcr; have : d.pc = .notStarted := hpcr; rw [this]; exact ⟨rfl, rfl⟩
  | done => rw [hpc] at hpcr; have : d.pc = .done := hpcr; rw [this]; exact ⟨rfl, rfl⟩
  | crashed e => rw [hpc] at hpcr; have : d.pc = .crashed e := hpcr; rw [this]; exact ⟨rfl, rfl⟩
  | inUser b => rw [hpc] at hpcr; rw [hpcr.1]; exact ⟨rfl, rfl⟩
  | awaitWaiting wf => rw [hpc] at hpcr; obtain ⟨_, _, _, wf', _, _, hpd⟩ := hpcr; rw [hpd]; exact ⟨rfl, rfl⟩

/-- **one whole callback in both runs** -/
theorem tick_sim (P : Prog) (hP : NoWaitOn P) (c d : Cfg) (h : At c d) (hcl : Clean d) (hpo : PcOk d) (hD : tickDone P d = true) :
    At (tickStepper P c) (tickStepper P d) ∧ PcOk (tickStepper P d) := by
  rw [← tickF_fuel0, ← tickF_fuel0]
  rcases tickEntry_sim P c d h with ⟨h1, h2, h3, _, h5⟩ | ⟨c0, d0, h1, h2, h3, h4⟩
  · rw [tickF_idle P fuel0 c h1 h.not_awaitPaused.1, tickF_idle P fuel0 d h2 h.not_awaitPaused.2]
    exact ⟨h3, h5 hpo⟩
  · rw [tickF_entry P fuel0 c c0 h1, tickF_entry P fuel0 d d0 h2]
    rw [tickDone_entry P d d0 h2] at hD
    exact loop_sim P hP fuel0 fuel0 c0 d0 (Nat.le_refl _) h3 (h4 hcl hpo) hD

end PMF
