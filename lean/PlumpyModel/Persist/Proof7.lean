import PlumpyModel.Persist.Reload
import PlumpyModel.PM.Proof7
/-!
# A restored process is as killable as a fresh one (helper lemmas for C04)

The invariants behind C04 — `PausingOk` (`PM/Proof5.lean`), `KillingOk` (`PM/Proof7.lean`) and the per-action commitment
`Committed` (`PM/Proof4.lean`) — are preserved by every event from ANY configuration (`step_committed`, `run_pausingOk`,
`run_killingOk`); `init nf` was only their base case.  A configuration built from a bundle (`restoreCfgN m b`, in particular
`restoreCfg (saveCfg c)`) is another base case: it records no request at all.  This file lifts the three C04 theorems to
histories that start there, and proves the clause "cancelling the process's future has the same effect as `kill()`":

* `FutHook c`: a pending process future carries the `try_killing` callback and that callback is not already scheduled — an
  invariant (`run_futHook`) whose frame relation `Fq` says that no model function except `cancelFut` touches a PENDING future,
  its hook flag, or schedules `try_killing` (`freshFutIfCancelled` / `setFutExc` replace a cancelled or done future, and the
  replacement is resolved by the same transition).  `restoreCfgN` installs the hook exactly when the loaded future is pending.
* `cancel_then_trykill`: under `FutHook`, `cancelFut` followed by the `try_killing` callback is `kill()` on the same
  configuration, up to the process-future object (cancelled, later replaced: repair H) and the list of handed-out futures.
-/
namespace PMF

/-! ### what a restored configuration looks like -/
theorem restoreCfgN_killing (m : Nat) (b : Saved) : (restoreCfgN m b).killing = none := rfl
theorem restoreCfgN_pausing (m : Nat) (b : Saved) : (restoreCfgN m b).pausing = none := rfl
theorem restoreCfgN_stepping (m : Nat) (b : Saved) : (restoreCfgN m b).stepping = false := rfl
theorem restoreCfgN_ready (m : Nat) (b : Saved) : (restoreCfgN m b).ready = [] := rfl
theorem restoreCfgN_fut (m : Nat) (b : Saved) : (restoreCfgN m b).fut = b.fut := rfl
theorem restoreCfgN_hook (m : Nat) (b : Saved) : (restoreCfgN m b).futHasKillCb = decide (b.fut = .pending) := rfl

theorem killingOk_restored (m : Nat) (b : Saved) : KillingOk (restoreCfgN m b) := by
  intro i hi; rw [restoreCfgN_killing] at hi; cases hi
theorem pausingOk_restored (m : Nat) (b : Saved) : PausingOk (restoreCfgN m b) := by
  intro i hi; rw [restoreCfgN_pausing] at hi; cases hi

/-! ### the C04 theorems from any configuration that satisfies the invariants -/

/-- `C04_kill_never_lost` with `init nf` replaced by any configuration whose pause alias is well-kinded -/
theorem kill_never_lost_from (P : Prog) (c0 : Cfg) (hp0 : PausingOk c0) (evs₁ evs₂ : List Ev) (k : Nat)
    (hl : terminal (run P c0 evs₁).st.label = false) (hnk : (run P c0 evs₁).killing = none)
    (hr : (kill (run P c0 evs₁)).2 = .action k) : Committed k (run P (kill (run P c0 evs₁)).1 evs₂) := by
  have hp0' : Pending k (kill (run P c0 evs₁)).1 := kill_commits _ k hl hnk hr
  have hok0 : PausingOk (kill (run P c0 evs₁)).1 := (run_pausingOk P _ evs₁ hp0).kx (kill_kx _)
  have : ∀ (evs : List Ev) (c : Cfg), Committed k c → PausingOk c → Committed k (run P c evs) := by
    intro evs
    induction evs with
    | nil => intro c h _; exact h
    | cons e es ih => intro c h hp; exact ih _ (step_committed P k c e h hp) (step_pausingOk P c e hp)
  exact this evs₂ _ (Or.inr (Or.inr hp0')) hok0

/-- a pending kill survives every further history -/
theorem pending_committed_run (P : Prog) (k : Nat) (c : Cfg) (h : Pending k c) (hp : PausingOk c) (evs : List Ev) :
    Committed k (run P c evs) := by
  have : ∀ (evs : List Ev) (c : Cfg), Committed k c → PausingOk c → Committed k (run P c evs) := by
    intro evs
    induction evs with
    | nil => intro c h _; exact h
    | cons e es ih => intro c h hp; exact ih _ (step_committed P k c e h hp) (step_pausingOk P c e hp)
  exact this evs c (Or.inr (Or.inr h)) hp

/-- `C04_always_killable` for any live configuration without a stale `_killing` -/
theorem always_killable_of (c : Cfg) (hko : KillingOk c) (hl : terminal c.st.label = false) :
    (c.stepping = false → (kill c).2 = .bool true ∧ ((kill c).1.st.label = .killed ∨ (kill c).1.st.label = .excepted)) ∧
    (c.stepping = true → ∃ k, (kill c).2 = .action k ∧ Pending k (kill c).1) := by
  have hkl : c.st.label ≠ .killed := by intro h; rw [h] at hl; simp [terminal, allowed] at hl
  have hpend : ∀ i, c.killing = some i → Pending i c := by
    intro i hi
    rcases hko i hi with h | h | h
    · exact absurd h hkl
    · rw [h] at hl; simp [terminal, allowed] at hl
    · exact h
  constructor
  · intro hs
    have hnk : c.killing = none := by
      cases hk : c.killing with
      | none => rfl
      | some i => have := (hpend i hk).2.2.2.2.1; rw [hs] at this; cases this
    have hkill : kill c = (transitionTo c .killed, .bool true) := by
      unfold kill
      simp [hkl, hl, hnk, hs]
    rw [hkill]
    exact ⟨rfl, transitionTo_label c .killed⟩
  · intro hs
    cases hk : c.killing with
    | some i =>
      have hp := hpend i hk
      have hret : (kill c).2 = .action i := by unfold kill; simp [hkl, hl, hk]
      refine ⟨i, hret, ?_⟩
      have : kill c = (hand c i, .action i) := by unfold kill; simp [hkl, hl, hk]
      rw [this]; exact hp.keep (hand_keep ..)
    | none =>
      have hn := requestInterrupt_new c .kill
      have hval : (kill c).2 = .action c.actions.length := by
        unfold kill
        simp only [hkl, if_false, hl, Bool.false_eq_true, hk, hs, if_true]
        simp only [hn.1]
      exact ⟨c.actions.length, hval, kill_commits c _ hl hk hval⟩

/-! ### the kill hook of the process future -/

/-- frame relation: `c'` has a future that is no longer pending, or the same future with the same hook flag and no newly
scheduled `try_killing`; and a scheduled `try_killing` stays scheduled -/
def FrFut (c c' : Cfg) : Prop :=
  c'.fut ≠ .pending ∨ (c'.fut = c.fut ∧ c'.futHasKillCb = c.futHasKillCb ∧ (Cb.trykill ∈ c'.ready → Cb.trykill ∈ c.ready))
structure Fr (c c' : Cfg) : Prop where
  fut : FrFut c c'
  keep : Cb.trykill ∈ c.ready → Cb.trykill ∈ c'.ready

theorem FrFut.trans {a b c : Cfg} (h1 : FrFut a b) (h2 : FrFut b c) : FrFut a c := by
  rcases h2 with h | ⟨hf, hk, hr⟩
  · exact Or.inl h
  · rcases h1 with g | ⟨gf, gk, gr⟩
    · exact Or.inl (by rw [hf]; exact g)
    · exact Or.inr ⟨hf.trans gf, hk.trans gk, fun h => gr (hr h)⟩
theorem Fr.rfl' (c : Cfg) : Fr c c := ⟨Or.inr ⟨rfl, rfl, fun h => h⟩, fun h => h⟩
theorem Fr.trans {a b c : Cfg} (h1 : Fr a b) (h2 : Fr b c) : Fr a c :=
  ⟨FrFut.trans h1.fut h2.fut, fun h => h2.keep (h1.keep h)⟩
theorem Fr.of_eq {c c' : Cfg} (h1 : c'.fut = c.fut) (h2 : c'.futHasKillCb = c.futHasKillCb) (h3 : c'.ready = c.ready) :
    Fr c c' := ⟨Or.inr ⟨h1, h2, fun h => by rw [← h3]; exact h⟩, fun h => by rw [h3]; exact h⟩
/-- the future has been resolved (or cancelled), nothing was unscheduled -/
theorem Fr.of_done {c c' : Cfg} (h1 : c'.fut ≠ .pending) (h3 : c'.ready = c.ready) : Fr c c' :=
  ⟨Or.inl h1, fun h => by rw [h3]; exact h⟩
/-- another callback was scheduled -/
theorem Fr.of_append {c c' : Cfg} (cb : Cb) (hcb : cb ≠ .trykill) (h1 : c'.fut = c.fut) (h2 : c'.futHasKillCb = c.futHasKillCb)
    (h3 : c'.ready = c.ready ++ [cb]) : Fr c c' := by
  refine ⟨Or.inr ⟨h1, h2, fun h => ?_⟩, fun h => by rw [h3]; exact List.mem_append_left _ h⟩
  rw [h3] at h
  rcases List.mem_append.mp h with h | h
  · exact h
  · exact absurd (List.mem_singleton.mp h).symm hcb
theorem Fr.step {c d e : Cfg} (h1 : Fr c d) (hf : e.fut = d.fut) (hk : e.futHasKillCb = d.futHasKillCb) (hr : e.ready = d.ready) :
    Fr c e := Fr.trans h1 (Fr.of_eq hf hk hr)

theorem setActionStatus_fr (c : Cfg) (i s) : Fr c (setActionStatus c i s) := by
  unfold setActionStatus; split <;> exact Fr.of_eq rfl rfl rfl
theorem cancelAction_fr (c : Cfg) (i) : Fr c (cancelAction c i) := by
  unfold cancelAction; split
  · exact setActionStatus_fr ..
  · exact Fr.rfl' c
theorem setInterrupt_fr (c : Cfg) (n) : Fr c (setInterrupt c n) := by
  unfold setInterrupt; split
  · exact Fr.trans (cancelAction_fr c _) (Fr.of_eq rfl rfl rfl)
  · exact Fr.of_eq rfl rfl rfl
theorem setInterruptFromExc_fr (c : Cfg) (k n) : Fr c (setInterruptFromExc c k n) := by
  unfold setInterruptFromExc cancelInterrupt
  split
  · exact Fr.trans (cancelAction_fr c _) (Fr.of_eq rfl rfl rfl)
  · exact Fr.of_eq rfl rfl rfl
theorem hand_fr (c : Cfg) (i) : Fr c (hand c i) := by
  unfold hand; split <;> exact Fr.of_eq rfl rfl rfl
theorem interruptState_fr (c : Cfg) (k) : Fr c (interruptState c k) := by
  unfold interruptState; split
  · split <;> exact Fr.of_eq rfl rfl rfl
  · exact Fr.rfl' c
theorem doPauseHooks_fr (c : Cfg) : Fr c (doPauseHooks c) := Fr.of_eq rfl rfl rfl
theorem deliver_fr (c : Cfg) (o) : Fr c (deliver c o) := by
  unfold deliver
  split
  · split
    · exact Fr.of_eq rfl rfl rfl
    · split
      · exact Fr.of_eq rfl rfl rfl
      · exact Fr.rfl' c
    · exact Fr.rfl' c
  · exact Fr.rfl' c
theorem exitState_fr (c : Cfg) : Fr c (exitState c) := by
  unfold exitState; split
  · dsimp only; split <;> exact Fr.of_eq rfl rfl rfl
  · exact Fr.rfl' c
theorem setFutExc_fr (c : Cfg) (e) : Fr c (setFutExc c e) := by
  unfold setFutExc; split <;> exact Fr.of_done (by simp) rfl
theorem freshFut_ready (c : Cfg) : (freshFutIfCancelled c).ready = c.ready := by
  unfold freshFutIfCancelled; split <;> rfl
theorem enteringHooks_fr (c c2 : Cfg) (s : SObj) (h : enteringHooks c s = .ok c2) : Fr c c2 := by
  unfold enteringHooks at h
  split at h
  · dsimp only at h
    split at h
    · cases h; exact Fr.of_done (by simp) (freshFut_ready c)
    · cases h
  · dsimp only at h
    split at h
    · cases h; exact Fr.of_done (by simp) (freshFut_ready c)
    · cases h
  · cases h; exact setFutExc_fr c _
  · cases h; exact Fr.rfl' c
theorem enterState_fr (c : Cfg) (s : SObj) : Fr c (enterState c s) := by
  unfold enterState; split
  · rename_i aw
    have : ∀ (l : List (Nat × Nat)) (d : Cfg), Fr c d →
        Fr c (l.foldl (fun c (p : Nat × Nat) =>
          let c := { c with efKeys := p :: c.efKeys }
          match c.efs[p.1]? with
          | some EFut.pending => { c with efCb := c.efCb ++ [p.1] }
          | some _ => { c with ready := c.ready ++ [.adone p.1] }
          | none => c) d) := by
      intro l; induction l with
      | nil => intro d hd; exact hd
      | cons a l ih =>
        intro d hd; simp only [List.foldl]
        apply ih
        split
        · exact Fr.trans hd (Fr.of_eq rfl rfl rfl)
        · exact Fr.trans hd (Fr.of_append (.adone a.1) (by simp) rfl rfl rfl)
        · exact Fr.trans hd (Fr.of_eq rfl rfl rfl)
    exact this aw c (Fr.rfl' c)
  · exact Fr.rfl' c
theorem enteredHooks_fr (c : Cfg) (s : SObj) : Fr c (enteredHooks c s) := by
  unfold enteredHooks; split <;> split <;> exact Fr.of_eq rfl rfl rfl
theorem setState_fr (c : Cfg) (s : SObj) : Fr c (setState c s) := Fr.of_eq rfl rfl rfl
theorem onClose_fr (c : Cfg) : Fr c (onClose c) := by
  unfold onClose; split <;> exact Fr.of_eq rfl rfl rfl
theorem releasePause_fr (c : Cfg) : Fr c (releasePause c) := by
  unfold releasePause; split
  · split <;> exact Fr.of_eq rfl rfl rfl
  · exact Fr.rfl' c
theorem onTerminated_fr (c : Cfg) : Fr c (onTerminated c) := by
  unfold onTerminated
  exact Fr.trans (releasePause_fr c) (onClose_fr _)
theorem forceExcepted_fr (c : Cfg) (e) : Fr c (forceExcepted c e) := by
  unfold forceExcepted; split
  · exact Fr.of_eq rfl rfl rfl
  · exact Fr.trans (Fr.trans (Fr.trans (setFutExc_fr c e) (setState_fr _ _)) (enteredHooks_fr _ _)) (onTerminated_fr _)
theorem enterNext_fr (c : Cfg) (s) : Fr c (enterNext c s) := by
  unfold enterNext; dsimp only
  have h := Fr.trans (Fr.trans (enterState_fr c s) (setState_fr _ s)) (enteredHooks_fr _ s)
  split
  · exact Fr.trans h (onTerminated_fr _)
  · exact h
theorem transitionTo_fr (c : Cfg) (s) : Fr c (transitionTo c s) := by
  unfold transitionTo
  split
  · dsimp only
    split
    · exact Fr.trans (exitState_fr c) (Fr.of_eq rfl rfl rfl)
    · split
      · exact Fr.trans (exitState_fr c) (forceExcepted_fr _ _)
      · rename_i c2 hok
        exact Fr.trans (Fr.trans (exitState_fr c) (enteringHooks_fr _ _ _ hok)) (enterNext_fr _ _)
  · exact forceExcepted_fr _ _

theorem runAction_fr (c : Cfg) (i next) : Fr c (runAction c i next) := by
  unfold runAction
  split
  · exact Fr.rfl' c
  · split
    · exact Fr.of_eq rfl rfl rfl
    · split
      · cases next with
        | none => exact Fr.trans (doPauseHooks_fr c) (setActionStatus_fr ..)
        | some s => exact Fr.trans (Fr.trans (transitionTo_fr c s) (doPauseHooks_fr _)) (setActionStatus_fr ..)
      · dsimp only
        refine Fr.trans ?_ (setActionStatus_fr ..)
        exact Fr.step (transitionTo_fr c .killed) rfl rfl rfl
theorem prepare_fr (c : Cfg) (r) : Fr c (prepare c r).1 := by
  unfold prepare
  split
  · exact setInterrupt_fr ..
  · exact Fr.rfl' c
  · split
    · exact Fr.rfl' c
    · exact setInterruptFromExc_fr ..
  · exact setInterrupt_fr ..
theorem dispatch_fr (c : Cfg) (next) : Fr c (dispatch c next) := by
  unfold dispatch
  split
  · exact Fr.rfl' c
  · split
    · split
      · exact runAction_fr ..
      · cases next with
        | none => exact Fr.rfl' c
        | some s => exact transitionTo_fr c s
    · cases next with
      | none => exact Fr.rfl' c
      | some s => exact transitionTo_fr c s
theorem finally_fr (c : Cfg) : Fr c (finally_ c) := by
  unfold finally_
  exact Fr.trans (Fr.of_eq rfl rfl rfl : Fr c { c with stepping := false }) (setInterrupt_fr _ _)
theorem endOfStep_fr (c : Cfg) (r) : Fr c (endOfStep c r) := by
  unfold endOfStep
  exact Fr.trans (Fr.trans (prepare_fr c r) (dispatch_fr _ _)) (finally_fr _)
theorem cmdToState_fr (c : Cfg) (cmd : Cmd) : Fr c (cmdToState c cmd).1 := by
  unfold cmdToState; split <;> exact Fr.of_eq rfl rfl rfl
theorem finishUser_fr (c : Cfg) (o) : Fr c (finishUser c o) := by
  unfold finishUser
  split
  · exact Fr.trans (cmdToState_fr c _) (endOfStep_fr _ _)
  · exact endOfStep_fr _ _
theorem wake_fr (c : Cfg) (fn wf w) : Fr c (wake c fn wf w) := by
  unfold wake
  split
  · exact endOfStep_fr _ _
  · refine Fr.trans ?_ (endOfStep_fr _ _)
    split
    · split
      · exact Fr.of_eq rfl rfl rfl
      · exact Fr.rfl' c
    · exact Fr.rfl' c
  · exact endOfStep_fr _ _
  · exact Fr.rfl' c
theorem stepBodyK_fr (P : Prog) (k : Cfg → Cfg) (hk : ∀ d, Fr d (k d)) (c : Cfg) : Fr c (stepBodyK P k c) := by
  unfold stepBodyK
  have hs : Fr c { c with stepping := true } := Fr.of_eq rfl rfl rfl
  dsimp only
  split
  · exact Fr.trans (Fr.trans hs (endOfStep_fr _ _)) (hk _)
  · split
    · refine Fr.trans (Fr.trans ?_ (finishUser_fr _ _)) (hk _)
      exact Fr.step hs rfl rfl rfl
    · exact Fr.step hs rfl rfl rfl
  · split
    · exact Fr.step hs rfl rfl rfl
    · exact Fr.trans (Fr.trans hs (wake_fr _ _ _ _)) (hk _)
    · exact hs
  · exact Fr.trans (Fr.trans hs (endOfStep_fr _ _)) (hk _)
theorem loopHead_fr (P : Prog) : ∀ (fuel : Nat) (c : Cfg), Fr c (loopHead P fuel c) := by
  intro fuel
  induction fuel with
  | zero => intro c; simp [loopHead]; exact Fr.rfl' c
  | succ n ih =>
    intro c
    unfold loopHead
    split
    · exact Fr.rfl' c
    · split
      · exact Fr.of_eq rfl rfl rfl
      · split
        · exact Fr.of_eq rfl rfl rfl
        · split
          · split
            · exact Fr.of_eq rfl rfl rfl
            · exact stepBodyK_fr P _ ih c
          · exact stepBodyK_fr P _ ih c
theorem tickStepper_fr (P : Prog) (c : Cfg) : Fr c (tickStepper P c) := by
  have hb : ∀ d, Fr d (stepBody P fuel0 d) := fun d => stepBodyK_fr P _ (loopHead_fr P fuel0) d
  unfold tickStepper
  split
  · exact loopHead_fr P _ c
  · split
    · split
      · split
        · exact Fr.of_eq rfl rfl rfl
        · exact hb c
      · exact hb c
    · exact Fr.rfl' c
  · split
    · exact Fr.trans (finishUser_fr _ _) (loopHead_fr P _ _)
    · exact Fr.of_eq rfl rfl rfl
  · split
    · exact Fr.rfl' c
    · exact Fr.trans (wake_fr _ _ _ _) (loopHead_fr P _ _)
    · exact Fr.rfl' c
  · exact Fr.rfl' c

theorem requestInterrupt_fr (c : Cfg) (k) : Fr c (requestInterrupt c k) := by
  unfold requestInterrupt
  exact Fr.trans (Fr.trans (Fr.of_eq rfl rfl rfl : Fr c { c with nextCookie := c.nextCookie + 1 })
    (setInterruptFromExc_fr ..)) (interruptState_fr ..)
theorem play_fr (c : Cfg) : Fr c (play c).1 := by
  unfold play
  split
  · split
    · rename_i i _
      exact Fr.trans (cancelAction_fr c i) (Fr.of_eq rfl rfl rfl)
    · exact Fr.rfl' c
  · dsimp only; split <;> exact Fr.of_eq rfl rfl rfl
theorem pause_fr (c : Cfg) : Fr c (pause c).1 := by
  unfold pause
  split
  · exact Fr.rfl' c
  · split
    · exact Fr.rfl' c
    · split
      · exact hand_fr ..
      · split
        · exact Fr.rfl' c
        · split
          · dsimp only
            have hs : Fr c { requestInterrupt c .pause with pausing := (requestInterrupt c .pause).interrupt } :=
              Fr.step (requestInterrupt_fr c .pause) rfl rfl rfl
            split
            · exact Fr.trans hs (hand_fr ..)
            · exact hs
          · exact doPauseHooks_fr c
theorem kill_fr (c : Cfg) : Fr c (kill c).1 := by
  unfold kill
  split
  · exact Fr.rfl' c
  · split
    · exact Fr.rfl' c
    · split
      · exact hand_fr ..
      · split
        · dsimp only
          have hs : Fr c { requestInterrupt c .kill with killing := (requestInterrupt c .kill).interrupt } :=
            Fr.step (requestInterrupt_fr c .kill) rfl rfl rfl
          split
          · exact Fr.trans hs (hand_fr ..)
          · exact hs
        · exact transitionTo_fr c .killed
theorem fail_fr (c : Cfg) (e : Exc) : Fr c (fail c e).1 := by
  unfold fail; split
  · exact Fr.rfl' c
  · exact transitionTo_fr ..
theorem awaitableDone_fr (c : Cfg) (f) : Fr c (awaitableDone c f) := by
  unfold awaitableDone
  have hold : ∀ d : Cfg, Fr d (match d.efKeys.find? (·.1 = f), d.efs[f]? with
      | some (_, key), some (EFut.result v) => { d with ctx := (key, v) :: d.ctx.filter (·.1 ≠ key) }
      | _, _ => d) := by
    intro d; split
    · exact Fr.of_eq rfl rfl rfl
    · exact Fr.rfl' d
  dsimp only
  split
  · rename_i fn wf wakeup aw hst
    split
    · exact hold c
    · have h1 : Fr c { c with st := .waiting fn wf wakeup (aw.filter (·.1 ≠ f)) } := Fr.of_eq rfl rfl rfl
      split
      · split
        · refine Fr.trans ?_ (deliver_fr ..)
          exact Fr.step h1 rfl rfl rfl
        · exact Fr.step h1 rfl rfl rfl
      · exact Fr.trans h1 (deliver_fr ..)
      · exact h1
  · exact hold c
theorem complete_fr (c : Cfg) (f o) : Fr c (complete c f o) := by
  unfold complete; split
  · dsimp only; split
    · exact Fr.of_append (.adone f) (by simp) rfl rfl rfl
    · exact Fr.of_eq rfl rfl rfl
  · exact Fr.rfl' c
theorem cancelFut_fr (c : Cfg) : Fr c (cancelFut c).1 := by
  unfold cancelFut; split
  · refine ⟨Or.inl (by simp), fun h => ?_⟩
    dsimp only; split
    · exact List.mem_append_left _ h
    · exact h
  · exact Fr.rfl' c

theorem erase_mem_of_ne {cb : Cb} {l : List Cb} (h : Cb.trykill ∈ l) (hne : cb ≠ .trykill) : Cb.trykill ∈ l.erase cb :=
  (List.mem_erase_of_ne (Ne.symm hne)).mpr h

theorem tryKilling_fr (c : Cfg) : Fr c (tryKilling c) := by
  unfold tryKilling
  exact Fr.step (kill_fr c) rfl rfl rfl

theorem erase_then (c : Cfg) (cb : Cb) (d : Cfg) (hb : Fr { c with ready := c.ready.erase cb } d) :
    FrFut c d ∧ (cb ≠ .trykill → Fr c d) := by
  have h0 : FrFut c { c with ready := c.ready.erase cb } := Or.inr ⟨rfl, rfl, fun h => List.mem_of_mem_erase h⟩
  exact ⟨FrFut.trans h0 hb.fut, fun hne => Fr.trans ⟨h0, fun h => erase_mem_of_ne h hne⟩ hb⟩

/-- the future part holds for every callback; `try_killing` stays scheduled unless it is the callback that runs -/
theorem tickCb_fr (c : Cfg) (cb : Cb) : FrFut c (tickCb c cb) ∧ (cb ≠ .trykill → Fr c (tickCb c cb)) := by
  unfold tickCb
  split
  · apply erase_then
    split
    · exact awaitableDone_fr ..
    · exact tryKilling_fr ..
    · split
      · exact fail_fr ..
      · exact Fr.rfl' _
  · exact ⟨(Fr.rfl' c).fut, fun _ => Fr.rfl' c⟩

theorem step_fr (P : Prog) (c : Cfg) (ev : Ev) :
    FrFut c (step P c ev).1 ∧ (ev ≠ .tickCb .trykill → Fr c (step P c ev).1) := by
  have all : ∀ {d : Cfg}, Fr c d → FrFut c d ∧ (ev ≠ .tickCb .trykill → Fr c d) := fun h => ⟨h.fut, fun _ => h⟩
  cases ev <;> simp only [step]
  · exact all (tickStepper_fr P c)
  · rename_i cb
    have := tickCb_fr c cb
    exact ⟨this.1, fun hne => this.2 (fun h => hne (by rw [h]))⟩
  · exact all (pause_fr c)
  · exact all (play_fr c)
  · exact all (kill_fr c)
  · refine all ?_
    unfold resume; split
    · exact deliver_fr ..
    · exact Fr.rfl' c
  · exact all (fail_fr ..)
  · exact all (cancelFut_fr c)
  · exact all (complete_fr ..)
  · rename_i r
    exact all (Fr.of_append (.usercb r) (by simp) rfl rfl rfl)

/-- **the kill hook**: a pending process future carries the `try_killing` callback, and that callback is not already scheduled -/
def FutHook (c : Cfg) : Prop := c.fut = .pending → c.futHasKillCb = true ∧ Cb.trykill ∉ c.ready

theorem FutHook.frame {c c' : Cfg} (h : FutHook c) (s : FrFut c c') : FutHook c' := by
  intro hp
  rcases s with g | ⟨gf, gk, gr⟩
  · exact absurd hp g
  · have := h (by rw [← gf]; exact hp)
    exact ⟨by rw [gk]; exact this.1, fun hm => this.2 (gr hm)⟩

theorem run_futHook (P : Prog) (c0 : Cfg) (evs : List Ev) (h : FutHook c0) : FutHook (run P c0 evs) := by
  induction evs generalizing c0 with
  | nil => exact h
  | cons e es ih => exact ih _ (h.frame (step_fr P c0 e).1)

theorem futHook_init (nf : Nat) : FutHook (init nf) := fun _ => ⟨rfl, by simp [init]⟩

theorem futHook_restored (m : Nat) (b : Saved) : FutHook (restoreCfgN m b) := by
  intro hp
  rw [restoreCfgN_fut] at hp
  exact ⟨by rw [restoreCfgN_hook, hp]; rfl, by rw [restoreCfgN_ready]; simp⟩

/-- once scheduled, `try_killing` stays scheduled until it is the callback that runs -/
theorem run_keeps_trykill (P : Prog) (c0 : Cfg) (evs : List Ev) (hno : Ev.tickCb .trykill ∉ evs)
    (h : Cb.trykill ∈ c0.ready) : Cb.trykill ∈ (run P c0 evs).ready := by
  induction evs generalizing c0 with
  | nil => exact h
  | cons e es ih =>
    have he : e ≠ .tickCb .trykill := fun hh => hno (by rw [hh]; exact List.mem_cons_self ..)
    exact ih _ (fun hh => hno (List.mem_cons_of_mem _ hh)) (((step_fr P c0 e).2 he).keep h)

/-! ### cancelling the future, then `try_killing`, is `kill()`

`sfh c f h` is `c` with another process-future object.  Apart from `cancelFut`, the entering hooks of a terminal state and
`on_except` (`enteringHooks`, `setFutExc`), no model function reads or writes the future: each commutes with `sfh`. -/

def sfh (c : Cfg) (f : PFut) (h : Bool) : Cfg := { c with fut := f, futHasKillCb := h }

theorem sfh_sfh (c : Cfg) (f h f' h') : sfh (sfh c f h) f' h' = sfh c f' h' := rfl
theorem sfh_self (c : Cfg) : sfh c c.fut c.futHasKillCb = c := rfl

macro "comm_sfh" : tactic => `(tactic| ((repeat' split) <;> first | rfl | simp_all))

theorem hand_sfh (c : Cfg) (i f h) : hand (sfh c f h) i = sfh (hand c i) f h := by
  simp only [hand, sfh]; comm_sfh
theorem setActionStatus_sfh (c : Cfg) (i s f h) : setActionStatus (sfh c f h) i s = sfh (setActionStatus c i s) f h := by
  simp only [setActionStatus, sfh]; comm_sfh
theorem cancelAction_sfh (c : Cfg) (i f h) : cancelAction (sfh c f h) i = sfh (cancelAction c i) f h := by
  unfold cancelAction
  rw [setActionStatus_sfh]
  have : actionStatus (sfh c f h) i = actionStatus c i := rfl
  rw [this]; comm_sfh
theorem cancelInterrupt_sfh (c : Cfg) (f h) : cancelInterrupt (sfh c f h) = sfh (cancelInterrupt c) f h := by
  unfold cancelInterrupt
  have : (sfh c f h).interrupt = c.interrupt := rfl
  rw [this]; split
  · exact cancelAction_sfh ..
  · rfl
theorem setInterruptFromExc_sfh (c : Cfg) (k n f h) :
    setInterruptFromExc (sfh c f h) k n = sfh (setInterruptFromExc c k n) f h := by
  unfold setInterruptFromExc
  rw [cancelInterrupt_sfh]; rfl
theorem interruptState_sfh (c : Cfg) (k f h) : interruptState (sfh c f h) k = sfh (interruptState c k) f h := by
  simp only [interruptState, sfh]; comm_sfh
theorem requestInterrupt_sfh (c : Cfg) (k f h) : requestInterrupt (sfh c f h) k = sfh (requestInterrupt c k) f h := by
  unfold requestInterrupt
  have h1 : ({ sfh c f h with nextCookie := (sfh c f h).nextCookie + 1 } : Cfg) = sfh { c with nextCookie := c.nextCookie + 1 } f h := rfl
  have h2 : (sfh c f h).nextCookie = c.nextCookie := rfl
  rw [h1, h2, setInterruptFromExc_sfh, interruptState_sfh]
theorem exitState_sfh (c : Cfg) (f h) : exitState (sfh c f h) = sfh (exitState c) f h := by
  simp only [exitState, sfh]; comm_sfh
theorem enterState_sfh (c : Cfg) (s f h) : enterState (sfh c f h) s = sfh (enterState c s) f h := by
  unfold enterState; split
  · rename_i aw
    have : ∀ (l : List (Nat × Nat)) (d : Cfg),
        l.foldl (fun c (p : Nat × Nat) =>
          let c := { c with efKeys := p :: c.efKeys }
          match c.efs[p.1]? with
          | some EFut.pending => { c with efCb := c.efCb ++ [p.1] }
          | some _ => { c with ready := c.ready ++ [.adone p.1] }
          | none => c) (sfh d f h) =
        sfh (l.foldl (fun c (p : Nat × Nat) =>
          let c := { c with efKeys := p :: c.efKeys }
          match c.efs[p.1]? with
          | some EFut.pending => { c with efCb := c.efCb ++ [p.1] }
          | some _ => { c with ready := c.ready ++ [.adone p.1] }
          | none => c) d) f h := by
      intro l; induction l with
      | nil => intro d; rfl
      | cons a l ih =>
        intro d; simp only [List.foldl]
        rw [← ih]
        congr 1
        simp only [sfh]; comm_sfh
    exact this aw c
  · rfl
theorem setState_sfh (c : Cfg) (s f h) : setState (sfh c f h) s = sfh (setState c s) f h := rfl
theorem enteredHooks_sfh (c : Cfg) (s f h) : enteredHooks (sfh c f h) s = sfh (enteredHooks c s) f h := by
  simp only [enteredHooks, sfh]; comm_sfh
theorem releasePause_sfh (c : Cfg) (f h) : releasePause (sfh c f h) = sfh (releasePause c) f h := by
  simp only [releasePause, sfh]; comm_sfh
theorem onClose_sfh (c : Cfg) (f h) : onClose (sfh c f h) = sfh (onClose c) f h := by
  simp only [onClose, sfh]; comm_sfh
theorem onTerminated_sfh (c : Cfg) (f h) : onTerminated (sfh c f h) = sfh (onTerminated c) f h := by
  unfold onTerminated; rw [releasePause_sfh, onClose_sfh]
theorem enterNext_sfh (c : Cfg) (s f h) : enterNext (sfh c f h) s = sfh (enterNext c s) f h := by
  unfold enterNext; dsimp only
  rw [enterState_sfh, setState_sfh, enteredHooks_sfh]
  split
  · exact onTerminated_sfh ..
  · rfl

theorem exitState_futs (c : Cfg) : (exitState c).fut = c.fut ∧ (exitState c).futHasKillCb = c.futHasKillCb ∧ (exitState c).closed = c.closed := by
  unfold exitState; split
  · dsimp only; split <;> exact ⟨rfl, rfl, rfl⟩
  · exact ⟨rfl, rfl, rfl⟩

theorem forceExcepted_cancelled (c : Cfg) (hf : c.fut = .pending) (e : Exc) :
    ∃ f h, forceExcepted (sfh c .cancelled c.futHasKillCb) e = sfh (forceExcepted c e) f h := by
  unfold forceExcepted
  have hc : (sfh c .cancelled c.futHasKillCb).closed = c.closed := rfl
  rw [hc]; split
  · exact ⟨.cancelled, c.futHasKillCb, rfl⟩
  · have h1 : setFutExc (sfh c .cancelled c.futHasKillCb) e = sfh c (.exc e) false := by simp [setFutExc, sfh]
    have h2 : setFutExc c e = sfh c (.exc e) c.futHasKillCb := by simp [setFutExc, sfh, hf]
    simp only [h1, h2, setState_sfh, enteredHooks_sfh, onTerminated_sfh]
    exact ⟨.exc e, false, rfl⟩

theorem transitionTo_killed_cancelled (c : Cfg) (hf : c.fut = .pending) :
    ∃ f h, transitionTo (sfh c .cancelled c.futHasKillCb) .killed = sfh (transitionTo c .killed) f h := by
  unfold transitionTo
  have hst : (sfh c .cancelled c.futHasKillCb).st = c.st := rfl
  have hcl : (sfh c .cancelled c.futHasKillCb).closed = c.closed := rfl
  simp only [hst, hcl]
  split
  · rw [exitState_sfh]
    split
    · exact ⟨.cancelled, c.futHasKillCb, rfl⟩
    · obtain ⟨hef, hek, _⟩ := exitState_futs c
      rw [hf] at hef
      have h1 : enteringHooks (sfh (exitState c) .cancelled c.futHasKillCb) .killed =
          .ok (sfh (exitState c) (.exc .killedErr) false) := by
        simp [enteringHooks, freshFutIfCancelled, futCancelled, sfh]
      have h2 : enteringHooks (exitState c) .killed = .ok (sfh (exitState c) (.exc .killedErr) c.futHasKillCb) := by
        simp [enteringHooks, freshFutIfCancelled, futCancelled, hef, sfh, hek]
      rw [h1, h2]; dsimp only; rw [enterNext_sfh, enterNext_sfh]
      exact ⟨_, false, rfl⟩
  · exact forceExcepted_cancelled c hf _

/-- `kill()` on a configuration whose pending future has been cancelled: the same configuration, another future object; the
same return value -/
theorem kill_cancelled (c : Cfg) (hf : c.fut = .pending) :
    (∃ f h, (kill (sfh c .cancelled c.futHasKillCb)).1 = sfh (kill c).1 f h) ∧
    (kill (sfh c .cancelled c.futHasKillCb)).2 = (kill c).2 := by
  unfold kill
  have hst : (sfh c .cancelled c.futHasKillCb).st = c.st := rfl
  have hki : (sfh c .cancelled c.futHasKillCb).killing = c.killing := rfl
  have hsp : (sfh c .cancelled c.futHasKillCb).stepping = c.stepping := rfl
  simp only [hst, hki, hsp]
  split
  · exact ⟨⟨_, _, rfl⟩, rfl⟩
  · split
    · exact ⟨⟨_, _, rfl⟩, rfl⟩
    · split
      · rw [hand_sfh]; exact ⟨⟨_, _, rfl⟩, rfl⟩
      · split
        · rw [requestInterrupt_sfh]
          have hi : (sfh (requestInterrupt c .kill) .cancelled c.futHasKillCb).interrupt = (requestInterrupt c .kill).interrupt := rfl
          simp only [hi]
          split
          · refine ⟨⟨.cancelled, c.futHasKillCb, ?_⟩, rfl⟩
            exact hand_sfh { requestInterrupt c .kill with killing := (requestInterrupt c .kill).interrupt } _ _ _
          · exact ⟨⟨_, _, rfl⟩, rfl⟩
        · obtain ⟨f, h, e⟩ := transitionTo_killed_cancelled c hf
          exact ⟨⟨f, h, e⟩, rfl⟩

theorem erase_append_self (l : List Cb) (a : Cb) (h : a ∉ l) : (l ++ [a]).erase a = l := by
  induction l with
  | nil => simp
  | cons b l ih =>
    have hne : b ≠ a := fun hh => h (by rw [hh]; exact List.mem_cons_self ..)
    have hnl : a ∉ l := fun hh => h (List.mem_cons_of_mem _ hh)
    simp [List.erase_cons, hne, ih hnl]

/-- `a` is `b` up to the process-future object, its hook flag and the list of action futures handed to callers -/
def SameButFut (a b : Cfg) : Prop := { a with fut := b.fut, futHasKillCb := b.futHasKillCb, handed := b.handed } = b

/-- **cancelling the future is a kill**: with the hook installed on a pending future, `future().cancel()` succeeds and schedules
`try_killing`; when that callback runs next, the configuration is the one `kill()` would have produced, up to the future object
(cancelled; replaced when the process terminates, repair H) -/
theorem cancel_then_trykill (c : Cfg) (hf : c.fut = .pending) (hh : FutHook c) :
    (cancelFut c).2 = .bool true ∧ Cb.trykill ∈ (cancelFut c).1.ready ∧
    SameButFut (tickCb (cancelFut c).1 .trykill) (kill c).1 := by
  obtain ⟨hk, hnr⟩ := hh hf
  have hcf : cancelFut c = ({ c with fut := .cancelled, ready := c.ready ++ [.trykill] }, .bool true) := by
    unfold cancelFut; simp [hf, hk]
  rw [hcf]
  refine ⟨rfl, by simp, ?_⟩
  have ht : tickCb { c with fut := .cancelled, ready := c.ready ++ [.trykill] } .trykill =
      tryKilling (sfh c .cancelled c.futHasKillCb) := by
    unfold tickCb
    have : (c.ready ++ [Cb.trykill]).contains Cb.trykill = true := by simp
    simp only [this, if_true, erase_append_self c.ready .trykill hnr]
    rfl
  rw [ht]
  obtain ⟨⟨f, h, e⟩, _⟩ := kill_cancelled c hf
  unfold tryKilling SameButFut
  rw [e]; rfl

/-- the `try_killing` callback, whenever it runs on a live process, does what `kill()` does: outside a step the process is
KILLED (EXCEPTED if entering KILLED fails), inside a step the kill is the pending interrupt action of that step -/
theorem trykill_kills (c : Cfg) (hko : KillingOk c) (hl : terminal c.st.label = false) (hr : Cb.trykill ∈ c.ready) :
    (c.stepping = false → (tickCb c .trykill).st.label = .killed ∨ (tickCb c .trykill).st.label = .excepted) ∧
    (c.stepping = true → ∃ k, Pending k (tickCb c .trykill)) := by
  have hc : c.ready.contains Cb.trykill = true := by simpa using hr
  have ht : tickCb c .trykill = tryKilling { c with ready := c.ready.erase .trykill } := by
    unfold tickCb; simp only [hc, if_true]
  have hko0 : KillingOk { c with ready := c.ready.erase .trykill } := by
    intro i hi
    rcases hko i hi with h | h | h
    · exact Or.inl h
    · exact Or.inr (Or.inl h)
    · exact Or.inr (Or.inr (h.keep ⟨rfl, rfl, rfl, rfl, rfl, rfl⟩))
  have hk := always_killable_of { c with ready := c.ready.erase .trykill } hko0 hl
  rw [ht]
  unfold tryKilling
  constructor
  · intro hs; exact (hk.1 hs).2
  · intro hs
    obtain ⟨k, _, hp⟩ := hk.2 hs
    exact ⟨k, hp.keep ⟨rfl, rfl, rfl, rfl, rfl, rfl⟩⟩

end PMF
