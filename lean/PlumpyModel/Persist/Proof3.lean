import PlumpyModel.PM.Model
/-!
# The logs of a configuration are write-only (helper lemmas for C08, plain processes)

`ext c L` is `c` with older entries `L` under its three logs (user-call trace, ENTERED log, listener notifications).  No
function of the process-control model reads a log, so every function commutes with `ext`: a restored instance, whose logs
start empty, behaves like the same instance carrying the logs of its predecessors.
-/
namespace PMF

structure Logs where
  t : List Act := []
  e : List Label := []
  n : List Notif := []

def ext (c : Cfg) (L : Logs) : Cfg :=
  { c with trace := c.trace ++ L.t, entered := c.entered ++ L.e, notif := c.notif ++ L.n }

section proj
variable (c : Cfg) (L : Logs)
@[simp] theorem ext_st : (ext c L).st = c.st := rfl
@[simp] theorem ext_stepping : (ext c L).stepping = c.stepping := rfl
@[simp] theorem ext_actions : (ext c L).actions = c.actions := rfl
@[simp] theorem ext_handed : (ext c L).handed = c.handed := rfl
@[simp] theorem ext_pausing : (ext c L).pausing = c.pausing := rfl
@[simp] theorem ext_killing : (ext c L).killing = c.killing := rfl
@[simp] theorem ext_interrupt : (ext c L).interrupt = c.interrupt := rfl
@[simp] theorem ext_nextCookie : (ext c L).nextCookie = c.nextCookie := rfl
@[simp] theorem ext_wfs : (ext c L).wfs = c.wfs := rfl
@[simp] theorem ext_pfs : (ext c L).pfs = c.pfs := rfl
@[simp] theorem ext_paused : (ext c L).paused = c.paused := rfl
@[simp] theorem ext_fut : (ext c L).fut = c.fut := rfl
@[simp] theorem ext_futHasKillCb : (ext c L).futHasKillCb = c.futHasKillCb := rfl
@[simp] theorem ext_closed : (ext c L).closed = c.closed := rfl
@[simp] theorem ext_cleanups : (ext c L).cleanups = c.cleanups := rfl
@[simp] theorem ext_efs : (ext c L).efs = c.efs := rfl
@[simp] theorem ext_efCb : (ext c L).efCb = c.efCb := rfl
@[simp] theorem ext_efKeys : (ext c L).efKeys = c.efKeys := rfl
@[simp] theorem ext_ctx : (ext c L).ctx = c.ctx := rfl
@[simp] theorem ext_ready : (ext c L).ready = c.ready := rfl
@[simp] theorem ext_pc : (ext c L).pc = c.pc := rfl
@[simp] theorem ext_loopErrs : (ext c L).loopErrs = c.loopErrs := rfl
@[simp] theorem ext_trace : (ext c L).trace = c.trace ++ L.t := rfl
@[simp] theorem ext_entered : (ext c L).entered = c.entered ++ L.e := rfl
@[simp] theorem ext_notif : (ext c L).notif = c.notif ++ L.n := rfl
end proj

variable (L : Logs)

theorem actionStatus_ext (c : Cfg) (i : Nat) : actionStatus (ext c L) i = actionStatus c i := rfl

theorem setActionStatus_ext (c : Cfg) (i : Nat) (s : AStatus) :
    setActionStatus (ext c L) i s = ext (setActionStatus c i s) L := by
  unfold setActionStatus
  simp only [ext_actions]
  split <;> rfl

theorem cancelAction_ext (c : Cfg) (i : Nat) : cancelAction (ext c L) i = ext (cancelAction c i) L := by
  unfold cancelAction
  rw [actionStatus_ext, setActionStatus_ext]
  split <;> rfl

theorem setInterrupt_ext (c : Cfg) (n : Option Nat) : setInterrupt (ext c L) n = ext (setInterrupt c n) L := by
  unfold setInterrupt
  simp only [ext_interrupt]
  split
  · rw [cancelAction_ext]; rfl
  · rfl

theorem ext_ite (p : Prop) [Decidable p] (a b : Cfg) : ext (if p then a else b) L = if p then ext a L else ext b L := by
  split <;> rfl

theorem cancelInterrupt_ext (c : Cfg) : cancelInterrupt (ext c L) = ext (cancelInterrupt c) L := by
  unfold cancelInterrupt
  simp only [ext_interrupt]
  split
  · rw [cancelAction_ext]
  · rfl

theorem setInterruptFromExc_ext (c : Cfg) (k : AKind) (n : Nat) :
    setInterruptFromExc (ext c L) k n = ext (setInterruptFromExc c k n) L := by
  unfold setInterruptFromExc
  rw [cancelInterrupt_ext]; rfl

theorem freshFutIfCancelled_ext (c : Cfg) : freshFutIfCancelled (ext c L) = ext (freshFutIfCancelled c) L := by
  unfold freshFutIfCancelled futCancelled
  simp only [ext_fut, ext_ite]
  rfl

theorem setFutExc_ext (c : Cfg) (e : Exc) : setFutExc (ext c L) e = ext (setFutExc c e) L := by
  unfold setFutExc
  simp only [ext_fut]
  by_cases h : c.fut = .pending
  · simp only [h, ne_eq, not_true_eq_false, if_false]; rfl
  · simp only [h, ne_eq, not_false_eq_true, if_true]; rfl

theorem onClose_ext (c : Cfg) : onClose (ext c L) = ext (onClose c) L := by
  unfold onClose
  simp only [ext_closed, ext_ite]
  rfl

theorem releasePause_ext (c : Cfg) : releasePause (ext c L) = ext (releasePause c) L := by
  unfold releasePause
  simp only [ext_paused, ext_pfs]
  split
  · simp only [ext_ite]; rfl
  · rfl

theorem onTerminated_ext (c : Cfg) : onTerminated (ext c L) = ext (onTerminated c) L := by
  unfold onTerminated
  rw [releasePause_ext, onClose_ext]

theorem exitState_ext (c : Cfg) : exitState (ext c L) = ext (exitState c) L := by
  unfold exitState
  simp only [ext_st, ext_wfs]
  split
  · rename_i fn wf wk aw _
    by_cases h : c.wfs[wf]? = some WF.pending
    · simp only [h, if_true]; rfl
    · simp only [h, if_false]; rfl
  · rfl

theorem enteringHooks_ext (c : Cfg) (s : SObj) :
    enteringHooks (ext c L) s = (enteringHooks c s).map (fun d => ext d L) := by
  unfold enteringHooks
  split
  · simp only [freshFutIfCancelled_ext, ext_fut]
    by_cases h : (freshFutIfCancelled c).fut = .pending
    · simp only [h, if_true]; rfl
    · simp only [h, if_false]; rfl
  · simp only [freshFutIfCancelled_ext, ext_fut]
    by_cases h : (freshFutIfCancelled c).fut = .pending
    · simp only [h, if_true]; rfl
    · simp only [h, if_false]; rfl
  · rw [setFutExc_ext]; rfl
  · rfl

theorem enterState_ext (c : Cfg) (s : SObj) : enterState (ext c L) s = ext (enterState c s) L := by
  unfold enterState
  split
  · rename_i aw
    induction aw generalizing c with
    | nil => rfl
    | cons p rest ih =>
      rw [List.foldl_cons, List.foldl_cons, ← ih]
      congr 1
      simp only [ext_efs]
      split <;> rfl
  · rfl

theorem enteredHooks_ext (c : Cfg) (s : SObj) : enteredHooks (ext c L) s = ext (enteredHooks c s) L := by
  unfold enteredHooks
  by_cases h : s.label = .killed
  · simp only [h, if_true]
    split <;> rfl
  · simp only [h, if_false]
    split <;> rfl

theorem setState_ext (c : Cfg) (s : SObj) : setState (ext c L) s = ext (setState c s) L := rfl

theorem forceExcepted_ext (c : Cfg) (e : Exc) : forceExcepted (ext c L) e = ext (forceExcepted c e) L := by
  unfold forceExcepted
  simp only [ext_closed]
  by_cases h : c.closed = true
  · simp only [h, if_true]; rfl
  · simp only [h, Bool.false_eq_true, if_false]
    rw [setFutExc_ext, setState_ext, enteredHooks_ext, onTerminated_ext]

theorem enterNext_ext (c : Cfg) (s : SObj) : enterNext (ext c L) s = ext (enterNext c s) L := by
  unfold enterNext
  dsimp only
  rw [enterState_ext, setState_ext, enteredHooks_ext]
  by_cases h : terminal s.label = true
  · simp only [h, if_true]; rw [onTerminated_ext]
  · simp only [h, Bool.false_eq_true, if_false]

theorem transitionTo_ext (c : Cfg) (s : SObj) : transitionTo (ext c L) s = ext (transitionTo c s) L := by
  unfold transitionTo
  simp only [ext_st, ext_closed, exitState_ext, enteringHooks_ext]
  by_cases h : s.label ∈ allowed c.st.label
  · simp only [h, if_true]
    by_cases hc : c.closed = true
    · simp only [hc, if_true]; rfl
    · simp only [hc, Bool.false_eq_true, if_false]
      cases enteringHooks (exitState c) s with
      | error e => simp only [Except.map]; rw [forceExcepted_ext]
      | ok c2 => simp only [Except.map]; rw [enterNext_ext]
  · simp only [h, if_false]; rw [forceExcepted_ext]

theorem doPauseHooks_ext (c : Cfg) : doPauseHooks (ext c L) = ext (doPauseHooks c) L := rfl

theorem runAction_ext (c : Cfg) (i : Nat) (next : Option SObj) : runAction (ext c L) i next = ext (runAction c i next) L := by
  cases ha : c.actions[i]? with
  | none => simp only [runAction, ext_actions, ha]
  | some a =>
    by_cases hs : a.status = .pending
    · cases hk : a.kind with
      | pause =>
        cases next with
        | none =>
          simp only [runAction, ext_actions, ha, hs, hk, ne_eq, not_true_eq_false, if_false]
          rw [doPauseHooks_ext, setActionStatus_ext]
        | some s =>
          simp only [runAction, ext_actions, ha, hs, hk, ne_eq, not_true_eq_false, if_false]
          rw [transitionTo_ext, doPauseHooks_ext, setActionStatus_ext]
      | kill =>
        simp only [runAction, ext_actions, ha, hs, hk, ne_eq, not_true_eq_false, if_false]
        rw [transitionTo_ext]
        exact setActionStatus_ext L { transitionTo c .killed with killing := none } i .done
    · simp only [runAction, ext_actions, ha, hs, ne_eq, not_false_eq_true, if_true]; rfl

theorem kindOfCookie_ext (c : Cfg) (k : Nat) : kindOfCookie (ext c L) k = kindOfCookie c k := rfl

theorem prepare_ext (c : Cfg) (r : StepEnd) : prepare (ext c L) r = ((ext (prepare c r).1 L), (prepare c r).2) := by
  unfold prepare
  split
  · rw [setInterrupt_ext]
  · rfl
  · simp only [ext_interrupt]
    split
    · rfl
    · rw [kindOfCookie_ext, setInterruptFromExc_ext]
  · rw [setInterrupt_ext]

theorem dispatch_ext (c : Cfg) (next : Option SObj) : dispatch (ext c L) next = ext (dispatch c next) L := by
  by_cases ht : terminal c.st.label = true
  · simp only [dispatch, ext_st, ht, if_true]
  · cases hi : c.interrupt with
    | none =>
      cases next with
      | none => simp only [dispatch, ext_st, ext_interrupt, ht, hi, Bool.false_eq_true, if_false]
      | some s => simp only [dispatch, ext_st, ext_interrupt, ht, hi, Bool.false_eq_true, if_false]; rw [transitionTo_ext]
    | some i =>
      by_cases hs : actionStatus c i = .cancelled
      · cases next with
        | none =>
          simp only [dispatch, ext_st, ext_interrupt, actionStatus_ext, ht, hi, hs, Bool.false_eq_true, if_false, ne_eq,
            not_true_eq_false]
        | some s =>
          simp only [dispatch, ext_st, ext_interrupt, actionStatus_ext, ht, hi, hs, Bool.false_eq_true, if_false, ne_eq,
            not_true_eq_false]
          rw [transitionTo_ext]
      · simp only [dispatch, ext_st, ext_interrupt, actionStatus_ext, ht, hi, hs, Bool.false_eq_true, if_false, ne_eq,
          not_false_eq_true, if_true]
        rw [runAction_ext]

theorem finally_ext (c : Cfg) : finally_ (ext c L) = ext (finally_ c) L := by
  unfold finally_
  exact setInterrupt_ext L { c with stepping := false } none

theorem endOfStep_ext (c : Cfg) (r : StepEnd) : endOfStep (ext c L) r = ext (endOfStep c r) L := by
  unfold endOfStep
  simp only [prepare_ext, dispatch_ext, finally_ext]

theorem cmdToState_ext (c : Cfg) (cmd : Cmd) : cmdToState (ext c L) cmd = (ext (cmdToState c cmd).1 L, (cmdToState c cmd).2) := by
  cases cmd <;> rfl

theorem finishUser_ext (c : Cfg) (o : Outcome) : finishUser (ext c L) o = ext (finishUser c o) L := by
  unfold finishUser
  cases o with
  | ret cmd => simp only [cmdToState_ext, endOfStep_ext]
  | raise e => simp only [endOfStep_ext]

theorem wake_ext (c : Cfg) (fn wf : Nat) (w : WF) : wake (ext c L) fn wf w = ext (wake c fn wf w) L := by
  unfold wake
  cases w with
  | pending => rfl
  | result v => simp only [endOfStep_ext]
  | failed e => simp only [endOfStep_ext]
  | interrupted k =>
    simp only [ext_st, ext_wfs]
    rw [← endOfStep_ext]
    congr 1
    split
    · rename_i f wf' wk aw _
      by_cases h : wf' = wf
      · simp only [h, if_true]; rfl
      · simp only [h, if_false]
    · rfl

theorem stepBodyK_ext (P : Prog) (k : Cfg → Cfg) (hk : ∀ d, k (ext d L) = ext (k d) L) (c : Cfg) :
    stepBodyK P k (ext c L) = ext (stepBodyK P k c) L := by
  unfold stepBodyK
  simp only [ext_st, ext_ctx, ext_wfs, ext_paused, ext_trace]
  split
  · rw [← hk, ← endOfStep_ext]; rfl
  · rename_i fn args kw _
    by_cases h : (P fn args kw c.ctx).awaits = 0
    · simp only [h, if_true]; rw [← hk, ← finishUser_ext]; rfl
    · simp only [h, if_false]; rfl
  · split
    · rfl
    · rw [← hk, ← wake_ext]; rfl
    · rfl
  · rw [← hk, ← endOfStep_ext]; rfl

theorem loopHead_ext (P : Prog) : ∀ (fuel : Nat) (c : Cfg), loopHead P fuel (ext c L) = ext (loopHead P fuel c) L := by
  intro fuel
  induction fuel with
  | zero => intro c; rfl
  | succ n ih =>
    intro c
    have hb := stepBodyK_ext L P _ ih c
    by_cases hcr : ∃ e, c.pc = .crashed e
    · obtain ⟨e, he⟩ := hcr
      simp only [loopHead, ext_pc, he]
    · have hgo : ∀ d : Cfg, d.pc = c.pc → loopHead P (n + 1) d =
          (if terminal d.st.label then { d with pc := .done } else
           if d.closed then { d with pc := .crashed .closedErr } else
           match d.paused with
           | some pf => if d.pfs[pf]? = some false then { d with pc := .awaitPaused pf } else stepBodyK P (loopHead P n) d
           | none => stepBodyK P (loopHead P n) d) := by
        intro d hd
        rw [loopHead]
        split
        · rename_i e he; rw [hd] at he; exact absurd ⟨e, he⟩ hcr
        · rfl
      rw [hgo (ext c L) rfl, hgo c rfl]
      simp only [ext_st, ext_closed, ext_paused, ext_pfs]
      by_cases ht : terminal c.st.label = true
      · simp only [ht, if_true]; rfl
      · simp only [ht, Bool.false_eq_true, if_false]
        by_cases hc : c.closed = true
        · simp only [hc, if_true]; rfl
        · simp only [hc, Bool.false_eq_true, if_false]
          cases hp : c.paused with
          | none => exact hb
          | some pf =>
            simp only
            by_cases hf : c.pfs[pf]? = some false
            · simp only [hf, if_true]; rfl
            · simp only [hf, if_false]; exact hb

theorem deliver_ext (c : Cfg) (o : WF) : deliver (ext c L) o = ext (deliver c o) L := by
  cases hst : c.st with
  | waiting fn wf wk aw =>
    cases hw : c.wfs[wf]? with
    | none => simp only [deliver, ext_st, ext_wfs, hst, hw]
    | some w =>
      cases w with
      | pending => simp only [deliver, ext_st, ext_wfs, hst, hw]; rfl
      | interrupted k =>
        cases wk with
        | none => simp only [deliver, ext_st, ext_wfs, hst, hw, Option.isNone_none, if_true]; rfl
        | some x => simp only [deliver, ext_st, ext_wfs, hst, hw, Option.isNone_some, Bool.false_eq_true, if_false]
      | result v => simp only [deliver, ext_st, ext_wfs, hst, hw]
      | failed e => simp only [deliver, ext_st, ext_wfs, hst, hw]
  | created fn => simp only [deliver, ext_st, hst]
  | running fn a k => simp only [deliver, ext_st, hst]
  | finished v ok => simp only [deliver, ext_st, hst]
  | excepted e => simp only [deliver, ext_st, hst]
  | killed => simp only [deliver, ext_st, hst]

theorem resume_ext (c : Cfg) (v : Option Val) : (resume (ext c L) v).1 = ext (resume c v).1 L := by
  unfold resume
  simp only [ext_st]
  split
  · simp only [deliver_ext]
  · rfl

end PMF
