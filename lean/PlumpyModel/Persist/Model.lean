import PlumpyModel.Gen.Persist
import PlumpyModel.Outline.Model
/-!
# Persistence model (C07, C08)

Hand-written executable mirror of `Savable.save / save_members / load / _get_value` (persistence.py),
`SavableFuture`, `EventHelper`, `Process.save_instance_state / load_instance_state / recreate_state`
(processes.py), the `save/load_instance_state` of every state class (process_states.py, workchains.Waiting),
`ContextMixin`, `WorkChain.save/load_instance_state` and the four steppers with `recreate_stepper` (workchains.py).
Core Lean only.

* The member sets iterated by `save_members` / `load_members`, the keys written and read by hand, the Savable base
  chain, the META constants and the loader identifiers come from the generated `Gen/Persist.lean`
  (`Gen.autoPersist`, `Gen.handSavedKeys`, `Gen.handKeyValues`, `Gen.savableBases`, `Gen.loaderIds`, …).
* Plain values are transported, never inspected: `copy.deepcopy`, `pickle`, PyYAML are trusted base and are the
  identity on `Val` (`Medium.*` below).  The one thing the code needs to know about a plain value is whether it can be
  deep-copied: `Val.live` stands for a value that contains a live awaitable (future / process), on which
  `copy.deepcopy` raises.
* Every place where the real code raises is a `BVal.poison e` written into the bundle by `save` (which `load`
  rejects with `e`), or an `Except.error` of `load`.
* Assumed contract of an `ObjectLoader`: `load_object (identify_object c) = c` (`Loader.ok`).
* Modelling limits (bundles outside the image of `save`): a `_fn` naming another step function than the instruction at
  that position, a pending `command` in a RUNNING state, an auto-persisted member holding a method, a SavableFuture
  whose result is itself a Savable are reported as `Err.foreign`; a workchain bundle without `_context` loads in
  Python into an object without `ctx` and is reported as `Err.attribute`.
-/
namespace Persist
open Outline

/-- plain values -/
inductive Val
  | none | nat (n : Nat) | bool (b : Bool) | str (s : String)
  | opaque (repr : String)      -- any other deep-copyable value, canonical rendering chosen by the harness
  | live                        -- contains a live awaitable: `copy.deepcopy` raises
deriving DecidableEq, Repr, Inhabited

inductive Err
  | keyMissing (k : String)     -- KeyError on the saved state
  | classNotFound (n : String)  -- ObjectLoader.load_object raised
  | unsavable                   -- deepcopy of a live awaitable
  | attribute (n : String)      -- AttributeError (a member the object does not have)
  | unknownKey (k : String)     -- the source writes a key this model does not know
  | badState                    -- unknown future state / ill-shaped stepper
  | index                       -- IndexError (position outside the instruction list)
  | foreign (what : String)     -- outside the image of `save` (see the file comment)
deriving DecidableEq, Repr, Inhabited

/-- values of a saved state: plain values, nested mappings (saved states, the META block, OUTPUTS) -/
inductive BVal
  | plain (v : Val)
  | dict (kv : List (String × BVal))
  | poison (e : Err)
deriving Repr, Inhabited

abbrev Bundle := List (String × BVal)

/-! ### mappings with insertion order -/
def bset : Bundle → String → BVal → Bundle
  | [], k, v => [(k, v)]
  | (k', v') :: r, k, v => if k' == k then (k', v) :: r else (k', v') :: bset r k v

def bget (b : Bundle) (k : String) : Option BVal := b.lookup k

/-- `copy.deepcopy(value)` of a plain member -/
def plainB (v : Val) : BVal := if v = .live then .poison .unsavable else .plain v

/-! ### generated tables -/
def members (cls : String) : List String := (Gen.autoPersist.lookup cls).getD []
def handSyms (cls : String) : List String := (Gen.handSavedKeys.lookup cls).getD []
def bases (cls : String) : List String := (Gen.savableBases.lookup cls).getD []
/-- the key a symbolic name of `cls` resolves to -/
def hk (cls sym : String) : String := ((Gen.handKeyValues.lookup cls).bind (fun l => l.lookup sym)).getD ("?" ++ sym)
/-- `DefaultObjectLoader.identify_object` on a plumpy class -/
def cid (cls : String) : String := (Gen.loaderIds.lookup cls).getD cls

abbrev futCls : String := "plumpy.persistence.SavableFuture"
abbrev ehCls : String := "plumpy.event_helper.EventHelper"
abbrev procCls : String := "plumpy.processes.Process"
abbrev chainCls : String := "plumpy.workchains.WorkChain"
abbrev ctxCls : String := "plumpy.mixins.ContextMixin"
abbrev createdCls : String := "plumpy.process_states.Created"
abbrev runningCls : String := "plumpy.process_states.Running"
abbrev waitingCls : String := "plumpy.process_states.Waiting"
abbrev wcWaitingCls : String := "plumpy.workchains.Waiting"
abbrev finishedCls : String := "plumpy.process_states.Finished"
abbrev exceptedCls : String := "plumpy.process_states.Excepted"
abbrev killedCls : String := "plumpy.process_states.Killed"
abbrev fnStepCls : String := "plumpy.workchains._FunctionStepper"
abbrev retStepCls : String := "plumpy.workchains._ReturnStepper"
abbrev blockStepCls : String := "plumpy.workchains._BlockStepper"
abbrev ifStepCls : String := "plumpy.workchains._IfStepper"
abbrev whileStepCls : String := "plumpy.workchains._WhileStepper"

/-! ### object loaders -/
structure Loader where
  name : String                      -- default identifier of the loader's class
  ident : String → String            -- identify_object
  resolve : String → Option String   -- load_object (none = raises)

structure Env where
  glob : Loader                      -- loaders.get_object_loader()
  find : String → Option Loader      -- instantiate the loader class with this identifier
  fnName : Nat → String              -- `__name__` of outline step function `f`

def Loader.ok (L : Loader) : Prop := ∀ c, L.resolve (L.ident c) = some c

/-- `E.glob` and the loader of the save context (if any) satisfy the loader contract, and the class of the latter can
be found and instantiated through the global loader (as `_ensure_object_loader` does) -/
def Env.ok (E : Env) (ctx : Option Loader) : Prop :=
  E.glob.ok ∧ ∀ L, ctx = some L → L.ok ∧ E.find L.name = some L

def defaultLoader : Loader := { name := "plumpy.loaders:DefaultObjectLoader", ident := id, resolve := some }

/-! ### META block -/
def metaOf (b : Bundle) : Bundle := match bget b Gen.meta_key with | some (.dict m) => m | _ => []
def subOf (m : Bundle) (k : String) : Bundle := match bget m k with | some (.dict t) => t | _ => []

/-- `Savable._get_create_meta(out_state)[k] = v` -/
def setMeta (b : Bundle) (k : String) (v : BVal) : Bundle := bset b Gen.meta_key (.dict (bset (metaOf b) k v))
/-- `Savable._set_meta_type` -/
def setMetaType (b : Bundle) (name tag : String) : Bundle :=
  setMeta b Gen.meta_types (.dict (bset (subOf (metaOf b) Gen.meta_types) name (.plain (.str tag))))
/-- `Savable.set_custom_meta` -/
def setUserMeta (b : Bundle) (name : String) (v : BVal) : Bundle :=
  setMeta b Gen.meta_user (.dict (bset (subOf (metaOf b) Gen.meta_user) name v))
def getMetaType (b : Bundle) (name : String) : Option BVal := bget (subOf (metaOf b) Gen.meta_types) name
def getUserMeta (b : Bundle) (name : String) : Option BVal := bget (subOf (metaOf b) Gen.meta_user) name

/-- the beginning of `Savable.save(save_context)`: object loader (if the context names one) and class name -/
def saveHeader (E : Env) (ctx : Option Loader) (clsId : String) : Bundle :=
  match ctx with
  | some L => setMeta (setUserMeta [] Gen.meta_object_loader (.plain (.str (E.glob.ident L.name))))
                Gen.meta_class_name (.plain (.str (L.ident clsId)))
  | none => setMeta [] Gen.meta_class_name (.plain (.str (E.glob.ident clsId)))

/-- `_ensure_object_loader`: the context's loader, else the one recorded in the saved state, else the global one -/
def ensureLoader (E : Env) (ctx : Option Loader) (b : Bundle) : Except Err Loader :=
  match ctx with
  | some L => .ok L
  | none =>
    match getUserMeta b Gen.meta_object_loader with
    | none => .ok E.glob
    | some (.plain (.str i)) =>
      (match E.glob.resolve i with
       | some n => (match E.find n with | some L => .ok L | none => .error (.classNotFound n))
       | none => .error (.classNotFound i))
    | some _ => .error (.foreign "object_loader")

/-- `loader.load_object(Savable._get_class_name(saved_state))` -/
def loadClass (L : Loader) (b : Bundle) : Except Err String :=
  match bget (metaOf b) Gen.meta_class_name with
  | some (.plain (.str n)) => (match L.resolve n with | some c => .ok c | none => .error (.classNotFound n))
  | _ => .error (.keyMissing Gen.meta_class_name)

/-! ### `save_members` / `load_members` -/
/-- `getattr(self, member)` -/
inductive MVal
  | plain (v : Val)
  | savable (b : Bundle)       -- `value.save(save_context)` of a member that is a Savable
  | missing                    -- AttributeError

def saveMember (b : Bundle) (m : String) : MVal → Bundle
  | .plain v => bset b m (plainB v)
  | .savable sb => bset (setMetaType b m Gen.meta_type_savable) m (.dict sb)
  | .missing => bset b m (.poison (.attribute m))

def saveMembers (get : String → MVal) (ms : List String) (b : Bundle) : Bundle :=
  ms.foldl (fun b m => saveMember b m (get m)) b

/-- what `_get_value` hands to `setattr` -/
inductive Loaded
  | plain (v : Val)
  | savable (b : Bundle)       -- to be passed to `Savable.load`

/-- `Savable._get_value` (the nested `Savable.load` is done by the receiver, which knows the expected class) -/
def getValue (b : Bundle) (name : String) : Except Err Loaded :=
  match bget b name with
  | none => .error (.keyMissing name)
  | some x =>
    match getMetaType b name with
    | some (.plain (.str t)) =>
      if t = Gen.meta_type_savable then
        (match x with | .dict sb => .ok (.savable sb) | .poison e => .error e | _ => .error (.foreign name))
      else .error (.foreign name)
    | some _ => .error (.foreign name)
    | none => (match x with | .plain v => .ok (.plain v) | .poison e => .error e | .dict _ => .error (.foreign name))

def loadMembers {α} (b : Bundle) (set : α → String → Loaded → Except Err α) : List String → α → Except Err α
  | [], a => .ok a
  | m :: ms, a => do
    let x ← getValue b m
    let a' ← set a m x
    loadMembers b set ms a'

/-- keys written by hand by the class's own `save_instance_state`: for every symbolic key of the generated table the
model supplies `some (some v)` (written), `some none` (condition false, not written) or `none` (a key this model
does not know: poison) -/
def bsetOpt (b : Bundle) (k : String) : Option BVal → Bundle
  | some v => bset b k v
  | none => b

def handStep (cls : String) (val : String → Option (Option BVal)) (b : Bundle) (sym : String) : Bundle :=
  match val sym with
  | some o => bsetOpt b (hk cls sym) o
  | none => bset b sym (.poison (.unknownKey sym))

def saveHand (cls : String) (val : String → Option (Option BVal)) (b : Bundle) : Bundle :=
  (handSyms cls).foldl (handStep cls val) b

/-- the `super().save_instance_state` chain of `cls`: base-most class first -/
def saveChain (cls : String) (val : String → String → Option (Option BVal)) (b : Bundle) : Bundle :=
  ((cls :: bases cls).reverse).foldl (fun b c => saveHand c (val c) b) b

def plainOf : Loaded → String → Except Err Val
  | .plain v, _ => .ok v
  | .savable _, n => .error (.foreign n)

/-! ### SavableFuture -/
inductive FutV | pending | result (v : Val) | exc (e : Val) | cancelled
deriving DecidableEq, Repr, Inhabited

def futMember (f : FutV) : String → MVal
  | "_state" => .plain (.str (match f with
      | .pending => Gen.futPending | .cancelled => Gen.futCancelled | _ => Gen.futFinished))
  | "_result" => .plain (match f with | .result v => v | _ => .none)
  | _ => .missing

def saveFuture (E : Env) (ctx : Option Loader) (f : FutV) : Bundle :=
  saveChain futCls (fun c sym =>
      if c = futCls ∧ sym = "exception" then some (match f with | .exc e => some (plainB e) | _ => none)
      else none)
    (saveMembers (futMember f) (members futCls) (saveHeader E ctx (cid futCls)))

/-- `SavableFuture.recreate_from` -/
def loadFuture (b : Bundle) : Except Err FutV :=
  match bget b "_state" with
  | some (.plain (.str s)) =>
    if s = Gen.futPending then .ok .pending
    else if s = Gen.futFinished then do
      let r ← getValue b "_result"
      let r ← plainOf r "_result"
      match bget b (hk futCls "exception") with
      | none => .ok (.result r)
      | some (.plain e) => .ok (.exc e)
      | some (.poison e) => .error e
      | some (.dict _) => .error (.foreign "exception")
    else if s = Gen.futCancelled then .ok .cancelled
    else .error .badState
  | some (.poison e) => .error e
  | some _ => .error (.foreign "_state")
  | none => .error (.keyMissing "_state")

/-- `Savable.load(value, load_context)` for a member expected to be a SavableFuture -/
def loadSavable (L : Loader) (cls : String) (sb : Bundle) : Except Err Unit := do
  let c ← loadClass L sb
  if c = cid cls then .ok () else .error (.foreign cls)

/-! ### EventHelper -/
structure EHV where
  listenerType : Val
  listeners : Val
deriving DecidableEq, Repr, Inhabited

def ehMember (e : EHV) : String → MVal
  | "_listener_type" => .plain e.listenerType
  | "_listeners" => .plain e.listeners
  | _ => .missing

def saveEH (E : Env) (ctx : Option Loader) (e : EHV) : Bundle :=
  saveChain ehCls (fun _ _ => none) (saveMembers (ehMember e) (members ehCls) (saveHeader E ctx (cid ehCls)))

def setEHMember (e : EHV) (name : String) (x : Loaded) : Except Err EHV :=
  if name = "_listener_type" then do let v ← plainOf x name; .ok { e with listenerType := v }
  else if name = "_listeners" then do let v ← plainOf x name; .ok { e with listeners := v }
  else .error (.attribute name)

def loadEH (b : Bundle) : Except Err EHV := loadMembers b setEHMember (members ehCls) { listenerType := .none, listeners := .none }

/-! ### state objects -/
inductive StateV
  | created (inState : Val) (fn : String) (args kwargs : Val)
  | running (inState : Val) (fn : String) (args kwargs : Val)
  /-- `awaiting = none`: `process_states.Waiting`; `some a`: `workchains.Waiting` with `_awaiting = a` -/
  | waiting (inState : Val) (cb : Option String) (msg data : Val) (awaiting : Option Val)
  | finished (inState : Val) (result successful : Val)
  | excepted (inState : Val) (exc : Val)          -- traceback text excluded (not restorable without tblib)
  | killed (inState : Val) (msg : Val)
deriving DecidableEq, Repr, Inhabited

def StateV.cls : StateV → String
  | .created .. => createdCls | .running .. => runningCls
  | .waiting _ _ _ _ none => waitingCls | .waiting _ _ _ _ (some _) => wcWaitingCls
  | .finished .. => finishedCls | .excepted .. => exceptedCls | .killed .. => killedCls

def StateV.inState : StateV → Val
  | .created i .. | .running i .. | .waiting i .. | .finished i .. | .excepted i .. | .killed i .. => i

def stateMember (s : StateV) : String → MVal
  | "in_state" => .plain s.inState
  | "args" => (match s with | .created _ _ a _ | .running _ _ a _ => .plain a | _ => .missing)
  | "kwargs" => (match s with | .created _ _ _ k | .running _ _ _ k => .plain k | _ => .missing)
  | "msg" => (match s with | .waiting _ _ m _ _ | .killed _ m => .plain m | _ => .missing)
  | "data" => (match s with | .waiting _ _ _ d _ => .plain d | _ => .missing)
  | "_awaiting" => (match s with | .waiting _ _ _ _ (some a) => .plain a | _ => .missing)
  | "result" => (match s with | .finished _ r _ => .plain r | _ => .missing)
  | "successful" => (match s with | .finished _ _ ok => .plain ok | _ => .missing)
  | _ => .missing

/-- the values of the keys written by hand by the state classes -/
def stateHand (s : StateV) (c sym : String) : Option (Option BVal) :=
  if c = createdCls ∧ sym = "RUN_FN" then (match s with | .created _ f _ _ => some (some (.plain (.str f))) | _ => none)
  else if c = runningCls ∧ sym = "RUN_FN" then (match s with | .running _ f _ _ => some (some (.plain (.str f))) | _ => none)
  else if c = runningCls ∧ sym = "COMMAND" then some none           -- `_command` is None in every state the code creates
  else if c = waitingCls ∧ sym = "DONE_CALLBACK" then
    (match s with | .waiting _ cb _ _ _ => some (cb.map (fun n => .plain (.str n))) | _ => none)
  else if c = exceptedCls ∧ sym = "EXC_VALUE" then (match s with | .excepted _ e => some (some (plainB e)) | _ => none)
  else if c = exceptedCls ∧ sym = "TRACEBACK" then some none          -- excluded by the property
  else none

/-- `self._state.save()` (no save context: class named by the global loader, no loader recorded) -/
def saveState (E : Env) (s : StateV) : Bundle :=
  saveChain s.cls (stateHand s) (saveMembers (stateMember s) (members s.cls) (saveHeader E none (cid s.cls)))

def setStateMember (s : StateV) (name : String) (x : Loaded) : Except Err StateV := do
  let v ← plainOf x name
  match name, s with
  | "in_state", .created _ f a k => .ok (.created v f a k)
  | "in_state", .running _ f a k => .ok (.running v f a k)
  | "in_state", .waiting _ c m d aw => .ok (.waiting v c m d aw)
  | "in_state", .finished _ r ok => .ok (.finished v r ok)
  | "in_state", .excepted _ e => .ok (.excepted v e)
  | "in_state", .killed _ m => .ok (.killed v m)
  | "args", .created i f _ k => .ok (.created i f v k)
  | "args", .running i f _ k => .ok (.running i f v k)
  | "kwargs", .created i f a _ => .ok (.created i f a v)
  | "kwargs", .running i f a _ => .ok (.running i f a v)
  | "msg", .waiting i c _ d aw => .ok (.waiting i c v d aw)
  | "msg", .killed i _ => .ok (.killed i v)
  | "data", .waiting i c m _ aw => .ok (.waiting i c m v aw)
  | "_awaiting", .waiting i c m d (some _) => .ok (.waiting i c m d (some v))
  | "result", .finished i _ ok => .ok (.finished i v ok)
  | "successful", .finished i r _ => .ok (.finished i r v)
  | n, _ => .error (.attribute n)

def strAt (b : Bundle) (k : String) : Except Err String :=
  match bget b k with
  | some (.plain (.str s)) => .ok s
  | some (.poison e) => .error e
  | some _ => .error (.foreign k)
  | none => .error (.keyMissing k)

/-- `Process.recreate_state`: `Savable.load(saved_state, LoadSaveContext(process=self))`, then the class's
`load_instance_state` -/
def loadState (E : Env) (b : Bundle) : Except Err StateV := do
  let L ← ensureLoader E none b
  let c ← loadClass L b
  if c = cid createdCls then do
    let s ← loadMembers b setStateMember (members createdCls) (.created .none "" .none .none)
    let f ← strAt b (hk createdCls "RUN_FN")
    match s with | .created i _ a k => .ok (.created i f a k) | _ => .error .badState
  else if c = cid runningCls then do
    let s ← loadMembers b setStateMember (members runningCls) (.running .none "" .none .none)
    let f ← strAt b (hk runningCls "RUN_FN")
    match bget b (hk runningCls "COMMAND") with
    | some _ => .error (.foreign "command")
    | none => match s with | .running i _ a k => .ok (.running i f a k) | _ => .error .badState
  else if c = cid waitingCls ∨ c = cid wcWaitingCls then do
    let blank : StateV := .waiting .none none .none .none (if c = cid wcWaitingCls then some .none else none)
    let s ← loadMembers b setStateMember (members (if c = cid wcWaitingCls then wcWaitingCls else waitingCls)) blank
    let cb ← (match bget b (hk waitingCls "DONE_CALLBACK") with
      | none => .ok none
      | some (.plain (.str n)) => .ok (some n)
      | some (.poison e) => .error e
      | some _ => .error (.foreign "DONE_CALLBACK") : Except Err (Option String))
    match s with | .waiting i _ m d aw => .ok (.waiting i cb m d aw) | _ => .error .badState
  else if c = cid finishedCls then
    loadMembers b setStateMember (members finishedCls) (.finished .none .none .none)
  else if c = cid exceptedCls then do
    let s ← loadMembers b setStateMember (members exceptedCls) (.excepted .none .none)
    match bget b (hk exceptedCls "EXC_VALUE") with
    | some (.plain e) => (match s with | .excepted i _ => .ok (.excepted i e) | _ => .error .badState)
    | some (.poison e) => .error e
    | some _ => .error (.foreign "ex_value")
    | none => .error (.keyMissing (hk exceptedCls "EXC_VALUE"))
  else if c = cid killedCls then
    loadMembers b setStateMember (members killedCls) (.killed .none .none)
  else .error (.foreign "state class")

/-! ### steppers: `Stepper.save()` and `_Instruction.recreate_stepper` -/
def posMember (s : St) : String → MVal
  | "_pos" => (match s with | .node pos _ => .plain (.nat pos) | .leaf => .missing)
  | _ => .missing

def childHand (cls : String) (child : Option BVal) (c sym : String) : Option (Option BVal) :=
  if c = cls ∧ sym = "STEPPER_STATE" then some child else none

mutual
def saveI (E : Env) : Instr → St → Bundle
  | .call f, _ =>
      saveChain fnStepCls (fun c sym => if c = fnStepCls ∧ sym = "_fn" then some (some (.plain (.str (E.fnName f)))) else none)
        (saveMembers (fun _ => .missing) (members fnStepCls) (saveHeader E none (cid fnStepCls)))
  | .ret _, _ =>
      saveChain retStepCls (fun _ _ => none)
        (saveMembers (fun _ => .missing) (members retStepCls) (saveHeader E none (cid retStepCls)))
  | .ite bs, s =>
      let child : Option BVal := match s with
        | .node pos (some c) =>
          (match h : bs[pos]? with
           | some br => some (.dict (saveB E br.2 c))
           | none => some (.poison .index))
        | _ => none
      saveChain ifStepCls (childHand ifStepCls child)
        (saveMembers (posMember s) (members ifStepCls) (saveHeader E none (cid ifStepCls)))
  | .while_ _ body, s =>
      let child : Option BVal := match s with
        | .node _ (some c) => some (.dict (saveB E body c))
        | _ => none
      saveChain whileStepCls (childHand whileStepCls child)
        (saveMembers (posMember s) (members whileStepCls) (saveHeader E none (cid whileStepCls)))
termination_by i => sizeOf i
decreasing_by
  all_goals simp_wf
  · have := sizeOf_body_lt h; omega
  · omega
def saveB (E : Env) : Block → St → Bundle
  | is, s =>
      let child : Option BVal := match s with
        | .node pos (some c) =>
          (match h : is[pos]? with
           | some i => some (.dict (saveI E i c))
           | none => some (.poison .index))
        | _ => none
      saveChain blockStepCls (childHand blockStepCls child)
        (saveMembers (posMember s) (members blockStepCls) (saveHeader E none (cid blockStepCls)))
termination_by is => sizeOf is
decreasing_by
  all_goals simp_wf
  have hm : i ∈ is := List.mem_of_getElem? h
  have := List.sizeOf_lt_of_mem hm
  omega
end

/-- `load_members` of a stepper with a position: the only member the model knows is `_pos` -/
def setPos (p : Option Nat) (name : String) (x : Loaded) : Except Err (Option Nat) :=
  if name = "_pos" then
    (match x with | .plain (.nat n) => .ok (some n) | _ => .error (.foreign "_pos"))
  else .error (.attribute name)

def childAt (b : Bundle) (cls : String) : Except Err (Option Bundle) :=
  match bget b (hk cls "STEPPER_STATE") with
  | none => .ok none
  | some (.dict cb) => .ok (some cb)
  | some (.poison e) => .error e
  | some (.plain _) => .error (.foreign "stepper_state")

mutual
def restoreI (E : Env) : Instr → Bundle → Except Err St
  | .call f, b => do
      let _ ← loadMembers b setPos (members fnStepCls) none
      let n ← strAt b (hk fnStepCls "_fn")
      -- `getattr(workchain.__class__, name)`: the model identifies the function stepper with its instruction
      if n = E.fnName f then .ok .leaf else .error (.foreign "_fn")
  | .ret _, _ => .ok .leaf                      -- `_Return.recreate_stepper` ignores the saved state
  | .ite bs, b => do
      let p ← loadMembers b setPos (members ifStepCls) none
      let cb ← childAt b ifStepCls
      match p with
      | none => .error (.attribute "_pos")
      | some pos =>
        match cb with
        | none => .ok (.node pos none)
        | some cb =>
          match h : bs[pos]? with
          | none => .error .index
          | some br => do
            let c ← restoreB E br.2 cb
            .ok (.node pos (some c))
  | .while_ _ body, b => do
      let _ ← loadMembers b setPos (members whileStepCls) none
      let cb ← childAt b whileStepCls
      match cb with
      | none => .ok (.node 0 none)
      | some cb => do
        let c ← restoreB E body cb
        .ok (.node 0 (some c))
termination_by i => sizeOf i
decreasing_by
  all_goals simp_wf
  · have := sizeOf_body_lt h; omega
  · omega
def restoreB (E : Env) : Block → Bundle → Except Err St
  | is, b => do
      let p ← loadMembers b setPos (members blockStepCls) none
      let cb ← childAt b blockStepCls
      match p with
      | none => .error (.attribute "_pos")
      | some pos =>
        match cb with
        | none => .ok (.node pos none)
        | some cb =>
          match h : is[pos]? with
          | none => .error .index
          | some i => do
            let c ← restoreI E i cb
            .ok (.node pos (some c))
termination_by is => sizeOf is
decreasing_by
  all_goals simp_wf
  have hm : i ∈ is := List.mem_of_getElem? h
  have := List.sizeOf_lt_of_mem hm
  omega
end

/-- `WorkChainSpec.outline`: a single command is its own instruction, several form a `_Block`.  The model keeps the
stepper state of a chain as a block state in both cases (`.node 0 (some c)` for a single instruction). -/
def saveTop (E : Env) (is : Block) (s : St) : Bundle :=
  match is, s with
  | [i], .node 0 (some c) => saveI E i c
  | [_], _ => [(Gen.meta_key, .poison .badState)]
  | _, _ => saveB E is s

def restoreTop (E : Env) (is : Block) (b : Bundle) : Except Err St :=
  match is with
  | [i] => do let c ← restoreI E i b; .ok (.node 0 (some c))
  | _ => restoreB E is b

/-! ### the process -/
structure ChainV where
  ctx : Val
  stepper : Option St
deriving Repr, Inhabited

/-- the persisted view of a process -/
structure View where
  pid : Val
  ctime : Val
  status : Val
  prePaused : Val
  paused : Option FutV            -- `_paused`: None or a SavableFuture
  future : FutV
  eh : EHV
  inputsRaw : Option Val
  inputsParsed : Option Val
  outputs : List (String × Val)
  state : StateV
  chain : Option ChainV           -- ContextMixin + WorkChain part
deriving Repr, Inhabited

/-- what is known about the process class: its identifier and, for a WorkChain, its outline -/
structure Cls where
  name : String
  outline : Option Block

def Cls.base (C : Cls) : String := if C.outline.isSome then chainCls else procCls

def procMember (E : Env) (ctx : Option Loader) (v : View) : String → MVal
  | "_pid" => .plain v.pid
  | "_creation_time" => .plain v.ctime
  | "_status" => .plain v.status
  | "_pre_paused_status" => .plain v.prePaused
  | "_paused" => (match v.paused with | none => .plain .none | some f => .savable (saveFuture E ctx f))
  | "_future" => .savable (saveFuture E ctx v.future)
  | "_event_helper" => .savable (saveEH E ctx v.eh)
  | _ => .missing

/-- `if self.outputs: out_state[OUTPUTS] = self.encode_input_args(self.outputs)` -/
def encodeOutputs (l : List (String × Val)) : Option BVal :=
  if l.isEmpty then none else some (.dict (l.map (fun kv => (kv.1, plainB kv.2))))

def procHand (E : Env) (C : Cls) (v : View) (c sym : String) : Option (Option BVal) :=
  if c = procCls then
    if sym = "_state" then some (some (.dict (saveState E v.state)))
    else if sym = "INPUTS_RAW" then some (v.inputsRaw.map plainB)
    else if sym = "INPUTS_PARSED" then some (v.inputsParsed.map plainB)
    else if sym = "OUTPUTS" then some (encodeOutputs v.outputs)
    else none
  else if c = ctxCls ∧ sym = "CONTEXT" then some (v.chain.map (fun ch => plainB ch.ctx))
  else if c = chainCls ∧ sym = "_STEPPER_STATE" then
    some (match v.chain, C.outline with
      | some ch, some is => ch.stepper.map (fun s => .dict (saveTop E is s))
      | _, _ => none)
  else none

/-- `Savable.save(save_context)` on a process -/
def save (E : Env) (C : Cls) (ctx : Option Loader) (v : View) : Bundle :=
  saveChain C.base (procHand E C v) (saveMembers (procMember E ctx v) (members C.base) (saveHeader E ctx C.name))

def setProcMember (L : Loader) (v : View) (name : String) (x : Loaded) : Except Err View :=
  if name = "_pid" then do let p ← plainOf x name; .ok { v with pid := p }
  else if name = "_creation_time" then do let p ← plainOf x name; .ok { v with ctime := p }
  else if name = "_status" then do let p ← plainOf x name; .ok { v with status := p }
  else if name = "_pre_paused_status" then do let p ← plainOf x name; .ok { v with prePaused := p }
  else if name = "_paused" then
    (match x with
     | .plain .none => .ok { v with paused := none }
     | .plain _ => .error (.foreign name)
     | .savable sb => do loadSavable L futCls sb; let f ← loadFuture sb; .ok { v with paused := some f })
  else if name = "_future" then
    (match x with
     | .plain _ => .error (.foreign name)
     | .savable sb => do loadSavable L futCls sb; let f ← loadFuture sb; .ok { v with future := f })
  else if name = "_event_helper" then
    (match x with
     | .plain _ => .error (.foreign name)
     | .savable sb => do loadSavable L ehCls sb; let e ← loadEH sb; .ok { v with eh := e })
  else .error (.attribute name)

def decodeOpt (k : String) : Option BVal → Except Err (Option Val)
  | none => .ok none
  | some (.plain v) => .ok (some v)
  | some (.poison e) => .error e
  | some (.dict _) => .error (.foreign k)

def optPlain (b : Bundle) (k : String) : Except Err (Option Val) := decodeOpt k (bget b k)

def unplain : List (String × BVal) → Except Err (List (String × Val))
  | [] => .ok []
  | (k, .plain v) :: r => do let r' ← unplain r; .ok ((k, v) :: r')
  | (_, .poison e) :: _ => .error e
  | (k, .dict _) :: _ => .error (.foreign k)

def decodeOutputs : Option BVal → Except Err (List (String × Val))
  | none => .ok []
  | some (.dict o) => unplain o
  | some (.poison e) => .error e
  | some (.plain _) => .error (.foreign "OUTPUTS")

def decodeDict (k : String) : Option BVal → Except Err Bundle
  | some (.dict sb) => .ok sb
  | some (.poison e) => .error e
  | some (.plain _) => .error (.foreign k)
  | none => .error (.keyMissing k)

/-- `WorkChain.load_instance_state`: no stepper state, or `get_outline().recreate_stepper(stepper_state, self)` -/
def decodeStepper (E : Env) (is : Block) : Option BVal → Except Err (Option St)
  | none => .ok none
  | some (.dict sb) => do let s ← restoreTop E is sb; .ok (some s)
  | some (.poison e) => .error e
  | some (.plain _) => .error (.foreign "stepper_state")

def blankView (st : StateV) : View :=
  { pid := .none, ctime := .none, status := .none, prePaused := .none, paused := none, future := .pending,
    eh := { listenerType := .none, listeners := .none }, inputsRaw := none, inputsParsed := none, outputs := [],
    state := st, chain := none }

/-- `Savable.load(saved_state, load_context)` on a process bundle: `recreate_from` → `load_instance_state` along the
`super()` chain (`Process`, then `ContextMixin`, then `WorkChain`) -/
def load (E : Env) (C : Cls) (ctx : Option Loader) (b : Bundle) : Except Err View := do
  let L ← ensureLoader E ctx b
  let c ← loadClass L b
  if c ≠ C.name then .error (.foreign "process class") else
  -- Process.load_instance_state
  let sb ← decodeDict "_state" (bget b (hk procCls "_state"))
  let st ← loadState E sb
  let v ← loadMembers b (setProcMember L) (members C.base) (blankView st)
  let raw ← optPlain b (hk procCls "INPUTS_RAW")
  let parsed ← optPlain b (hk procCls "INPUTS_PARSED")
  let outs ← decodeOutputs (bget b (hk procCls "OUTPUTS"))
  let v := { v with inputsRaw := raw, inputsParsed := parsed, outputs := outs }
  match C.outline with
  | none => .ok v
  | some is => do
    -- ContextMixin.load_instance_state
    let cx ← optPlain b (hk ctxCls "CONTEXT")
    match cx with
    | none => .error (.attribute "_context")
    | some cx =>
      -- WorkChain.load_instance_state
      let s ← decodeStepper E is (bget b (hk chainCls "_STEPPER_STATE"))
      .ok { v with chain := some { ctx := cx, stepper := s } }

/-! ### the three media (trusted base: identity on bundles, exercised by the correspondence check) -/
namespace Medium
def deepcopy (b : Bundle) : Bundle := b
def pickle (b : Bundle) : Bundle := b
def yaml (b : Bundle) : Bundle := b
end Medium

/-! ### which views can be saved -/
def okVal (v : Val) : Bool := v != .live

def FutV.ok : FutV → Bool
  | .result v => okVal v | .exc e => okVal e | _ => true

def StateV.ok : StateV → Bool
  | .created i _ a k | .running i _ a k => okVal i && okVal a && okVal k
  | .waiting i _ m d aw => okVal i && okVal m && okVal d && (match aw with | none => true | some a => okVal a)
  | .finished i r ok => okVal i && okVal r && okVal ok
  | .excepted i e => okVal i && okVal e
  | .killed i m => okVal i && okVal m

mutual
/-- stepper states as the typed stepper objects can hold them (`_FunctionStepper` / `_ReturnStepper` have no state,
a `_WhileStepper` no position) -/
def shapeI : Instr → St → Bool
  | .call _, s => (match s with | .leaf => true | _ => false)
  | .ret _, s => (match s with | .leaf => true | _ => false)
  | .ite bs, s =>
      (match s with
       | .leaf => false
       | .node _ none => true
       | .node pos (some c) => (match h : bs[pos]? with | some br => shapeB br.2 c | none => false))
  | .while_ _ body, s =>
      (match s with
       | .leaf => false
       | .node pos none => pos == 0
       | .node pos (some c) => pos == 0 && shapeB body c)
termination_by i => sizeOf i
decreasing_by
  all_goals simp_wf
  · have := sizeOf_body_lt h; omega
  · omega
def shapeB : Block → St → Bool
  | is, s =>
      (match s with
       | .leaf => false
       | .node _ none => true
       | .node pos (some c) => (match h : is[pos]? with | some i => shapeI i c | none => false))
termination_by is => sizeOf is
decreasing_by
  all_goals simp_wf
  have hm : i ∈ is := List.mem_of_getElem? h
  have := List.sizeOf_lt_of_mem hm
  omega
end

def shapeTop (is : Block) (s : St) : Bool :=
  match is, s with
  | [i], .node 0 (some c) => shapeI i c
  | [_], _ => false
  | _, _ => shapeB is s

/-- **Savable**: no payload contains a live awaitable, the chain part is present exactly for WorkChain classes and the
stepper state is one the typed stepper objects can hold -/
def savable (C : Cls) (v : View) : Bool :=
  okVal v.pid && okVal v.ctime && okVal v.status && okVal v.prePaused &&
  (match v.paused with | none => true | some f => f.ok) && v.future.ok &&
  okVal v.eh.listenerType && okVal v.eh.listeners &&
  (match v.inputsRaw with | none => true | some x => okVal x) &&
  (match v.inputsParsed with | none => true | some x => okVal x) &&
  v.outputs.all (fun kv => okVal kv.2) && v.state.ok &&
  (match C.outline, v.chain with
   | none, none => true
   | some is, some ch => okVal ch.ctx && (match ch.stepper with | none => true | some s => shapeTop is s)
   | _, _ => false)

/-! ### observables of C07 -/
inductive Outcome
  | live
  | finished (result successful : Val)
  | excepted (exc : Val)
  | killed (msg : Val)
deriving DecidableEq, Repr

structure Obs where
  pid : Val
  label : String
  inputsRaw : Option Val
  inputsParsed : Option Val
  outputs : List (String × Val)
  ctx : Option Val
  status : Val
  paused : Bool
  ctime : Val
  outcome : Outcome
deriving DecidableEq, Repr

def StateV.label : StateV → String
  | .created .. => "created" | .running .. => "running" | .waiting .. => "waiting"
  | .finished .. => "finished" | .excepted .. => "excepted" | .killed .. => "killed"

def StateV.outcome : StateV → Outcome
  | .finished _ r ok => .finished r ok | .excepted _ e => .excepted e | .killed _ m => .killed m | _ => .live

/-- `pid`, `state`, `raw_inputs`, `inputs`, `outputs`, `ctx`, `status`, `paused`, `creation_time`,
`result()/successful()/exception()/killed_msg()` as functions of the persisted view -/
def observe (v : View) : Obs :=
  { pid := v.pid, label := v.state.label, inputsRaw := v.inputsRaw, inputsParsed := v.inputsParsed,
    outputs := v.outputs, ctx := v.chain.map (·.ctx), status := v.status, paused := v.paused.isSome,
    ctime := v.ctime, outcome := v.state.outcome }

/-! ### crash / restore chains of `_do_step` calls (C08) -/
inductive Seg (σ : Type) where
  | running (s : St) (w : σ)
  | finished (r : Ret) (w : σ)
  | failed

/-- `n` consecutive `_do_step` calls (fewer if the chain finishes) -/
def runSteps {σ} (W : World σ) (is : Block) : Nat → St → σ → Seg σ
  | 0, s, w => .running s w
  | n+1, s, w =>
    match doStep W is s w with
    | .cont s' w' _ => runSteps W is n s' w'
    | .done r w' => .finished r w'
    | .error _ => .failed

/-- the chain with crash points: after `n` further `_do_step` calls the stepper is saved, the instance abandoned, the
stepper recreated from the saved state (a failing restore ends the run) and the chain continued -/
def runCrash {σ} (E : Env) (W : World σ) (is : Block) (fuel : Nat) : List Nat → St → σ → Option (Ret × σ)
  | [], s, w => runChain W is fuel s w
  | n :: cs, s, w =>
    match runSteps W is n s w with
    | .running s' w' =>
      (match restoreTop E is (saveTop E is s') with
       | .ok s'' => runCrash E W is fuel cs s'' w'
       | .error _ => none)
    | .finished r w' => some (r, w')
    | .failed => none


end Persist
