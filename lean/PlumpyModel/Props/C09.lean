import PlumpyModel.Outline.Proof
/-!
# C09 — a WorkChain executes its outline as the structured program it denotes

Model: `Outline.stepI/stepB` (the steppers), `Outline.doStep` (`WorkChain._do_step`), `Outline.runChain`
(the chain of `_do_step` calls).  Specification: the textbook small-step semantics `Outline.ref1` of structured
programs on a continuation (`call`: call and continue; `ite`: predicates in order up to the first true one, no later
one; `while_`: predicate before every iteration; `ret` / empty continuation: halt).

The world `σ` and the oracle `W` (results of every step function and predicate as a function of the whole world so
far) are universally quantified; instantiating `σ` with the call history makes equality of worlds equality of call
traces, which is how the driver and the harness use it.
-/
namespace Outline

/-- reference configuration after `n` steps, forgetting the value register -/
def refCfg {σ} (W : World σ) (n : Nat) (k : Block) (w : σ) : Block × σ :=
  ((refIter W n k w .none).1, (refIter W n k w .none).2.1)

theorem refIter_cfg_indep {σ} (W : World σ) (n : Nat) (k : Block) (w : σ) (r r' : Ret) :
    (refIter W n k w r).1 = (refIter W n k w r').1 ∧ (refIter W n k w r).2.1 = (refIter W n k w r').2.1 := by
  induction n generalizing k w r r' with
  | zero => simp [refIter]
  | succ n ih =>
    simp only [refIter]
    cases h : ref1 W k w with
    | halt => simp
    | next k' w' ro => simp only; exact ih ..

theorem refCfg_add {σ} (W : World σ) (n m : Nat) (k : Block) (w : σ) :
    refCfg W (n + m) k w = refCfg W m (refCfg W n k w).1 (refCfg W n k w).2 := by
  unfold refCfg
  rw [refIter_add]
  have h := refIter_cfg_indep W m (refIter W n k w .none).1 (refIter W n k w .none).2.1
    (refIter W n k w .none).2.2 .none
  simp only [h.1, h.2]

theorem refCfg_of_refIter {σ} (W : World σ) {n : Nat} {k k' : Block} {w w' : σ} {r : Ret}
    (h : refIter W n k w .none = (k', w', r)) : refCfg W n k w = (k', w') := by
  simp [refCfg, h]

/-- how a chain may end, in terms of the reference configuration `k'` it stopped at, the value register `r` of the
last `_do_step` call (the value of the step function it called, `.none` if it called none), and the result -/
def Final (k' : Block) (r res : Ret) : Prop :=
  (k' = [] ∧ res = r)                                         -- ran off the end of the outline
  ∨ (∃ c k'', k' = .ret c :: k'' ∧ res = retOfCode c)         -- reached a `return_`
  ∨ (∃ v, r = .val v ∧ res = .val v)                           -- a step returned a value: stop at once

/-- **C09, one `_do_step`**: a call of `_do_step` in a live stepper state performs finitely many steps of the
reference semantics on the remaining program `absB is s`; if it asks to be continued, the new stepper state is live and
denotes the reference's remaining program (so the statement applies again — also along non-terminating chains). -/
theorem C09_doStep_refines {σ} (W : World σ) (is : Block) (hwf : wfB is = true) (s : St) (w : σ)
    (hinv : invB is s) :
    match doStep W is s w with
    | .cont s' w' r => ∃ n, refIter W n (absB is s) w .none = (absB is s', w', r) ∧ invB is s' ∧ isCtxOrNone r = true
    | .done res w' => ∃ n k' r, refIter W n (absB is s) w .none = (k', w', r) ∧ Final k' r res
    | .error _ => False := by
  have hs := stepper_refines W is hwf s w [] hinv
  unfold doStep
  cases hst : stepB W is s w with
  | error w' => rw [hst] at hs; simp [Sim] at hs
  | propagate c w' =>
    rw [hst] at hs
    obtain ⟨n, k', h1, h2⟩ := hs
    simp only [List.append_nil] at h1 h2
    refine ⟨n, .ret c :: k', (refIter W n (absB is s) w .none).2.2, ?_, Or.inr (Or.inl ⟨c, k', rfl, rfl⟩)⟩
    rw [← h1, ← h2]
  | ok fin r s' w' =>
    rw [hst] at hs
    obtain ⟨n, h1, h2⟩ := hs
    simp only [List.append_nil] at h1
    by_cases hc : (!fin && isCtxOrNone r) = true
    · simp only [hc, if_true]
      have hfin : fin = false := by cases fin <;> simp_all
      have hr : isCtxOrNone r = true := by cases fin <;> simp_all
      subst hfin
      exact ⟨n, by simpa using h1, h2 rfl, hr⟩
    · simp only [hc]
      cases fin with
      | true => exact ⟨n, [], r, by simpa using h1, Or.inl ⟨rfl, rfl⟩⟩
      | false =>
        have hr : isCtxOrNone r = false := by simpa using hc
        refine ⟨n, absB is s', r, by simpa using h1, Or.inr (Or.inr ?_)⟩
        cases r <;> simp [isCtxOrNone] at hr
        exact ⟨_, rfl, rfl⟩

/-- **C09, whole chain**: if the chain of `_do_step` calls started in a live stepper state ends with result `res` in
world `w'`, then the reference semantics, started on the remaining program in the same world, reaches world `w'`
(the same history of step and predicate calls, in the same order, and nothing after it) by `n₁` steps (the earlier
calls) followed by the `n₂` steps of the last call, and the result is classified by `Final`: the `return_` code, the
stopping value, or the value of the step called last (`None` when the last call only evaluated predicates). -/
theorem C09_chain_refines {σ} (W : World σ) (is : Block) (hwf : wfB is = true) (fuel : Nat) (s : St) (w : σ)
    (hinv : invB is s) (res : Ret) (w' : σ) (h : runChain W is fuel s w = some (res, w')) :
    ∃ n₁ k₁ w₁ n₂ k' r, refCfg W n₁ (absB is s) w = (k₁, w₁) ∧ refIter W n₂ k₁ w₁ .none = (k', w', r) ∧
      Final k' r res := by
  induction fuel generalizing s w with
  | zero => simp [runChain] at h
  | succ fuel ih =>
    have hd := C09_doStep_refines W is hwf s w hinv
    simp only [runChain] at h
    cases hdo : doStep W is s w with
    | error w2 => rw [hdo] at hd; exact hd.elim
    | done r2 w2 =>
      rw [hdo] at hd h
      simp only [Option.some.injEq, Prod.mk.injEq] at h
      obtain ⟨rfl, rfl⟩ := h
      obtain ⟨n, k', r, h1, h2⟩ := hd
      exact ⟨0, absB is s, w, n, k', r, by simp [refCfg, refIter], h1, h2⟩
    | cont s2 w2 r2 =>
      rw [hdo] at hd h
      obtain ⟨n, h1, h2, _⟩ := hd
      obtain ⟨n₁, k₁, w₁, n₂, k', r, g1, g2, g3⟩ := ih s2 w2 h2 h
      refine ⟨n + n₁, k₁, w₁, n₂, k', r, ?_, g2, g3⟩
      rw [refCfg_add, refCfg_of_refIter W h1]
      exact g1

/-- the chain started on a whole well-formed outline: specialisation to the initial stepper -/
theorem C09_outline_refines {σ} (W : World σ) (is : Block) (hwf : wfB is = true) (fuel : Nat) (w : σ)
    (res : Ret) (w' : σ) (h : runChain W is fuel (createBlock is) w = some (res, w')) :
    ∃ n₁ k₁ w₁ n₂ k' r, refCfg W n₁ is w = (k₁, w₁) ∧ refIter W n₂ k₁ w₁ .none = (k', w', r) ∧ Final k' r res := by
  have hi := initial_stepper is hwf
  have := C09_chain_refines W is hwf fuel (createBlock is) w hi.2 res w' h
  rwa [hi.1] at this

/-! The clauses of the property about `if_`/`elif_`/`else_` and `while_` are properties of the specification `ref1`;
they are stated here so that the specification itself is pinned down. -/

/-- `if_`: a true predicate selects its body and no later predicate is evaluated (the world only records `p`) -/
theorem C09_if_first_true {σ} (W : World σ) (p : Nat) (b : Block) (rest : List Branch) (k : Block) (w : σ)
    (ht : (W.pred w p).2 = true) :
    ref1 W (.ite ((some p, b) :: rest) :: k) w = .next (b ++ k) (W.pred w p).1 none := by
  simp [ref1, ht]

/-- `if_`: a false predicate moves on to the next branch, `else_` is taken unconditionally, no branch: skip -/
theorem C09_if_false_next {σ} (W : World σ) (p : Nat) (b : Block) (rest : List Branch) (k : Block) (w : σ)
    (hf : (W.pred w p).2 = false) :
    ref1 W (.ite ((some p, b) :: rest) :: k) w = .next (.ite rest :: k) (W.pred w p).1 none := by
  simp [ref1, hf]

theorem C09_else_taken {σ} (W : World σ) (b : Block) (rest : List Branch) (k : Block) (w : σ) :
    ref1 W (.ite ((none, b) :: rest) :: k) w = .next (b ++ k) w none := by
  simp [ref1]

/-- `while_` evaluates its predicate before every iteration: after the body the loop itself is next -/
theorem C09_while_reevaluates {σ} (W : World σ) (p : Nat) (b : Block) (k : Block) (w : σ) :
    ref1 W (.while_ p b :: k) w =
      if (W.pred w p).2 then .next (b ++ .while_ p b :: k) (W.pred w p).1 none else .next k (W.pred w p).1 none := by
  simp [ref1]

/-- `return_` halts the reference: nothing after it is executed -/
theorem C09_return_halts {σ} (W : World σ) (c : Option Int) (k : Block) (w : σ) (n : Nat) (r : Ret) :
    refIter W n (.ret c :: k) w r = (.ret c :: k, w, r) := by
  cases n <;> simp [refIter, ref1]

-- non-vacuity: a concrete nested outline is well formed and its chain terminates with a `return_` code
section
private def demoW : World (List Nat) where
  stepFn w f := (f :: w, .none)
  pred w p := ((100 + p) :: w, w.length < 4)
private def demo : Block := [.call 1, .while_ 0 [.call 2, .ite [(some 1, [.ret (some 7)])]], .call 3]
example : wfB demo = true := by decide
example : runChain demoW demo 10 (createBlock demo) [] = some (.val 7, [101, 2, 100, 1]) := by decide +kernel
end

end Outline
