import PlumpyModel.Persister.Proof
/-!
# C14 — persisters are a snapshot store keyed by (pid, tag), equivalent to each other

Models (`PlumpyModel/Persister/Model.lean`): `Mem.*` (`InMemoryPersister`, nested dictionaries), `Pkl.*`
(`PicklePersister`, a directory as a map from file name to `(checkpoint, bundle)`, `pickleFilename` from the
regenerated templates `Gen.pickleNameTagged/Untagged`, listing by suffix filter, delete ignoring absence),
`Flat.*` (one flat dictionary: the executable presentation of the specification printed by the driver).
Specification: `Spec = Key → Option Snap` with `save/load/del/delp` and the listing predicates `Lists/ListsP`.

A history is a `List Op` (save / load / list / listp / del / delp / progress of a live process);
`runSt`, `runRes`, `runCur` give the persister, the observations and the live processes after it.
The side condition of the property is `SideCondition ops` (`∃ K, wfHist K ops`): every id and tag is of one kind and
separator-free. The in-memory persister needs no side condition.
-/
namespace Persister
open AList

/-! concrete ids used by the non-vacuity examples -/
private def pA : Pid := ⟨.str, "alpha"⟩
private def pB : Pid := ⟨.str, "beta"⟩
private def t1 : Tag := some ⟨.str, "t1"⟩
private def t2 : Tag := some ⟨.str, "pickle"⟩      -- a tag that looks like the suffix is fine
private def cur0 : Cur := fun p => if p = pA then 10 else 20
/-- a history with overwrites, several pids and tags, deletes of absent keys and progress between save and load -/
private def hist : List Op :=
  [.save pA t1, .progress pA 11, .save pA none, .save pB t2, .load pA t1, .list, .del pB t1, .del pB t1,
   .save pA t1, .listp pA, .delp pA, .load pA none, .progress pB 21, .load pB t2, .list]

/-! ## The file name -/

/-- **C14, side condition ⇒ one file per key**: for ids and tags of one kind with separator-free string forms the file
name determines (pid, tag). Proved from the templates regenerated from `pickle_filename`. -/
theorem C14_filename_injective {K : Kind} {k k' : Key} (h : wfKey K k = true) (h' : wfKey K k' = true)
    (e : pickleFilename k.1 k.2 = pickleFilename k'.1 k'.2) : k = k' :=
  filename_injective h h' e

example : wfKey .str (pA, t1) = true ∧ wfKey .str (pA, t2) = true ∧ (pA, t1) ≠ (pA, t2) := by decide
example : pickleFilename pA t2 = "alpha.pickle.pickle" ∧ pickleFilename pA none = "alpha.pickle" := by decide

/-- every file the persister writes is found again by the listing pattern `*.<suffix>` -/
theorem C14_listing_pattern_matches (p : Pid) (t : Tag) : matchesPattern (pickleFilename p t) = true :=
  matchesPattern_filename p t

example : matchesPattern (pickleFilename pA t1) = true ∧ matchesPattern "alpha.t1.pkl" = false := by decide

/-- **the side condition is needed (separator)**: a pid containing the separator shares its file with another key, and
on a two-operation history the two persisters then answer differently (the in-memory one says `missing`, the pickle
one returns the other key's snapshot). -/
theorem C14_separator_needed :
    ∃ (k k' : Key) (ops : List Op) (c : Cur), k ≠ k' ∧ pickleFilename k.1 k.2 = pickleFilename k'.1 k'.2 ∧
      SideCondition ops = false ∧ ¬ ObsEq (runRes memImpl c memImpl.init ops) (runRes pklImpl c pklImpl.init ops) := by
  refine ⟨(⟨.str, "a.b"⟩, none), (⟨.str, "a"⟩, some ⟨.str, "b"⟩),
    [.save ⟨.str, "a.b"⟩ none, .load ⟨.str, "a"⟩ (some ⟨.str, "b"⟩)], fun _ => 7, by decide, by decide, by decide, ?_⟩
  intro h
  have h1 : runRes memImpl (fun _ => 7) memImpl.init [.save ⟨.str, "a.b"⟩ none, .load ⟨.str, "a"⟩ (some ⟨.str, "b"⟩)]
      = [.done, .loaded (.error .missing)] := rfl
  have h2 : runRes pklImpl (fun _ => 7) pklImpl.init [.save ⟨.str, "a.b"⟩ none, .load ⟨.str, "a"⟩ (some ⟨.str, "b"⟩)]
      = [.done, .loaded (.ok 7)] := rfl
  rw [h1, h2] at h
  simp [ObsEq, ResEq] at h

/-- **the side condition is needed (one kind per history)**: the integer `1` and the string `'1'` are different
dictionary keys but the same file name. -/
theorem C14_one_kind_needed :
    ∃ (ops : List Op) (c : Cur), SideCondition ops = false ∧ (∀ op ∈ ops, ∃ K, wfOp K op = true) ∧
      ¬ ObsEq (runRes memImpl c memImpl.init ops) (runRes pklImpl c pklImpl.init ops) := by
  refine ⟨[.save ⟨.int, "1"⟩ none, .load ⟨.str, "1"⟩ none], fun _ => 7, by decide, ?_, ?_⟩
  · intro op hop
    simp only [List.mem_cons, List.not_mem_nil, or_false] at hop
    rcases hop with rfl | rfl
    · exact ⟨.int, by decide⟩
    · exact ⟨.str, by decide⟩
  · intro h
    have h1 : runRes memImpl (fun _ => 7) memImpl.init [.save ⟨.int, "1"⟩ none, .load ⟨.str, "1"⟩ none]
        = [.done, .loaded (.error .missing)] := rfl
    have h2 : runRes pklImpl (fun _ => 7) pklImpl.init [.save ⟨.int, "1"⟩ none, .load ⟨.str, "1"⟩ none]
        = [.done, .loaded (.ok 7)] := rfl
    rw [h1, h2] at h
    simp [ObsEq, ResEq] at h

/-! ## Refinement: every operation returns what the specification returns and commutes with the abstraction -/

/-- **C14, in-memory persister, one operation**: from related states (`RefM m s`: unique dictionary keys and
`absMem m = s`) every operation leads to related states (`step`: the abstraction commutes with the operation) and returns
what the specification prescribes (`res`: `load` the stored snapshot or `missing`, the listings exactly the stored keys,
each once). No side condition. -/
theorem C14_inmem_simulation : Refines memImpl (fun _ => True) RefM := mem_refines

/-- **C14, pickle persister, one operation**: the same for the directory model, for operations whose ids and tags are
separator-free and of kind `K`; `RefP K d s`: unique file names, every file is named after the checkpoint stored in it,
the bundle in the file named after a well-formed key is what `s` stores, and `s` stores only well-formed keys. -/
theorem C14_pickle_simulation (K : Kind) : Refines pklImpl (fun op => wfOp K op = true) (RefP K) := pkl_refines K

/-- the relations are inhabited (empty persisters represent the empty store) and the guard holds of ordinary operations -/
example : RefM memImpl.init Spec.empty ∧ RefP .str pklImpl.init Spec.empty ∧
    wfOp .str (.save pA t1) = true ∧ wfOp .str (.delp pB) = true ∧ wfOp .str (.save ⟨.str, "a.b"⟩ none) = false :=
  ⟨mem_refines.init, (pkl_refines .str).init, by decide, by decide, by decide⟩

/-- **C14, in-memory persister, every history**: started empty, after any history the observations conform to the
specification run (`Conforms`: result by result) and the final states are related. -/
theorem C14_inmem_refines (c : Cur) (ops : List Op) :
    Conforms c Spec.empty ops (runRes memImpl c memImpl.init ops) ∧
      RefM (runSt memImpl c memImpl.init ops) (specRun c Spec.empty ops) := by
  have := mem_refines.run ops (fun _ _ => trivial) c _ _ mem_refines.init
  exact ⟨this.2, this.1⟩

example : (runRes memImpl cur0 memImpl.init hist).length = 15 := rfl

/-- **C14, pickle persister, every history** satisfying the side condition for kind `K`. -/
theorem C14_pickle_refines (K : Kind) (c : Cur) (ops : List Op) (h : wfHist K ops = true) :
    Conforms c Spec.empty ops (runRes pklImpl c pklImpl.init ops) ∧
      RefP K (runSt pklImpl c pklImpl.init ops) (specRun c Spec.empty ops) := by
  have := (pkl_refines K).run ops (wfHist_mem h) c _ _ (pkl_refines K).init
  exact ⟨this.2, this.1⟩

example : wfHist .str hist = true := by decide

/-- the flat dictionary printed by the driver as "the specification" is a presentation of `Spec` -/
theorem C14_flat_refines (c : Cur) (ops : List Op) :
    Conforms c Spec.empty ops (runRes flatImpl c flatImpl.init ops) ∧
      RefF (runSt flatImpl c flatImpl.init ops) (specRun c Spec.empty ops) := by
  have := flat_refines.run ops (fun _ _ => trivial) c _ _ flat_refines.init
  exact ⟨this.2, this.1⟩

example : runRes flatImpl cur0 flatImpl.init [.save pA t1, .progress pA 11, .load pA t1, .list]
    = [.done, .done, .loaded (.ok 10), .listed [(pA, t1)]] := rfl

/-- **C14, observational equivalence**: over any history satisfying the side condition the in-memory and the pickle
persister return the same results, operation by operation (listings up to their unspecified order). -/
theorem C14_observational_equivalence (c : Cur) (ops : List Op) (h : SideCondition ops = true) :
    ObsEq (runRes memImpl c memImpl.init ops) (runRes pklImpl c pklImpl.init ops) := by
  simp only [SideCondition, List.any_cons, List.any_nil, Bool.or_false, Bool.or_eq_true] at h
  have key : ∀ K, wfHist K ops = true → ObsEq (runRes memImpl c memImpl.init ops) (runRes pklImpl c pklImpl.init ops) :=
    fun K hK => conforms_obsEq (C14_inmem_refines c ops).1 (C14_pickle_refines K c ops hK).1
  rcases h with h | h | h
  · exact key _ h
  · exact key _ h
  · exact key _ h

example : SideCondition hist = true := by decide
/-- on the example history both persisters (and the flat specification) answer: the first `load` returns the value of
`alpha` at save time (10, not the 11 it progressed to), the deletes of the absent key change nothing, after `delp`
`alpha` has no checkpoint left and `beta`'s is untouched -/
example : runRes pklImpl cur0 pklImpl.init hist =
    [.done, .done, .done, .done, .loaded (.ok 10), .listed [(pA, t1), (pA, none), (pB, t2)], .done, .done, .done,
     .listed [(pA, t1), (pA, none)], .done, .loaded (.error .missing), .done, .loaded (.ok 20), .listed [(pB, t2)]] := rfl
example : runRes memImpl cur0 memImpl.init hist = runRes pklImpl cur0 pklImpl.init hist := rfl

/-! ## Corollaries, in terms of the persisters' own interface -/

/-- **C14, snapshot immutability / most recent save (in-memory)**: after any history `pre`, a save of `(p, t)` and any
operations `post` that do not save or delete that key — progress of the live process `p` itself, saves, loads and
deletes of other keys — loading `(p, t)` returns the value the process had when it was saved. -/
theorem C14_snapshot_immutable_inmem (c : Cur) (pre post : List Op) (p : Pid) (t : Tag)
    (hpost : ∀ op ∈ post, touches (p, t) op = false) :
    Mem.load (runSt memImpl c memImpl.init (pre ++ .save p t :: post)) p t = .ok (runCur c pre p) := by
  have h := (C14_inmem_refines c (pre ++ .save p t :: post)).2
  have : Mem.load (runSt memImpl c memImpl.init (pre ++ .save p t :: post)) p t = _ :=
    mem_refines.load_eq h (p := p) (t := t) trivial
  rw [this]
  simp [Spec.load, specRun_saved c Spec.empty pre post p t hpost]

/-- **C14, snapshot immutability / most recent save (pickle)** -/
theorem C14_snapshot_immutable_pickle (K : Kind) (c : Cur) (pre post : List Op) (p : Pid) (t : Tag)
    (hwf : wfHist K (pre ++ .save p t :: post) = true) (hpost : ∀ op ∈ post, touches (p, t) op = false) :
    Pkl.load (runSt pklImpl c pklImpl.init (pre ++ .save p t :: post)) p t = .ok (runCur c pre p) := by
  have h := (C14_pickle_refines K c (pre ++ .save p t :: post) hwf).2
  have hk : wfOp K (.load p t) = true := wfHist_mem hwf (.save p t) (by simp)
  have : Pkl.load (runSt pklImpl c pklImpl.init (pre ++ .save p t :: post)) p t = _ :=
    (pkl_refines K).load_eq h (p := p) (t := t) hk
  rw [this]
  simp [Spec.load, specRun_saved c Spec.empty pre post p t hpost]

/-- hypotheses satisfiable: an overwrite before, then progress of the same process, a save under another tag, a delete
of another key and a delete of another process in between -/
example : let pre := [Op.save pA t1, .progress pA 11]
    let post := [Op.progress pA 12, .save pA none, .del pA t2, .delp pB, .progress pA 13, .load pA t1, .list]
    wfHist .str (pre ++ .save pA t1 :: post) = true ∧ (∀ op ∈ post, touches (pA, t1) op = false) ∧
      runCur cur0 pre pA = 11 ∧ runCur cur0 (pre ++ .save pA t1 :: post) pA = 13 := by
  refine ⟨by decide, ?_, rfl, rfl⟩
  intro op hop
  simp only [List.mem_cons, List.not_mem_nil, or_false] at hop
  rcases hop with rfl | rfl | rfl | rfl | rfl | rfl | rfl <;> decide

/-- **C14, list exactness (in-memory)**: after any history the listing has no duplicates and contains exactly the keys
that can be loaded. -/
theorem C14_list_exact_inmem (c : Cur) (ops : List Op) :
    let m := runSt memImpl c memImpl.init ops
    (Mem.getCheckpoints m).Nodup ∧ ∀ k : Key, k ∈ Mem.getCheckpoints m ↔ ∃ v, Mem.load m k.1 k.2 = .ok v := by
  intro m
  have h := mem_refines.list_exact (C14_inmem_refines c ops).2 trivial (fun _ _ => trivial)
  exact ⟨h.1, fun k => ⟨h.2.1 k, h.2.2 k trivial⟩⟩

/-- **C14, list exactness (pickle)**: after any history satisfying the side condition the listing has no duplicates,
every listed key can be loaded and every well-formed key that can be loaded is listed. -/
theorem C14_list_exact_pickle (K : Kind) (c : Cur) (ops : List Op) (hwf : wfHist K ops = true) :
    let d := runSt pklImpl c pklImpl.init ops
    (Pkl.getCheckpoints d).Nodup ∧ (∀ k : Key, k ∈ Pkl.getCheckpoints d → wfKey K k = true ∧ ∃ v, Pkl.load d k.1 k.2 = .ok v) ∧
      (∀ k : Key, wfKey K k = true → (∃ v, Pkl.load d k.1 k.2 = .ok v) → k ∈ Pkl.getCheckpoints d) := by
  intro d
  have hR := (C14_pickle_refines K c ops hwf).2
  have hw : ∀ k : Key, k ∈ Pkl.getCheckpoints d → wfKey K k = true := fun k hk => ((Pkl.mem_list hR.inv k).1 hk).1
  have h := (pkl_refines K).list_exact hR rfl hw
  exact ⟨h.1, fun k hk => ⟨hw k hk, h.2.1 k hk⟩, fun k hk => h.2.2 k hk⟩

example : Mem.getCheckpoints (runSt memImpl cur0 memImpl.init (hist.take 5)) = [(pA, t1), (pA, none), (pB, t2)] := rfl

/-- **C14, delete is idempotent (in-memory)**: a second delete of the same key changes nothing (in particular deleting
an absent key is not an error: the model of `delete_checkpoint` has no error outcome, as the code swallows it). -/
theorem C14_delete_idempotent_inmem (m : InMem) (p : Pid) (t : Tag) :
    Mem.deleteCheckpoint (Mem.deleteCheckpoint m p t) p t = Mem.deleteCheckpoint m p t := Mem.del_idem m p t

/-- **C14, delete is idempotent (pickle)** -/
theorem C14_delete_idempotent_pickle (d : Dir) (p : Pid) (t : Tag) :
    Pkl.deleteCheckpoint (Pkl.deleteCheckpoint d p t) p t = Pkl.deleteCheckpoint d p t := Pkl.del_idem d p t

example : Pkl.deleteCheckpoint (runSt pklImpl cur0 pklImpl.init (hist.take 4)) pA t1
    ≠ runSt pklImpl cur0 pklImpl.init (hist.take 4) := by decide

/-- **C14, delete touches only its key (in-memory)**: after any history, deleting `(p, t)` makes that key `missing`,
leaves what every other key loads unchanged, and removes exactly that key from the listing. -/
theorem C14_delete_local_inmem (c : Cur) (ops : List Op) (p : Pid) (t : Tag) :
    let m := runSt memImpl c memImpl.init ops
    (∀ k : Key, Mem.load (Mem.deleteCheckpoint m p t) k.1 k.2 = if k = (p, t) then .error .missing else Mem.load m k.1 k.2) ∧
    (∀ k : Key, k ∈ Mem.getCheckpoints (Mem.deleteCheckpoint m p t) ↔ (k ≠ (p, t) ∧ k ∈ Mem.getCheckpoints m)) := by
  intro m
  have h := mem_refines.delete_local (C14_inmem_refines c ops).2 c (p := p) (t := t) trivial trivial
  exact ⟨fun k => h.1 k trivial, h.2⟩

/-- **C14, delete touches only its key (pickle)**, for well-formed keys -/
theorem C14_delete_local_pickle (K : Kind) (c : Cur) (ops : List Op) (hwf : wfHist K ops = true) (p : Pid) (t : Tag)
    (hk : wfKey K (p, t) = true) :
    let d := runSt pklImpl c pklImpl.init ops
    (∀ k : Key, wfKey K k = true →
      Pkl.load (Pkl.deleteCheckpoint d p t) k.1 k.2 = if k = (p, t) then .error .missing else Pkl.load d k.1 k.2) ∧
    (∀ k : Key, k ∈ Pkl.getCheckpoints (Pkl.deleteCheckpoint d p t) ↔ (k ≠ (p, t) ∧ k ∈ Pkl.getCheckpoints d)) := by
  intro d
  have h := (pkl_refines K).delete_local (C14_pickle_refines K c ops hwf).2 c (p := p) (t := t) hk rfl
  exact ⟨fun k hk' => h.1 k hk', h.2⟩

/-- **C14, deleting a process's checkpoints removes all and only that process's tags (in-memory)** -/
theorem C14_delete_process_exact_inmem (c : Cur) (ops : List Op) (p : Pid) :
    let m := runSt memImpl c memImpl.init ops
    (∀ k : Key, Mem.load (Mem.deleteProcessCheckpoints m p) k.1 k.2 = if k.1 = p then .error .missing else Mem.load m k.1 k.2) ∧
    (∀ k : Key, k ∈ Mem.getCheckpoints (Mem.deleteProcessCheckpoints m p) ↔ (k.1 ≠ p ∧ k ∈ Mem.getCheckpoints m)) := by
  intro m
  have h := mem_refines.delete_process_exact (C14_inmem_refines c ops).2 c (p := p) trivial trivial
  exact ⟨fun k => h.1 k trivial, h.2⟩

/-- **C14, deleting a process's checkpoints removes all and only that process's tags (pickle)** -/
theorem C14_delete_process_exact_pickle (K : Kind) (c : Cur) (ops : List Op) (hwf : wfHist K ops = true) (p : Pid)
    (hp : wfId K p = true) :
    let d := runSt pklImpl c pklImpl.init ops
    (∀ k : Key, wfKey K k = true →
      Pkl.load (Pkl.deleteProcessCheckpoints d p) k.1 k.2 = if k.1 = p then .error .missing else Pkl.load d k.1 k.2) ∧
    (∀ k : Key, k ∈ Pkl.getCheckpoints (Pkl.deleteProcessCheckpoints d p) ↔ (k.1 ≠ p ∧ k ∈ Pkl.getCheckpoints d)) := by
  intro d
  have h := (pkl_refines K).delete_process_exact (C14_pickle_refines K c ops hwf).2 c (p := p) hp rfl
  exact ⟨fun k hk' => h.1 k hk', h.2⟩

/-- the delete clauses on a state with three checkpoints of two processes -/
example : let d := runSt pklImpl cur0 pklImpl.init (hist.take 4)
    Pkl.getCheckpoints d = [(pA, t1), (pA, none), (pB, t2)] ∧
    Pkl.getCheckpoints (Pkl.deleteCheckpoint d pA none) = [(pA, t1), (pB, t2)] ∧
    Pkl.getCheckpoints (Pkl.deleteProcessCheckpoints d pA) = [(pB, t2)] ∧ wfId .str pA = true := by decide

end Persister
