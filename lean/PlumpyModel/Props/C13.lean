import PlumpyModel.PM.Proof4
/-!
# C13 — a step's return value alone decides what happens next, with exact arguments

Model: `PMF`.  A step function's outcome is `Outcome.ret cmd | Outcome.raise e`; `finishUser` is what `Process.step`
does with it (`Running.execute` → `_action_command` → end of step).  The theorems are stated for a step that ends
undisturbed: the process is live, not closed, no interrupt action is installed (`interrupt = none`; what happens with a
pending kill or pause is C04/C05), and its future is still unresolved (`FutLive`, an invariant of live processes proved
in C02).  Persistence of the arguments across save/load is C07/C08 (`args`/`kwargs` are in the generated member sets).
-/
namespace PMF

def FutLive (c : Cfg) : Prop := c.fut = .pending ∨ c.fut = .cancelled

/-- what `stepBodyK` logs when it activates the user function of a RUNNING state: exactly `fn(*args, **kwargs)` -/
theorem C13_activation_exact (P : Prog) (k : Cfg → Cfg) (c : Cfg) (fn : Nat) (args : List Val) (kw : List (Nat × Val))
    (hst : c.st = .running fn args kw) (haw : (P fn args kw c.ctx).awaits ≠ 0) :
    (stepBodyK P k c).trace = { fn := fn, args := args, kw := kw, paused := c.paused.isSome } :: c.trace := by
  unfold stepBodyK
  simp [hst, haw]

theorem exitState_fields (c : Cfg) : (exitState c).fut = c.fut ∧ (exitState c).closed = c.closed ∧ (exitState c).st = c.st := by
  unfold exitState
  split
  · dsimp only; split <;> exact ⟨rfl, rfl, rfl⟩
  · exact ⟨rfl, rfl, rfl⟩

theorem transitionTo_running_exact (c : Cfg) (fn : Nat) (args : List Val) (kw : List (Nat × Val))
    (hal : Label.running ∈ allowed c.st.label) (hcl : c.closed = false) :
    (transitionTo c (.running fn args kw)).st = .running fn args kw := by
  have hl : (SObj.running fn args kw).label = .running := rfl
  unfold transitionTo
  rw [hl, if_pos hal]
  simp only [hcl, Bool.false_eq_true, if_false, enteringHooks]
  unfold enterNext
  have : terminal (SObj.running fn args kw).label = false := by rw [hl]; decide
  simp only [this, Bool.false_eq_true, if_false]
  rw [(enteredHooks_keep _ _).1]; rfl

theorem finally_st (d : Cfg) : (finally_ d).st = d.st := (setInterrupt_fix _ _).1

theorem endOfStep_undisturbed (c : Cfg) (s : SObj) (hl : terminal c.st.label = false) (hi : c.interrupt = none)
    (hne : ∀ e, s ≠ .excepted e) :
    (endOfStep c (.next (some s))).st = (transitionTo c s).st := by
  unfold endOfStep
  rw [finally_st]
  have hp : prepare c (.next (some s)) = (c, some s) := by
    cases s <;> first | rfl | exact absurd rfl (hne _)
  rw [hp]
  unfold dispatch
  simp [hl, hi]

/-- entering FINISHED from a live, open process whose future is unresolved installs exactly the result and flag -/
theorem transitionTo_finished_exact (c : Cfg) (v : Option Val) (ok : Bool)
    (hal : Label.finished ∈ allowed c.st.label) (hcl : c.closed = false) (hf : FutLive c) :
    (transitionTo c (.finished v ok)).st = .finished v ok := by
  have hl : (SObj.finished v ok).label = .finished := rfl
  unfold transitionTo
  rw [hl, if_pos hal]
  simp only [hcl, Bool.false_eq_true, if_false]
  have hfresh : (freshFutIfCancelled (exitState c)).fut = .pending := by
    unfold freshFutIfCancelled futCancelled
    rcases hf with h | h <;> simp [(exitState_fields c).1, h]
  simp only [enteringHooks, hfresh, if_true]
  unfold enterNext
  have : terminal (SObj.finished v ok).label = true := by rw [hl]; decide
  simp only [this, if_true]
  rw [(onTerminated_keep _).1, (enteredHooks_keep _ _).1]; rfl
/-- **Continue(f, \*a, \*\*k)** makes `f(*a, **k)` the next step: the next state is RUNNING with exactly that function and
those positional and keyword arguments, which is what the next activation is called with (`C13_activation_exact`). -/
theorem C13_continue_exact (c : Cfg) (fn : Nat) (args : List Val) (kw : List (Nat × Val))
    (hl : c.st.label = .running ∨ c.st.label = .waiting ∨ c.st.label = .created)
    (hcl : c.closed = false) (hi : c.interrupt = none) :
    (finishUser c (.ret (.cont fn args kw))).st = .running fn args kw := by
  have hlive : terminal c.st.label = false := by rcases hl with h | h | h <;> rw [h] <;> decide
  have hal : Label.running ∈ allowed c.st.label := by rcases hl with h | h | h <;> rw [h] <;> decide
  unfold finishUser cmdToState
  simp only
  rw [endOfStep_undisturbed c _ hlive hi (by intro e h; cases h)]
  exact transitionTo_running_exact c fn args kw hal hcl

/-- **Wait(f) then resume(v)**: when the wait completes with `v` the next state is RUNNING `f(v)`; when it was resumed
without a value, `f()`. -/
theorem C13_wait_resume_exact (c : Cfg) (fn wf : Nat) (v : Option Val)
    (hl : c.st.label = .waiting) (hcl : c.closed = false) (hi : c.interrupt = none) :
    (wake c fn wf (.result v)).st = .running fn (match v with | some x => [x] | none => []) [] := by
  have hlive : terminal c.st.label = false := by rw [hl]; decide
  have hal : Label.running ∈ allowed c.st.label := by rw [hl]; decide
  unfold wake
  simp only
  rw [endOfStep_undisturbed c _ hlive hi (by intro e h; cases h)]
  exact transitionTo_running_exact c fn _ [] hal hcl

/-- **a plain value / Stop / UnsuccessfulResult** finishes the process with exactly that result and success flag -/
theorem C13_stop_exact (c : Cfg) (v : Option Val) (ok : Bool)
    (hl : c.st.label = .running ∨ c.st.label = .waiting)
    (hcl : c.closed = false) (hi : c.interrupt = none) (hf : FutLive c) :
    (finishUser c (.ret (.stop v ok))).st = .finished v ok := by
  have hlive : terminal c.st.label = false := by rcases hl with h | h <;> rw [h] <;> decide
  have hal : Label.finished ∈ allowed c.st.label := by rcases hl with h | h <;> rw [h] <;> decide
  unfold finishUser cmdToState
  simp only
  rw [endOfStep_undisturbed c _ hlive hi (by intro e h; cases h)]
  exact transitionTo_finished_exact c v ok hal hcl hf

/-- **Kill(msg)** ends the process KILLED (EXCEPTED only if entering KILLED fails) -/
theorem C13_kill_command (c : Cfg) (hl : terminal c.st.label = false) (hi : c.interrupt = none) :
    (finishUser c (.ret .kill)).st.label = .killed ∨ (finishUser c (.ret .kill)).st.label = .excepted := by
  unfold finishUser cmdToState
  simp only
  rw [endOfStep_undisturbed c _ hl hi (by intro e h; cases h)]
  exact transitionTo_label c .killed

/-- **a step that raises** ends the process EXCEPTED, whatever was requested in the meantime (repair K) -/
theorem C13_raise_excepts (c : Cfg) (e : Exc) (hl : terminal c.st.label = false) :
    (finishUser c (.raise e)).st.label = .excepted := by
  unfold finishUser endOfStep
  rw [finally_st]
  have hp : prepare c (.next (some (.excepted e))) = (setInterrupt c none, some (.excepted e)) := by
    unfold prepare; rfl
  rw [hp]
  have hs := setInterrupt_same c none
  unfold dispatch
  simp only [hs.1, hl, Bool.false_eq_true, if_false]
  have hi : (setInterrupt c none).interrupt = none := by unfold setInterrupt; split <;> rfl
  simp only [hi]
  rcases transitionTo_label (setInterrupt c none) (.excepted e) with h | h <;> simpa [SObj.label] using h

-- non-vacuity: the hypotheses hold in a reachable configuration, and a whole run shows the exact arguments
section
private def chain : Prog := fun fn _ _ _ =>
  if fn = 0 then ⟨1, .ret (.cont 1 [4, 5] [(1, 6), (0, 7)])⟩ else if fn = 1 then ⟨0, .ret (.wait 2)⟩ else ⟨0, .ret (.stop (some 9) false)⟩
example : (run chain (init 0) [.tick]).st.label = .running ∧ (run chain (init 0) [.tick]).closed = false ∧
    (run chain (init 0) [.tick]).interrupt = none ∧ (run chain (init 0) [.tick]).fut = .pending := by decide +kernel
example : ((run chain (init 0) [.tick, .tick]).trace.map fun a => (a.fn, a.args, a.kw)) =
    [(1, [4, 5], [(1, 6), (0, 7)]), (0, [], [])] := by decide +kernel
example : (run chain (init 0) [.tick, .tick, .resume (some 3), .tick]).st = .finished (some 9) false ∧
    ((run chain (init 0) [.tick, .tick, .resume (some 3), .tick]).trace.head?.map fun a => (a.fn, a.args)) = some (2, [3]) := by
  decide +kernel
end

end PMF
