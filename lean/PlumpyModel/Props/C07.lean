import PlumpyModel.Persist.Proof2
/-!
# C07 — save, load, save again yields the same bundle and the same observable process

Model: `Persist.save` / `Persist.load` (lean/PlumpyModel/Persist/Model.lean), the hand-written mirror of
`Savable.save/load`, `Process.save/load_instance_state`, every state class, `SavableFuture`, `EventHelper`,
`ContextMixin`, `WorkChain` and the steppers.  The member sets and hand-written keys are the generated tables of
`Gen/Persist.lean`; `C07_members_cover` is the obligation that breaks when one of them changes in the source.

* `E : Env` — the global object loader, how loader classes are found, the names of the outline's step functions;
  `ctx` — the object loader of the save context (`none`: default); `E.ok ctx` is the ObjectLoader contract
  (`load_object (identify_object c) = c`).  All are universally quantified.
* `C : Cls` — the process class (identifier, and the outline if it is a WorkChain); `v : View` — the persisted view.
* `savable C v` — no payload contains a live awaitable (on which `copy.deepcopy` raises in the real code too) and the
  stepper state is one the typed stepper objects can hold.
* The three media are the identity on bundles (`Medium.deepcopy/pickle/yaml`): their fidelity is trusted base and is
  exercised by the correspondence check through the real `copy`, `pickle` and PyYAML.
* "Up to the traceback text": the traceback of an EXCEPTED state is not part of the view and `save` does not write
  it (its restoration needs the optional `tblib`); the harness strips the key before comparing.
-/
namespace Persist
open Outline

variable (E : Env) (ctx : Option Loader) (C : Cls) (v : View)

/-- **load ∘ save = id** on every savable view, whether the load is given the loader of the save context or has to find
it in the bundle (`ctx' = none`), through each medium. -/
theorem C07_load_save (hE : E.ok ctx) (hs : savable C v = true) (ctx' : Option Loader) (hc : ctx' = none ∨ ctx' = ctx) :
    load E C ctx' (save E C ctx v) = .ok v ∧
    load E C ctx' (Medium.deepcopy (save E C ctx v)) = .ok v ∧
    load E C ctx' (Medium.pickle (save E C ctx v)) = .ok v ∧
    load E C ctx' (Medium.yaml (save E C ctx v)) = .ok v :=
  ⟨load_save E ctx C v hE hs ctx' hc, load_save E ctx C v hE hs ctx' hc, load_save E ctx C v hE hs ctx' hc,
   load_save E ctx C v hE hs ctx' hc⟩

/-- **save, load, save again yields an identical bundle** -/
theorem C07_save_load_save (hE : E.ok ctx) (hs : savable C v = true) (ctx' : Option Loader) (hc : ctx' = none ∨ ctx' = ctx) :
    (load E C ctx' (save E C ctx v)).map (save E C ctx) = .ok (save E C ctx v) := by
  rw [load_save E ctx C v hE hs ctx' hc]; rfl

/-- **the loaded process reports the same** pid, state, raw and parsed inputs, outputs, context, status, paused flag,
creation time and outcome: every one of them is a function (`observe`) of the persisted view, which is restored
exactly. -/
theorem C07_load_observes (hE : E.ok ctx) (hs : savable C v = true) (ctx' : Option Loader) (hc : ctx' = none ∨ ctx' = ctx)
    (v' : View) (h : load E C ctx' (save E C ctx v) = .ok v') : observe v' = observe v := by
  rw [load_save E ctx C v hE hs ctx' hc] at h
  cases h; rfl

def MVal.isMissing : MVal → Bool
  | .missing => true
  | _ => false

/-- **the generated member tables are exactly what the view carries**: a name is an attribute of the modelled object
iff it is in the effective `_auto_persist` set generated from the source, for the process (both base classes), the
future, the event helper, every state class and the steppers; the keys written by hand are the ones the model knows
(anything else would be written as poison) and each is read back by the same class. -/
theorem C07_members_cover :
    (∀ m, (procMember E ctx v m).isMissing = false ↔ m ∈ members procCls) ∧
    members chainCls = members procCls ∧
    (∀ f m, (futMember f m).isMissing = false ↔ m ∈ members futCls) ∧
    (∀ e m, (ehMember e m).isMissing = false ↔ m ∈ members ehCls) ∧
    (∀ s m, (stateMember s m).isMissing = false ↔ m ∈ members s.cls) ∧
    (∀ pos ch m, (posMember (.node pos ch) m).isMissing = false ↔ m ∈ members blockStepCls) ∧
    members ifStepCls = members blockStepCls ∧ members whileStepCls = [] ∧ members fnStepCls = [] ∧
    members retStepCls = [] ∧
    (∀ c ∈ Gen.handKeyValues, ∀ kv ∈ c.2, kv.2 ∈ (Gen.handLoadedKeys.lookup c.1).getD []) := by
  refine ⟨?_, members_chain, ?_, ?_, ?_, ?_, ?_, members_whileStep, members_fnStep, members_retStep,
    handSaved_subset_handLoaded⟩
  · intro m; rw [members_proc]; unfold procMember
    split <;> simp_all [MVal.isMissing] <;> (try (cases v.paused <;> simp))
  · intro f m; rw [members_fut]; unfold futMember
    split <;> simp_all [MVal.isMissing]
  · intro e m; rw [members_eh]; unfold ehMember
    split <;> simp_all [MVal.isMissing]
  · intro s m
    cases s with
    | created i f a k => simp only [StateV.cls, members_created]; unfold stateMember; split <;> simp_all [MVal.isMissing]
    | running i f a k => simp only [StateV.cls, members_running]; unfold stateMember; split <;> simp_all [MVal.isMissing]
    | waiting i cb m' d aw =>
      cases aw with
      | none => simp only [StateV.cls, members_waiting]; unfold stateMember; split <;> simp_all [MVal.isMissing]
      | some a => simp only [StateV.cls, members_wcWaiting]; unfold stateMember; split <;> simp_all [MVal.isMissing]
    | finished i r ok => simp only [StateV.cls, members_finished]; unfold stateMember; split <;> simp_all [MVal.isMissing]
    | excepted i e => simp only [StateV.cls, members_excepted]; unfold stateMember; split <;> simp_all [MVal.isMissing]
    | killed i m' => simp only [StateV.cls, members_killed]; unfold stateMember; split <;> simp_all [MVal.isMissing]
  · intro pos ch m; rw [members_blockStep]; unfold posMember
    split <;> simp_all [MVal.isMissing]
  · rw [members_ifStep, members_blockStep]

/-! ### non-vacuity -/
section
private def demoE : Env := { glob := defaultLoader, find := fun _ => none, fnName := fun f => s!"s{f}" }
private def demoOutline : Block := [.call 1, .while_ 0 [.call 2, .ite [(some 1, [.ret (some 7)]), (none, [.call 4, .call 5])]], .call 3]
private def demoC : Cls := { name := "harness.persist_gen:Demo", outline := some demoOutline }
/-- a paused work chain inside the `else_` branch of an `if_` inside a `while_`, with outputs and a status -/
private def demoV : View :=
  { pid := .nat 7, ctime := .opaque "t0", status := .str "Paused", prePaused := .str "busy", paused := some .pending,
    future := .pending, eh := { listenerType := .opaque "ProcessListener", listeners := .opaque "set()" },
    inputsRaw := some (.opaque "{a:1}"), inputsParsed := some (.opaque "{a:1,b:2}"), outputs := [("x", .nat 1)],
    state := .running (.bool true) "_do_step" (.opaque "()") (.opaque "{}"),
    chain := some { ctx := .opaque "{n:3}",
                    stepper := some (.node 1 (some (.node 0 (some (.node 1 (some (.node 1 (some (.node 1 (some .leaf)))))))))) } }

example : demoE.ok none := ⟨fun _ => rfl, fun _ h => by cases h⟩
example : savable demoC demoV = true := by decide +kernel
/-- a custom loader in the save context (found again through the global loader) satisfies the hypothesis too -/
private def demoL : Loader := { defaultLoader with name := "harness.persist_gen:PrefixLoader" }
private def demoE' : Env := { demoE with find := fun n => if n = demoL.name then some demoL else none }
example : demoE'.ok (some demoL) :=
  ⟨fun _ => rfl, fun L h => by cases h; exact ⟨fun _ => rfl, by simp [demoE', demoL]⟩⟩
example : load demoE demoC none (save demoE demoC none demoV) = .ok demoV :=
  (C07_load_save demoE none demoC demoV ⟨fun _ => rfl, fun _ h => by cases h⟩ (by decide +kernel) none (Or.inl rfl)).1

/-- the hypothesis `savable` is needed: a work chain waiting on a live awaitable cannot be saved (`copy.deepcopy`
raises in `save_members`), in the model the load of such a bundle reports `unsavable` -/
example : (match load demoE demoC none (save demoE demoC none
    { demoV with state := .waiting (.bool true) (some "_do_step") (.str "Waiting before next step") .live (some .live) }) with
    | .error .unsavable => true | _ => false) = true := by decide +kernel
end

end Persist
