import PlumpyModel.Ports.ProofOut
/-!
# C12 — outputs are stored only if valid; success requires spec-conforming outputs

Model: `Ports.out` (`Process.out`), `Ports.getPort` (`PortNamespace.get_port(..., create_dynamically=True)`),
`Ports.store` (the storage loop of `out`), `Ports.onFinish` / `Ports.toFinished` (`Process.on_finish` and the
`StateEntryFailed` branch of `StateMachine.transition_to`), in `PlumpyModel/Ports/Out.lean`; validation is the C11 model.
Specification: `AcceptsOut`, `resolveRef`, `Storable`, `V.isDict`, `getPath`, `replay` (`PlumpyModel/Ports/SpecOut.lean`) and
`ConformsPort` (`Spec.lean`).

Values are atoms, plain dicts (`V.dict false _`) and immutable mappings (`V.dict true _`, an `AttributesFrozendict`).  An emitted
immutable mapping is a VALUE: a leaf for the recursion of `validate_dynamic_ports` (`DynOk`), no instance of `dict`, and no place to
store below — the storage loop of `out` enters plain dicts only (`Storable`, `C12_out_place_taken`, `C12_immutable_is_value`).

Quantification: every output spec (arbitrary port tree, every combination of types, validators, required flags,
dynamic namespaces), every validator oracle, every state reached so far (the spec as extended by earlier calls, any
outputs), every dotted path (including empty segments) and value.  Hypothesis: `wfPorts` (distinct port names per
namespace), which `out` preserves (`C12_out_keeps_wf`).
-/
namespace Ports

/-- **C12, first sentence.**  `out` stores the value exactly when the output spec (as it is at the time of the call)
accepts it for that port, provided the place is free (no emitted non-dict value on the way: neither an atom nor an immutable
mapping — a condition on the outputs, not on the spec). -/
theorem C12_out_stores_iff (vd : Nat → V → Bool) (st : OutSt) (hwf : wfPorts st.ports = true) (path : List String) (v : V) :
    (∃ d, (out vd st path v).2 = .ok d) ↔
      AcceptsOut vd st.top st.ports path v ∧ Storable st.outputs path.dropLast := by
  obtain ⟨_, _, h⟩ := out_master vd st hwf path v
  constructor
  · rintro ⟨d, hd⟩
    rw [hd] at h
    obtain ⟨b, qs, h1, h2, _, h4, _⟩ := h
    exact ⟨⟨b, qs, h1, h2⟩, (store_ok_iff _ _ _ _).1 ⟨_, h4⟩⟩
  · rintro ⟨⟨b, qs, h1, h2⟩, h3⟩
    cases hr : (out vd st path v).2 with
    | ok d => exact ⟨d, rfl⟩
    | error e =>
      rw [hr] at h
      rcases h.2.2 b qs h1 with ⟨hn, _⟩ | ⟨_, hn, _⟩
      · exact absurd h2 hn
      · exact absurd h3 hn

/-- **C12, a stored value.**  On success the new outputs are the old ones with the value inserted at the path: it is
found there, and every path that is neither above nor below it reads as before; the listeners are told
`(path, value, dynamic)` once, `dynamic` saying that the last name is not a declared port. -/
theorem C12_out_stored (vd : Nat → V → Bool) (st : OutSt) (hwf : wfPorts st.ports = true) (path : List String)
    (hpath : path ≠ []) (v : V) (d : Bool) (h : (out vd st path v).2 = .ok d) :
    getPath (some (.dict false (out vd st path v).1.outputs)) path = some v ∧
    (∀ q, ¬ q <+: path → ¬ path <+: q →
      getPath (some (.dict false (out vd st path v).1.outputs)) q = getPath (some (.dict false st.outputs)) q) ∧
    (out vd st path v).1.emitted = (path, v, d) :: st.emitted ∧
    IsDynamicOut st.top st.ports path d := by
  obtain ⟨_, _, hm⟩ := out_master vd st hwf path v
  rw [h] at hm
  obtain ⟨b, qs, h1, _, h3, h4, h5⟩ := hm
  have hp : path.dropLast ++ [path.getLastD ""] = path := dropLast_append_getLastD path hpath
  refine ⟨?_, ?_, h5, ⟨b, qs, h1, h3⟩⟩
  · have := store_getPath_self _ _ _ _ _ false h4; rwa [hp] at this
  · intro q hq1 hq2
    have := store_getPath_other _ _ _ _ _ false q h4; rw [hp] at this; exact this hq1 hq2

/-- **C12, a rejected value.**  When `out` raises, the outputs are unchanged and no listener is told anything; if the
path resolves, the error is the `ValueError` of validation exactly when the spec rejects the value (otherwise the place
was taken: `TypeError` / `AttributeError` of the storage loop). -/
theorem C12_out_failed (vd : Nat → V → Bool) (st : OutSt) (hwf : wfPorts st.ports = true) (path : List String) (v : V)
    (e : Err) (h : (out vd st path v).2 = .error e) :
    (out vd st path v).1.outputs = st.outputs ∧ (out vd st path v).1.emitted = st.emitted ∧
    ((∃ b qs, resolveRef st.top st.ports path.dropLast = some (b, qs)) →
      ((¬ AcceptsOut vd st.top st.ports path v ∧ ∃ p, e = .validation p) ∨
       (AcceptsOut vd st.top st.ports path v ∧ ¬ Storable st.outputs path.dropLast ∧ (e = .typeError ∨ e = .attributeError)))) := by
  obtain ⟨_, _, hm⟩ := out_master vd st hwf path v
  rw [h] at hm
  refine ⟨hm.1, hm.2.1, ?_⟩
  rintro ⟨b, qs, hq⟩
  rcases hm.2.2 b qs hq with ⟨h1, h2⟩ | ⟨h1, h2, h3, _⟩
  · left
    refine ⟨?_, h2⟩
    rintro ⟨b', qs', hq', hl⟩
    rw [hq] at hq'; cases hq'; exact h1 hl
  · right; exact ⟨⟨b, qs, hq, h1⟩, h2, h3⟩

/-- **C12, the place is taken.**  When the spec accepts the value and `out` raises all the same, the reason is a value that is
not a plain dict (an atom, or an immutable mapping that was emitted — at the top of the outputs or inside an emitted plain
dict) found at a non-empty prefix `q` of the namespace part of the path; the error is `TypeError` when it sits exactly at
the namespace (`value_in_the_way[name] = v`) and `AttributeError` when segments remain below it (`setdefault` on it). -/
theorem C12_out_place_taken (vd : Nat → V → Bool) (st : OutSt) (hwf : wfPorts st.ports = true) (path : List String) (v : V)
    (e : Err) (h : (out vd st path v).2 = .error e) (hacc : AcceptsOut vd st.top st.ports path v) :
    ∃ q w rest, path.dropLast = q ++ rest ∧ q ≠ [] ∧
      getPath (some (.dict false st.outputs)) q = some w ∧ w.isDict = false ∧
      e = (if rest = [] then .typeError else .attributeError) := by
  obtain ⟨_, _, hm⟩ := out_master vd st hwf path v
  rw [h] at hm
  obtain ⟨b, qs, hq, hl⟩ := hacc
  rcases hm.2.2 b qs hq with ⟨h1, _⟩ | ⟨_, _, _, hs⟩
  · exact absurd hl h1
  · exact store_error_exact _ _ _ _ _ hs

/-- **C12, an emitted immutable mapping is a value.**  Let an immutable mapping sit in the outputs at `q` (wherever: at the
top or inside an emitted plain dict).  Then (1) every `out` whose namespace part runs through `q` raises — nothing is ever
stored below it, whatever it contains; and (2) every `out` that succeeds and does not overwrite it (its path is not a
prefix of `q`) leaves it exactly as it was emitted. -/
theorem C12_immutable_is_value (vd : Nat → V → Bool) (st : OutSt) (hwf : wfPorts st.ports = true) (path : List String)
    (hpath : path ≠ []) (v : V) (q : List String) (items : Items)
    (hq : getPath (some (.dict false st.outputs)) q = some (.dict true items)) :
    (q <+: path.dropLast → ∃ e, (out vd st path v).2 = .error e) ∧
    (∀ d, (out vd st path v).2 = .ok d → ¬ path <+: q →
      getPath (some (.dict false (out vd st path v).1.outputs)) q = some (.dict true items)) := by
  obtain ⟨_, _, hm⟩ := out_master vd st hwf path v
  have blocked : q <+: path.dropLast → ∀ o, store st.outputs path.dropLast (path.getLastD "") v ≠ .ok o := by
    intro hp o ho
    obtain ⟨e, he⟩ := store_blocked (path.getLastD "") v path.dropLast st.outputs q _ hp hq rfl
    rw [ho] at he; cases he
  have hp : path.dropLast ++ [path.getLastD ""] = path := dropLast_append_getLastD path hpath
  constructor
  · intro hpre
    cases hr : (out vd st path v).2 with
    | error e => exact ⟨e, rfl⟩
    | ok d =>
      rw [hr] at hm
      obtain ⟨_, _, _, _, _, h4, _⟩ := hm
      exact absurd h4 (blocked hpre _)
  · intro d hd hnp
    rw [hd] at hm
    obtain ⟨_, _, _, _, _, h4, _⟩ := hm
    have hnq : ¬ q <+: path := by
      intro hqp
      rw [← hp, List.prefix_concat_iff] at hqp
      rcases hqp with heq | hpre
      · exact hnp (by rw [heq, hp]; exact List.prefix_refl _)
      · exact blocked hpre _ h4
    have := store_getPath_other _ _ _ _ _ false q h4
    rw [hp] at this
    rw [this hnq hnp, hq]

/-- `out` keeps the (extended) output spec well formed and never touches the attributes of `spec.outputs` -/
theorem C12_out_keeps_wf (vd : Nat → V → Bool) (st : OutSt) (hwf : wfPorts st.ports = true) (path : List String) (v : V) :
    wfPorts (out vd st path v).1.ports = true ∧ (out vd st path v).1.top = st.top :=
  ⟨(out_master vd st hwf path v).1, (out_master vd st hwf path v).2.1⟩

/-- **C12, second sentence.**  Entering FINISHED after a step that returned `result` (successfully or not): the process
ends FINISHED with that result, and it is successful exactly when the step result was successful and the collected
outputs conform to the output spec (as extended by the emissions); the future and the listeners get the outputs. -/
theorem C12_successful_iff (vd : Nat → V → Bool) (st : OutSt) (hwf : wfPorts st.ports = true) (result : Nat) (ok : Bool) :
    (toFinished vd st result ok).label = .finished ∧ (toFinished vd st result ok).result = result ∧
    ((toFinished vd st result ok).successful = true ↔
      ok = true ∧ ConformsPort vd (.ns st.top st.ports) (some (.dict false st.outputs))) ∧
    (toFinished vd st result ok).future = some st.outputs ∧ (toFinished vd st result ok).listener = some st.outputs := by
  have hwf' : wfPort (.ns st.top st.ports) = true := by simpa [wfPort] using hwf
  have hc := validatePort_none_iff vd (.ns st.top st.ports) hwf' "outputs" [] (some (.dict false st.outputs))
  unfold toFinished onFinish
  cases ok with
  | false => simp
  | true =>
    cases hv : validatePort vd "outputs" [] (.ns st.top st.ports) (some (.dict false st.outputs)) with
    | none => rw [hv] at hc; simp [hc.1 rfl]
    | some e =>
      rw [hv] at hc
      have : ¬ ConformsPort vd (.ns st.top st.ports) (some (.dict false st.outputs)) := fun h => by
        have := hc.2 h; cases this
      simp [this]

/-! ## whole runs -/

/-- **C12, "stored values are what the process future and listeners later report".**  For a process whose step makes
any sequence of `out` calls (catching their errors) and then returns: the notifications `on_output_emitted` are exactly
the calls that returned, in order, each with its `dynamic` flag; the outputs are exactly those notifications
re-inserted in order; and that mapping is the result of the process future and the argument of `on_process_finished`. -/
theorem C12_future_reports_outputs (vd : Nat → V → Bool) (top : NsA) (ports : PortList) (hwf : wfPorts ports = true)
    (ems : List (List String × V)) (result : Nat) (ok : Bool) :
    let run := outs vd { top, ports, outputs := [], emitted := [] } ems
    let fin := toFinished vd run.1 result ok
    run.1.emitted.reverse = accepted ems run.2 ∧
    run.1.outputs = replay [] run.1.emitted.reverse ∧
    fin.future = some run.1.outputs ∧ fin.listener = some run.1.outputs ∧
    fin.label = .finished ∧ fin.result = result := by
  intro run fin
  obtain ⟨hw, _, he, ho⟩ := outs_master vd ems { top, ports, outputs := [], emitted := [] } hwf
  obtain ⟨f1, f2, _, f4, f5⟩ := C12_successful_iff vd run.1 hw result ok
  exact ⟨by simpa using he, ho rfl, f4, f5, f1, f2⟩

/-! ## non-vacuity -/

def oTop : NsA := { required := true, validType := some 0, default := none, dynamic := true, populate := true, validator := none }
def oPorts : PortList :=
  [("x", .leaf { required := true, validType := some 0, default := none, callable := false, validator := none }),
   ("ns", .ns { required := false, validType := none, default := none, dynamic := false, populate := true, validator := none }
      [("a", .leaf { required := true, validType := some 0, default := none, callable := false, validator := none })])]
def oVd (n : Nat) (v : V) : Bool := v.mentions n
def oSt : OutSt := { top := oTop, ports := oPorts, outputs := [], emitted := [] }

example : wfPorts oPorts = true := by decide
/-- a declared port, a nested declared port, a dynamic port two namespaces deep (created in the spec) -/
example : (out oVd oSt ["x"] (.atom 0 1)).2 = .ok false := by decide
example : (out oVd oSt ["ns", "a"] (.atom 0 1)).2 = .ok false := by decide
example : (out oVd oSt ["p", "q", "r"] (.atom 0 1)).2 = .ok true ∧
    (out oVd oSt ["p", "q", "r"] (.atom 0 1)).1.outputs = [("p", .dict false [("q", .dict false [("r", .atom 0 1)])])] ∧
    (match lookup "p" (out oVd oSt ["p", "q", "r"] (.atom 0 1)).1.ports with
     | some (.ns _ sub) => hasKey "q" sub | _ => false) = true := by decide
example : AcceptsOut oVd oTop oPorts ["p", "q", "r"] (.atom 0 1) ∧ Storable [] ["p", "q"] :=
  (C12_out_stores_iff oVd oSt (by decide) _ _).1 ⟨true, by decide⟩
/-- rejected: wrong type at depth in a dynamic namespace (and the namespace `p` is created all the same); wrong type
for a declared port; undeclared port in a non-dynamic namespace; through a leaf port; value below an emitted atom -/
example : (out oVd oSt ["p", "q"] (.atom 1 1)).2 = .error (.validation "p.q") ∧
    (out oVd oSt ["p", "q"] (.atom 1 1)).1.outputs = [] ∧
    hasKey "p" (out oVd oSt ["p", "q"] (.atom 1 1)).1.ports = true := by decide
example : (out oVd oSt ["x"] (.atom 1 1)).2 = .error (.validation "x") := by decide
example : (out oVd oSt ["ns", "zz"] (.atom 0 1)).2 = .error (.validation "ns") := by decide
example : (out oVd oSt ["x", "y", "z"] (.atom 0 1)).2 = .error .attributeError := by decide
example : (out oVd (out oVd oSt ["k"] (.atom 0 1)).1 ["k", "l"] (.atom 0 1)).2 = .error .typeError := by decide
/-! immutable mappings among the emitted values -/
def oTopU : NsA := { oTop with validType := none }
def oStU : OutSt := { top := oTopU, ports := oPorts, outputs := [], emitted := [] }
/-- the emitted immutable mapping `<a=1>` at `k`, and one inside an emitted plain dict at `m` (`m = {a = <b={}>}`) -/
def oStF : OutSt := (outs oVd oStU [(["k"], .dict true [("a", .atom 0 1)]),
  (["m"], .dict false [("a", .dict true [("b", .dict false [])])])]).1

/-- an untyped dynamic namespace accepts an immutable mapping, which is stored as it is (and reported as such) -/
example : (out oVd oStU ["k"] (.dict true [("a", .atom 0 1)])).2 = .ok true ∧
    (out oVd oStU ["k"] (.dict true [("a", .atom 0 1)])).1.outputs = [("k", .dict true [("a", .atom 0 1)])] ∧
    (out oVd oStU ["k"] (.dict true [("a", .atom 0 1)])).1.emitted = [(["k"], .dict true [("a", .atom 0 1)], true)] := by decide
/-- a typed one rejects it — it is a leaf that is not of the type, whatever its items (ints here) — also inside a plain dict,
while the same items in plain dicts are accepted -/
example : (out oVd oSt ["k"] (.dict true [("a", .atom 0 1)])).2 = .error (.validation "outputs.k") ∧
    (out oVd oSt ["k"] (.dict false [("b", .dict true [("a", .atom 0 1)])])).2 = .error (.validation "outputs.k.outputs.b") ∧
    (out oVd oSt ["k"] (.dict false [("b", .dict false [("a", .atom 0 1)])])).2 = .ok true := by decide
/-- nothing is stored below an immutable mapping: directly below it `TypeError`, deeper `AttributeError` — at an existing key as at
a new one, at the top of the outputs as inside an emitted plain dict (whose own plain levels can still be extended) — and the
outputs stay as they were -/
example : (out oVd oStF ["k", "a"] (.atom 0 2)).2 = .error .typeError ∧
    (out oVd oStF ["k", "z"] (.atom 0 2)).2 = .error .typeError ∧
    (out oVd oStF ["k", "a", "b"] (.atom 0 2)).2 = .error .attributeError ∧
    (out oVd oStF ["m", "a", "z"] (.atom 0 2)).2 = .error .typeError ∧
    (out oVd oStF ["m", "a", "b", "c"] (.atom 0 2)).2 = .error .attributeError ∧
    (out oVd oStF ["m", "a", "b", "c", "d"] (.atom 0 2)).2 = .error .attributeError ∧
    (out oVd oStF ["m", "a", "b", "c"] (.atom 0 2)).1.outputs = oStF.outputs ∧
    (out oVd oStF ["m", "z"] (.atom 0 2)).2 = .ok true := by decide
/-- the hypotheses of `C12_out_place_taken` and `C12_immutable_is_value` hold there: the spec accepts `k.z = 2`, the call
raises, and the value in the way is the immutable mapping at `k`; emitting at `k` again replaces it -/
example : AcceptsOut oVd oStF.top oStF.ports ["k", "z"] (.atom 0 2) :=
  ⟨oTopU, [], rfl, rfl, fun _ h => by cases h⟩
example : getPath (some (.dict false oStF.outputs)) ["k"] = some (.dict true [("a", .atom 0 1)]) ∧
    getPath (some (.dict false oStF.outputs)) ["m", "a"] = some (.dict true [("b", .dict false [])]) ∧
    wfPorts oStF.ports = true := by decide
/-- the two theorems applied to it -/
example : ∃ q w rest, ["k"] = q ++ rest ∧ q ≠ [] ∧ getPath (some (.dict false oStF.outputs)) q = some w ∧ w.isDict = false ∧
    Err.typeError = (if rest = [] then .typeError else .attributeError) :=
  C12_out_place_taken oVd oStF (by decide) ["k", "z"] (.atom 0 2) .typeError (by decide) ⟨oTopU, [], rfl, rfl, fun _ h => by cases h⟩
example : ∃ e, (out oVd oStF ["m", "a", "b", "c"] (.atom 0 2)).2 = .error e :=
  (C12_immutable_is_value oVd oStF (by decide) ["m", "a", "b", "c"] (by simp) (.atom 0 2) ["m", "a"] [("b", .dict false [])] (by decide)).1 ⟨["b"], rfl⟩
example : getPath (some (.dict false (out oVd oStF ["m", "z"] (.atom 0 2)).1.outputs)) ["m", "a"] = some (.dict true [("b", .dict false [])]) :=
  (C12_immutable_is_value oVd oStF (by decide) ["m", "z"] (by simp) (.atom 0 2) ["m", "a"] [("b", .dict false [])] (by decide)).2 true (by decide)
    (by rintro ⟨t, ht⟩; simp at ht)
example : (out oVd oStF ["k"] (.dict false [])).2 = .ok true ∧
    (out oVd (out oVd oStF ["k"] (.dict false [])).1 ["k", "z"] (.atom 0 2)).2 = .ok true := by decide
/-- at the end the immutable mapping is validated as the value it is: fine in the untyped namespace (with `x` emitted the
process is successful); but the failed `out('k.a.b', …)` has made `k` and `k.a` namespaces of the spec, and `<a=1>` is not a
value for the namespace `k` (its entry `a` is an int where a mapping is due) -/
example : (toFinished oVd (out oVd oStF ["x"] (.atom 0 1)).1 7 true).successful = true ∧
    (toFinished oVd (out oVd oStF ["x"] (.atom 0 1)).1 7 true).future = some (out oVd oStF ["x"] (.atom 0 1)).1.outputs ∧
    (toFinished oVd (outs oVd oStF [(["x"], .atom 0 1), (["k", "a", "b"], .atom 0 2)]).1 7 true).successful = false := by decide

/-- finishing: required `x` missing → FINISHED, result kept, unsuccessful; with `x` emitted → successful;
an unsuccessful step result stays unsuccessful -/
example : toFinished oVd oSt 7 true = { label := .finished, result := 7, successful := false, future := some [], listener := some [] } := by decide
example : (toFinished oVd (out oVd oSt ["x"] (.atom 0 1)).1 7 true).successful = true := by decide
example : (toFinished oVd (out oVd oSt ["x"] (.atom 0 1)).1 7 false).successful = false := by decide
/-- a failed call changes the spec, and with it the verdict at the end: `k = 5` was accepted as a dynamic int, the failed
`out('k.l', 'float')` turned `k` into a namespace of the spec, and the outputs no longer conform -/
example : (toFinished oVd (outs oVd oSt [(["x"], .atom 0 1), (["k"], .atom 0 5)]).1 7 true).successful = true ∧
    (toFinished oVd (outs oVd oSt [(["x"], .atom 0 1), (["k"], .atom 0 5), (["k", "l"], .atom 1 1)]).1 7 true).successful = false := by
  decide

end Ports
