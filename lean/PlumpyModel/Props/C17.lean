import PlumpyModel.Launcher.Proof
/-!
# C17 — launcher tasks do what they say or are rejected

Model: `Launcher.call` (`ProcessLauncher.__call__`), `Launcher.launch` / `continue_` / `create`
(`_launch` / `_continue` / `_create`), over an abstract persister (`Store`, a map `(pid, tag) → Checkpoint`; the
configuration says whether one is configured at all), abstract object loaders (`Loaders`) and an abstract process
runtime (`Runtime`: `construct`, `complete`).  All theorems hold for every configuration, every loader tables, every
runtime, every state (persister content and id counter) and every task body; `runAll`/`finalState` thread the state
through a history of tasks, and `C17_history_step` says that every step of every history is such a `call`, so each
clause holds at every point of every history.

A step (`Step`) consists of the reply, the state left behind, the effects before the reply (`now`) and the effects of
what was scheduled with `ensure_future` (`later`), both in order of occurrence.
-/
namespace Launcher
variable (cfg : Config) (L : Loaders) (R : Runtime) (s : State)

/-! ## the tables generated from the source are the ones the clauses below talk about -/

/-- The dispatch chain of `__call__` read off the source: the task type is `task[TASK_KEY]`, it is compared with
`LAUNCH_TASK`, `CONTINUE_TASK`, `CREATE_TASK` in this order, each awaiting the method of that name, and what follows
the chain is `raise TaskRejected`.  (A change of the chain changes `Gen/Launcher.lean` and this stops compiling.) -/
theorem C17_tables :
    Gen.launcherTaskSubject = Gen.comms_task_key ∧
    Gen.launcherDispatch = [(Gen.comms_launch_task, "_launch"), (Gen.comms_continue_task, "_continue"),
      (Gen.comms_create_task, "_create")] ∧
    Gen.launcherFallthrough = "raise communications.TaskRejected" := by decide

def argKeys (body : Dict) : List String :=
  match lookup Gen.comms_task_args body with
  | some (.dict d) => d.map (·.1)
  | _ => []

/-- The bodies written by `create_launch_body` / `create_continue_body` / `create_create_body` (task type and argument
keys as generated from the source) are the model's `launchBody` / `continueBody` / `createBody`, and `__call__` binds
them to the right method with the right arguments: the keys fit the keyword signatures of `_launch`, `_continue`,
`_create`. -/
theorem C17_bodies_bind (ident : Ident) (init : CtorArgs) (persist nowait : Bool) (pid : Pid) (tag : Tag) :
    (lookup Gen.comms_task_key (launchBody ident init persist nowait) = some (.str Gen.body_launch_task) ∧
      argKeys (launchBody ident init persist nowait) = Gen.body_launch_argKeys ∧
      call cfg L R s (launchBody ident init persist nowait)
        = launch cfg L R s { processClass := .str ident, persist := persist, nowait := nowait, init := init }) ∧
    (lookup Gen.comms_task_key (continueBody pid tag nowait) = some (.str Gen.body_continue_task) ∧
      argKeys (continueBody pid tag nowait) = Gen.body_continue_argKeys ∧
      call cfg L R s (continueBody pid tag nowait)
        = continue_ cfg L R s { pid := .pid pid, nowait := nowait, tag := match tag with | none => .none | some t => .str t }) ∧
    (lookup Gen.comms_task_key (createBody ident init persist) = some (.str Gen.body_create_task) ∧
      argKeys (createBody ident init persist) = Gen.body_create_argKeys ∧
      call cfg L R s (createBody ident init persist)
        = create cfg L R s { processClass := .str ident, persist := persist, init := init }) :=
  ⟨⟨rfl, rfl, rfl⟩, ⟨rfl, rfl, rfl⟩, ⟨rfl, rfl, rfl⟩⟩

/-- every step of every history is `call` in the state left by the tasks before it -/
theorem C17_history_step (pre post : List Dict) (b : Dict) :
    (runAll cfg L R s (pre ++ b :: post))[pre.length]? = some (call cfg L R (finalState cfg L R s pre) b) :=
  runAll_step cfg L R s pre post b

/-! ## tasks that cannot be honoured -/

/-- **unknown task type**: a body whose task type is none of launch / continue / create — whatever else it
contains — is rejected; the state is untouched, nothing happens before or after the reply. -/
theorem C17_unknown_task_rejected (body : Dict) (t : Val) (ht : lookup Gen.comms_task_key body = some t)
    (h1 : t ≠ .str Gen.comms_launch_task) (h2 : t ≠ .str Gen.comms_continue_task) (h3 : t ≠ .str Gen.comms_create_task) :
    call cfg L R s body = Step.reject s := by
  have hs : Gen.launcherTaskSubject = Gen.comms_task_key := by decide
  simp only [call, hs, ht, dispatch_unknown t h1 h2 h3]

example : call ⟨some .pickle, none, none⟩ ⟨fun _ _ => some "C", fun _ c => c⟩ ⟨fun _ _ => .ok (), fun _ => .outputs []⟩ ⟨[], 0⟩
    [(Gen.comms_task_key, .str "kill"), (Gen.comms_task_args, .dict [(Gen.comms_process_class_key, .str "m:C"),
      (Gen.comms_persist_key, .bool true), (Gen.comms_nowait_key, .bool false)])] = Step.reject ⟨[], 0⟩ := by
  apply C17_unknown_task_rejected (t := .str "kill") <;> first | rfl | (intro h; injection h with h; exact absurd h (by decide))

/-- **persisting without a persister** (launch): rejected, before the class is even looked up. -/
theorem C17_persist_without_persister_rejected (a : LaunchArgs) (hp : a.persist = true) (hn : cfg.persister = none) :
    launch cfg L R s a = Step.reject s := by
  simp [launch, hp, hn]

/-- **persisting without a persister** (create). -/
theorem C17_create_persist_without_persister_rejected (a : CreateArgs) (hp : a.persist = true) (hn : cfg.persister = none) :
    create cfg L R s a = Step.reject s := by
  simp [create, hp, hn]

/-- **continuing without a persister**: rejected, whatever pid and tag. -/
theorem C17_continue_without_persister_rejected (a : ContinueArgs) (hn : cfg.persister = none) :
    continue_ cfg L R s a = Step.reject s := by
  simp [continue_, hn]

/-- the same three at the level of `__call__`, for the bodies plumpy itself writes -/
theorem C17_bodies_without_persister_rejected (hn : cfg.persister = none) (ident : Ident) (init : CtorArgs) (nowait : Bool)
    (pid : Pid) (tag : Tag) :
    call cfg L R s (launchBody ident init true nowait) = Step.reject s ∧
    call cfg L R s (createBody ident init true) = Step.reject s ∧
    call cfg L R s (continueBody pid tag nowait) = Step.reject s := by
  obtain ⟨⟨_, _, h1⟩, ⟨_, _, h2⟩, ⟨_, _, h3⟩⟩ := C17_bodies_bind cfg L R s ident init true nowait pid tag
  rw [h1, h2, h3]
  exact ⟨C17_persist_without_persister_rejected cfg L R s _ rfl hn,
    C17_create_persist_without_persister_rejected cfg L R s _ rfl hn,
    C17_continue_without_persister_rejected cfg L R s _ hn⟩

example : (call ⟨none, some .custom, none⟩ ⟨fun _ _ => some "C", fun _ c => c⟩ ⟨fun _ _ => .ok (), fun _ => .outputs []⟩ ⟨[], 3⟩
    (continueBody 1 (some "t") true)).reply = .rejected := rfl

/-- **a task that is not honoured does nothing else instead**: whenever the reply is `TaskRejected` or an exception
that is not the outcome of a process (no task type, arguments that do not fit, unknown class identifier, failing
constructor, no such checkpoint), the persister and the id counter are as before, nothing was constructed, recreated,
saved or run, and nothing is scheduled. -/
theorem C17_refused_task_is_inert (body : Dict) (h : (call cfg L R s body).reply.refused = true) :
    (call cfg L R s body).Inert s := by
  rcases call_cases cfg L R s body with e | e | e | ⟨a, e⟩ | ⟨a, e⟩ | ⟨a, e⟩ <;> rw [e] at h ⊢
  · exact ⟨rfl, rfl, rfl, rfl, rfl⟩
  · exact Step.reject_inert s
  · exact ⟨rfl, rfl, rfl, rfl, rfl⟩
  · exact launch_refused_inert cfg L R s a h
  · exact continue_refused_inert cfg L R s a h
  · exact create_refused_inert cfg L R s a h

/-- in particular: a rejected task is exactly the rejection, nothing more -/
theorem C17_rejected_changes_nothing (body : Dict) (h : (call cfg L R s body).reply = .rejected) :
    (call cfg L R s body).st = s ∧ ranProcs ((call cfg L R s body).now ++ (call cfg L R s body).later) = [] ∧
      savedOf (call cfg L R s body).now = [] := by
  have hi := C17_refused_task_is_inert cfg L R s body (by rw [h]; rfl)
  refine ⟨hi.state, ?_, hi.saved⟩
  rw [hi.later, List.append_nil, hi.ran]

/-! ## create -/

/-- **create does not run**: whatever the arguments, a create task runs nothing and schedules nothing; when it
succeeds (the reply is a pid) the reply is the id of the process it constructed from the class the launcher's loader
resolves, that process is in its initial state (`pos = 0`, CREATED), and the persister afterwards is the persister
before plus — iff `persist` was asked — the initial checkpoint of that process under `(pid, None)`. -/
theorem C17_create_does_not_run (a : CreateArgs) :
    ranProcs ((create cfg L R s a).now ++ (create cfg L R s a).later) = [] ∧ (create cfg L R s a).later = [] ∧
    ∀ pid, (create cfg L R s a).reply = .pid pid →
      ∃ ident cls, a.processClass = .str ident ∧ L.load cfg.launchLoader ident = some cls ∧
        pid = s.next ∧ (fresh s cls a.init).pid = pid ∧ (fresh s cls a.init).pos = 0 ∧
        builtOf (create cfg L R s a).now = [fresh s cls a.init] ∧
        (create cfg L R s a).st.next = s.next + 1 ∧
        (create cfg L R s a).st.pers =
          if a.persist then s.pers.put (pid, none) (bundle L cfg.saveLoader (fresh s cls a.init)) else s.pers := by
  rcases create_cases cfg L R s a with ⟨_, _, e⟩ | ⟨f, hf, e⟩ | ⟨ident, cls, hp, hc, hl, hcons, e⟩
  · rw [e]; exact ⟨rfl, rfl, fun pid h => by cases h⟩
  · have hi := instantiate_inl cfg L R s hf
    rw [e]
    refine ⟨by rw [hi.1.later, List.append_nil, hi.1.ran], hi.1.later, fun pid h => ?_⟩
    have := hi.2.1; rw [h] at this; cases this
  · rw [e]
    by_cases hq : a.persist = true ∧ cfg.persister ≠ none
    · rw [persistIfAsked_yes cfg L _ _ _ hq.1 hq.2]
      refine ⟨by simp [ranProcs], rfl, fun pid h => ?_⟩
      cases h
      exact ⟨ident, cls, hc, hl, rfl, rfl, rfl, by simp [builtOf], rfl, by simp [hq.1, fresh]⟩
    · rw [persistIfAsked_no cfg L _ _ _ hq]
      refine ⟨by simp [ranProcs], rfl, fun pid h => ?_⟩
      cases h
      refine ⟨ident, cls, hc, hl, rfl, rfl, rfl, by simp [builtOf], rfl, ?_⟩
      have : a.persist = false := by
        cases hpp : a.persist
        · rfl
        · exfalso
          cases hcp : cfg.persister with
          | none => exact hp ⟨hpp, hcp⟩
          | some k => exact hq ⟨hpp, by simp [hcp]⟩
      simp [this]

example : (create ⟨some .pickle, none, none⟩ ⟨fun _ _ => some "C", fun _ c => c⟩ ⟨fun _ _ => .ok (), fun _ => .outputs []⟩ ⟨[], 3⟩
    ⟨.str "m:C", true, (.none, .none)⟩).reply = .pid 3 := rfl

/-! ## launch -/

/-- **launch runs a fresh instance, persisting it first when asked**: a launch task that gets as far as constructing
the process (`persist` is honourable, the launcher's loader knows the identifier, the constructor accepts the
arguments) does, in this order and nothing else: resolve the class, construct the process, — if asked — save its
INITIAL state (`pos = 0`: no step has run) under `(pid, None)`, and run that very process from the start.  The
persister afterwards is the persister before plus that one checkpoint (or unchanged). -/
theorem C17_launch_persists_first (a : LaunchArgs) (ident : Ident) (cls : ClassId)
    (hh : ¬ (a.persist = true ∧ cfg.persister = none)) (hc : a.processClass = .str ident)
    (hl : L.load cfg.launchLoader ident = some cls) (hcons : R.construct cls a.init = .ok ()) :
    let p := fresh s cls a.init
    let c := bundle L cfg.saveLoader p
    p.pos = 0 ∧ c.pos = 0 ∧ c.pid = s.next ∧
    (launch cfg L R s a).st.next = s.next + 1 ∧
    (a.persist = true →
      (launch cfg L R s a).now ++ (launch cfg L R s a).later =
        [.resolved cfg.launchLoader ident (some cls), .constructed p, .saved (s.next, none) c, .ran p] ∧
      (launch cfg L R s a).st.pers = s.pers.put (s.next, none) c) ∧
    (a.persist = false →
      (launch cfg L R s a).now ++ (launch cfg L R s a).later =
        [.resolved cfg.launchLoader ident (some cls), .constructed p, .ran p] ∧
      (launch cfg L R s a).st.pers = s.pers) := by
  have hi := instantiate_ok cfg L R s (init := a.init) hl hcons
  have hb : (a.persist && cfg.persister.isNone) = false := by
    cases hpp : a.persist <;> cases hq : cfg.persister <;> simp_all
  refine ⟨rfl, rfl, rfl, ?_, ?_, ?_⟩
  · by_cases hq : a.persist = true ∧ cfg.persister ≠ none
    · cases hw : a.nowait <;> simp [launch, hb, hc, hi, persistIfAsked_yes cfg L _ _ _ hq.1 hq.2, finish, hw]
    · cases hw : a.nowait <;> simp [launch, hb, hc, hi, persistIfAsked_no cfg L _ _ _ hq, finish, hw]
  · intro hp
    have hq : cfg.persister ≠ none := fun h => hh ⟨hp, h⟩
    cases hw : a.nowait <;>
      simp [launch, hb, hc, hi, persistIfAsked_yes cfg L _ _ _ hp hq, finish, hw, fresh]
  · intro hp
    have hq : ¬ (a.persist = true ∧ cfg.persister ≠ none) := by simp [hp]
    cases hw : a.nowait <;> simp [launch, hb, hc, hi, persistIfAsked_no cfg L _ _ _ hq, finish, hw]

example : ((launch ⟨some (.mem none), none, none⟩ ⟨fun _ _ => some "C", fun _ c => c⟩ ⟨fun _ _ => .ok (), fun _ => .outputs [("v", 1)]⟩
    ⟨[], 0⟩ ⟨.str "m:C", true, false, (.none, .none)⟩).st.pers.get (0, none)).map (·.pos) = some 0 := rfl

/-! ## continue -/

/-- **continue resumes exactly the persisted checkpoint of the requested tag**: with a persister configured, a continue
task for `(pid, tag)`
* fails with the persister's "no such checkpoint" error, doing nothing, when the store holds nothing under exactly
  that key;
* otherwise loads that checkpoint `c = load (pid, tag)`, resolves the class name recorded in it, recreates the process
  from it (`recreate c cls`: same id, same constructor arguments, same position — not a fresh instance) and runs that
  process and no other; the persister is left as it is. -/
theorem C17_continue_uses_requested_tag (a : ContinueArgs) (hp : cfg.persister ≠ none) (pid : Pid) (tag : Tag)
    (hkey : keyOf a.pid a.tag = some (pid, tag)) :
    (continue_ cfg L R s a).st = s ∧
    match s.pers.get (pid, tag) with
    | none => continue_ cfg L R s a = Step.fail s .noCheckpoint
    | some c =>
      match L.load (loadLoader cfg c) c.ident with
      | none => (continue_ cfg L R s a).reply = .error .unknownIdentifier ∧ (continue_ cfg L R s a).Inert s
      | some cls =>
        (continue_ cfg L R s a).now ++ (continue_ cfg L R s a).later =
          [.loaded (pid, tag) c, .resolved (loadLoader cfg c) c.ident (some cls), .recreated (recreate c cls),
           .ran (recreate c cls)] ∧
        (recreate c cls).pos = c.pos ∧ (recreate c cls).init = c.init ∧ (recreate c cls).pid = c.pid := by
  rcases continue_cases cfg L R s a with ⟨hn, _⟩ | ⟨_, hnone, e⟩ | ⟨k, c, _, hk, hg, hl, e⟩ | ⟨k, c, cls, _, hk, hg, hl, e⟩
  · exact absurd hn hp
  · rw [e, hnone _ hkey]; exact ⟨rfl, rfl⟩
  · rw [hkey] at hk; cases hk
    rw [e, hg]; simp only [hl]
    exact ⟨rfl, rfl, ⟨rfl, rfl, rfl, rfl, rfl⟩⟩
  · rw [hkey] at hk; cases hk
    rw [e, hg]; simp only [hl]
    cases a.nowait <;> simp [finish, recreate]

/-- … and nothing else: the step of a continue task depends on the store only through the entry under the requested
key (two stores that agree there give the same reply and the same effects). -/
theorem C17_continue_depends_only_on_requested_checkpoint (s' : State) (a : ContinueArgs) (pid : Pid) (tag : Tag)
    (hkey : keyOf a.pid a.tag = some (pid, tag)) (hsame : s.pers.get (pid, tag) = s'.pers.get (pid, tag)) :
    (continue_ cfg L R s a).reply = (continue_ cfg L R s' a).reply ∧
    (continue_ cfg L R s a).now = (continue_ cfg L R s' a).now ∧
    (continue_ cfg L R s a).later = (continue_ cfg L R s' a).later := by
  cases hp : cfg.persister with
  | none => simp [continue_, hp, Step.reject]
  | some k =>
    simp only [continue_, hp, hkey, Option.isNone_some, Bool.false_eq_true, if_false, Option.bind_some, ← hsame]
    cases s.pers.get (pid, tag) with
    | none => simp [Step.fail]
    | some c =>
      simp only [Option.map_some]
      cases L.load (loadLoader cfg c) c.ident with
      | none => simp [Step.fail]
      | some cls => cases a.nowait <;> simp [finish]

/-- with the invariant of histories (a checkpoint is filed under the id of its process) the process resumed has the
requested id -/
theorem C17_continue_resumes_requested_pid (hinv : Inv s) (pid : Pid) (tag : Tag) (c : Checkpoint)
    (hg : s.pers.get (pid, tag) = some c) (cls : ClassId) : (recreate c cls).pid = pid :=
  (hinv (pid, tag) c (Store.mem_of_get hg)).1

example : (continue_ ⟨some .pickle, none, none⟩ ⟨fun _ _ => some "C", fun _ c => c⟩ ⟨fun _ _ => .ok (), fun p => .outputs [("pos", p.pos)]⟩
    ⟨[((7, some "b"), ⟨"m:C", none, 7, "C", (.none, .none), 2⟩), ((7, some "a"), ⟨"m:C", none, 7, "C", (.none, .none), 1⟩)], 8⟩
    ⟨.pid 7, false, .str "b"⟩).reply = .outputs [("pos", 2)] := rfl

/-! ## nowait / wait -/

/-- **with nowait the id is returned immediately**: a launch or continue task with `nowait` that gets as far as having
a process replies that process's id, has run nothing when it replies, and leaves exactly the run of that process for
afterwards. -/
theorem C17_nowait_returns_pid :
    (∀ (a : LaunchArgs) ident cls, a.nowait = true → ¬ (a.persist = true ∧ cfg.persister = none) →
      a.processClass = .str ident → L.load cfg.launchLoader ident = some cls → R.construct cls a.init = .ok () →
      (launch cfg L R s a).reply = .pid s.next ∧ ranProcs (launch cfg L R s a).now = [] ∧
        (launch cfg L R s a).later = [.ran (fresh s cls a.init)]) ∧
    (∀ (a : ContinueArgs) k c cls, a.nowait = true → cfg.persister ≠ none → keyOf a.pid a.tag = some k →
      s.pers.get k = some c → L.load (loadLoader cfg c) c.ident = some cls →
      (continue_ cfg L R s a).reply = .pid c.pid ∧ ranProcs (continue_ cfg L R s a).now = [] ∧
        (continue_ cfg L R s a).later = [.ran (recreate c cls)]) := by
  constructor
  · intro a ident cls hw hh hc hl hcons
    have hi := instantiate_ok cfg L R s (init := a.init) hl hcons
    have hb : (a.persist && cfg.persister.isNone) = false := by
      cases hpp : a.persist <;> cases hq : cfg.persister <;> simp_all
    by_cases hq : a.persist = true ∧ cfg.persister ≠ none
    · simp [launch, hb, hc, hi, persistIfAsked_yes cfg L _ _ _ hq.1 hq.2, finish, hw, ranProcs, fresh]
    · simp [launch, hb, hc, hi, persistIfAsked_no cfg L _ _ _ hq, finish, hw, ranProcs, fresh]
  · intro a k c cls hw hp hk hg hl
    have hp' : cfg.persister.isNone = false := by cases h : cfg.persister <;> simp_all
    simp [continue_, hp', hk, hg, hl, finish, hw, ranProcs, recreate]

/-- **otherwise the reply is the process's outputs or its error**: a launch or continue task without `nowait` that gets
as far as having a process has run it to completion before replying (the run is the last effect, nothing is left for
afterwards) and replies what the process ended with — its outputs, the exception it ended with, or `KilledError`
when it was killed meanwhile (never the outputs emitted before the kill) — and never a pid or a rejection. -/
theorem C17_reply_is_outputs_or_error :
    (∀ (a : LaunchArgs) ident cls, a.nowait = false → ¬ (a.persist = true ∧ cfg.persister = none) →
      a.processClass = .str ident → L.load cfg.launchLoader ident = some cls → R.construct cls a.init = .ok () →
      (launch cfg L R s a).reply = replyOf (R.complete (fresh s cls a.init)) ∧ (launch cfg L R s a).later = [] ∧
        ranProcs (launch cfg L R s a).now = [fresh s cls a.init]) ∧
    (∀ (a : ContinueArgs) k c cls, a.nowait = false → cfg.persister ≠ none → keyOf a.pid a.tag = some k →
      s.pers.get k = some c → L.load (loadLoader cfg c) c.ident = some cls →
      (continue_ cfg L R s a).reply = replyOf (R.complete (recreate c cls)) ∧ (continue_ cfg L R s a).later = [] ∧
        ranProcs (continue_ cfg L R s a).now = [recreate c cls]) ∧
    (∀ o, (∃ out, replyOf o = .outputs out ∧ o = .outputs out) ∨ (∃ e, replyOf o = .error (.proc e) ∧ o = .raised e) ∨
      (replyOf o = .error .killed ∧ o = .killed)) := by
  refine ⟨?_, ?_, ?_⟩
  · intro a ident cls hw hh hc hl hcons
    have hi := instantiate_ok cfg L R s (init := a.init) hl hcons
    have hb : (a.persist && cfg.persister.isNone) = false := by
      cases hpp : a.persist <;> cases hq : cfg.persister <;> simp_all
    by_cases hq : a.persist = true ∧ cfg.persister ≠ none
    · simp [launch, hb, hc, hi, persistIfAsked_yes cfg L _ _ _ hq.1 hq.2, finish, hw, ranProcs, fresh]
    · simp [launch, hb, hc, hi, persistIfAsked_no cfg L _ _ _ hq, finish, hw, ranProcs, fresh]
  · intro a k c cls hw hp hk hg hl
    have hp' : cfg.persister.isNone = false := by cases h : cfg.persister <;> simp_all
    simp [continue_, hp', hk, hg, hl, finish, hw, ranProcs, recreate]
  · intro o
    cases o with
    | outputs out => left; exact ⟨out, rfl, rfl⟩
    | raised e => right; left; exact ⟨e, rfl, rfl⟩
    | killed => right; right; exact ⟨rfl, rfl⟩

example : (launch ⟨none, none, none⟩ ⟨fun _ _ => some "C", fun _ c => c⟩ ⟨fun _ _ => .ok (), fun _ => .raised "ValueError"⟩ ⟨[], 0⟩
    ⟨.str "m:C", false, false, (.none, .none)⟩).reply = .error (.proc "ValueError") := rfl

/-! ## the loader -/

/-- **the configured object loader is the one used**: when the launcher was given a loader `l`, every class
resolution of every task — the class to construct (launch, create) and the class to recreate a checkpoint as
(continue) — is made by `l` and yields what `l` says; every process constructed or recreated has the class `l`
resolved — also when the launcher was given a load context of its own, with or without a loader in it.  Without a
configured loader, launch and create use the global default loader and continue follows `loadLoader`. -/
theorem C17_configured_loader_used (body : Dict) :
    (∀ l, cfg.loader = some l → ∀ r ∈ resolutionsOf ((call cfg L R s body).now ++ (call cfg L R s body).later),
      r.1 = l ∧ r.2.2 = L.load l r.2.1) ∧
    (∀ r ∈ resolutionsOf ((call cfg L R s body).now ++ (call cfg L R s body).later),
      r.2.2 = L.load r.1 r.2.1 ∧
      (r.1 = cfg.launchLoader ∨ ∃ kc ∈ loadedOf (call cfg L R s body).now, r.1 = loadLoader cfg kc.2 ∧ r.2.1 = kc.2.ident)) ∧
    (∀ p ∈ builtOf (call cfg L R s body).now,
      ∃ r ∈ resolutionsOf (call cfg L R s body).now, r.2.2 = some p.cls) := by
  have key : ∀ st : Step, (st = Step.fail s .missingTaskKey ∨ st = Step.reject s ∨ st = Step.fail s .badArguments ∨
      (∃ a, st = launch cfg L R s a) ∨ (∃ a, st = continue_ cfg L R s a) ∨ (∃ a, st = create cfg L R s a)) →
      (∀ r ∈ resolutionsOf (st.now ++ st.later), r.2.2 = L.load r.1 r.2.1 ∧
        (r.1 = cfg.launchLoader ∨ ∃ kc ∈ loadedOf st.now, r.1 = loadLoader cfg kc.2 ∧ r.2.1 = kc.2.ident)) ∧
      (∀ p ∈ builtOf st.now, ∃ r ∈ resolutionsOf st.now, r.2.2 = some p.cls) := by
    intro st hst
    rcases hst with e | e | e | ⟨a, e⟩ | ⟨a, e⟩ | ⟨a, e⟩
    · subst e; simp [Step.fail, resolutionsOf, builtOf]
    · subst e; simp [Step.reject, resolutionsOf, builtOf]
    · subst e; simp [Step.fail, resolutionsOf, builtOf]
    · subst e
      rcases launch_cases cfg L R s a with ⟨_, _, e⟩ | ⟨f, hf, e⟩ | ⟨ident, cls, hp, hc, hl, hcons, e⟩ <;> rw [e]
      · simp [Step.reject, resolutionsOf, builtOf]
      · have hi := instantiate_inl cfg L R s hf
        rw [hi.1.later, List.append_nil, hi.1.built]
        refine ⟨fun r hr => ?_, by simp⟩
        have := hi.2.2.2 r hr
        exact ⟨by rw [this.2, this.1], Or.inl this.1⟩
      · by_cases hq : a.persist = true ∧ cfg.persister ≠ none
        · rw [persistIfAsked_yes cfg L _ _ _ hq.1 hq.2]
          cases a.nowait <;> simp [finish, resolutionsOf, builtOf, hl, fresh]
        · rw [persistIfAsked_no cfg L _ _ _ hq]
          cases a.nowait <;> simp [finish, resolutionsOf, builtOf, hl, fresh]
    · subst e
      rcases continue_cases cfg L R s a with ⟨_, e⟩ | ⟨_, _, e⟩ | ⟨k, c, hp, hk, hg, hl, e⟩ | ⟨k, c, cls, hp, hk, hg, hl, e⟩ <;>
        rw [e]
      · simp [Step.reject, resolutionsOf, builtOf]
      · simp [Step.fail, resolutionsOf, builtOf]
      · simp [Step.fail, resolutionsOf, builtOf, loadedOf, hl]
      · cases a.nowait <;> simp [finish, resolutionsOf, builtOf, loadedOf, hl, recreate]
    · subst e
      rcases create_cases cfg L R s a with ⟨_, _, e⟩ | ⟨f, hf, e⟩ | ⟨ident, cls, hp, hc, hl, hcons, e⟩ <;> rw [e]
      · simp [Step.reject, resolutionsOf, builtOf]
      · have hi := instantiate_inl cfg L R s hf
        rw [hi.1.later, List.append_nil, hi.1.built]
        refine ⟨fun r hr => ?_, by simp⟩
        have := hi.2.2.2 r hr
        exact ⟨by rw [this.2, this.1], Or.inl this.1⟩
      · by_cases hq : a.persist = true ∧ cfg.persister ≠ none
        · rw [persistIfAsked_yes cfg L _ _ _ hq.1 hq.2]
          simp [resolutionsOf, builtOf, hl, fresh]
        · rw [persistIfAsked_no cfg L _ _ _ hq]
          simp [resolutionsOf, builtOf, hl, fresh]
  have hk := key (call cfg L R s body) (call_cases cfg L R s body)
  refine ⟨fun l hl r hr => ?_, hk.1, hk.2⟩
  obtain ⟨h1, h2⟩ := hk.1 r hr
  have hcfg : cfg.launchLoader = l := by simp [Config.launchLoader, hl]
  have hload : ∀ c, loadLoader cfg c = l := by intro c; simp [loadLoader, Config.contextLoader, hl]
  have : r.1 = l := by
    rcases h2 with h | ⟨kc, _, h, _⟩
    · rw [h, hcfg]
    · rw [h, hload]
  exact ⟨this, by rw [h1, this]⟩

example : (launch ⟨none, some .custom, none⟩
    ⟨fun k i => match k with | .custom => (if i = "jimmy" then some "Proc" else none) | _ => none, fun _ c => c⟩
    ⟨fun _ _ => .ok (), fun p => .outputs [(p.cls, 1)]⟩ ⟨[], 0⟩
    ⟨.str "jimmy", false, false, (.none, .none)⟩).reply = .outputs [("Proc", 1)] := rfl

/-- the caller's load context carries the default loader, the launcher is given a custom one: a continue task resolves
the class with the custom one -/
example : (continue_ ⟨some .pickle, some .custom, some .default⟩
    ⟨fun k i => match k with | .custom => (if i = "m:C" then some "Swapped" else none) | _ => some "C", fun _ c => c⟩
    ⟨fun _ _ => .ok (), fun p => .outputs [(p.cls, 1)]⟩
    ⟨[((0, none), ⟨"m:C", none, 0, "C", (.none, .none), 0⟩)], 1⟩
    ⟨.pid 0, false, .none⟩).reply = .outputs [("Swapped", 1)] := rfl

/-- a process that is killed while the launcher awaits it: the reply is its `KilledError`, not its partial outputs -/
example : (launch ⟨none, none, none⟩ ⟨fun _ _ => some "C", fun _ c => c⟩ ⟨fun _ _ => .ok (), fun _ => .killed⟩ ⟨[], 0⟩
    ⟨.str "m:C", false, false, (.none, .none)⟩).reply = .error .killed := rfl

/-! ## histories -/

/-- in every history, the persister changes only through the saves the tasks announce, each of which files the initial
state of the process that very task constructed under `(its pid, None)`; ids are never reused; every process that
runs was constructed or recreated by the task that runs it; whatever is loaded is what the store held. -/
theorem C17_history_frame (hist : List Dict) (st : Step) (h : st ∈ runAll cfg L R s hist) :
    ∃ pre b post, hist = pre ++ b :: post ∧ st = call cfg L R (finalState cfg L R s pre) b ∧
      Frame cfg (finalState cfg L R s pre) st := by
  obtain ⟨pre, b, post, h1, h2⟩ := runAll_mem cfg L R s h
  exact ⟨pre, b, post, h1, h2, h2 ▸ call_frame cfg L R _ b⟩

/-- **without a persister**, whatever the history: the persister content never changes, nothing is ever saved or
loaded, and every persist-launch, persist-create and continue task plumpy can write is rejected. -/
theorem C17_history_without_persister (hn : cfg.persister = none) (hist : List Dict) :
    (finalState cfg L R s hist).pers = s.pers ∧
    ∀ st ∈ runAll cfg L R s hist, savedOf st.now = [] ∧ loadedOf st.now = [] := by
  induction hist generalizing s with
  | nil => exact ⟨rfl, fun st h => by cases h⟩
  | cons b r ih =>
    have f := call_frame cfg L R s b
    have hs := f.nopers hn
    have hpers : (call cfg L R s b).st.pers = s.pers := by rw [f.pers, hs.1]; rfl
    obtain ⟨i1, i2⟩ := ih (call cfg L R s b).st
    refine ⟨by simp only [finalState]; rw [i1, hpers], fun st h => ?_⟩
    simp only [runAll, List.mem_cons] at h
    rcases h with h | h
    · rw [h]; exact hs
    · exact i2 st h

/-- every history keeps: a checkpoint is filed under the id of its process, and that id has been handed out -/
theorem C17_history_invariant (hist : List Dict) (h : Inv s) : Inv (finalState cfg L R s hist) :=
  finalState_inv cfg L R s hist h

/-- **create, then (after any history of further tasks) continue = what `execute_process` does**: the continue task
for the id replied by a persisting create task resumes the INITIAL state of exactly the process that create task
constructed — whatever tasks were handled in between — so it runs what a launch task would have run. -/
theorem C17_create_then_continue (hp : cfg.persister ≠ none) (ident : Ident) (cls : ClassId) (init : CtorArgs)
    (hl : L.load cfg.launchLoader ident = some cls) (hcons : R.construct cls init = .ok ()) (mid : List Dict) (nowait : Bool) :
    let s1 := (call cfg L R s (createBody ident init true)).st
    let s2 := finalState cfg L R s1 mid
    let c := bundle L cfg.saveLoader (fresh s cls init)
    (call cfg L R s (createBody ident init true)).reply = .pid s.next ∧
    s2.pers.get (s.next, none) = some c ∧ c.pos = 0 ∧
    ∀ cls', L.load (loadLoader cfg c) c.ident = some cls' →
      (call cfg L R s2 (continueBody s.next none nowait)).now ++ (call cfg L R s2 (continueBody s.next none nowait)).later =
        [.loaded (s.next, none) c, .resolved (loadLoader cfg c) c.ident (some cls'), .recreated (recreate c cls'),
         .ran (recreate c cls')] ∧
      (recreate c cls').pid = s.next ∧ (recreate c cls').pos = 0 ∧ (recreate c cls').init = init := by
  intro s1 s2 c
  have hcreate : call cfg L R s (createBody ident init true)
      = create cfg L R s { processClass := .str ident, persist := true, init := init } :=
    (C17_bodies_bind cfg L R s ident init true nowait 0 none).2.2.2.2
  have hi := instantiate_ok cfg L R s (init := init) hl hcons
  have hb : (true && cfg.persister.isNone) = false := by cases h : cfg.persister <;> simp_all
  have hstep : create cfg L R s { processClass := .str ident, persist := true, init := init } =
      { reply := .pid s.next,
        st := { pers := s.pers.put (s.next, none) c, next := s.next + 1 },
        now := [.resolved cfg.launchLoader ident (some cls), .constructed (fresh s cls init), .saved (s.next, none) c],
        later := [] } := by
    simp [create, hb, hi, persistIfAsked_yes cfg L _ _ _ rfl hp, fresh, c]
  have hs1 : s1 = { pers := s.pers.put (s.next, none) c, next := s.next + 1 } := by
    show (call cfg L R s (createBody ident init true)).st = _
    rw [hcreate, hstep]
  have hget : s2.pers.get (s.next, none) = some c := by
    show (finalState cfg L R s1 mid).pers.get (s.next, none) = some c
    rw [finalState_get_old cfg L R s1 mid (s.next, none) (by rw [hs1]; exact Nat.lt_succ_self _), hs1]
    exact Store.get_put_same _ _ _
  refine ⟨by rw [hcreate, hstep], hget, rfl, fun cls' hl' => ?_⟩
  have hcont : call cfg L R s2 (continueBody s.next none nowait)
      = continue_ cfg L R s2 { pid := .pid s.next, nowait := nowait, tag := .none } :=
    (C17_bodies_bind cfg L R s2 ident init true nowait s.next none).2.1.2.2
  have h := C17_continue_uses_requested_tag cfg L R s2 { pid := .pid s.next, nowait := nowait, tag := .none } hp s.next none rfl
  rw [hget] at h
  simp only [hl'] at h
  rw [hcont]
  exact ⟨h.2.1, rfl, rfl, rfl⟩

example : Inv ⟨[], 0⟩ := fun k c h => by cases h

end Launcher
