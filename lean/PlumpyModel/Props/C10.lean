import PlumpyModel.Props.C06
import PlumpyModel.PM.Proof8
import PlumpyModel.PM.Proof13c
/-!
# C10 — ToContext is a barrier: the next step sees every awaited result

Model: `PMF`.  The workchain's WAITING state carries `awaiting : List (future, context key)`; `efs` are the awaited
external futures (`pending | result v | exc e`; a killed child is `exc KilledError`), `efCb` the futures that carry the
state's done-callback, `ready` the scheduled callbacks (`Cb.adone f` = `_awaitable_done` for future `f`, scheduled by
asyncio when `f` completes, run by a tick in ANY order).  `awaitableDone` is `_awaitable_done`, `wake` is
`Waiting.execute` after its future completed.

The first theorems are the barrier's mechanism, for every configuration: a completed item is stored under its key and removed
from the awaiting set, the wait itself completes only when the set is empty, a failed item fails the wait, and a failed
wait excepts the process without activating another step.  The barrier itself is a theorem over whole histories
(`C10_barrier`, `C10_barrier_resume_ok`): in every configuration reachable by any history of ticks, completions (in any order
and placement), pause / play / kill / fail / cancel / call_soon events and harmless `resume()`s — a `resume()` placed while
something is still awaited bypasses the barrier, in the model as in the library (`C10_witness_resume_bypasses_barrier`) — the
wait of the current WAITING state holds (or has parked) a result only when NOTHING is awaited any more; since the next outline
step is activated only by a wait that holds a result (`Waiting.execute`), it starts only after every awaited item was processed
by `_awaitable_done`.

The second half of the file is about what that step finds (section "History level"):
`C10_next_step_finds_every_result` / `C10_next_step_finds_result_under_its_key` — the activation that follows a wait is the
wait's continuation, and at that moment the context maps the key of every awaitable of the wait to the result of its future, an
earlier value under that key having been replaced (`C10_context_is_a_map`: the context has one binding per key, always);
`C10_failed_item_never_activates` / `C10_held_failure_excepts` — if an awaited item failed or was killed and its callback was
processed first, nothing is ever activated again and the chain ends EXCEPTED with exactly that error.  Their hypotheses
(`B10.AwDistinct`, `B10.histOk`, `H6.histFuelOk`) are each shown necessary in the model by a witness.  Both registration styles
(`to_context` / returned `ToContext`), children launched for real and `no_loop_errors` are decided by the correspondence check
and the Python monitor.
-/
namespace PMF


/-- `_awaitable_done` for an awaited future `f` that completed with a value: the value is stored in the context under
the key it was registered with (replacing an earlier value under that key), `f` leaves the awaiting set, and the wait
itself is completed ONLY if nothing else is awaited. -/
theorem C10_done_stores_and_waits (c : Cfg) (fn wf : Nat) (wk : Option WF) (aw : List (Nat × Nat)) (f key : Nat) (v : Val)
    (hst : c.st = .waiting fn wf wk aw) (hf : aw.find? (·.1 = f) = some (f, key)) (hv : c.efs[f]? = some (.result v))
    (hrest : (aw.filter (·.1 ≠ f)).isEmpty = false) :
    (awaitableDone c f).st = .waiting fn wf wk (aw.filter (·.1 ≠ f)) ∧
    (awaitableDone c f).ctx = (key, v) :: c.ctx.filter (·.1 ≠ key) ∧
    (awaitableDone c f).wfs = c.wfs := by
  unfold awaitableDone
  simp only [hst, hf, hv, hrest, Bool.false_eq_true, if_false]
  exact ⟨trivial, trivial, trivial⟩

/-- … and when it was the last one, the wait completes (with no value: the next step takes no argument) -/
theorem C10_last_done_completes (c : Cfg) (fn wf : Nat) (aw : List (Nat × Nat)) (f key : Nat) (v : Val)
    (hst : c.st = .waiting fn wf none aw) (hf : aw.find? (·.1 = f) = some (f, key)) (hv : c.efs[f]? = some (.result v))
    (hrest : (aw.filter (·.1 ≠ f)).isEmpty = true) (hp : c.wfs[wf]? = some .pending) :
    (awaitableDone c f).ctx = (key, v) :: c.ctx.filter (·.1 ≠ key) ∧
    (awaitableDone c f).wfs[wf]? = some (.result none) := by
  have hlt : wf < c.wfs.length := (List.getElem?_eq_some_iff.mp hp).1
  unfold awaitableDone
  simp only [hst, hf, hv, hrest, if_true]
  unfold deliver
  simp only [hp]
  exact ⟨trivial, by simp [setAt, hlt]⟩

/-- an awaited item that failed (an exception, or a killed child: KilledError) fails the wait with that error … -/
theorem C10_failed_item_fails_wait (c : Cfg) (fn wf : Nat) (aw : List (Nat × Nat)) (f key : Nat) (e : Exc)
    (hst : c.st = .waiting fn wf none aw) (hf : aw.find? (·.1 = f) = some (f, key)) (hv : c.efs[f]? = some (.exc e))
    (hp : c.wfs[wf]? = some .pending) :
    (awaitableDone c f).wfs[wf]? = some (.failed e) ∧ (awaitableDone c f).ctx = c.ctx := by
  have hlt : wf < c.wfs.length := (List.getElem?_eq_some_iff.mp hp).1
  unfold awaitableDone
  simp only [hst, hf, hv]
  unfold deliver
  simp only [hp]
  exact ⟨by simp [setAt, hlt], trivial⟩

/-- … and a failed wait ends the process EXCEPTED with that error: the following step is never activated -/
theorem C10_failed_wait_excepts (c : Cfg) (fn wf : Nat) (e : Exc) (hl : terminal c.st.label = false) :
    (wake c fn wf (.failed e)).st.label = .excepted ∧ (wake c fn wf (.failed e)).trace = c.trace := by
  unfold wake
  simp only
  unfold endOfStep
  have hp : prepare c (.exception e) = (setInterrupt c none, some (.excepted e)) := by unfold prepare; rfl
  rw [hp]
  have hs := setInterrupt_same c none
  have hi : (setInterrupt c none).interrupt = none := by unfold setInterrupt; split <;> rfl
  constructor
  · rw [finally_st]
    unfold dispatch
    simp only [hs.1, hl, Bool.false_eq_true, if_false, hi]
    rcases transitionTo_label (setInterrupt c none) (.excepted e) with h | h <;> simpa [SObj.label] using h
  · have ht : (finally_ (dispatch (setInterrupt c none) (some (.excepted e)))).trace =
        (dispatch (setInterrupt c none) (some (.excepted e))).trace := (finally_sameP _).2.1
    rw [ht]
    unfold dispatch
    simp only [hs.1, hl, Bool.false_eq_true, if_false, hi]
    rw [(transitionTo_keep _ _).1]
    exact (setInterrupt_sameP c none).2.1


/-- **the barrier, over whole histories**: for every program, every number of awaited futures and every history that
contains no external `resume()`, if the process is WAITING on awaitables `aw` and its wait holds a result — i.e. the
stepping task is about to (or can) activate the next step — or a result is parked behind an interruption, then `aw` is
empty: every awaited item has been processed. -/
theorem C10_barrier (P : Prog) (nf : Nat) (evs : List Ev) (hnr : ∀ e ∈ evs, ∀ v, e ≠ .resume v)
    (fn wf : Nat) (wk : Option WF) (aw : List (Nat × Nat)) (hst : (run P (init nf) evs).st = .waiting fn wf wk aw)
    (hres : (∃ v, (run P (init nf) evs).wfs[wf]? = some (.result v)) ∨ (∃ v, wk = some (.result v))) : aw = [] := by
  have h := run_invB P (init nf) evs (invB_init nf) hnr fn wf wk aw hst
  apply h.2
  rcases hres with ⟨v, hv⟩ | ⟨v, hv⟩
  · left; rw [hv]; rfl
  · right; rw [hv]; rfl

/-- the index of the waiting future of the current WAITING state is always valid (the wait can always be completed) -/
theorem C10_wait_index_valid (P : Prog) (nf : Nat) (evs : List Ev) (hnr : ∀ e ∈ evs, ∀ v, e ≠ .resume v)
    (fn wf : Nat) (wk : Option WF) (aw : List (Nat × Nat)) (hst : (run P (init nf) evs).st = .waiting fn wf wk aw) :
    wf < (run P (init nf) evs).wfs.length :=
  (run_invB P (init nf) evs (invB_init nf) hnr fn wf wk aw hst).1

/-! ## History level: what the next step finds in the context, failures, `resume()`

Helper lemmas: `PM/Proof13.lean` (no stale callbacks, `B10.G`), `PM/Proof13b.lean` (`B10.Bar`: what becomes of one wait),
`PM/Proof13c.lean` (a held failure excepts; the context is a map).  Hypotheses on the history, all decidable `Bool`
functions of the program and the history (see the examples at the end):

* `H6.histFuelOk` — no callback of the stepping task runs out of the model's fuel (as for C06, and needed for the same
  reason: a stale program counter would let the model's next tick leave the wait without its results);
* `B10.histOk` — a `resume()` is placed only while the current state awaits nothing (`C10_barrier_full_is_false`: the model,
  like `Waiting.resume` of the library, lets `resume()` complete the wait of a work chain whatever is still awaited), and
  no awaitable is "completed" with the outcome `pending`;

and on the program: `B10.AwDistinct P` — one `ToContext` never awaits the same future twice (the awaiting map
`Waiting._awaiting` is a `dict` keyed by the future). -/

/-- the awaitable `(f, k)` of the wait on `aw0` is found in the context: `f` completed with a value `v`, and the context
binds `k` to `v` — or, if the same key was given to several futures of this wait, to the value of another one of them
(the assignment processed last replaces the earlier one) -/
def FoundInCtx (aw0 : List (Nat × Nat)) (c : Cfg) (f k : Nat) : Prop :=
  ∃ v, c.efs[f]? = some (.result v) ∧
    ((k, v) ∈ c.ctx ∨ ∃ f' v', f' ≠ f ∧ (f', k) ∈ aw0 ∧ c.efs[f']? = some (.result v') ∧ (k, v') ∈ c.ctx)

/-- **the context is a map, whatever the history**: its keys are pairwise distinct — `_awaitable_done` REPLACES the value
stored under a key (`C10_done_stores_and_waits`), so a later assignment (of a later step, or of the same wait) leaves exactly
one binding of the key; `(k, v) ∈ ctx` therefore means "the context maps `k` to `v`" (`C10_ctx_lookup`). -/
theorem C10_context_is_a_map (P : Prog) (nf : Nat) (evs : List Ev) : ((run P (init nf) evs).ctx.map (·.1)).Nodup :=
  B10.run_ctxOk P (init nf) evs (B10.ctxOk_init nf)

/-- reading the context: a binding that is in the context is THE binding of its key -/
theorem C10_ctx_lookup (P : Prog) (nf : Nat) (evs : List Ev) (k : Nat) (v : Val) (h : (k, v) ∈ (run P (init nf) evs).ctx) :
    (run P (init nf) evs).ctx.find? (·.1 = k) = some (k, v) ∧ ∀ u, (k, u) ∈ (run P (init nf) evs).ctx → u = v :=
  ⟨B10.ctx_lookup_of_mem _ k v (C10_context_is_a_map P nf evs) h,
   fun u hu => B10.ctx_unique _ k v u (C10_context_is_a_map P nf evs) h hu⟩

/-- **(1) context contents — the step after the barrier finds every awaited result under its key.**
Take any program whose `ToContext`s name distinct futures, any number of external futures, and any history split as
`pre ++ mid ++ [e]` (well formed, no callback out of fuel) such that

* after `pre` the chain is WAITING for continuation `fn` on the awaitables `aw0` and nothing has been delivered to that
  wait yet (e.g. `pre` ends with the callback in which the `waitOn` step returned),
* during `mid` no step is activated (the trace of user calls does not grow),
* the event `e` logs an activation.

Then `e` is a callback of the stepping task; the FIRST activation it logs is the continuation `fn` of that wait (so the
step following the barrier starts here, and nothing else started in between); the context is not touched by that callback
(`run … (pre ++ mid)` and `run … (pre ++ mid ++ [e])` have the same `ctx`: it is the context the step function is called
with); and for EVERY awaitable `(f, k)` of `aw0`, `f` completed with a value and the context maps `k` to it
(`FoundInCtx`; "maps" by `C10_context_is_a_map`).  In particular every awaited future completed with a RESULT: had one
failed, no activation would be logged (`C10_failed_item_never_activates`). -/
theorem C10_next_step_finds_every_result (P : Prog) (hP : B10.AwDistinct P) (nf : Nat) (pre mid : List Ev) (e : Ev)
    (hfuel : H6.histFuelOk P (init nf) (pre ++ mid ++ [e]) = true)
    (hok : B10.histOk P (init nf) (pre ++ mid ++ [e]) = true)
    (fn wf : Nat) (aw0 : List (Nat × Nat))
    (hst : (run P (init nf) pre).st = .waiting fn wf none aw0)
    (hu : (run P (init nf) pre).wfs[wf]? = some .pending ∨ ∃ j, (run P (init nf) pre).wfs[wf]? = some (.interrupted j))
    (hquiet : (run P (init nf) (pre ++ mid)).trace = (run P (init nf) pre).trace)
    (hact : (run P (init nf) (pre ++ mid ++ [e])).trace ≠ (run P (init nf) (pre ++ mid)).trace) :
    e = .tick ∧
    (run P (init nf) (pre ++ mid ++ [e])).ctx = (run P (init nf) (pre ++ mid)).ctx ∧
    (∃ v extra, (run P (init nf) (pre ++ mid ++ [e])).trace =
        extra ++ H6.actOf fn v :: (run P (init nf) (pre ++ mid)).trace) ∧
    ∀ f k, (f, k) ∈ aw0 → FoundInCtx aw0 (run P (init nf) (pre ++ mid)) f k := by
  rw [H6.histFuelOk_append, H6.histFuelOk_append, Bool.and_eq_true, Bool.and_eq_true] at hfuel
  rw [B10.histOk_append, B10.histOk_append, Bool.and_eq_true, Bool.and_eq_true] at hok
  obtain ⟨⟨hf1, hf2⟩, hf3⟩ := hfuel
  obtain ⟨⟨hk1, hk2⟩, hk3⟩ := hok
  have hR1 := B10.run_reach P hP _ pre (B10.reach_init nf) hf1 hk1
  have hB1 := B10.bar_init (run P (init nf) pre) hst hu
  have hrun2 : run P (init nf) (pre ++ mid) = run P (run P (init nf) pre) mid := H6.run_append ..
  have hR2 := B10.run_reach P hP _ mid hR1 hf2 hk2
  have hB2 := B10.run_bar P hP _ mid hR1 hf2 hk2 hB1
  rw [← hrun2] at hR2 hB2
  have hrun3 : run P (init nf) (pre ++ mid ++ [e]) = (step P (run P (init nf) (pre ++ mid)) e).1 := by
    rw [H6.run_append]; rfl
  have hke : B10.evOk (run P (init nf) (pre ++ mid)) e = true := by
    unfold B10.histOk at hk3; rw [Bool.and_eq_true] at hk3; exact hk3.1
  rw [hrun3] at hact ⊢
  have he : e = .tick := by
    cases hte : decide (e = .tick) with
    | true => exact of_decide_eq_true hte
    | false => exact absurd (B10.step_trace_of_ne_tick P _ e (of_decide_eq_false hte)) hact
  obtain ⟨v, extra, htr, hall⟩ := B10.bar_activation P hP _ e hR2 hke hB2 hquiet hact
  refine ⟨he, ?_, ⟨v, extra, by rw [htr, hquiet]⟩, ?_⟩
  · subst he
    exact B10.tickStepper_ctx P _
  · intro f k hk
    obtain ⟨⟨v, hv⟩, f', v', h1, h2, h3⟩ := hall f k hk
    refine ⟨v, hv, ?_⟩
    by_cases hff : f' = f
    · subst hff; rw [hv] at h2; cases h2; exact Or.inl h3
    · exact Or.inr ⟨f', v', hff, h1, h2, h3⟩

/-- … and if the key `k` was given to one future only (what `ToContext(**kwargs)` guarantees), the context maps `k` to
exactly the result of `f`: whatever was stored under `k` before — by an earlier step, say — has been replaced. -/
theorem C10_next_step_finds_result_under_its_key (P : Prog) (hP : B10.AwDistinct P) (nf : Nat) (pre mid : List Ev) (e : Ev)
    (hfuel : H6.histFuelOk P (init nf) (pre ++ mid ++ [e]) = true)
    (hok : B10.histOk P (init nf) (pre ++ mid ++ [e]) = true)
    (fn wf : Nat) (aw0 : List (Nat × Nat))
    (hst : (run P (init nf) pre).st = .waiting fn wf none aw0)
    (hu : (run P (init nf) pre).wfs[wf]? = some .pending ∨ ∃ j, (run P (init nf) pre).wfs[wf]? = some (.interrupted j))
    (hquiet : (run P (init nf) (pre ++ mid)).trace = (run P (init nf) pre).trace)
    (hact : (run P (init nf) (pre ++ mid ++ [e])).trace ≠ (run P (init nf) (pre ++ mid)).trace)
    (f k : Nat) (hin : (f, k) ∈ aw0) (honce : ∀ f', (f', k) ∈ aw0 → f' = f) :
    ∃ v, (run P (init nf) (pre ++ mid)).efs[f]? = some (.result v) ∧
      (run P (init nf) (pre ++ mid ++ [e])).ctx.find? (·.1 = k) = some (k, v) ∧
      ∀ u, (k, u) ∈ (run P (init nf) (pre ++ mid ++ [e])).ctx → u = v := by
  obtain ⟨_, hctx, _, hall⟩ := C10_next_step_finds_every_result P hP nf pre mid e hfuel hok fn wf aw0 hst hu hquiet hact
  obtain ⟨v, hv, hm | ⟨f', v', hne, h1, _, _⟩⟩ := hall f k hin
  · rw [hctx]
    exact ⟨v, hv, C10_ctx_lookup P nf (pre ++ mid) k v hm⟩
  · exact absurd (honce f' h1) hne

/-- **(2) failure, safety — a processed failure is never lost and nothing is activated after it.**
Split any history (well formed, no callback out of fuel) at the done-callback of an awaited future `f` that completed with
the exception `e` (a failed or killed child) — processed while the chain is WAITING for `fn` on a set containing `f` and
nothing has been delivered to the wait yet (so `e` is the FIRST processed outcome that completes the wait).  Whatever follows
(`mid`: the other awaitables completing and being processed in any order, also with further failures, pause / play /
interruptions that re-arm the wait, kill, fail, resume, ticks): NO activation is ever logged again for this wait — the trace
of user calls stays what it was — and the process is still WAITING for `fn` with its wait holding the failure `e`
(`B10.HoldsF`: in the future, or parked behind an interruption), or it has terminated.  `C10_held_failure_excepts` says how
it terminates. -/
theorem C10_failed_item_never_activates (P : Prog) (hP : B10.AwDistinct P) (nf : Nat) (pre mid : List Ev) (f : Nat)
    (hfuel : H6.histFuelOk P (init nf) (pre ++ .tickCb (.adone f) :: mid) = true)
    (hok : B10.histOk P (init nf) (pre ++ .tickCb (.adone f) :: mid) = true)
    (fn wf k : Nat) (aw : List (Nat × Nat)) (e : Exc)
    (hst : (run P (init nf) pre).st = .waiting fn wf none aw)
    (hu : (run P (init nf) pre).wfs[wf]? = some .pending ∨ ∃ j, (run P (init nf) pre).wfs[wf]? = some (.interrupted j))
    (hin : (f, k) ∈ aw) (hexc : (run P (init nf) pre).efs[f]? = some (.exc e))
    (hsched : Cb.adone f ∈ (run P (init nf) pre).ready) :
    (run P (init nf) (pre ++ .tickCb (.adone f) :: mid)).trace = (run P (init nf) pre).trace ∧
    (terminal (run P (init nf) (pre ++ .tickCb (.adone f) :: mid)).st.label = true ∨
     ∃ wf' wk' aw', (run P (init nf) (pre ++ .tickCb (.adone f) :: mid)).st = .waiting fn wf' wk' aw' ∧
        B10.HoldsF (run P (init nf) (pre ++ .tickCb (.adone f) :: mid)) wf' wk' e) := by
  rw [H6.histFuelOk_append, Bool.and_eq_true] at hfuel
  rw [B10.histOk_append, Bool.and_eq_true] at hok
  have hR1 := B10.run_reach P hP _ pre (B10.reach_init nf) hfuel.1 hok.1
  have hF := B10.adone_exc_held (run P (init nf) pre) f k e hR1 wf aw hst hu hin hexc hsched
  have hf2 := hfuel.2
  unfold H6.histFuelOk at hf2
  rw [Bool.and_eq_true] at hf2
  have hC2 := H6.step_coh P _ (.tickCb (.adone f)) hR1.coh (by intro h; cases h)
  have hrun : run P (init nf) (pre ++ .tickCb (.adone f) :: mid) =
      run P (tickCb (run P (init nf) pre) (.adone f)) mid := by rw [H6.run_append]; rfl
  have hD := B10.run_faild P _ mid hC2 hf2.2 hF
  rw [hrun]
  cases hD with
  | held wf' wk' aw' hst' hh ht => exact ⟨ht, Or.inr ⟨wf', wk', aw', hst', hh⟩⟩
  | over hterm ht => exact ⟨ht, Or.inl hterm⟩

/-- **(2) failure, delivery — the chain ends EXCEPTED with that error.**  In EVERY configuration reachable by a history in
which no callback ran out of fuel: if the chain is WAITING and its wait holds the failure `e`, and the process is playing
(not paused, no pause or kill request pending — a pending kill rightly wins, C04), then ONE callback of the stepping task
ends the process EXCEPTED with exactly `e`, without logging any activation: the step following the barrier never runs
(EXCEPTED is terminal: C01). -/
theorem C10_held_failure_excepts (P : Prog) (nf : Nat) (evs : List Ev) (hfuel : H6.histFuelOk P (init nf) evs = true)
    (fn wf : Nat) (wk : Option WF) (aw : List (Nat × Nat)) (e : Exc)
    (hst : (run P (init nf) evs).st = .waiting fn wf wk aw) (hh : B10.HoldsF (run P (init nf) evs) wf wk e)
    (hpa : (run P (init nf) evs).paused = none) (hpi : (run P (init nf) evs).pausing = none)
    (hk : (run P (init nf) evs).killing = none) :
    (ticks P 1 (run P (init nf) evs)).st = .excepted e ∧
    (ticks P 1 (run P (init nf) evs)).trace = (run P (init nf) evs).trace :=
  B10.tick_fails P _ fn wf wk aw e (H6.run_coh P _ evs (H6.coh_init nf) hfuel) hst hh hpa hpi hk

/-- **(3) `resume()`: the barrier for histories with harmless resumes.**  `C10_barrier` with its hypothesis "no `resume()`"
weakened to `B10.histOk`: every `resume()` of the history is placed while the current state awaits nothing (a plain wait, a
chain between waits, a wait whose awaitables were all processed; on a process that is not WAITING it is refused anyway,
`C06_resume_refused_when_not_waiting`). -/
theorem C10_barrier_resume_ok (P : Prog) (nf : Nat) (evs : List Ev) (hok : B10.histOk P (init nf) evs = true)
    (fn wf : Nat) (wk : Option WF) (aw : List (Nat × Nat)) (hst : (run P (init nf) evs).st = .waiting fn wf wk aw)
    (hres : (∃ v, (run P (init nf) evs).wfs[wf]? = some (.result v)) ∨ (∃ v, wk = some (.result v))) : aw = [] := by
  have h := B10.run_invB_ok P (init nf) evs (invB_init nf) hok fn wf wk aw hst
  apply h.2
  rcases hres with ⟨v, hv⟩ | ⟨v, hv⟩
  · left; rw [hv]; rfl
  · right; rw [hv]; rfl

/-- the hypothesis of `C10_barrier` follows from that of `C10_barrier_resume_ok` -/
theorem C10_no_resume_is_ok (P : Prog) (nf : Nat) (evs : List Ev) (hnr : ∀ e ∈ evs, ∀ v, e ≠ .resume v)
    (hnp : ∀ e ∈ evs, ∀ f, e ≠ .complete f .pending) : B10.histOk P (init nf) evs = true :=
  B10.histOk_of_no_resume P (init nf) evs hnr hnp

/-- the barrier statement with NO hypothesis on the history (kept as a statement: it is FALSE, see below) -/
def C10_barrier_full : Prop :=
  ∀ (P : Prog) (nf : Nat) (evs : List Ev) (fn wf : Nat) (wk : Option WF) (aw : List (Nat × Nat)),
    (run P (init nf) evs).st = .waiting fn wf wk aw →
    ((∃ v, (run P (init nf) evs).wfs[wf]? = some (.result v)) ∨ (∃ v, wk = some (.result v))) → aw = []

/-- **why the `resume()` restriction cannot simply be dropped** (a property of the MODEL that mirrors the library:
`Process.resume` → `Waiting.resume` → `_deliver(True, value)` does not look at the awaiting map): on `Chain2`, a `resume()`
placed while futures 0 and 1 are still awaited (`B10.Chain2`, the corpus program `Chain2` of harness/pm.py) completes the wait — the wait holds a result with both still awaited — and
the next tick activates step 1 with an EMPTY context. -/
theorem C10_witness_resume_bypasses_barrier :
    (run B10.Chain2 (init 3) [.tick, .resume none]).st = .waiting 1 0 none [(0, 0), (1, 1)] ∧
    (run B10.Chain2 (init 3) [.tick, .resume none]).wfs[0]? = some (.result none) ∧
    ((run B10.Chain2 (init 3) [.tick, .resume none, .tick]).trace.map fun a => a.fn) = [1, 0] ∧
    (run B10.Chain2 (init 3) [.tick, .resume none, .tick]).ctx = [] ∧
    B10.histOk B10.Chain2 (init 3) [.tick, .resume none] = false := by decide +kernel

theorem C10_barrier_full_is_false : ¬ C10_barrier_full := by
  intro h
  have hw := C10_witness_resume_bypasses_barrier
  have := h B10.Chain2 3 [.tick, .resume none] 1 0 none [(0, 0), (1, 1)] hw.1 (Or.inl ⟨none, hw.2.1⟩)
  cases this

/-- `C10_next_step_finds_every_result` without its three hypotheses on the program and the history (kept as a statement:
it is FALSE of the model — `C10_next_step_full_is_false` — and each hypothesis is needed, see the witnesses below) -/
def C10_next_step_finds_every_result_full : Prop :=
  ∀ (P : Prog) (nf : Nat) (pre mid : List Ev) (e : Ev) (fn wf : Nat) (aw0 : List (Nat × Nat)),
    (run P (init nf) pre).st = .waiting fn wf none aw0 →
    ((run P (init nf) pre).wfs[wf]? = some .pending ∨ ∃ j, (run P (init nf) pre).wfs[wf]? = some (.interrupted j)) →
    (run P (init nf) (pre ++ mid)).trace = (run P (init nf) pre).trace →
    (run P (init nf) (pre ++ mid ++ [e])).trace ≠ (run P (init nf) (pre ++ mid)).trace →
    ∀ f k, (f, k) ∈ aw0 → FoundInCtx aw0 (run P (init nf) (pre ++ mid)) f k

/-- refuted by the `resume()` that bypasses the barrier: step 1 of `Chain2` is activated while future 0 is still pending -/
theorem C10_next_step_full_is_false : ¬ C10_next_step_finds_every_result_full := by
  intro h
  have hw := C10_witness_resume_bypasses_barrier
  have h1 : (run B10.Chain2 (init 3) [.tick]).st = .waiting 1 0 none [(0, 0), (1, 1)] ∧
      (run B10.Chain2 (init 3) [.tick]).wfs[0]? = some .pending ∧
      (run B10.Chain2 (init 3) ([.tick] ++ [.resume none])).trace = (run B10.Chain2 (init 3) [.tick]).trace ∧
      (run B10.Chain2 (init 3) ([.tick] ++ [.resume none] ++ [.tick])).trace ≠
        (run B10.Chain2 (init 3) ([.tick] ++ [.resume none])).trace ∧
      (run B10.Chain2 (init 3) ([.tick] ++ [.resume none])).efs[0]? = some .pending := by decide +kernel
  obtain ⟨v, hv, _⟩ := h B10.Chain2 3 [.tick] [.resume none] .tick 1 0 [(0, 0), (1, 1)] h1.1 (Or.inl h1.2.1) h1.2.2.1
    h1.2.2.2.1 0 0 (by simp)
  rw [h1.2.2.2.2] at hv; cases hv

/-- **why `B10.AwDistinct` is a hypothesis** (a property of the MODEL: its awaiting set is a list, the library's a `dict`
that cannot hold a future twice): a `waitOn` naming future 0 under the keys 0 and 1 registers two callbacks; the first one
removes BOTH entries, completes the wait, and step 1 is activated with key 1 missing from the context. -/
theorem C10_witness_duplicate_future :
    let P : Prog := fun fn _ _ _ => if fn = 0 then ⟨0, .ret (.waitOn 1 [(0, 0), (0, 1)])⟩ else ⟨0, .ret (.stop none true)⟩
    ((run P (init 1) [.tick, .complete 0 (.result 7), .tickCb (.adone 0), .tick]).trace.map fun a => a.fn) = [1, 0] ∧
    (run P (init 1) [.tick, .complete 0 (.result 7), .tickCb (.adone 0)]).ctx = [(0, 7)] ∧
    H6.histFuelOk P (init 1) [.tick, .complete 0 (.result 7), .tickCb (.adone 0), .tick] = true ∧
    B10.histOk P (init 1) [.tick, .complete 0 (.result 7), .tickCb (.adone 0), .tick] = true := by decide +kernel

/-- **why `B10.histOk` excludes `complete f pending`** (a property of the MODEL's event alphabet: "complete with the outcome
pending" schedules the done-callback of a future that is not done; no run of the library corresponds to it): the callback
removes the future from the awaiting set without storing anything; when the other awaitable of `Chain2` has been processed,
step 1 is activated with key 0 missing from the context. -/
theorem C10_witness_pending_completion :
    ((run B10.Chain2 (init 3) [.tick, .complete 0 .pending, .tickCb (.adone 0), .complete 1 (.result 11), .tickCb (.adone 1),
      .tick]).trace.map fun a => a.fn) = [1, 0] ∧
    (run B10.Chain2 (init 3) [.tick, .complete 0 .pending, .tickCb (.adone 0), .complete 1 (.result 11),
      .tickCb (.adone 1)]).ctx = [(1, 11)] ∧
    H6.histFuelOk B10.Chain2 (init 3) [.tick, .complete 0 .pending, .tickCb (.adone 0), .complete 1 (.result 11),
      .tickCb (.adone 1), .tick] = true ∧
    B10.histOk B10.Chain2 (init 3) [.tick, .complete 0 .pending, .tickCb (.adone 0), .complete 1 (.result 11),
      .tickCb (.adone 1), .tick] = false := by decide +kernel

/-- a chain of exactly `fuel0` synchronous steps between a plain wait and a `waitOn`: fn 0 waits for fn 1, fn 1 … fn 999
continue with the next one, fn 1000 awaits future 0 under key 0 for fn 1001, which stops -/
def fuelWitness10 : Prog := fun fn _ _ _ =>
  if fn = 0 then ⟨0, .ret (.wait 1)⟩ else if fn < 1000 then ⟨0, .ret (.cont (fn + 1) [] [])⟩
  else if fn = 1000 then ⟨0, .ret (.waitOn 1001 [(0, 0)])⟩ else ⟨0, .ret (.stop none true)⟩

/-- **why `H6.histFuelOk` is a hypothesis** (a property of the MODEL, as for C06): the callback that consumes `resume(7)` runs
out of fuel exactly when the `waitOn` state has been entered and returns with the stale program counter "awaiting future
0 of the FIRST wait"; the model's next tick wakes the NEW wait with the old value: fn 1001 is activated although future 0 is
still pending, with an empty context.  The history is well formed (`histOk`: the `resume()` is placed on a plain wait). -/
theorem C10_witness_fuel_exhaustion :
    (run fuelWitness10 (init 1) [.tick, .resume (some 7), .tick]).st = .waiting 1001 1 none [(0, 0)] ∧
    (run fuelWitness10 (init 1) [.tick, .resume (some 7), .tick]).wfs[1]? = some .pending ∧
    (((run fuelWitness10 (init 1) [.tick, .resume (some 7), .tick, .tick]).trace.take 1).map fun a => a.fn) = [1001] ∧
    (run fuelWitness10 (init 1) [.tick, .resume (some 7), .tick]).efs[0]? = some .pending ∧
    (run fuelWitness10 (init 1) [.tick, .resume (some 7), .tick, .tick]).ctx = [] ∧
    H6.histFuelOk fuelWitness10 (init 1) [.tick, .resume (some 7), .tick, .tick] = false ∧
    B10.histOk fuelWitness10 (init 1) [.tick, .resume (some 7), .tick, .tick] = true := by decide +kernel

-- non-vacuity of the history-level theorems, on the corpus programs `Chain` and `Chain2` of harness/pm.py
section
open B10 (Chain Chain2 chain_awDistinct chain2_awDistinct)

-- `Chain2`, first wait: futures complete in the order 1, 0, their callbacks run in that order, then the stepping task runs.
-- All hypotheses of `C10_next_step_finds_every_result` hold for pre = [tick], mid = the four events, e = tick …
example : ∀ f k, (f, k) ∈ [(0, 0), (1, 1)] → FoundInCtx [(0, 0), (1, 1)]
    (run Chain2 (init 3) ([.tick] ++ [.complete 1 (.result 11), .complete 0 (.result 10), .tickCb (.adone 1), .tickCb (.adone 0)])) f k :=
  (C10_next_step_finds_every_result Chain2 chain2_awDistinct 3 [.tick]
    [.complete 1 (.result 11), .complete 0 (.result 10), .tickCb (.adone 1), .tickCb (.adone 0)] .tick
    (by decide +kernel) (by decide +kernel) 1 0 [(0, 0), (1, 1)] (by decide +kernel) (Or.inl (by decide +kernel))
    (by decide +kernel) (by decide +kernel)).2.2.2
-- … and this is what it looks like: step 1 is activated by that tick, with both results in the context
example : let c := run Chain2 (init 3) [.tick, .complete 1 (.result 11), .complete 0 (.result 10), .tickCb (.adone 1),
      .tickCb (.adone 0), .tick]
    (c.trace.map fun a => a.fn) = [1, 0] ∧ c.ctx = [(0, 10), (1, 11)] ∧ c.st = .waiting 2 1 none [(2, 0)] := by
  decide +kernel
-- second wait of `Chain2`: key 0 is assigned AGAIN (future 2); `C10_next_step_finds_result_under_its_key` applies to
-- pre = the history above (the chain has just entered the wait on [(2, 0)]), mid = [complete 2, adone 2], e = tick:
-- step 2 finds 12 under key 0 — the 10 stored by the first wait has been replaced
example : ∃ v, (run Chain2 (init 3) ([.tick, .complete 1 (.result 11), .complete 0 (.result 10), .tickCb (.adone 1),
      .tickCb (.adone 0), .tick] ++ [.complete 2 (.result 12), .tickCb (.adone 2)])).efs[2]? = some (.result v) ∧
    (run Chain2 (init 3) ([.tick, .complete 1 (.result 11), .complete 0 (.result 10), .tickCb (.adone 1),
      .tickCb (.adone 0), .tick] ++ [.complete 2 (.result 12), .tickCb (.adone 2)] ++ [.tick])).ctx.find? (·.1 = 0) = some (0, v) ∧
    ∀ u, (0, u) ∈ (run Chain2 (init 3) ([.tick, .complete 1 (.result 11), .complete 0 (.result 10), .tickCb (.adone 1),
      .tickCb (.adone 0), .tick] ++ [.complete 2 (.result 12), .tickCb (.adone 2)] ++ [.tick])).ctx → u = v :=
  C10_next_step_finds_result_under_its_key Chain2 chain2_awDistinct 3
    [.tick, .complete 1 (.result 11), .complete 0 (.result 10), .tickCb (.adone 1), .tickCb (.adone 0), .tick]
    [.complete 2 (.result 12), .tickCb (.adone 2)] .tick
    (by decide +kernel) (by decide +kernel) 2 1 [(2, 0)] (by decide +kernel) (Or.inl (by decide +kernel))
    (by decide +kernel) (by decide +kernel) 2 0 (by simp) (by intro f' h; simpa using h)
example : (run Chain2 (init 3) [.tick, .complete 1 (.result 11), .complete 0 (.result 10), .tickCb (.adone 1),
      .tickCb (.adone 0), .tick, .complete 2 (.result 12), .tickCb (.adone 2), .tick]).ctx = [(0, 12), (1, 11)] := by
  decide +kernel
-- `Chain` with a pause requested while the stepping task is suspended on the wait (the wait carries the interruption when
-- the result arrives: it is parked, the wait is re-armed, the pause enacted, and after `play` the step is activated):
-- pre = [tick, pause] (second alternative of `hu`), mid = [complete 0, adone 0, tick, play], e = tick
example : ∀ f k, (f, k) ∈ [(0, 0)] → FoundInCtx [(0, 0)]
    (run Chain (init 1) ([.tick, .pause] ++ [.complete 0 (.result 5), .tickCb (.adone 0), .tick, .play])) f k :=
  (C10_next_step_finds_every_result Chain chain_awDistinct 1 [.tick, .pause]
    [.complete 0 (.result 5), .tickCb (.adone 0), .tick, .play] .tick
    (by decide +kernel) (by decide +kernel) 1 0 [(0, 0)] (by decide +kernel) (Or.inr ⟨0, by decide +kernel⟩)
    (by decide +kernel) (by decide +kernel)).2.2.2
example : let c := run Chain (init 1) [.tick, .pause, .complete 0 (.result 5), .tickCb (.adone 0), .tick, .play, .tick]
    (c.trace.map fun a => a.fn) = [1, 0] ∧ c.ctx = [(0, 5)] ∧ c.st = .finished none true := by decide +kernel
-- failure (`Chain2`): future 0 fails with user error 3 and its callback is processed first (pre = [tick, complete 0 exc]);
-- then future 1 completes with a result, its callback runs, the stepping task runs.
-- `C10_failed_item_never_activates`: nothing activated, …
example : (run Chain2 (init 3) ([.tick, .complete 0 (.exc (.user 3))] ++ .tickCb (.adone 0) ::
      [.complete 1 (.result 11), .tickCb (.adone 1), .tick])).trace =
    (run Chain2 (init 3) [.tick, .complete 0 (.exc (.user 3))]).trace :=
  (C10_failed_item_never_activates Chain2 chain2_awDistinct 3 [.tick, .complete 0 (.exc (.user 3))]
    [.complete 1 (.result 11), .tickCb (.adone 1), .tick] 0 (by decide +kernel) (by decide +kernel)
    1 0 0 [(0, 0), (1, 1)] (.user 3) (by decide +kernel) (Or.inl (by decide +kernel)) (by simp) (by decide +kernel)
    (by decide +kernel)).1
-- … `C10_held_failure_excepts`: after [tick, complete 0 exc, adone 0] the wait holds the failure and the process is playing
example : (ticks Chain2 1 (run Chain2 (init 3) [.tick, .complete 0 (.exc (.user 3)), .tickCb (.adone 0)])).st = .excepted (.user 3) :=
  (C10_held_failure_excepts Chain2 3 [.tick, .complete 0 (.exc (.user 3)), .tickCb (.adone 0)] (by decide +kernel)
    1 0 none [(1, 1)] (.user 3) (by decide +kernel) (Or.inl (by decide +kernel)) (by decide +kernel) (by decide +kernel)
    (by decide +kernel)).1
example : let c := run Chain2 (init 3) [.tick, .complete 0 (.exc (.user 3)), .tickCb (.adone 0), .complete 1 (.result 11),
      .tickCb (.adone 1), .tick]
    c.st = .excepted (.user 3) ∧ (c.trace.map fun a => a.fn) = [0] := by decide +kernel
-- a killed child is `exc killedErr`; a second failure does not replace the first
example : (run Chain2 (init 3) [.tick, .complete 1 (.exc .killedErr), .complete 0 (.exc (.user 3)), .tickCb (.adone 1),
      .tickCb (.adone 0), .tick]).st = .excepted .killedErr := by decide +kernel
-- `C10_barrier_resume_ok`: a history WITH a resume that is well formed (`Chain`: the resume arrives when the only awaitable
-- has been processed — it is ignored, the wait already holds its result)
example : B10.histOk Chain (init 1) [.tick, .complete 0 (.result 5), .tickCb (.adone 0), .resume (some 9), .tick] = true ∧
    ((run Chain (init 1) [.tick, .complete 0 (.result 5), .tickCb (.adone 0), .resume (some 9), .tick]).trace.map
      fun a => (a.fn, a.args)) = [(1, []), (0, [])] := by decide +kernel
end

-- non-vacuity: two awaited futures completing in either order; the second step runs only after both callbacks ran
section
private def chain2 : Prog := fun fn _ _ _ =>
  if fn = 0 then ⟨0, .ret (.waitOn 1 [(0, 0), (1, 1)])⟩ else ⟨0, .ret (.stop none true)⟩
example : (run chain2 (init 2) [.tick, .complete 1 (.result 11), .tickCb (.adone 1), .tick]).trace.length = 1 := by
  decide +kernel
example : let c := run chain2 (init 2) [.tick, .complete 1 (.result 11), .complete 0 (.result 10), .tickCb (.adone 1),
      .tickCb (.adone 0), .tick]
    c.trace.length = 2 ∧ c.ctx = [(0, 10), (1, 11)] ∧ c.st = .finished none true := by decide +kernel
example : (run chain2 (init 2) [.tick, .complete 0 (.exc (.user 3)), .tickCb (.adone 0), .tick]).st = .excepted (.user 3) := by
  decide +kernel
end

end PMF
