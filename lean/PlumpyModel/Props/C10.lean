import PlumpyModel.Props.C06
import PlumpyModel.PM.Proof8
/-!
# C10 — ToContext is a barrier: the next step sees every awaited result

Model: `PMF`.  The workchain's WAITING state carries `awaiting : List (future, context key)`; `efs` are the awaited
external futures (`pending | result v | exc e`; a killed child is `exc KilledError`), `efCb` the futures that carry the
state's done-callback, `ready` the scheduled callbacks (`Cb.adone f` = `_awaitable_done` for future `f`, scheduled by
asyncio when `f` completes, run by a tick in ANY order).  `awaitableDone` is `_awaitable_done`, `wake` is
`Waiting.execute` after its future completed.

The theorems are the barrier's mechanism, for every configuration: a completed item is stored under its key and removed
from the awaiting set, the wait itself completes only when the set is empty, a failed item fails the wait, and a failed
wait excepts the process without activating another step.  The barrier itself is a theorem over whole histories
(`C10_barrier`): in every configuration reachable by any history of ticks, completions (in any order and placement),
pause / play / kill / fail / cancel / call_soon events — everything except an external `resume()` on the workchain,
which would bypass the barrier by design — the wait of the current WAITING state holds (or has parked) a result only
when NOTHING is awaited any more; since the next outline step is activated only by a wait that holds a result
(`Waiting.execute`), it starts only after every awaited item was processed by `_awaitable_done`.  That the processed
results are all found in the context under their keys is decided by the correspondence check and the Python monitor.
-/
namespace PMF


/-- `_awaitable_done` for an awaited future `f` that completed with a value: the value is stored in the context under
the key it was registered with (replacing an earlier value under that key), `f` leaves the awaiting set, and the wait
itself is completed ONLY if nothing else is awaited. -/
theorem C10_done_stores_and_waits (c : Cfg) (fn wf : Nat) (wk : Option WF) (aw : List (Nat × Nat)) (f key : Nat) (v : Val)
    (hst : c.st = .waiting fn wf wk aw) (hf : aw.find? (·.1 = f) = some (f, key)) (hv : c.efs[f]? = some (.result v))
    (hrest : (aw.filter (·.1 ≠ f)).isEmpty = false) :
    (awaitableDone c f).st = .waiting fn wf wk (aw.filter (·.1 ≠ f)) ∧
    (awaitableDone c f).ctx = (key, v) :: c.ctx.filter (·.1 ≠ key) ∧
    (awaitableDone c f).wfs = c.wfs := by
  unfold awaitableDone
  simp only [hst, hf, hv, hrest, Bool.false_eq_true, if_false]
  exact ⟨trivial, trivial, trivial⟩

/-- … and when it was the last one, the wait completes (with no value: the next step takes no argument) -/
theorem C10_last_done_completes (c : Cfg) (fn wf : Nat) (aw : List (Nat × Nat)) (f key : Nat) (v : Val)
    (hst : c.st = .waiting fn wf none aw) (hf : aw.find? (·.1 = f) = some (f, key)) (hv : c.efs[f]? = some (.result v))
    (hrest : (aw.filter (·.1 ≠ f)).isEmpty = true) (hp : c.wfs[wf]? = some .pending) :
    (awaitableDone c f).ctx = (key, v) :: c.ctx.filter (·.1 ≠ key) ∧
    (awaitableDone c f).wfs[wf]? = some (.result none) := by
  have hlt : wf < c.wfs.length := (List.getElem?_eq_some_iff.mp hp).1
  unfold awaitableDone
  simp only [hst, hf, hv, hrest, if_true]
  unfold deliver
  simp only [hp]
  exact ⟨trivial, by simp [setAt, hlt]⟩

/-- an awaited item that failed (an exception, or a killed child: KilledError) fails the wait with that error … -/
theorem C10_failed_item_fails_wait (c : Cfg) (fn wf : Nat) (aw : List (Nat × Nat)) (f key : Nat) (e : Exc)
    (hst : c.st = .waiting fn wf none aw) (hf : aw.find? (·.1 = f) = some (f, key)) (hv : c.efs[f]? = some (.exc e))
    (hp : c.wfs[wf]? = some .pending) :
    (awaitableDone c f).wfs[wf]? = some (.failed e) ∧ (awaitableDone c f).ctx = c.ctx := by
  have hlt : wf < c.wfs.length := (List.getElem?_eq_some_iff.mp hp).1
  unfold awaitableDone
  simp only [hst, hf, hv]
  unfold deliver
  simp only [hp]
  exact ⟨by simp [setAt, hlt], trivial⟩

/-- … and a failed wait ends the process EXCEPTED with that error: the following step is never activated -/
theorem C10_failed_wait_excepts (c : Cfg) (fn wf : Nat) (e : Exc) (hl : terminal c.st.label = false) :
    (wake c fn wf (.failed e)).st.label = .excepted ∧ (wake c fn wf (.failed e)).trace = c.trace := by
  unfold wake
  simp only
  unfold endOfStep
  have hp : prepare c (.exception e) = (setInterrupt c none, some (.excepted e)) := by unfold prepare; rfl
  rw [hp]
  have hs := setInterrupt_same c none
  have hi : (setInterrupt c none).interrupt = none := by unfold setInterrupt; split <;> rfl
  constructor
  · rw [finally_st]
    unfold dispatch
    simp only [hs.1, hl, Bool.false_eq_true, if_false, hi]
    rcases transitionTo_label (setInterrupt c none) (.excepted e) with h | h <;> simpa [SObj.label] using h
  · have ht : (finally_ (dispatch (setInterrupt c none) (some (.excepted e)))).trace =
        (dispatch (setInterrupt c none) (some (.excepted e))).trace := (finally_sameP _).2.1
    rw [ht]
    unfold dispatch
    simp only [hs.1, hl, Bool.false_eq_true, if_false, hi]
    rw [(transitionTo_keep _ _).1]
    exact (setInterrupt_sameP c none).2.1


/-- **the barrier, over whole histories**: for every program, every number of awaited futures and every history that
contains no external `resume()`, if the process is WAITING on awaitables `aw` and its wait holds a result — i.e. the
stepping task is about to (or can) activate the next step — or a result is parked behind an interruption, then `aw` is
empty: every awaited item has been processed. -/
theorem C10_barrier (P : Prog) (nf : Nat) (evs : List Ev) (hnr : ∀ e ∈ evs, ∀ v, e ≠ .resume v)
    (fn wf : Nat) (wk : Option WF) (aw : List (Nat × Nat)) (hst : (run P (init nf) evs).st = .waiting fn wf wk aw)
    (hres : (∃ v, (run P (init nf) evs).wfs[wf]? = some (.result v)) ∨ (∃ v, wk = some (.result v))) : aw = [] := by
  have h := run_invB P (init nf) evs (invB_init nf) hnr fn wf wk aw hst
  apply h.2
  rcases hres with ⟨v, hv⟩ | ⟨v, hv⟩
  · left; rw [hv]; rfl
  · right; rw [hv]; rfl

/-- the index of the waiting future of the current WAITING state is always valid (the wait can always be completed) -/
theorem C10_wait_index_valid (P : Prog) (nf : Nat) (evs : List Ev) (hnr : ∀ e ∈ evs, ∀ v, e ≠ .resume v)
    (fn wf : Nat) (wk : Option WF) (aw : List (Nat × Nat)) (hst : (run P (init nf) evs).st = .waiting fn wf wk aw) :
    wf < (run P (init nf) evs).wfs.length :=
  (run_invB P (init nf) evs (invB_init nf) hnr fn wf wk aw hst).1

-- non-vacuity: two awaited futures completing in either order; the second step runs only after both callbacks ran
section
private def chain2 : Prog := fun fn _ _ _ =>
  if fn = 0 then ⟨0, .ret (.waitOn 1 [(0, 0), (1, 1)])⟩ else ⟨0, .ret (.stop none true)⟩
example : (run chain2 (init 2) [.tick, .complete 1 (.result 11), .tickCb (.adone 1), .tick]).trace.length = 1 := by
  decide +kernel
example : let c := run chain2 (init 2) [.tick, .complete 1 (.result 11), .complete 0 (.result 10), .tickCb (.adone 1),
      .tickCb (.adone 0), .tick]
    c.trace.length = 2 ∧ c.ctx = [(0, 10), (1, 11)] ∧ c.st = .finished none true := by decide +kernel
example : (run chain2 (init 2) [.tick, .complete 0 (.exc (.user 3)), .tickCb (.adone 0), .tick]).st = .excepted (.user 3) := by
  decide +kernel
end

end PMF
