import PlumpyModel.ProcStack.Proof
/-!
# C18 — `Process.current()` is the process whose code is running

Model: `PlumpyModel/ProcStack/Model.lean` (tasks with context-local stacks, `_process_scope`, `_run_task`, `call_soon`,
`launch`, re-entrant `execute()`, lifecycle hooks fired by `transition_to` after `_run_task` returned).

Everything below quantifies over **every scenario** (any number of process classes with any step/segment structure,
callbacks, children and nested executions, any classes instantiated at top level) and **every list of events**, i.e.
every order in which ready tasks are ticked and parked processes resumed (outermost loop and nested loops alike).
`(runEvents (init scn top) es).log` is the list of all samples of `Process.current()` taken by the code points of the
run, `.scopes` the list of completed `_process_scope`s, `.err` the first error.

Clause by clause:
* "while a step, continuation or scheduled callback (and the output hooks they call) executes, current() is that
  process"                                                  → `C18_current_in_scope` (= `C18_current_in_scope_partial`)
* "... hook ...": **false of the code for lifecycle hooks** → `C18_full`, `C18_witness_hook_outside_scope`,
  `C18_witness_child_hook_sees_parent`, `C18_full_false` (known finding F14)
* "once that code returns or yields, the previous value is what other code observes"
                                                            → `C18_scope_restores_self`, `C18_scope_restores_others`,
                                                              `C18_resume_touches_no_stack`, `C18_scope_restores`
* the `assert` in `_process_scope` never fires              → `C18_scope_assertion_never_fails`
-/
namespace ProcStack

/-- the property as literally stated, *including* lifecycle hooks: every sample equals its owner -/
def C18_full : Prop :=
  ∀ (scn : Scenario) (top : List Nat) (es : List Event),
    ∀ o ∈ (runEvents (init scn top) es).log, o.cur = some o.owner

/-- **C18, main clause.** Inside any code run through `_run_task` of `p` — entry of a step function or continuation,
after each of its awaits, a callback scheduled with `call_soon` and after each of its awaits, the output hooks
`on_output_emitting`/`on_output_emitted`, and the code right after `launch(..)`, `execute()`, `call_soon(..)`, `out(..)`
returned — `Process.current()` is `p`; for every scenario and every interleaving. -/
theorem C18_current_in_scope (scn : Scenario) (top : List Nat) (es : List Event) :
    ∀ o ∈ (runEvents (init scn top) es).log, o.kind.inScope = true → o.cur = some o.owner :=
  (reachable_inv scn top es).log

theorem Kind.inScope_eq_not_lifecycle (k : Kind) : k.inScope = !k.isLifecycleHook := by
  cases k <;> simp [Kind.inScope, Kind.isLifecycleHook]

/-- **C18 without the lifecycle hooks** (what holds of the code): `C18_full` restricted to code points that are not
lifecycle hooks. The only hypothesis added to `C18_full` is `o.kind.isLifecycleHook = false`. -/
theorem C18_current_in_scope_partial (scn : Scenario) (top : List Nat) (es : List Event) :
    ∀ o ∈ (runEvents (init scn top) es).log, o.kind.isLifecycleHook = false → o.cur = some o.owner := by
  intro o ho hk
  exact C18_current_in_scope scn top es o ho (by simp [Kind.inScope_eq_not_lifecycle, hk])

/-- **the `assert Process.current() is self` at the exit of `_process_scope` never fails**, whatever the interleaving -/
theorem C18_scope_assertion_never_fails (scn : Scenario) (top : List Nat) (es : List Event) :
    (runEvents (init scn top) es).err ≠ some .scopeAssertion :=
  (reachable_inv scn top es).noAssert

/-- **after a scope exits, the task's stack is what it was when the scope was entered** — however many awaits,
callbacks, children and nested executions happened in between, in this task or any other -/
theorem C18_scope_restores_self (scn : Scenario) (top : List Nat) (es : List Event) :
    ∀ x ∈ (runEvents (init scn top) es).scopes, x.after = x.before :=
  (reachable_inv scn top es).scopes

/-- **running code of one task never changes what another task observes**: a tick of task `t` (a whole callback,
including everything it pushes, pops, spawns, and the nested executions that return during it) leaves the record of
every other task `u` — its stack, hence its `current()` — untouched, unless `u` is itself inside a nested
`run_until_complete` and is resumed by this tick (then `u` runs its own code, to which the other theorems apply).
Holds in every state, reachable or not. -/
theorem C18_scope_restores_others (σ : State) (t u : Tid) (hu : u < σ.tasks.length) (hne : u ≠ t)
    (hcs : u ∉ σ.callStack) :
    (step σ (.tick t)).tasks[u]? = σ.tasks[u]? :=
  step_frame σ t u hu hne hcs

/-- resuming a parked process from outside changes no stack at all -/
theorem C18_resume_touches_no_stack (σ : State) (t u : Tid) :
    (step σ (.resume t)).tasks[u]?.map (·.stack) = σ.tasks[u]?.map (·.stack) :=
  resume_frame σ t u

/-- killing a parked process from outside changes no stack at all (the scope is left by the stepping task itself) -/
theorem C18_kill_touches_no_stack (σ : State) (t u : Tid) :
    (step σ (.kill t)).tasks[u]?.map (·.stack) = σ.tasks[u]?.map (·.stack) :=
  kill_frame σ t u

/-- scheduling a callback from outside (`p.call_soon(cb)` between two callbacks) leaves every existing task untouched -/
theorem C18_external_call_soon_touches_no_task (σ : State) (p : Pid) (cb : Nat) (u : Tid) (hu : u < σ.tasks.length) :
    (step σ (.callSoon p cb)).tasks[u]? = σ.tasks[u]? :=
  callSoon_frame σ p cb u hu

/-- at the level of single operations: whatever task `t` executes, the records of all other tasks are unchanged -/
theorem C18_op_touches_only_own_context (σ : State) (t u : Tid) (hu : u < σ.tasks.length) (hne : u ≠ t) :
    (exec1 σ t).1.tasks[u]? = σ.tasks[u]? :=
  (exec1_frame σ t).others u hu hne

/-- **C18, restore clause** (the three statements together, on reachable states) -/
theorem C18_scope_restores (scn : Scenario) (top : List Nat) (es : List Event) (t u : Tid) :
    let σ := runEvents (init scn top) es
    (∀ x ∈ σ.scopes, x.after = x.before) ∧
    (u < σ.tasks.length → u ≠ t → u ∉ σ.callStack →
      (step σ (.tick t)).tasks[u]?.map (fun T => current T.stack) = σ.tasks[u]?.map (fun T => current T.stack)) ∧
    ((step σ (.resume t)).tasks[u]?.map (·.stack) = σ.tasks[u]?.map (·.stack)) := by
  refine ⟨C18_scope_restores_self scn top es, ?_, C18_resume_touches_no_stack _ t u⟩
  intro hu hne hcs
  rw [C18_scope_restores_others _ t u hu hne hcs]

/-! ## The hook clause is false of the code: witnesses (known finding F14) -/

/-- one process, one step, nothing in it -/
def witnessScn : Scenario := ⟨[[⟨[], .finish⟩]], []⟩

/-- a parent whose step launches a child of class 1 -/
def witnessChildScn : Scenario := ⟨[[⟨[.launch 1], .finish⟩], [⟨[], .finish⟩]], []⟩

/-- **witness**: in the model — as in the code — the first tick of a top-level process fires `on_run` (from
`transition_to`, after `_run_task(Created.execute)` returned) and that hook observes `Process.current() = None` -/
theorem C18_witness_hook_outside_scope :
    ∃ o ∈ (runEvents (init witnessScn [0]) [.tick 0]).log,
      o.kind = .hook .on_run ∧ o.owner = 0 ∧ o.cur = none := by
  decide

/-- **witness**: the lifecycle hooks of a launched child observe the *parent* (the creator's context is inherited) -/
theorem C18_witness_child_hook_sees_parent :
    ∃ o ∈ (runEvents (init witnessChildScn [0]) [.tick 0, .tick 1]).log,
      o.kind = .hook .on_finish ∧ o.owner = 1 ∧ o.cur = some 0 := by
  decide

/-- the literal statement (with lifecycle hooks) does not hold -/
theorem C18_full_false : ¬ C18_full := by
  intro h
  obtain ⟨o, ho, _, h1, h2⟩ := C18_witness_hook_outside_scope
  have := h witnessScn [0] [.tick 0] o ho
  rw [h2] at this
  cases this

/-- every lifecycle hook fired by `transition_to` / the constructor is outside `Kind.inScope` (so the partial theorem
says nothing about them), and output hooks are inside -/
theorem C18_transition_hooks_are_lifecycle (old : Option PMF.Label) (new : PMF.Label) :
    ∀ h ∈ transitionHooks old new, (Kind.hook h).isLifecycleHook = true := by
  intro h hh
  simp [Kind.isLifecycleHook, transitionHooks_lifecycle old new h hh]

/-! ## Non-vacuity: a concrete run with interleaving, a callback, a child, a nested execution and a wait -/

/-- class 0: `run` = sample, await, out, call_soon(cb 0), launch(class 1), execute(class 1), then `Wait`, then a last step;
class 1: await, sample, raise -/
def demoScn : Scenario :=
  ⟨[[⟨[.obs, .await, .out, .callSoon 0, .launch 1, .execute 1], .wait⟩, ⟨[.obs], .finish⟩],
    [⟨[.await, .obs], .raise⟩]],
   [[.obs, .await]]⟩

/-- two top-level processes; the nested loop of `execute()` ticks the other top-level process, the callback and the
child before the nested process; the parked process is resumed at the end -/
def demoEvents : List Event :=
  [.tick 0, .tick 1, .tick 0, .tick 1, .tick 2, .tick 3, .tick 4, .tick 3, .tick 2, .tick 4, .resume 0, .tick 0]

example : (runEvents (init demoScn [0, 1]) demoEvents).err = none := by decide
example : (runEvents (init demoScn [0, 1]) demoEvents).tasks.all (·.done) = true := by decide
/-- 23 in-scope samples, 76 lifecycle-hook samples (all of them differing from their owner), 11 completed scopes -/
example : ((runEvents (init demoScn [0, 1]) demoEvents).log.filter (·.kind.inScope)).length = 23 := by decide
example : ((runEvents (init demoScn [0, 1]) demoEvents).log.filter (fun o => !o.kind.inScope && o.cur != some o.owner)).length
    = 76 := by decide
example : (runEvents (init demoScn [0, 1]) demoEvents).scopes.length = 11 := by decide
/-- the hypotheses of `C18_scope_restores_others` are satisfiable in a reachable state with a nested loop running:
after 3 events task 0 is inside `execute()`, task 1 is another top-level process, task 2 the callback -/
example : let σ := runEvents (init demoScn [0, 1]) (demoEvents.take 3)
    σ.callStack = [0] ∧ (1 < σ.tasks.length ∧ 1 ≠ 2 ∧ 1 ∉ σ.callStack) ∧
    (σ.tasks[1]?.map (·.stack)) = some [1] ∧ (σ.tasks[2]?.map (·.stack)) = some [0] := by decide
/-- while task 1 is suspended at its await (inside its scope) its own stack keeps the pushed process -/
example : ((runEvents (init demoScn [0, 1]) (demoEvents.take 2)).tasks[1]?.map (fun T => current T.stack)) = some (some 1) := by
  decide

end ProcStack
