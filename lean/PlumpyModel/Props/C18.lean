import PlumpyModel.ProcStack.Proof
/-!
# C18 — `Process.current()` is the process whose code is running

Model: `PlumpyModel/ProcStack/Model.lean` (tasks with context-local stacks, `_process_scope`, `_run_task`, `call_soon`,
`launch`, re-entrant `execute()`, lifecycle hooks fired by `transition_to` after `_run_task` returned; children awaited
**inline** in the awaiting task — `await child.step_until_terminated()` inside a step or callback, under an absorbing
`except BaseException` —, steps that end with a **BaseException**, and **cancellation** of a task at the await point
where it is suspended: `unwind` = the `finally` of every open scope, innermost first, up to the absorbing handler;
callbacks scheduled on **another** process — `creator.call_soon(cb)` from code of a process that the creator launched,
executed or awaits inline, so that the callback's task starts on a stack that already holds the creator *below* the
scheduling process — and callbacks that **raise**, after which `ProcessCallback.run` calls the public hook
`callback_excepted` in the callback's task, outside the scope).

Everything below quantifies over **every scenario** (any number of process classes with any step/segment structure,
callbacks, children — launched, executed re-entrantly or awaited inline, to any depth —, any step ending, any classes
instantiated at top level) and **every list of events**, i.e. every order in which ready tasks are ticked, parked
processes resumed or killed, callbacks scheduled from outside and tasks cancelled (outermost loop and nested loops alike).
`(runEvents (init scn top) es).log` is the list of all samples of `Process.current()` taken by the code points of the
run, `.scopes` the list of completed `_process_scope`s (each with the way it was left), `.joins` the list of completed
inline awaits, `.err` the first error.

Clause by clause:
* "while a step, continuation or scheduled callback (and the output hooks they call) executes, current() is that
  process"                                                  → `C18_current_in_scope` (= `C18_current_in_scope_partial`)
* "... hook ...": **false of the code for lifecycle hooks** → `C18_full`, `C18_witness_hook_outside_scope`,
  `C18_witness_child_hook_sees_parent`, `C18_full_false` (known finding F14)
* "once that code returns or yields, the previous value is what other code observes"
                                                            → `C18_scope_restores_self`, `C18_scope_restores_others`,
                                                              `C18_resume_touches_no_stack`, `C18_scope_restores`
* the same when the code is left through an `Interruption`, a BaseException or a cancellation, and for the code that
  awaited it in the same task                               → `C18_scope_restores_however_left`,
                                                              `C18_inline_await_restores`, `C18_absorbing_code_in_scope`,
                                                              `C18_unwind_well_scoped`, `C18_cancel_touches_no_stack`,
                                                              `C18_finished_task_left_every_scope`,
                                                              `C18_scope_restores_all`
* a callback scheduled on another process (its creator) runs with *that* process current, on top of the stack of the
  code that scheduled it; what runs in the callback's task after the callback's scope (`callback_excepted`) observes
  exactly what the scheduling code observed               → `C18_callback_on_creator_in_scope`,
                                                              `C18_callback_task_inherits_scheduling_context`,
                                                              `C18_raising_callback_code`,
                                                              `C18_callback_excepted_sees_previous`,
                                                              `C18_witness_callback_excepted_sees_scheduler` (F14 again:
                                                              that hook, too, runs outside the scope)
* the `assert` in `_process_scope` never fires              → `C18_scope_assertion_never_fails`
-/
namespace ProcStack

/-- the property as literally stated, *including* lifecycle hooks: every sample equals its owner -/
def C18_full : Prop :=
  ∀ (scn : Scenario) (top : List Nat) (es : List Event),
    ∀ o ∈ (runEvents (init scn top) es).log, o.cur = some o.owner

/-- **C18, main clause.** Inside any code run through `_run_task` of `p` — entry of a step function or continuation,
after each of its awaits, a callback scheduled with `call_soon` and after each of its awaits, the output hooks
`on_output_emitting`/`on_output_emitted`, and the code right after `launch(..)`, `execute()`, `call_soon(..)`, `out(..)`
returned — `Process.current()` is `p`; for every scenario and every interleaving.  This includes the steps of a child that is
awaited inline (they run in the awaiting task, on top of the awaiting process: the child is current), the code of the
awaiting process after that await returned (`iret`) and inside the `except BaseException` clause that absorbed a
BaseException or a cancellation coming out of the child (`absorbed`). -/
theorem C18_current_in_scope (scn : Scenario) (top : List Nat) (es : List Event) :
    ∀ o ∈ (runEvents (init scn top) es).log, o.kind.inScope = true → o.cur = some o.owner :=
  (reachable_inv scn top es).log

theorem Kind.inScope_eq_not_lifecycle (k : Kind) : k.inScope = !k.isLifecycleHook := by
  cases k <;> simp [Kind.inScope, Kind.isLifecycleHook]

/-- **C18 without the lifecycle hooks** (what holds of the code): `C18_full` restricted to code points that are not
lifecycle hooks. The only hypothesis added to `C18_full` is `o.kind.isLifecycleHook = false`. -/
theorem C18_current_in_scope_partial (scn : Scenario) (top : List Nat) (es : List Event) :
    ∀ o ∈ (runEvents (init scn top) es).log, o.kind.isLifecycleHook = false → o.cur = some o.owner := by
  intro o ho hk
  exact C18_current_in_scope scn top es o ho (by simp [Kind.inScope_eq_not_lifecycle, hk])

/-- **the `assert Process.current() is self` at the exit of `_process_scope` never fails**, whatever the interleaving -/
theorem C18_scope_assertion_never_fails (scn : Scenario) (top : List Nat) (es : List Event) :
    (runEvents (init scn top) es).err ≠ some .scopeAssertion :=
  (reachable_inv scn top es).noAssert

/-- **after a scope exits, the task's stack is what it was when the scope was entered** — however many awaits,
callbacks, children and nested executions happened in between, in this task or any other -/
theorem C18_scope_restores_self (scn : Scenario) (top : List Nat) (es : List Event) :
    ∀ x ∈ (runEvents (init scn top) es).scopes, x.after = x.before :=
  (reachable_inv scn top es).scopes

/-- **however a scope is left, the previous stack is restored**: the awaited code returned (`returned`: plain return,
`Continue`, `Wait`, or an `Exception` that `Running.execute` turned into the EXCEPTED state), an `Interruption` was raised
through it (`interrupted`: kill of a waiting process), user code raised a BaseException that is not an `Exception`
(`baseException`), or the task was cancelled while suspended at an await point inside the scope (`cancelled`) — at any
nesting depth of inline-awaited children, all of whose open scopes are then left one after the other. -/
theorem C18_scope_restores_however_left (scn : Scenario) (top : List Nat) (es : List Event) (how : Exit) :
    ∀ x ∈ (runEvents (init scn top) es).scopes, x.how = how → x.after = x.before :=
  fun x hx _ => (reachable_inv scn top es).scopes x hx

/-- **the code that awaits a child inline carries on where it was**: when the statement
`try: await child.step_until_terminated()` / `except BaseException: ...` of process `p` is done — the child terminated, was
killed, or a BaseException / the cancellation of the task came out of it and was absorbed — the task's stack is exactly
what it was when the `try` was entered, and `Process.current()` is `p` again; whatever the child, its own inline children
and every other task did in between. -/
theorem C18_inline_await_restores (scn : Scenario) (top : List Nat) (es : List Event) :
    ∀ j ∈ (runEvents (init scn top) es).joins, j.after = j.before ∧ current j.after = some j.pid :=
  (reachable_inv scn top es).joins

/-- the instance of `C18_current_in_scope` for the new code points: in the `except BaseException` clause that absorbed
what came out of an inline-awaited child, and after that statement, `Process.current()` is the awaiting process — not the
child whose step was left through the BaseException / cancellation -/
theorem C18_absorbing_code_in_scope (scn : Scenario) (top : List Nat) (es : List Event) :
    ∀ o ∈ (runEvents (init scn top) es).log, (o.kind = .absorbed ∨ o.kind = .iret) → o.cur = some o.owner := by
  intro o ho hk
  apply C18_current_in_scope scn top es o ho
  rcases hk with h | h <;> simp [h, Kind.inScope]

/-- **raising a BaseException at any point of a well-scoped coroutine leaves a well-scoped coroutine.**  `WF s sv c`
(PlumpyModel/ProcStack/Proof.lean) says that the remaining coroutine `c` of a task, run on the task's stack `s`, has every
scope exit find its own process on top and restore the stack saved at the matching entry, every in-scope sample find its
owner on top, and every handler of an inline await run on the stack of its `try`.  `unwind how 0 c` is what remains of `c`
when a BaseException is raised at its head: the exits of the open scopes, then the absorbing handler and what follows it
(or nothing).  All compiled coroutines are `WF` on any stack (`wf_stepperOps`, `wf_cbOps`); this is the step that keeps the
invariant of `reachable_inv` across `raise BaseBoom()` and across the delivery of a cancellation. -/
theorem C18_unwind_well_scoped (how : Exit) (s : List Pid) (sv : List (List Pid)) (c : List Op) (h : WF s sv c) :
    WF s sv (unwind how 0 c) := by
  simpa using wf_unwind how c 0 s sv h

/-- **a task that has ended has left every scope it entered** (`Task.saved` holds one entry per open scope): whether its
coroutine returned, or a BaseException / a cancellation that nothing absorbed ended it in the middle of a step -/
theorem C18_finished_task_left_every_scope (scn : Scenario) (top : List Nat) (es : List Event) :
    ∀ T ∈ (runEvents (init scn top) es).tasks, T.done = true → T.saved = [] := by
  intro T hT hd
  have h := (reachable_inv scn top es).tasks T hT
  simp only [Task.done, List.isEmpty_iff] at hd
  rw [hd] at h
  simpa [WF] using h

/-- **running code of one task never changes what another task observes**: a tick of task `t` (a whole callback,
including everything it pushes, pops, spawns, and the nested executions that return during it) leaves the record of
every other task `u` — its stack, hence its `current()` — untouched, unless `u` is itself inside a nested
`run_until_complete` and is resumed by this tick (then `u` runs its own code, to which the other theorems apply).
Holds in every state, reachable or not. -/
theorem C18_scope_restores_others (σ : State) (t u : Tid) (hu : u < σ.tasks.length) (hne : u ≠ t)
    (hcs : u ∉ σ.callStack) :
    (step σ (.tick t)).tasks[u]? = σ.tasks[u]? :=
  step_frame σ t u hu hne hcs

/-- resuming a parked process from outside changes no stack at all -/
theorem C18_resume_touches_no_stack (σ : State) (t u : Tid) :
    (step σ (.resume t)).tasks[u]?.map (·.stack) = σ.tasks[u]?.map (·.stack) :=
  resume_frame σ t u

/-- killing a parked process from outside changes no stack at all (the scope is left by the stepping task itself) -/
theorem C18_kill_touches_no_stack (σ : State) (t u : Tid) :
    (step σ (.kill t)).tasks[u]?.map (·.stack) = σ.tasks[u]?.map (·.stack) :=
  kill_frame σ t u

/-- requesting the cancellation of a task from outside changes no stack at all: the scopes are left by the cancelled task
itself when it next runs (a tick, to which `C18_scope_restores_others` applies) -/
theorem C18_cancel_touches_no_stack (σ : State) (t u : Tid) :
    (step σ (.cancel t)).tasks[u]?.map (·.stack) = σ.tasks[u]?.map (·.stack) :=
  cancel_frame σ t u

/-- scheduling a callback from outside (`p.call_soon(cb)` between two callbacks) leaves every existing task untouched -/
theorem C18_external_call_soon_touches_no_task (σ : State) (p : Pid) (cb : Nat) (u : Tid) (hu : u < σ.tasks.length) :
    (step σ (.callSoon p cb)).tasks[u]? = σ.tasks[u]? :=
  callSoon_frame σ p cb u hu

/-- at the level of single operations: whatever task `t` executes, the records of all other tasks are unchanged -/
theorem C18_op_touches_only_own_context (σ : State) (t u : Tid) (hu : u < σ.tasks.length) (hne : u ≠ t) :
    (exec1 σ t).1.tasks[u]? = σ.tasks[u]? :=
  (exec1_frame σ t).others u hu hne

/-- **C18, restore clause** (the three statements together, on reachable states) -/
theorem C18_scope_restores (scn : Scenario) (top : List Nat) (es : List Event) (t u : Tid) :
    let σ := runEvents (init scn top) es
    (∀ x ∈ σ.scopes, x.after = x.before) ∧
    (u < σ.tasks.length → u ≠ t → u ∉ σ.callStack →
      (step σ (.tick t)).tasks[u]?.map (fun T => current T.stack) = σ.tasks[u]?.map (fun T => current T.stack)) ∧
    ((step σ (.resume t)).tasks[u]?.map (·.stack) = σ.tasks[u]?.map (·.stack)) := by
  refine ⟨C18_scope_restores_self scn top es, ?_, C18_resume_touches_no_stack _ t u⟩
  intro hu hne hcs
  rw [C18_scope_restores_others _ t u hu hne hcs]

/-- **C18, restore clause, with every way of leaving a scope** (on reachable states): completed scopes and completed
inline awaits restored the stack; a tick touches no other task; resume, kill and cancel requests touch no stack -/
theorem C18_scope_restores_all (scn : Scenario) (top : List Nat) (es : List Event) (t u : Tid) :
    let σ := runEvents (init scn top) es
    (∀ x ∈ σ.scopes, x.after = x.before) ∧
    (∀ j ∈ σ.joins, j.after = j.before ∧ current j.after = some j.pid) ∧
    (u < σ.tasks.length → u ≠ t → u ∉ σ.callStack → (step σ (.tick t)).tasks[u]? = σ.tasks[u]?) ∧
    ((step σ (.resume t)).tasks[u]?.map (·.stack) = σ.tasks[u]?.map (·.stack)) ∧
    ((step σ (.kill t)).tasks[u]?.map (·.stack) = σ.tasks[u]?.map (·.stack)) ∧
    ((step σ (.cancel t)).tasks[u]?.map (·.stack) = σ.tasks[u]?.map (·.stack)) :=
  ⟨C18_scope_restores_self scn top es, C18_inline_await_restores scn top es,
   fun hu hne hcs => C18_scope_restores_others _ t u hu hne hcs,
   C18_resume_touches_no_stack _ t u, C18_kill_touches_no_stack _ t u, C18_cancel_touches_no_stack _ t u⟩

/-! ## Callbacks scheduled on another process, callbacks that raise -/

/-- the instance of `C18_current_in_scope` for scheduled callbacks, **whoever scheduled them**: at the entry of a callback
and after each of its awaits `Process.current()` is the process the callback was scheduled *on* (`p.call_soon(cb)`), also
when the call was made by code of another process (`creator.call_soon(cb)`: the callback's task starts on the stack of
that code, e.g. creator·child, and runs on creator·child·creator); and the code that made the call carries on with its own
process current (`pcret`). -/
theorem C18_callback_on_creator_in_scope (scn : Scenario) (top : List Nat) (es : List Event) :
    ∀ o ∈ (runEvents (init scn top) es).log, (o.kind = .cbseg ∨ o.kind = .cbaw ∨ o.kind = .pcret) → o.cur = some o.owner := by
  intro o ho hk
  apply C18_current_in_scope scn top es o ho
  rcases hk with h | h | h <;> simp [h, Kind.inScope]

/-- **the task of a callback starts in the context of the code that called `call_soon`**, not in one derived from the
process the callback belongs to: when code of `p` (task `t`, stack `T.stack`) runs `creator.call_soon(cb)` and `p` has the
creator `q`, one task is appended whose stack is `T.stack` and whose coroutine is `ProcessCallback.run` of `q` — compiled
with `T.stack` as the value that `callback_excepted` must find; nothing else changes in the task list. -/
theorem C18_callback_task_inherits_scheduling_context (σ : State) (t : Tid) (T : Task) (p q : Pid) (cb : Nat)
    (rest : List Op) (code : List Act)
    (hT : σ.tasks[t]? = some T) (hc : T.code = .callSoonCreator p cb :: rest)
    (hcb : σ.scn.cbs[cb]? = some code) (hq : creatorOf σ p = some q) :
    (exec1 σ t).1.tasks =
      σ.tasks.set t { T with code := rest } ++ [{ stack := T.stack, code := cbCode σ.scn q T.stack cb code }] := by
  simp [exec1, hT, hc, hcb, hq]

/-- the coroutine of a callback that ends by raising: enter the scope of `q`, the callback's code, leave the scope through
the exception, then `q.callback_excepted(..)` — whose sample is checked against `sched` -/
theorem C18_raising_callback_code (scn : Scenario) (q : Pid) (sched : List Pid) (cb : Nat) (code : List Act)
    (hr : scn.cbRaise.contains cb = true) :
    cbCode scn q sched cb code = .push q :: (codeOps q true code ++ [.pop q .exception, .excepted q sched]) := by
  unfold cbCode
  rw [if_pos hr]
  rfl

/-- **what runs after a callback's scope, in the callback's task, observes the previous value**: every call of
`callback_excepted` (a callback raised; `_run_task`, hence the scope, was left through the exception) finds the stack —
and so the `Process.current()` — that the code which called `call_soon` had at that moment, and its sample is in the log
with exactly that value; whatever the callback did (awaits, further callbacks, nested executions, children awaited
inline) and wherever the process the callback belongs to sits in that stack: on top (a callback scheduled by the process
on itself), nowhere (scheduled from outside), or **below another process** (scheduled by a child on its creator while the
creator's step is still running underneath: the stack creator·child·creator must go back to creator·child, not to
child·creator). -/
theorem C18_callback_excepted_sees_previous (scn : Scenario) (top : List Nat) (es : List Event) :
    ∀ x ∈ (runEvents (init scn top) es).cbExcs,
      x.observed = x.scheduled ∧
      (⟨x.pid, .hook .callback_excepted, current x.scheduled, x.scheduled, x.tid⟩ : Obs) ∈ (runEvents (init scn top) es).log :=
  (reachable_inv scn top es).cbExcs

/-- class 0 (`outer`): its step executes a child of class 1 re-entrantly; class 1 (`inner`): schedules callback 0 on its
creator, awaits twice; callback 0: sample, then `raise` -/
def sandwichScn : Scenario :=
  { classes := [[⟨[.execute 1, .obs], .finish⟩], [⟨[.callSoonCreator 0, .await, .await, .obs], .finish⟩]],
    cbs := [[.obs]], cbRaise := [0] }

/-- outer's step (task 0) starts and blocks in `execute()`; the nested loop runs inner (task 1), which schedules the
callback on outer (task 2); the callback runs and raises; inner finishes; outer's step carries on -/
def sandwichEvents : List Event := [.tick 0, .tick 1, .tick 2, .tick 1, .tick 1]

/-- **witness** (F14 for one more hook, and the shape that tells `pop()` from `remove(self)`): inside the callback the
stack is outer·inner·outer and `current()` is outer; `callback_excepted` of outer then observes **inner** — the previous
value —, on the stack outer·inner (stacks are newest first in the model) -/
theorem C18_witness_callback_excepted_sees_scheduler :
    (⟨0, .cbseg, some 0, [0, 1, 0], 2⟩ : Obs) ∈ (runEvents (init sandwichScn [0]) sandwichEvents).log ∧
    (⟨0, .hook .callback_excepted, some 1, [1, 0], 2⟩ : Obs) ∈ (runEvents (init sandwichScn [0]) sandwichEvents).log := by
  decide

/-! ## The hook clause is false of the code: witnesses (known finding F14) -/

/-- one process, one step, nothing in it -/
def witnessScn : Scenario := { classes := [[⟨[], .finish⟩]], cbs := [] }

/-- a parent whose step launches a child of class 1 -/
def witnessChildScn : Scenario := { classes := [[⟨[.launch 1], .finish⟩], [⟨[], .finish⟩]], cbs := [] }

/-- **witness**: in the model — as in the code — the first tick of a top-level process fires `on_run` (from
`transition_to`, after `_run_task(Created.execute)` returned) and that hook observes `Process.current() = None` -/
theorem C18_witness_hook_outside_scope :
    ∃ o ∈ (runEvents (init witnessScn [0]) [.tick 0]).log,
      o.kind = .hook .on_run ∧ o.owner = 0 ∧ o.cur = none := by
  decide

/-- **witness**: the lifecycle hooks of a launched child observe the *parent* (the creator's context is inherited) -/
theorem C18_witness_child_hook_sees_parent :
    ∃ o ∈ (runEvents (init witnessChildScn [0]) [.tick 0, .tick 1]).log,
      o.kind = .hook .on_finish ∧ o.owner = 1 ∧ o.cur = some 0 := by
  decide

/-- the literal statement (with lifecycle hooks) does not hold -/
theorem C18_full_false : ¬ C18_full := by
  intro h
  obtain ⟨o, ho, _, h1, h2⟩ := C18_witness_hook_outside_scope
  have := h witnessScn [0] [.tick 0] o ho
  rw [h2] at this
  cases this

/-- every lifecycle hook fired by `transition_to` / the constructor is outside `Kind.inScope` (so the partial theorem
says nothing about them), and output hooks are inside -/
theorem C18_transition_hooks_are_lifecycle (old : Option PMF.Label) (new : PMF.Label) :
    ∀ h ∈ transitionHooks old new, (Kind.hook h).isLifecycleHook = true := by
  intro h hh
  simp [Kind.isLifecycleHook, transitionHooks_lifecycle old new h hh]

/-! ## Non-vacuity: a concrete run with interleaving, a callback, a child, a nested execution and a wait -/

/-- class 0: `run` = sample, await, out, call_soon(cb 0), launch(class 1), execute(class 1), then `Wait`, then a last step;
class 1: await, sample, raise -/
def demoScn : Scenario :=
  { classes := [[⟨[.obs, .await, .out, .callSoon 0, .launch 1, .execute 1], .wait⟩, ⟨[.obs], .finish⟩],
                [⟨[.await, .obs], .raise⟩]],
    cbs := [[.obs, .await]] }

/-- two top-level processes; the nested loop of `execute()` ticks the other top-level process, the callback and the
child before the nested process; the parked process is resumed at the end -/
def demoEvents : List Event :=
  [.tick 0, .tick 1, .tick 0, .tick 1, .tick 2, .tick 3, .tick 4, .tick 3, .tick 2, .tick 4, .resume 0, .tick 0]

example : (runEvents (init demoScn [0, 1]) demoEvents).err = none := by decide
example : (runEvents (init demoScn [0, 1]) demoEvents).tasks.all (·.done) = true := by decide
/-- 23 in-scope samples, 76 lifecycle-hook samples (all of them differing from their owner), 11 completed scopes -/
example : ((runEvents (init demoScn [0, 1]) demoEvents).log.filter (·.kind.inScope)).length = 23 := by decide
example : ((runEvents (init demoScn [0, 1]) demoEvents).log.filter (fun o => !o.kind.inScope && o.cur != some o.owner)).length
    = 76 := by decide
example : (runEvents (init demoScn [0, 1]) demoEvents).scopes.length = 11 := by decide
/-- the hypotheses of `C18_scope_restores_others` are satisfiable in a reachable state with a nested loop running:
after 3 events task 0 is inside `execute()`, task 1 is another top-level process, task 2 the callback -/
example : let σ := runEvents (init demoScn [0, 1]) (demoEvents.take 3)
    σ.callStack = [0] ∧ (1 < σ.tasks.length ∧ 1 ≠ 2 ∧ 1 ∉ σ.callStack) ∧
    (σ.tasks[1]?.map (·.stack)) = some [1] ∧ (σ.tasks[2]?.map (·.stack)) = some [0] := by decide
/-- while task 1 is suspended at its await (inside its scope) its own stack keeps the pushed process -/
example : ((runEvents (init demoScn [0, 1]) (demoEvents.take 2)).tasks[1]?.map (fun T => current T.stack)) = some (some 1) := by
  decide

/-! ## Non-vacuity for the inline / BaseException / cancellation constructs -/

/-- class 0 (the parent): awaits a child of class 1 inline, samples, awaits, awaits a child of class 2 inline, then one of
class 4; class 1: await, sample, `Wait`, then a step that raises a BaseException; class 2: await, awaits a child of class 3
inline (nesting depth 3), await; class 3: sample, await, sample (also instantiated at top level: a peer in another task);
class 4: out, `Wait` -/
def inlineScn : Scenario :=
  { classes := [[⟨[.inline 1, .obs, .await, .inline 2, .inline 4], .finish⟩],
                [⟨[.await, .obs], .wait⟩, ⟨[.obs], .raiseBase⟩],
                [⟨[.await, .inline 3, .await], .finish⟩],
                [⟨[.obs, .await, .obs], .finish⟩],
                [⟨[.out], .wait⟩, ⟨[], .finish⟩]],
    cbs := [] }

/-- the parent (task 0, pid 0) and a peer (task 1, pid 1) interleaved; the first inline child (pid 2) is resumed from its
wait and raises a BaseException; the task is cancelled while the child of the child (pid 4, stack 0·3·4) is suspended at
its await; the last child (pid 5) is killed while it waits -/
def inlineEvents : List Event :=
  [.tick 0, .tick 1, .tick 0, .resume 0, .tick 0, .tick 0, .tick 1, .tick 0, .cancel 0, .tick 0, .tick 0, .kill 0, .tick 0]

example : (runEvents (init inlineScn [0, 3]) inlineEvents).err = none := by decide
example : (runEvents (init inlineScn [0, 3]) inlineEvents).tasks.all (·.done) = true := by decide
/-- when the cancellation is requested, the task is suspended three scopes deep, in the step of pid 4 -/
example : ((runEvents (init inlineScn [0, 3]) (inlineEvents.take 8)).tasks[0]?.map (·.stack)) = some [4, 3, 0] := by decide
/-- scopes left in each of the four ways occur (15 in all), so `C18_scope_restores_however_left` is not vacuous for any `how` -/
example : (runEvents (init inlineScn [0, 3]) inlineEvents).scopes.map (fun x => (x.pid, x.how)) =
    [(0, .returned), (5, .interrupted), (5, .returned), (5, .returned), (3, .returned), (4, .cancelled), (4, .returned),
     (1, .returned), (3, .returned), (2, .baseException), (2, .returned), (2, .returned), (1, .returned), (2, .returned),
     (0, .returned)] := by decide
/-- four inline awaits complete, two of them by absorbing (the BaseException of pid 2 in pid 0, the cancellation in pid 3) -/
example : (runEvents (init inlineScn [0, 3]) inlineEvents).joins.map (fun j => (j.pid, j.before, j.absorbed)) =
    [(0, [0], false), (0, [0], false), (3, [3, 0], true), (0, [0], true)] := by decide
/-- the samples taken in the two absorbing `except` clauses -/
example : ((runEvents (init inlineScn [0, 3]) inlineEvents).log.filter (·.kind == .absorbed)).map (fun o => (o.owner, o.cur)) =
    [(3, some 3), (0, some 0)] := by decide
/-- 27 in-scope samples in this run; the steps of the inline children run with the child current, e.g. pid 4 on 0·3·4 -/
example : ((runEvents (init inlineScn [0, 3]) inlineEvents).log.filter (·.kind.inScope)).length = 27 := by decide
example : (⟨4, .seg, some 4, [4, 3, 0], 0⟩ : Obs) ∈ (runEvents (init inlineScn [0, 3]) inlineEvents).log := by decide
/-- hypothesis of `C18_unwind_well_scoped`: the coroutine of task 0 at the moment of the cancellation is `WF` on its stack
(an instance of `reachable_inv`), with three open scopes and two handlers ahead; what `unwind` makes of it starts with the
exit of the innermost scope and the handler of the process that awaits pid 4 -/
example : ∀ T ∈ (runEvents (init inlineScn [0, 3]) (inlineEvents.take 8)).tasks, WF T.stack T.saved T.code :=
  (reachable_inv inlineScn [0, 3] (inlineEvents.take 8)).tasks
example : (((runEvents (init inlineScn [0, 3]) (inlineEvents.take 8)).tasks[0]?).map
    (fun T => (T.stack, T.saved, T.code.length, T.code.take 1))) = some ([4, 3, 0], [[3, 0], [0], []], 37, [.obs 4 .aw]) := by decide
example : let T := ((runEvents (init inlineScn [0, 3]) (inlineEvents.take 8)).tasks[0]?).getD default
    ((unwind .cancelled 0 T.code).take 2) = [.pop 4 .cancelled, .handler 3 [3, 0] true] := by decide
/-- a top-level process cancelled in the middle of its step: its task ends (nothing absorbs), the scope was left (`cancelled`),
no transition hook ran after it, and the open-scope history of the finished task is empty -/
example : let σ := runEvents (init { classes := [[⟨[.await, .obs], .finish⟩]], cbs := [] } [0]) [.tick 0, .cancel 0, .tick 0]
    σ.err = none ∧ σ.tasks.map (fun T => (T.done, T.stack, T.saved)) = [(true, [], [])] ∧
    σ.scopes.map (fun x => (x.pid, x.how, x.before, x.after)) = [(0, .cancelled, [], []), (0, .returned, [], [])] ∧
    (σ.log.head?.map (·.kind)) = some .seg := by decide

/-! ## Non-vacuity for callbacks on the creator and raising callbacks -/

example : (runEvents (init sandwichScn [0]) sandwichEvents).err = none := by decide
example : (runEvents (init sandwichScn [0]) sandwichEvents).tasks.all (·.done) = true := by decide
/-- one call of `callback_excepted`: task 2, process 0, scheduled on the stack [1, 0] (outer·inner), observed the same -/
example : (runEvents (init sandwichScn [0]) sandwichEvents).cbExcs = [⟨2, 0, [1, 0], [1, 0]⟩] := by decide
/-- the callback's scope was left through the exception (first record = latest), between it and the scope of inner's step -/
example : ((runEvents (init sandwichScn [0]) sandwichEvents).scopes.map (fun x => (x.tid, x.pid, x.how, x.before))).take 4 =
    [(0, 0, .returned, []), (1, 1, .returned, [0]), (2, 0, .exception, [1, 0]), (1, 1, .returned, [0])] := by decide
/-- hypotheses of `C18_callback_task_inherits_scheduling_context` are met in a reachable state (inner = process 1 has the
creator 0, outer has none); after inner's first tick the callback's task exists, on inner's stack, and its coroutine starts
with the scope of outer and ends with `callback_excepted` expecting inner's stack -/
example : let σ := runEvents (init sandwichScn [0]) (sandwichEvents.take 2)
    creatorOf σ 1 = some 0 ∧ creatorOf σ 0 = none ∧
    (σ.tasks[2]?.map (fun T => (T.stack, T.code.head?, T.code.getLast?))) =
      some ([1, 0], some (.push 0), some (.excepted 0 [1, 0])) := by decide
example : sandwichScn.cbRaise.contains 0 = true ∧ sandwichScn.wf [0] = true := by decide
/-- why this shape matters: leaving the innermost scope means dropping the *top* entry; dropping the bottom-most occurrence
of the process instead (`list.remove`) would turn outer·inner·outer into inner·outer -/
example : ([0, 1, 0] : List Pid).tail = [1, 0] ∧ (([0, 1, 0] : List Pid).reverse.erase 0).reverse = [0, 1] := by decide
/-- the three samples of the kinds of `C18_callback_on_creator_in_scope` in this run, and a process without creator for
which `creator.call_soon` schedules nothing -/
example : ((runEvents (init sandwichScn [0]) sandwichEvents).log.filter
    (fun o => o.kind == .cbseg || o.kind == .cbaw || o.kind == .pcret)).map (fun o => (o.owner, o.kind, o.stack)) =
    [(0, .cbseg, [0, 1, 0]), (1, .pcret, [1, 0])] := by decide
example : (runEvents (init { classes := [[⟨[.callSoonCreator 0], .finish⟩]], cbs := [[]] } [0]) [.tick 0]).tasks.length = 1 := by
  decide

end ProcStack
