import PlumpyModel.Props.C13
/-!
# C06 — a wake-up is never lost to a concurrent pause or interruption

Model: `PMF`.  A WAITING state object is `SObj.waiting fn wf wakeup awaiting`: `wf` indexes its waiting future in
`Cfg.wfs` (`pending | result v | interrupted cookie | failed e`), `wakeup` is the slot in which an outcome that arrives
while an interruption is being delivered is parked (repair I), `awaiting` the workchain's outstanding awaitables.
`deliver` is `Waiting._deliver` (used by `resume()` and by the workchain's `_awaitable_done`), `wake` is
`Waiting.execute` after its future completed, followed by the end of the step.

The theorems below are the protocol's safety core, for every configuration: an accepted wake-up is stored or parked,
never dropped; a later one never overwrites it; re-arming after an interruption hands the parked outcome to the fresh
future; a completed wait activates the continuation with exactly that value (`C13_wait_resume_exact`).
Not yet proved as one history-level theorem ("the first accepted value is the argument of the continuation's activation
in every continuation of the history"): decided by the correspondence check and the Python monitor on every explored
schedule.
-/
namespace PMF

/-- `resume(v)` on a waiting process whose wait is still pending completes the wait with `v` -/
theorem C06_resume_accepted (c : Cfg) (fn wf : Nat) (wk : Option WF) (aw : List (Nat × Nat)) (v : Option Val)
    (hst : c.st = .waiting fn wf wk aw) (hp : c.wfs[wf]? = some .pending) :
    (resume c v).2 = .none ∧ (resume c v).1.st = c.st ∧ (resume c v).1.wfs[wf]? = some (.result v) := by
  have hlt : wf < c.wfs.length := (List.getElem?_eq_some_iff.mp hp).1
  unfold resume deliver
  simp only [hst, hp]
  exact ⟨trivial, trivial, by simp [setAt, hlt]⟩

/-- `resume(v)` arriving while an interruption is being delivered (the future already carries the interruption) is
parked in the wake-up slot — not dropped, and it does not raise -/
theorem C06_resume_parked (c : Cfg) (fn wf : Nat) (aw : List (Nat × Nat)) (v : Option Val) (k : Nat)
    (hst : c.st = .waiting fn wf none aw) (hp : c.wfs[wf]? = some (.interrupted k)) :
    (resume c v).2 = .none ∧ (resume c v).1.st = .waiting fn wf (some (.result v)) aw ∧ (resume c v).1.wfs = c.wfs := by
  unfold resume deliver
  simp [hst, hp]

/-- the first wake-up wins: once the wait holds a result, or an outcome is parked, a further `resume` changes nothing -/
theorem C06_later_resume_ignored (c : Cfg) (fn wf : Nat) (wk : Option WF) (aw : List (Nat × Nat)) (u v : Option Val)
    (hst : c.st = .waiting fn wf wk aw) (hp : c.wfs[wf]? = some (.result u)) :
    (resume c v).1 = c := by
  unfold resume deliver
  simp [hst, hp]

theorem C06_parked_not_overwritten (c : Cfg) (fn wf : Nat) (o : WF) (aw : List (Nat × Nat)) (v : Option Val) (k : Nat)
    (hst : c.st = .waiting fn wf (some o) aw) (hp : c.wfs[wf]? = some (.interrupted k)) :
    (resume c v).1 = c := by
  unfold resume deliver
  simp [hst, hp]

/-- `resume()` on a process that is not WAITING is refused (EventError) and changes nothing -/
theorem C06_resume_refused_when_not_waiting (c : Cfg) (v : Option Val)
    (hst : ∀ fn wf wk aw, c.st ≠ .waiting fn wf wk aw) : resume c v = (c, .raised .eventError) := by
  unfold resume
  split
  · rename_i fn wf wk aw h; exact absurd h (hst fn wf wk aw)
  · rfl

/-- the interrupted wait is re-armed with the parked outcome: the configuration handed to the end of the step is
WAITING on a fresh future that already holds what was parked (or is pending if nothing was) -/
theorem cancelAction_wfs (c : Cfg) (i : Nat) : (cancelAction c i).wfs = c.wfs := by
  unfold cancelAction; split
  · unfold setActionStatus; split <;> rfl
  · rfl
theorem finally_wfs (d : Cfg) : (finally_ d).wfs = d.wfs := by
  unfold finally_ setInterrupt
  split
  · exact cancelAction_wfs _ _
  · rfl

def rearmed (c : Cfg) (fn : Nat) (wk : Option WF) (aw : List (Nat × Nat)) : Cfg :=
  { c with st := .waiting fn c.wfs.length none aw, wfs := c.wfs ++ [match wk with | some o => o | none => .pending] }

theorem C06_wake_rearms (c : Cfg) (fn wf : Nat) (wk : Option WF) (aw : List (Nat × Nat)) (k : Nat)
    (hst : c.st = .waiting fn wf wk aw) :
    wake c fn wf (.interrupted k) = endOfStep (rearmed c fn wk aw) (.interruption k) ∧
    (rearmed c fn wk aw).wfs[c.wfs.length]? = some (match wk with | some o => o | none => .pending) := by
  constructor
  · unfold wake rearmed
    simp only [hst]
    rfl
  · cases wk <;> simp [rearmed]

/-- a `play()` that retracted the pause leaves a cancelled action behind; the end of the interrupted step then changes
neither the state object nor the re-armed future: the parked wake-up is still there for the next `Waiting.execute` -/
theorem C06_retracted_pause_keeps_wakeup (c : Cfg) (k i : Nat) (hl : terminal c.st.label = false)
    (hi : c.interrupt = some i) (hc : actionStatus c i = .cancelled) :
    (endOfStep c (.interruption k)).st = c.st ∧ (endOfStep c (.interruption k)).wfs = c.wfs := by
  have hp : prepare c (.interruption k) = (c, none) := by unfold prepare; simp [hi]
  have hd : dispatch c none = c := by unfold dispatch; simp [hl, hi, hc]
  unfold endOfStep
  simp only [hp, hd]
  exact ⟨finally_st c, finally_wfs c⟩

-- non-vacuity and the races of section 9: pause then resume inside one loop iteration; the value arrives after play
section
private def waiter : Prog := fun fn _ _ _ => if fn = 0 then ⟨0, .ret (.wait 1)⟩ else ⟨0, .ret (.stop none true)⟩
example : ((run waiter (init 0) [.tick, .pause, .resume (some 5), .tick, .play, .tick]).trace.map fun a => (a.fn, a.args)) =
    [(1, [5]), (0, [])] := by decide +kernel
example : ((run waiter (init 0) [.tick, .pause, .play, .resume (some 5), .resume (some 6), .tick, .tick]).trace.map
    fun a => (a.fn, a.args)) = [(1, [5]), (0, [])] := by decide +kernel
example : (run waiter (init 0) [.tick, .pause, .resume (some 5), .tick, .play, .tick]).st = .finished none true := by
  decide +kernel
end

end PMF
