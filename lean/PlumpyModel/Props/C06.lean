import PlumpyModel.Props.C13
import PlumpyModel.PM.Proof11g
/-!
# C06 — a wake-up is never lost to a concurrent pause or interruption

Model: `PMF`.  A WAITING state object is `SObj.waiting fn wf wakeup awaiting`: `wf` indexes its waiting future in
`Cfg.wfs` (`pending | result v | interrupted cookie | failed e`), `wakeup` is the slot in which an outcome that arrives
while an interruption is being delivered is parked (repair I), `awaiting` the workchain's outstanding awaitables.
`deliver` is `Waiting._deliver` (used by `resume()` and by the workchain's `_awaitable_done`), `wake` is
`Waiting.execute` after its future completed, followed by the end of the step.

The theorems below are the protocol's safety core, for every configuration: an accepted wake-up is stored or parked,
never dropped; a later one never overwrites it; re-arming after an interruption hands the parked outcome to the fresh
future; a completed wait activates the continuation with exactly that value (`C13_wait_resume_exact`).

**History level** (second half of the file; helper lemmas in `PM/Proof11.lean` … `PM/Proof11g.lean`, namespace `PMF.H6`).
Property text: "the value passed to the first resume() is delivered exactly once to the continuation".

* `C06_delivery` (at least once): in EVERY configuration reachable by any history, if the current WAITING state holds an
  outcome `v` for its continuation `fn` (`H6.Holds`: its future completed with `v`, or `v` is parked in the wake-up slot
  while the future carries an interruption) and the process is playing (not paused, no pause request and no kill request
  pending), the very next callback of the stepping task activates `fn` with `v`'s argument list (`H6.argsOf`: `[]` for a
  resume without value, `[x]` for `x`) — a new entry of the `trace` log.  Never WAITING for ever.
* `C06_first_resume_wins` (at most once, first value wins): split any history at a `resume(v)` that is ACCEPTED
  (`Accepts`: the process is WAITING for `fn`, nothing delivered yet).  Whatever follows — further `resume(u)`, pause, play,
  interruptions and re-arming of the wait, kill, fail, awaitable callbacks, ticks in any order — the first activation
  logged after that point, if any, is `fn` with `v`'s arguments; and as long as none is logged the process is still in
  that WAITING epoch holding `v`, or RUNNING `fn(v)` but not yet activated (paused), or terminated.
  So the later values never reach the continuation, the continuation is not activated with anything else, and together
  with `C06_delivery` it is activated (once playing) with exactly the first value.
* `C06_no_activation_while_waiting_empty`: see its doc comment (nothing is activated for an epoch that holds no outcome).

The only hypothesis on the history is `H6.histFuelOk`: no single callback of the stepping task executes `fuel0` (1000)
process steps without suspending once.  It is needed: when `loopHead` runs out of fuel it returns with a STALE program
counter, and the model's next tick would re-run an already consumed continuation (for instance wake a NEW wait with the
value of an old one).  The real code can only match such a run by not returning from the callback; the driver never
reaches it (`C06_witness_fuel_exhaustion`, `C06_first_resume_wins_full_is_false`).  The hypothesis is a decidable `Bool`
function of the program and the history (see the examples).
-/
namespace PMF

/-- `resume(v)` on a waiting process whose wait is still pending completes the wait with `v` -/
theorem C06_resume_accepted (c : Cfg) (fn wf : Nat) (wk : Option WF) (aw : List (Nat × Nat)) (v : Option Val)
    (hst : c.st = .waiting fn wf wk aw) (hp : c.wfs[wf]? = some .pending) :
    (resume c v).2 = .none ∧ (resume c v).1.st = c.st ∧ (resume c v).1.wfs[wf]? = some (.result v) := by
  have hlt : wf < c.wfs.length := (List.getElem?_eq_some_iff.mp hp).1
  unfold resume deliver
  simp only [hst, hp]
  exact ⟨trivial, trivial, by simp [setAt, hlt]⟩

/-- `resume(v)` arriving while an interruption is being delivered (the future already carries the interruption) is
parked in the wake-up slot — not dropped, and it does not raise -/
theorem C06_resume_parked (c : Cfg) (fn wf : Nat) (aw : List (Nat × Nat)) (v : Option Val) (k : Nat)
    (hst : c.st = .waiting fn wf none aw) (hp : c.wfs[wf]? = some (.interrupted k)) :
    (resume c v).2 = .none ∧ (resume c v).1.st = .waiting fn wf (some (.result v)) aw ∧ (resume c v).1.wfs = c.wfs := by
  unfold resume deliver
  simp [hst, hp]

/-- the first wake-up wins: once the wait holds a result, or an outcome is parked, a further `resume` changes nothing -/
theorem C06_later_resume_ignored (c : Cfg) (fn wf : Nat) (wk : Option WF) (aw : List (Nat × Nat)) (u v : Option Val)
    (hst : c.st = .waiting fn wf wk aw) (hp : c.wfs[wf]? = some (.result u)) :
    (resume c v).1 = c := by
  unfold resume deliver
  simp [hst, hp]

theorem C06_parked_not_overwritten (c : Cfg) (fn wf : Nat) (o : WF) (aw : List (Nat × Nat)) (v : Option Val) (k : Nat)
    (hst : c.st = .waiting fn wf (some o) aw) (hp : c.wfs[wf]? = some (.interrupted k)) :
    (resume c v).1 = c := by
  unfold resume deliver
  simp [hst, hp]

/-- `resume()` on a process that is not WAITING is refused (EventError) and changes nothing -/
theorem C06_resume_refused_when_not_waiting (c : Cfg) (v : Option Val)
    (hst : ∀ fn wf wk aw, c.st ≠ .waiting fn wf wk aw) : resume c v = (c, .raised .eventError) := by
  unfold resume
  split
  · rename_i fn wf wk aw h; exact absurd h (hst fn wf wk aw)
  · rfl

/-- the interrupted wait is re-armed with the parked outcome: the configuration handed to the end of the step is
WAITING on a fresh future that already holds what was parked (or is pending if nothing was) -/
theorem cancelAction_wfs (c : Cfg) (i : Nat) : (cancelAction c i).wfs = c.wfs := by
  unfold cancelAction; split
  · unfold setActionStatus; split <;> rfl
  · rfl
theorem finally_wfs (d : Cfg) : (finally_ d).wfs = d.wfs := by
  unfold finally_ setInterrupt
  split
  · exact cancelAction_wfs _ _
  · rfl

def rearmed (c : Cfg) (fn : Nat) (wk : Option WF) (aw : List (Nat × Nat)) : Cfg :=
  { c with st := .waiting fn c.wfs.length none aw, wfs := c.wfs ++ [match wk with | some o => o | none => .pending] }

theorem C06_wake_rearms (c : Cfg) (fn wf : Nat) (wk : Option WF) (aw : List (Nat × Nat)) (k : Nat)
    (hst : c.st = .waiting fn wf wk aw) :
    wake c fn wf (.interrupted k) = endOfStep (rearmed c fn wk aw) (.interruption k) ∧
    (rearmed c fn wk aw).wfs[c.wfs.length]? = some (match wk with | some o => o | none => .pending) := by
  constructor
  · unfold wake rearmed
    simp only [hst]
    rfl
  · cases wk <;> simp [rearmed]

/-- a `play()` that retracted the pause leaves a cancelled action behind; the end of the interrupted step then changes
neither the state object nor the re-armed future: the parked wake-up is still there for the next `Waiting.execute` -/
theorem C06_retracted_pause_keeps_wakeup (c : Cfg) (k i : Nat) (hl : terminal c.st.label = false)
    (hi : c.interrupt = some i) (hc : actionStatus c i = .cancelled) :
    (endOfStep c (.interruption k)).st = c.st ∧ (endOfStep c (.interruption k)).wfs = c.wfs := by
  have hp : prepare c (.interruption k) = (c, none) := by unfold prepare; simp [hi]
  have hd : dispatch c none = c := by unfold dispatch; simp [hl, hi, hc]
  unfold endOfStep
  simp only [hp, hd]
  exact ⟨finally_st c, finally_wfs c⟩

/-! ## History level -/

/-- **C06 — a wake-up is delivered (history level).**  Take any user program `P`, any number of awaitables and ANY
history `evs` of ticks, scheduled callbacks and pause / play / kill / resume / fail / cancel / complete / call_soon events
in which no callback ran out of fuel.  If the configuration reached is WAITING for continuation `fn` and its wait holds
the outcome `v` (`H6.Holds`: the waiting future completed with `v`, or `v` is parked while the future carries an
interruption), and the process is playing — not paused, no pause request pending, and no kill request pending (a pending
kill rightly wins: C04) — then ONE more callback of the stepping task activates the continuation: the trace of user calls
gains the entry `fn(*argsOf v)` (not started paused), directly on top of the old trace (further entries `extra` only if
the continuation itself ran to completion synchronously and later steps followed in the same callback). -/
theorem C06_delivery (P : Prog) (nf : Nat) (evs : List Ev) (hfuel : H6.histFuelOk P (init nf) evs = true)
    (fn wf : Nat) (wk : Option WF) (aw : List (Nat × Nat)) (v : Option Val)
    (hst : (run P (init nf) evs).st = .waiting fn wf wk aw)
    (hh : H6.Holds (run P (init nf) evs) wf wk v)
    (hpa : (run P (init nf) evs).paused = none) (hpi : (run P (init nf) evs).pausing = none)
    (hk : (run P (init nf) evs).killing = none) :
    ∃ extra, (ticks P 1 (run P (init nf) evs)).trace =
      extra ++ { fn := fn, args := H6.argsOf v, kw := [], paused := false } :: (run P (init nf) evs).trace :=
  H6.tick_delivers P _ fn wf wk aw v (H6.run_coh P _ evs (H6.coh_init nf) hfuel) hst hh hpa hpi hk

/-- `resume(v)` on this configuration is accepted as THE wake-up of the current WAITING epoch (continuation `fn`):
nothing was delivered to it yet — its future is pending, or carries an interruption with an empty wake-up slot -/
def Accepts (c : Cfg) (fn : Nat) : Prop :=
  ∃ wf wk aw, c.st = .waiting fn wf wk aw ∧
    (c.wfs[wf]? = some .pending ∨ ((∃ k, c.wfs[wf]? = some (.interrupted k)) ∧ wk = none))

/-- an accepted `resume(v)` makes the wait hold `v` (`C06_resume_accepted`, `C06_resume_parked` in one statement) -/
theorem C06_accepted_holds (c : Cfg) (fn : Nat) (v : Option Val) (h : Accepts c fn) :
    ∃ wf wk aw, (resume c v).1.st = .waiting fn wf wk aw ∧ H6.Holds (resume c v).1 wf wk v ∧
      (resume c v).1.trace = c.trace := by
  obtain ⟨wf, wk, aw, hst, hp | ⟨⟨k, hk⟩, hwk⟩⟩ := h
  · have := C06_resume_accepted c fn wf wk aw v hst hp
    exact ⟨wf, wk, aw, this.2.1.trans hst, Or.inl this.2.2, H6.resume_trace c v⟩
  · subst hwk
    have := C06_resume_parked c fn wf aw v k hst hk
    exact ⟨wf, some (.result v), aw, this.2.1, Or.inr ⟨⟨k, by rw [this.2.2]; exact hk⟩, rfl⟩, H6.resume_trace c v⟩

/-- what can have become of a `resume(v)` that configuration `c₁` accepted for continuation `fn`, in a later
configuration `c`:

* the trace grew, and the FIRST activation logged after the accepted resume is `fn(*argsOf v)`, not started paused
  (`extra` are later activations: the continuation's successors);
* or nothing was activated since (`c.trace = c₁.trace`) and the process terminated (kill / fail / …), or is RUNNING
  `fn(*argsOf v)` between two steps (woken with `v`, activation still ahead — it is paused), or is still in the same
  WAITING epoch whose wait still holds `v`. -/
def ResumeOutcome (c₁ c : Cfg) (fn : Nat) (v : Option Val) : Prop :=
  (∃ extra, c.trace = extra ++ { fn := fn, args := H6.argsOf v, kw := [], paused := false } :: c₁.trace) ∨
  (c.trace = c₁.trace ∧
    (terminal c.st.label = true ∨
     (c.st = .running fn (H6.argsOf v) [] ∧ c.stepping = false) ∨
     ∃ wf wk aw, c.st = .waiting fn wf wk aw ∧ H6.Holds c wf wk v))

/-- **C06 — the first accepted value wins, and it is delivered at most once (history level).**  Split any history at a
`resume(v)` event that is accepted (`Accepts`) by the configuration `c₁` reached by the first part `evs₁`; let `evs₂` be
ANY continuation (later `resume(u)` with other values, pause / play in any interleaving, interruptions that re-arm the
wait, kill, fail, awaitable callbacks, ticks) and `c` the configuration at its end.  Then `ResumeOutcome c₁ c fn v`: the
first activation logged since is `fn` with `v`'s arguments, or nothing was activated and `v` is still held / about to be
passed / the process terminated.  In particular a later `resume(u)` never replaces `v`, nothing but `fn(v)` is activated
next, and (the wait being consumed by that activation: the state is then RUNNING) the epoch's continuation is not
activated a second time. -/
theorem C06_first_resume_wins (P : Prog) (nf : Nat) (evs₁ evs₂ : List Ev) (fn : Nat) (v : Option Val)
    (hfuel : H6.histFuelOk P (init nf) (evs₁ ++ .resume v :: evs₂) = true)
    (hacc : Accepts (run P (init nf) evs₁) fn) :
    ResumeOutcome (run P (init nf) evs₁) (run P (init nf) (evs₁ ++ .resume v :: evs₂)) fn v := by
  rw [H6.histFuelOk_append, Bool.and_eq_true] at hfuel
  obtain ⟨hf1, hf2⟩ := hfuel
  have hC1 := H6.run_coh P _ evs₁ (H6.coh_init nf) hf1
  have hrun : run P (init nf) (evs₁ ++ .resume v :: evs₂) = run P (resume (run P (init nf) evs₁) v).1 evs₂ := by
    rw [H6.run_append]; rfl
  have hf2' : H6.histFuelOk P (resume (run P (init nf) evs₁) v).1 evs₂ = true := by
    unfold H6.histFuelOk at hf2
    rw [Bool.and_eq_true] at hf2
    exact hf2.2
  obtain ⟨wf, wk, aw, hst, hh, htr⟩ := C06_accepted_holds _ fn v hacc
  have hD := H6.run_deliv P _ evs₂ (H6.resume_coh _ v hC1) hf2' (H6.Deliv.held wf wk aw hst hh htr)
  rw [hrun]
  cases hD with
  | held wf' wk' aw' hst' hh' ht' => exact Or.inr ⟨ht', Or.inr (Or.inr ⟨wf', wk', aw', hst', hh'⟩)⟩
  | ready hst' hns ht' => exact Or.inr ⟨ht', Or.inr (Or.inl ⟨hst', hns⟩)⟩
  | over hterm ht' => exact Or.inr ⟨ht', Or.inl hterm⟩
  | done extra ht' => exact Or.inl ⟨extra, ht'⟩

/-- `C06_first_resume_wins` without its fuel hypothesis (kept as a statement: it is FALSE of the model, see below) -/
def C06_first_resume_wins_full : Prop :=
  ∀ (P : Prog) (nf : Nat) (evs₁ evs₂ : List Ev) (fn : Nat) (v : Option Val), Accepts (run P (init nf) evs₁) fn →
    ResumeOutcome (run P (init nf) evs₁) (run P (init nf) (evs₁ ++ .resume v :: evs₂)) fn v

/-- the process is WAITING for continuation `fn` and NOTHING has been delivered to that wait: the wake-up slot is empty and
the future is pending or carries an interruption -/
def WaitsEmpty (c : Cfg) (fn : Nat) : Prop :=
  ∃ wf aw, c.st = .waiting fn wf none aw ∧ (c.wfs[wf]? = some .pending ∨ ∃ k, c.wfs[wf]? = some (.interrupted k))

/-- **C06 — no activation without a delivered outcome (history level).**  If after `evs₁` the process is WAITING for `fn`
with nothing delivered, then along ANY continuation `evs₂` that contains no delivery — no `resume`, no awaitable
done-callback (the workchain's own way of completing the wait) — but any ticks, pauses, plays, interruptions that
re-arm the wait, kills, fails, nothing at all is activated: the trace of user calls is unchanged, and the process is
still WAITING for `fn` with nothing delivered, or it terminated.  A continuation is only ever started by an outcome. -/
theorem C06_no_activation_while_waiting_empty (P : Prog) (nf : Nat) (evs₁ evs₂ : List Ev) (fn : Nat)
    (hfuel : H6.histFuelOk P (init nf) (evs₁ ++ evs₂) = true)
    (hw : WaitsEmpty (run P (init nf) evs₁) fn)
    (hnd : ∀ e ∈ evs₂, (∀ u, e ≠ .resume u) ∧ (∀ f, e ≠ .tickCb (.adone f))) :
    (run P (init nf) (evs₁ ++ evs₂)).trace = (run P (init nf) evs₁).trace ∧
    (terminal (run P (init nf) (evs₁ ++ evs₂)).st.label = true ∨ WaitsEmpty (run P (init nf) (evs₁ ++ evs₂)) fn) := by
  rw [H6.histFuelOk_append, Bool.and_eq_true] at hfuel
  obtain ⟨wf, aw, hst, he⟩ := hw
  have hC1 := H6.run_coh P _ evs₁ (H6.coh_init nf) hfuel.1
  have hU := H6.run_unres P _ evs₂ hC1 hfuel.2 hnd (H6.Unres.waiting wf aw hst he rfl)
  rw [H6.run_append]
  cases hU with
  | waiting wf' aw' hst' he' ht' => exact ⟨ht', Or.inr ⟨wf', aw', hst', he'⟩⟩
  | over hterm ht' => exact ⟨ht', Or.inl hterm⟩

/-- a program with a chain of exactly `fuel0` synchronous steps between two waits: fn 0 waits for fn 1, fn 1 … fn 999
continue with the next one, fn 1000 waits for fn 1001, which stops -/
def fuelWitness : Prog := fun fn _ _ _ =>
  if fn = 0 then ⟨0, .ret (.wait 1)⟩ else if fn < 1000 then ⟨0, .ret (.cont (fn + 1) [] [])⟩
  else if fn = 1000 then ⟨0, .ret (.wait 1001)⟩ else ⟨0, .ret (.stop none true)⟩

/-- **why `histFuelOk` is a hypothesis** (a finding about the MODEL, not about plumpy): on `fuelWitness` the callback that
consumes `resume(7)` runs out of fuel exactly when the second wait has been entered, and returns with the stale program
counter "awaiting future 0".  The second wait then accepts `resume(8)` — and the model's next tick wakes it with the value
of the FIRST wait: fn 1001 is activated with `[7]`.  So `C06_first_resume_wins` without the fuel hypothesis is false of
the model (the real code cannot produce this run: its callback would simply go on). -/
theorem C06_witness_fuel_exhaustion :
    Accepts (run fuelWitness (init 0) [.tick, .resume (some 7), .tick]) 1001 ∧
    H6.histFuelOk fuelWitness (init 0) ([.tick, .resume (some 7), .tick] ++ .resume (some 8) :: [.tick]) = false ∧
    (((run fuelWitness (init 0) ([.tick, .resume (some 7), .tick] ++ .resume (some 8) :: [.tick])).trace.take 1).map
      fun a => (a.fn, a.args)) = [(1001, [7])] := by
  have h1 : (run fuelWitness (init 0) [.tick, .resume (some 7), .tick]).st = .waiting 1001 1 none [] ∧
      (run fuelWitness (init 0) [.tick, .resume (some 7), .tick]).wfs[1]? = some .pending := by decide +kernel
  have h2 : H6.histFuelOk fuelWitness (init 0) ([.tick, .resume (some 7), .tick] ++ .resume (some 8) :: [.tick]) = false ∧
      (((run fuelWitness (init 0) ([.tick, .resume (some 7), .tick] ++ .resume (some 8) :: [.tick])).trace.take 1).map
        fun a => (a.fn, a.args)) = [(1001, [7])] := by decide +kernel
  exact ⟨⟨1, none, [], h1.1, Or.inl h1.2⟩, h2⟩

/-- the statement without the fuel hypothesis is refuted by `fuelWitness`: the activation that follows the accepted
`resume(8)` is logged with `[7]` -/
theorem C06_first_resume_wins_full_is_false : ¬ C06_first_resume_wins_full := by
  intro h
  have hw := C06_witness_fuel_exhaustion
  have hr := h fuelWitness 0 [.tick, .resume (some 7), .tick] [.tick] 1001 (some 8) hw.1
  have ht : (run fuelWitness (init 0) ([.tick, .resume (some 7), .tick] ++ .resume (some 8) :: [.tick])).trace =
      { fn := 1001, args := [7], kw := [], paused := false } ::
        (run fuelWitness (init 0) [.tick, .resume (some 7), .tick]).trace := by decide +kernel
  rcases hr with ⟨extra, he⟩ | ⟨he, _⟩
  · rw [ht] at he
    have hl := congrArg List.length he
    simp only [List.length_cons, List.length_append] at hl
    have : extra = [] := List.eq_nil_of_length_eq_zero (by omega)
    subst this
    simp [H6.argsOf] at he
  · rw [ht] at he
    have hl := congrArg List.length he
    simp at hl

-- non-vacuity and the races of section 9: pause then resume inside one loop iteration; the value arrives after play
section
private def waiter : Prog := fun fn _ _ _ => if fn = 0 then ⟨0, .ret (.wait 1)⟩ else ⟨0, .ret (.stop none true)⟩
example : ((run waiter (init 0) [.tick, .pause, .resume (some 5), .tick, .play, .tick]).trace.map fun a => (a.fn, a.args)) =
    [(1, [5]), (0, [])] := by decide +kernel
example : ((run waiter (init 0) [.tick, .pause, .play, .resume (some 5), .resume (some 6), .tick, .tick]).trace.map
    fun a => (a.fn, a.args)) = [(1, [5]), (0, [])] := by decide +kernel
example : (run waiter (init 0) [.tick, .pause, .resume (some 5), .tick, .play, .tick]).st = .finished none true := by
  decide +kernel

-- history level: the Waiter program of harness/pm.py (fn 0 waits, fn 1 stops), history
-- [tick, pause, resume 5, play, tick, tick]: no callback runs out of fuel ...
example : H6.histFuelOk waiter (init 0) [.tick, .pause, .resume (some 5), .play, .tick, .tick] = true := by decide +kernel
-- ... after [tick, pause, resume 5, play] the value 5 is PARKED (the future carries the interruption of the retracted
-- pause) and the process is playing: all hypotheses of `C06_delivery` hold, so the next tick activates fn 1 with [5]
example : ∃ extra, (ticks waiter 1 (run waiter (init 0) [.tick, .pause, .resume (some 5), .play])).trace =
    extra ++ { fn := 1, args := [5], kw := [], paused := false } ::
      (run waiter (init 0) [.tick, .pause, .resume (some 5), .play]).trace :=
  C06_delivery waiter 0 [.tick, .pause, .resume (some 5), .play] (by decide +kernel) 1 0 (some (.result (some 5))) [] (some 5)
    (by decide +kernel) (Or.inr ⟨⟨0, by decide +kernel⟩, rfl⟩) (by decide +kernel) (by decide +kernel) (by decide +kernel)
-- the same with the value in the future itself (resume arrives while the stepper is suspended on the wait, no pause)
example : H6.Holds (run waiter (init 0) [.tick, .resume none]) 0 none none := Or.inl (by decide +kernel)
-- `Accepts`: after [tick, pause] the wait of fn 1 carries the interruption and nothing is parked; after [tick] it is pending
example : Accepts (run waiter (init 0) [.tick, .pause]) 1 :=
  ⟨0, none, [], by decide +kernel, Or.inr ⟨⟨0, by decide +kernel⟩, rfl⟩⟩
example : Accepts (run waiter (init 0) [.tick]) 1 := ⟨0, none, [], by decide +kernel, Or.inl (by decide +kernel)⟩
-- `C06_first_resume_wins` on [tick, pause] ++ resume 5 :: [resume 6, play, resume 7, tick, tick]: its first alternative
-- holds, the activation after the accepted resume is fn 1 with [5]; 6 and 7 are gone
example : H6.histFuelOk waiter (init 0) ([.tick, .pause] ++ .resume (some 5) :: [.resume (some 6), .play, .resume (some 7), .tick, .tick]) = true := by
  decide +kernel
example : ((run waiter (init 0) ([.tick, .pause] ++ .resume (some 5) :: [.resume (some 6), .play, .resume (some 7), .tick, .tick])).trace.map
    fun a => (a.fn, a.args)) = [(1, [5]), (0, [])] := by decide +kernel
-- `C06_no_activation_while_waiting_empty`: waiting with nothing delivered after [tick]; pause, tick (re-arm), play, ticks
-- activate nothing
example : WaitsEmpty (run waiter (init 0) [.tick]) 1 := ⟨0, [], by decide +kernel, Or.inl (by decide +kernel)⟩
example : H6.histFuelOk waiter (init 0) ([.tick] ++ [.pause, .tick, .play, .tick, .tick]) = true := by decide +kernel
example : ∀ e ∈ [Ev.pause, .tick, .play, .tick, .tick], (∀ u, e ≠ .resume u) ∧ (∀ f, e ≠ .tickCb (.adone f)) := by
  intro e he
  simp at he
  rcases he with rfl | rfl | rfl | rfl <;> exact ⟨fun _ h => (by cases h), fun _ h => (by cases h)⟩
example : ((run waiter (init 0) ([.tick] ++ [.pause, .tick, .play, .tick, .tick])).trace.map fun a => a.fn) = [0] ∧
    (run waiter (init 0) ([.tick] ++ [.pause, .tick, .play, .tick, .tick])).st = .waiting 1 1 none [] := by decide +kernel
-- ... and each of the other alternatives of `C06_first_resume_wins` occurs: still waiting and holding 5 (paused), terminated before the activation
example : (run waiter (init 0) ([.tick, .pause] ++ .resume (some 5) :: [.resume (some 6), .tick, .tick])).st =
    .waiting 1 1 none [] ∧
    (run waiter (init 0) ([.tick, .pause] ++ .resume (some 5) :: [.resume (some 6), .tick, .tick])).wfs[1]? = some (.result (some 5)) := by
  decide +kernel
example : (run waiter (init 0) ([.tick] ++ .resume (some 5) :: [.pause, .tick])).st = .running 1 [5] [] ∧
    (run waiter (init 0) ([.tick] ++ .resume (some 5) :: [.pause, .tick])).stepping = false ∧
    ((run waiter (init 0) ([.tick] ++ .resume (some 5) :: [.pause, .tick])).trace.map fun a => a.fn) = [0] := by
  decide +kernel
example : (run waiter (init 0) ([.tick, .pause] ++ .resume (some 5) :: [.kill, .tick])).st = .killed ∧
    ((run waiter (init 0) ([.tick, .pause] ++ .resume (some 5) :: [.kill, .tick])).trace.map fun a => a.fn) = [0] := by
  decide +kernel
end

end PMF
