import PlumpyModel.PM.Proof2
/-!
# C01 — state changes follow the lifecycle graph; terminal states are final

Model: `PMF` (lean/PlumpyModel/PM/Model.lean).  `Label` and `allowed` are generated from the source
(`ProcessState`, the `ALLOWED` sets of the registered state classes), so the first theorem is re-checked against what
the code says on every run.  The lifecycle hooks of the model do not raise (the property's hypothesis).
-/
namespace PMF

/-- the documented lifecycle graph, typed from the text of the property -/
def documentedGraph : Label → List Label
  | .created => [.running, .killed, .excepted]
  | .running => [.running, .waiting, .finished, .killed, .excepted]
  | .waiting => [.running, .waiting, .finished, .killed, .excepted]
  | .finished => []
  | .excepted => []
  | .killed => []

/-- the `ALLOWED` sets declared in the source are exactly the documented graph -/
theorem C01_graph_is_documented : ∀ a b : Label, b ∈ allowed a ↔ b ∈ documentedGraph a := by
  intro a b; cases a <;> cases b <;> decide

/-- the terminal states (no outgoing edge) are exactly FINISHED, EXCEPTED, KILLED, and agree with `is_terminal()` -/
theorem C01_terminal_iff : ∀ l : Label, (terminal l = true ↔ l = .finished ∨ l = .excepted ∨ l = .killed) ∧
    terminal l = isTerminalDecl l := by
  intro l; cases l <;> decide

/-- a process starts in CREATED -/
theorem C01_starts_created (nf : Nat) : (init nf).st.label = .created ∧ (init nf).entered = [.created] ∧
    initialLabel = .created := by
  simp [init, SObj.label, initialLabel]

/-- a path of the generated graph is a path of the documented graph -/
def edgesDoc : List Label → Bool
  | b :: a :: rest => decide (b ∈ documentedGraph a) && edgesDoc (a :: rest)
  | _ => true

theorem edgesDoc_of_edgesOk : ∀ l : List Label, edgesOk l = true → edgesDoc l = true
  | [] => fun _ => rfl
  | [_] => fun _ => rfl
  | b :: a :: rest => by
      intro h
      simp only [edgesOk, Bool.and_eq_true, decide_eq_true_eq] at h
      simp only [edgesDoc, Bool.and_eq_true, decide_eq_true_eq]
      exact ⟨(C01_graph_is_documented a b).1 h.1, edgesDoc_of_edgesOk (a :: rest) h.2⟩

/-- **C01, first half**: for every user program, every number of awaited futures and every history of ticks (of the
stepping task and of any scheduled callback, in any order) and control requests (pause, play, kill, resume, fail,
call_soon, future cancellation, awaitable completion), the log of entered states is a path of the documented lifecycle
graph that ends at the current state. -/
theorem C01_edges_documented (P : Prog) (nf : Nat) (evs : List Ev) :
    edgesDoc (run P (init nf) evs).entered = true ∧
    (run P (init nf) evs).entered.head? = some (run P (init nf) evs).st.label :=
  ⟨edgesDoc_of_edgesOk _ (C01_edges_legal P nf evs).1, (C01_edges_legal P nf evs).2⟩

/-- **C01, second half — terminal states are final**: from ANY configuration whose state is FINISHED, EXCEPTED or
KILLED, no history of events whatsoever changes the state object (label, result, exception) or the entered log. -/
theorem C01_terminal_states_final (P : Prog) (c : Cfg) (evs : List Ev) (ht : terminal c.st.label = true) :
    (run P c evs).st = c.st ∧ (run P c evs).entered = c.entered :=
  C01_terminal_final P c evs ht

/-- … in particular for every reachable terminal configuration: once a run has terminated, every extension of the
history leaves state and log as they were. -/
theorem C01_reachable_terminal_final (P : Prog) (nf : Nat) (evs₁ evs₂ : List Ev)
    (ht : terminal (run P (init nf) evs₁).st.label = true) :
    (run P (init nf) (evs₁ ++ evs₂)).st = (run P (init nf) evs₁).st ∧
    (run P (init nf) (evs₁ ++ evs₂)).entered = (run P (init nf) evs₁).entered := by
  have : run P (init nf) (evs₁ ++ evs₂) = run P (run P (init nf) evs₁) evs₂ := by simp [run, List.foldl_append]
  rw [this]
  exact C01_terminal_final P _ evs₂ ht

-- non-vacuity: concrete histories reach each terminal state; a late `fail` and a late failing callback change nothing
example : (run sync2 (init 0) [.tick]).st.label = .finished := by decide +kernel
example : (run sync2 (init 0) [.kill]).st.label = .killed := by decide +kernel
example : (run sync2 (init 0) [.fail (.user 1)]).st.label = .excepted := by decide +kernel
example : (run sync2 (init 0) [.tick, .fail (.user 1), .callSoon true, .tickCb (.usercb true)]).st = .finished (some 3) true := by
  decide +kernel

end PMF
