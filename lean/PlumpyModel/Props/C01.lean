import PlumpyModel.PM.Proof2
import PlumpyModel.PM.LProof11
import PlumpyModel.PM.LProof15
/-!
# C01 — state changes follow the lifecycle graph; terminal states are final

Model: `PMF` (lean/PlumpyModel/PM/Model.lean).  `Label` and `allowed` are generated from the source
(`ProcessState`, the `ALLOWED` sets of the registered state classes), so the first theorem is re-checked against what
the code says on every run.  The lifecycle hooks of the model do not raise (the property's hypothesis).
-/
namespace PMF

/-- the documented lifecycle graph, typed from the text of the property -/
def documentedGraph : Label → List Label
  | .created => [.running, .killed, .excepted]
  | .running => [.running, .waiting, .finished, .killed, .excepted]
  | .waiting => [.running, .waiting, .finished, .killed, .excepted]
  | .finished => []
  | .excepted => []
  | .killed => []

/-- the `ALLOWED` sets declared in the source are exactly the documented graph -/
theorem C01_graph_is_documented : ∀ a b : Label, b ∈ allowed a ↔ b ∈ documentedGraph a := by
  intro a b; cases a <;> cases b <;> decide

/-- the terminal states (no outgoing edge) are exactly FINISHED, EXCEPTED, KILLED, and agree with `is_terminal()` -/
theorem C01_terminal_iff : ∀ l : Label, (terminal l = true ↔ l = .finished ∨ l = .excepted ∨ l = .killed) ∧
    terminal l = isTerminalDecl l := by
  intro l; cases l <;> decide

/-- a process starts in CREATED -/
theorem C01_starts_created (nf : Nat) : (init nf).st.label = .created ∧ (init nf).entered = [.created] ∧
    initialLabel = .created := by
  simp [init, SObj.label, initialLabel]

/-- a path of the generated graph is a path of the documented graph -/
def edgesDoc : List Label → Bool
  | b :: a :: rest => decide (b ∈ documentedGraph a) && edgesDoc (a :: rest)
  | _ => true

theorem edgesDoc_of_edgesOk : ∀ l : List Label, edgesOk l = true → edgesDoc l = true
  | [] => fun _ => rfl
  | [_] => fun _ => rfl
  | b :: a :: rest => by
      intro h
      simp only [edgesOk, Bool.and_eq_true, decide_eq_true_eq] at h
      simp only [edgesDoc, Bool.and_eq_true, decide_eq_true_eq]
      exact ⟨(C01_graph_is_documented a b).1 h.1, edgesDoc_of_edgesOk (a :: rest) h.2⟩

/-- **C01, first half**: for every user program, every number of awaited futures and every history of ticks (of the
stepping task and of any scheduled callback, in any order) and control requests (pause, play, kill, resume, fail,
call_soon, future cancellation, awaitable completion), the log of entered states is a path of the documented lifecycle
graph that ends at the current state. -/
theorem C01_edges_documented (P : Prog) (nf : Nat) (evs : List Ev) :
    edgesDoc (run P (init nf) evs).entered = true ∧
    (run P (init nf) evs).entered.head? = some (run P (init nf) evs).st.label :=
  ⟨edgesDoc_of_edgesOk _ (C01_edges_legal P nf evs).1, (C01_edges_legal P nf evs).2⟩

/-- **C01, second half — terminal states are final**: from ANY configuration whose state is FINISHED, EXCEPTED or
KILLED, no history of events whatsoever changes the state object (label, result, exception) or the entered log. -/
theorem C01_terminal_states_final (P : Prog) (c : Cfg) (evs : List Ev) (ht : terminal c.st.label = true) :
    (run P c evs).st = c.st ∧ (run P c evs).entered = c.entered :=
  C01_terminal_final P c evs ht

/-- … in particular for every reachable terminal configuration: once a run has terminated, every extension of the
history leaves state and log as they were. -/
theorem C01_reachable_terminal_final (P : Prog) (nf : Nat) (evs₁ evs₂ : List Ev)
    (ht : terminal (run P (init nf) evs₁).st.label = true) :
    (run P (init nf) (evs₁ ++ evs₂)).st = (run P (init nf) evs₁).st ∧
    (run P (init nf) (evs₁ ++ evs₂)).entered = (run P (init nf) evs₁).entered := by
  have : run P (init nf) (evs₁ ++ evs₂) = run P (run P (init nf) evs₁) evs₂ := by simp [run, List.foldl_append]
  rw [this]
  exact C01_terminal_final P _ evs₂ ht

-- non-vacuity: concrete histories reach each terminal state; a late `fail` and a late failing callback change nothing
example : (run sync2 (init 0) [.tick]).st.label = .finished := by decide +kernel
example : (run sync2 (init 0) [.kill]).st.label = .killed := by decide +kernel
example : (run sync2 (init 0) [.fail (.user 1)]).st.label = .excepted := by decide +kernel
example : (run sync2 (init 0) [.tick, .fail (.user 1), .callSoon true, .tickCb (.usercb true)]).st = .finished (some 3) true := by
  decide +kernel

/-!
## with control requests issued DURING transitions (listeners, state-event callbacks)

Model: `PMF.L` (lean/PlumpyModel/PM/Listener.lean; see the section of the same name in `Props/C04.lean`): `runL P (initL nf plan) evs`
is the run of the same events in which, in addition, the oracle `plan` makes listeners and state-event callbacks call `pause()`,
`play()`, `kill()` from inside notifications, i.e. in the middle of transitions and of the enactment of pending requests.
-/
namespace L

/-- **C01, first half, with listeners**: for every program, every plan of requests issued from inside notifications and every
history of events, the log of entered states is a path of the documented lifecycle graph that ends at the current state. -/
theorem C01_listener_edges_documented (P : Prog) (nf : Nat) (plan : Plan) (evs : List Ev) :
    edgesDoc (runL P (initL nf plan) evs).c.entered = true ∧
    (runL P (initL nf plan) evs).c.entered.head? = some (runL P (initL nf plan) evs).c.st.label :=
  let h := runL_inv P (initL nf plan) evs (inv_init nf)
  ⟨edgesDoc_of_edgesOk _ h.chain, h.head⟩

/-- **C01, second half, with listeners — terminal states stay final under requests issued by listeners**: from ANY configuration
(any plan, counters, flags) whose state is FINISHED, EXCEPTED or KILLED, no history of events — including every `pause()`, `play()`,
`kill()` that listeners issue from `on_process_played` etc. — changes the state object or the entered log. -/
theorem C01_listener_terminal_states_final (P : Prog) (l : LCfg) (evs : List Ev) (ht : terminal l.c.st.label = true) :
    (runL P l evs).c.st = l.c.st ∧ (runL P l evs).c.entered = l.c.entered :=
  runL_terminal_final P l evs ht

/-- a transition into a terminal state that is in progress cannot be abandoned by a request made from inside it: it ends in that
state, or in EXCEPTED if entering it fails -/
theorem C01_listener_terminal_transition_completes (F : Hook → LCfg → LCfg) (l : LCfg) (s : SObj) (ht : terminal s.label = true) :
    (transitionToL F l s).c.st = s ∨ (transitionToL F l s).c.st.label = .excepted :=
  transitionToL_terminal l s ht

/-- **with the empty plan the model with listeners is the model** (the statement; proved below as
`C01_listener_conservative_proved`): the `…L` twins repeat the functions of `PM/Model.lean` with the oracle consulted at the
notification points, so with no plan entry every history leaves exactly the configuration it leaves in `PMF.run`. -/
def C01_listener_conservative : Prop :=
  ∀ (P : Prog) (nf : Nat) (evs : List Ev), (runL P (initL nf []) evs).c = run P (init nf) evs

/-- **conservativity of the model with listeners**: for every program, every number of awaited futures and every history of events,
the run of the model with listeners under the EMPTY plan (no listener or state-event callback issues a request) carries exactly
the configuration the original model `PMF.run` reaches — every field of `Cfg`: state object, action table, futures, logs, program
counter of the stepping task.  The other fields of the `L` configuration are the oracle's bookkeeping (counters, the two flags).
So every theorem proved about `runL` for all plans specialises to the original model, and the two models cannot drift apart
silently.  (`PM/LProof14.lean`, `PM/LProof15.lean`; the model-vs-model "twin" stream of the harness checks the same thing on the
compiled drivers.) -/
theorem C01_listener_conservative_proved : C01_listener_conservative :=
  fun P nf evs => runL_conservative P nf evs

/-- … and every event (tick, control call, callback) returns the same value to its caller in both models, after every history. -/
theorem C01_listener_conservative_returns (P : Prog) (nf : Nat) (evs : List Ev) (ev : Ev) :
    (stepL P (runL P (initL nf []) evs) ev).2 = (step P (run P (init nf) evs) ev).2 :=
  runL_conservative_ret P nf evs ev

/-- **the invariant of the original model that conservativity rests on**: in every reachable configuration of `PM/Model.lean`, an
interrupt action that is still pending and is a pause action is the one recorded in `_pausing`.  The real
`CancellableAction.run` → `_do_pause(next_state)` returns early when `_pausing` was cleared during its own transition ("retracted
while transitioning") and stores its result only if the action is still pending; the original `runAction` has neither test.
Without listeners nothing runs during that transition, `play()` retracts a pending pause by CANCELLING it (a cancelled action is
not run), and `_pausing` is cleared only there and when the pause is enacted — so both tests are unobservable, which is this
invariant.  It is false for arbitrary configurations (`example` below): there the two models differ. -/
theorem C01_pending_pause_is_recorded (P : Prog) (nf : Nat) (evs : List Ev) (i : Nat)
    (hi : (run P (init nf) evs).interrupt = some i) (hp : actionStatus (run P (init nf) evs) i = .pending)
    (hk : actionKind (run P (init nf) evs) i = some .pause) : (run P (init nf) evs).pausing = some i :=
  run_pi P (init nf) evs (pi_init nf) i hi hp hk

/-- … and the second fact conservativity needs, on the side of the model with listeners (any plan): between two events a step in
progress is executing its state (`_stepping → _executing`), so `pause()` / `kill()` from the environment interrupt the state
exactly when the original model (which looks at `_stepping`) does. -/
theorem C01_listener_stepping_is_executing (P : Prog) (l : LCfg) (h : l.c.stepping = true → l.executing = true) :
    (tickStepperL (fireN l.plan.length) P l).c.stepping = true → (tickStepperL (fireN l.plan.length) P l).executing = true :=
  tickStepperL_ex P l h

-- non-vacuity: a kill from `on_process_running` ends KILLED through legal edges; a late play on a process that was killed while
-- paused notifies `on_process_played`, whose listener kills and pauses: nothing changes
example : (runL sync2 (initL 0 [(.running, 1, .kill)]) [.tick]).c.entered = [.killed, .running, .created] := by decide +kernel
example : (runL sync2 (initL 0 [(.played, 1, .kill), (.played, 2, .pause)]) [.pause, .kill, .play, .play, .tick]).c.st = .killed := by
  decide +kernel

-- non-vacuity of conservativity: a history in which a pause requested during a step is retracted by `play()`, requested again and
-- enacted with the next state (the branch of `runAction` / `runActionL` that differs); both models agree, and the invariant's
-- hypotheses hold non-trivially in the middle of it
section
private def async1 : Prog := fun fn _ _ _ => if fn = 0 then ⟨1, .ret (.cont 1 [] [])⟩ else ⟨0, .ret (.stop (some 3) true)⟩
example : let l := (runL async1 (initL 0 []) [.tick, .pause, .play, .pause, .tick]).c
    let c := run async1 (init 0) [.tick, .pause, .play, .pause, .tick]
    l.st = c.st ∧ l.paused = c.paused ∧ l.notif = c.notif ∧ l.pc = c.pc ∧ l.interrupt = c.interrupt ∧
    c.st.label = .running ∧ c.paused = some 0 ∧ c.notif = [.paused, .running, .running] := by decide +kernel
example : let c := run async1 (init 0) [.tick, .pause, .play, .pause]
    c.interrupt = some 1 ∧ actionStatus c 1 = .pending ∧ actionKind c 1 = some .pause ∧ c.pausing = some 1 ∧
    actionStatus c 0 = .cancelled := by decide +kernel
-- with a non-empty plan the runs do differ (the empty plan is a real hypothesis): a kill from `on_process_running`
example : (runL async1 (initL 0 [(.running, 1, .kill)]) [.tick]).c.st ≠ (run async1 (init 0) [.tick]).st := by decide +kernel
-- outside the reachable configurations the invariant fails and the models differ: a pending pause action in the slot that is
-- not recorded in `_pausing` pauses the process in `runAction`, while `runActionL` (like `_do_pause`) takes it for retracted
private def odd : Cfg := { st := .running 1 [] [], stepping := true, actions := [⟨.pause, 0, .pending⟩], interrupt := some 0 }
example : odd.interrupt = some 0 ∧ actionStatus odd 0 = .pending ∧ actionKind odd 0 = some .pause ∧ odd.pausing = none := by
  decide +kernel
example : (runActionL (fireN 0) { c := odd } 0 (some (.running 1 [] []))).c.paused = none ∧
    (runAction odd 0 (some (.running 1 [] []))).paused = some 0 := by decide +kernel
end

end L

end PMF
