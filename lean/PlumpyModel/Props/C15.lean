import PlumpyModel.Expose.Proof
import PlumpyModel.Expose.ProofFull4
/-!
# C15 — exposing ports copies exactly the selected ports

Model: `Expose.absorbPorts` (lean/PlumpyModel/Expose/Model.lean) mirrors the loop of `PortNamespace.absorb`
(`exclude` test, the namespace test on the include rules, `strip_namespace`, recursion into a fresh copy of the nested
namespace) with value semantics.  Specification: `Expose.selected` — a source leaf is exposed iff no exclude rule is a
component-wise prefix of its path and, when include rules are given, some include rule is.

Full model: `Expose.Full.exposePorts` (lean/PlumpyModel/Expose/Full.lean) mirrors the whole call `ProcessSpec._expose_ports`
= `create_port_namespace` + `absorb` on port OBJECTS with identities, namespace properties, dict assignment and an allocation
counter; the `C15_full_*` theorems below are about it, for every source tree, destination tree, rule sets, target namespace
and option overrides.  `r := exposePorts src nsp ex inc opts dst c` is `(destination afterwards, counter afterwards, the list
stored in the exposed-port memory or the error)`.

What is NOT a theorem here: that a property VALUE (a dict used as `default`, a validator) is shared by reference between the
source namespace and its copy (`copy.copy`, `setattr(self, attr, getattr(source, attr))`) — values are atoms in the model;
in-place changes of leaf-port attribute values are probed by the Python monitors.
-/
namespace Expose

/-- **selection**: for every source port tree (any nesting, any names — including names that are string prefixes of
one another) and every rule sets (exclude arbitrary; include without a rule that is an ancestor of another), the leaf
ports copied by `absorb` are exactly the source leaves selected by the rules, in source order. -/
theorem C15_selection_exact (ports : List (Name × PT)) (ex inc : Option (List Rule))
    (hex : WF ex) (hinc : WF inc) (hna : NoAnc inc) :
    leafPaths (absorbPorts ex inc ports) = (leafPaths ports).filter (selected ex inc) :=
  selection_exact ports ex inc hex hinc hna

/-- a namespaced include rule selects that path only, never a sibling whose name merely shares a string prefix -/
theorem C15_sibling_with_shared_prefix_not_selected (q : List Name) :
    selected none (some [["ab", "x"]]) ("a" :: q) = false ∧ selected none (some [["abc"]]) ("ab" :: q) = false ∧
    selected none (some [["ab", "x"]]) ["ab", "x"] = true := by
  refine ⟨?_, ?_, by decide⟩ <;> simp [selected, anyPrefix, isPrefix, truthy]

/-- the guard of `ProcessSpec._expose_ports` followed by the guard of `absorb`: what is rejected -/
def exposeRejected (ex inc : Option (List Rule)) : Bool :=
  (truthy ex && inc.isSome) || (ex.isSome && inc.isSome)

/-- include together with exclude is rejected, and nothing else is (as far as the rules are concerned) -/
theorem C15_include_exclude_rejected (ex inc : Option (List Rule)) :
    exposeRejected ex inc = true ↔ (ex ≠ none ∧ inc ≠ none) := by
  cases ex <;> cases inc <;> simp [exposeRejected, truthy]

-- non-vacuity: the witness of the repaired defect (F13): with `include=['ab.x']` the namespace `a` is not exposed
example : leafPaths (absorbPorts none (some [["ab", "x"]])
    [("a", .ns 0 [("x", .leaf 0)]), ("ab", .ns 0 [("x", .leaf 0), ("y", .leaf 0)]), ("abc", .leaf 0)]) = [["ab", "x"]] := by
  simp [absorbPorts, leafPaths, truthy, mentions, touches, strip]
example : WF (some [["ab", "x"]]) ∧ NoAnc (some [["ab", "x"]]) := by
  constructor
  · intro r hr; simp [rulesOf] at hr; subst hr; simp
  · intro r hr s hs; simp [rulesOf] at hr hs; subst hr; subst hs; simp


/-! ## the full call on port objects -/
open Full

/-- **placement + selection + properties of the target** (the call succeeds).  Let `tgt0` be the namespace that
`create_port_namespace` returns for the requested namespace (`targetOf`: the destination itself for `None` / `''`; see
`C15_full_target_existing_or_new`).  If include and exclude are not both given and every option names a property, then the
call returns normally and there is a dict `cp` of copies such that: the returned / remembered names are the keys of `cp`;
read as a tree, `cp` has exactly the source leaves selected by the rules, in source order (`selection_exact`); the namespace
at the requested path afterwards is the same object as `tgt0` (same identity, every old key at its old position), its
properties are the result of the overload loop (`C15_full_overloaded_props` says what that is), and its dict is the old dict
updated with `cp`: an absorbed name reads the copy, every other name reads what it read before.  (`cp` is `copies …`, the
dict of copies the loop of `absorb` makes; `C15_full_copy_mirrors_source` says what each copy is.) -/
theorem C15_full_placement_selection (src dst : Ns) (nsp : Option (List Name)) (ex inc : Option (List Rule))
    (opts : Option Opts) (c : Nat) (tgt0 : Ns) (c0 : Nat)
    (hdk : DK src.ports) (hex : WF ex) (hinc : WF inc) (hna : NoAnc inc)
    (hrules : (ex.isSome && inc.isSome) = false)
    (ht : targetOf (nsPath nsp) dst c = some (tgt0, c0))
    (hopts : (overload src.props (opts.getD []) tgt0.props).2 = []) :
    ∃ (tgt' : Ns) (cp : Ports),
      (exposePorts src nsp ex inc opts dst c).2.2 = .ok (keys cp) ∧
      cp = (copies ex inc src.ports c0).1 ∧
      keys cp = absorbedNames ex inc src.ports ∧
      leafPathsF cp = (leafPathsF src.ports).filter (selected ex inc) ∧
      nsAt (nsPath nsp) (exposePorts src nsp ex inc opts dst c).1 = some tgt' ∧
      tgt'.id = tgt0.id ∧
      tgt'.props = (overload src.props (opts.getD []) tgt0.props).1 ∧
      (∃ extra, keys tgt'.ports = keys tgt0.ports ++ extra) ∧
      (∀ n, lookup n tgt'.ports = if n ∈ keys cp then lookup n cp else lookup n tgt0.ports) := by
  have hguard : (truthy ex && inc.isSome) = false := by
    cases ex with
    | none => simp [truthy]
    | some l => cases inc <;> simp_all [truthy]
  have htgt := exposeAt_target (k := absorbTop src ex inc (opts.getD [])) _ _ _ _ _ ht
  have hnd : (keys (copies ex inc src.ports c0).1).Nodup := by
    rw [keys_copies]; exact nodup_absorbedNames ex inc (DK_nodup hdk)
  refine ⟨(absorbTop src ex inc (opts.getD []) tgt0 c0).1, (copies ex inc src.ports c0).1, ?_, rfl, keys_copies _ _ _ _, ?_, ?_, ?_, ?_, ?_, ?_⟩
  · simp only [exposePorts, hguard, Bool.false_eq_true, if_false, htgt.1, absorbTop_ok hrules hopts, absorbLoop_eq]
  · simp only [leafPathsF, toPT_copies _ _ _ _ hdk]
    exact selection_exact _ _ _ hex hinc hna
  · simp only [exposePorts, hguard, Bool.false_eq_true, if_false, htgt.2]
  · exact (absorbTop_root _ _ _ _ _ _).1
  · rw [absorbTop_ok hrules hopts]
  · exact (absorbTop_root _ _ _ _ _ _).2
  · intro n
    rw [absorbTop_ok hrules hopts]
    simp only [absorbLoop_eq]
    split
    · rename_i hn; exact lookup_assignAll_mem _ _ hnd hn
    · rename_i hn; exact lookup_assignAll_not_mem _ _ hn

/-- **the copies are new objects**: under the hypotheses of `C15_full_placement_selection`, every identity in the dict of
copies (the copied leaves, the copied nested namespaces and everything below them) has been allocated by this call. -/
theorem C15_full_copies_fresh (src dst : Ns) (nsp : Option (List Name)) (ex inc : Option (List Rule))
    (opts : Option Opts) (c : Nat) (tgt0 : Ns) (c0 : Nat)
    (hrules : (ex.isSome && inc.isSome) = false)
    (ht : targetOf (nsPath nsp) dst c = some (tgt0, c0))
    (hopts : (overload src.props (opts.getD []) tgt0.props).2 = []) :
    ∀ n o, n ∈ absorbedNames ex inc src.ports →
      (∃ tgt', nsAt (nsPath nsp) (exposePorts src nsp ex inc opts dst c).1 = some tgt' ∧ lookup n tgt'.ports = some o) →
      ∀ i ∈ oids o, c ≤ i ∧ i < (exposePorts src nsp ex inc opts dst c).2.1 := by
  intro n o hn ⟨tgt', hat, hl⟩ i hi
  have hguard : (truthy ex && inc.isSome) = false := by
    cases ex with
    | none => simp [truthy]
    | some l => cases inc <;> simp_all [truthy]
  have htgt := exposeAt_target (k := absorbTop src ex inc (opts.getD [])) _ _ _ _ _ ht
  simp only [exposePorts, hguard, Bool.false_eq_true, if_false, htgt.2, Option.some.injEq] at hat
  subst hat
  simp only [exposePorts, hguard, Bool.false_eq_true, if_false, htgt.1]
  rw [absorbTop_ok hrules hopts] at hl ⊢
  simp only [absorbLoop_eq] at hl ⊢
  have hc0 : c ≤ c0 := by
    rcases targetOf_spec _ _ _ _ _ ht with h | h
    · omega
    · omega
  -- the value read under an absorbed name is one of the copies
  have key : ∀ (l sp : Ports), n ∈ keys l → lookup n (assignAll sp l) = some o → i ∈ ids l := by
    intro l
    induction l with
    | nil => intro sp h; simp [keys] at h
    | cons e l ih =>
      intro sp h hlk
      rw [assignAll_cons] at hlk
      by_cases hin : n ∈ keys l
      · have := ih _ hin hlk
        rw [show e = (e.1, e.2) from rfl, ids_cons]; simp [this]
      · rw [lookup_assignAll_not_mem _ _ hin] at hlk
        have he : e.1 = n := by
          simp only [keys, List.map_cons, List.mem_cons] at h
          rcases h with h | h
          · exact h.symm
          · exact absurd (by simpa [keys] using h) hin
        rw [← he, lookup_setPort_same] at hlk
        simp only [Option.some.injEq] at hlk
        rw [show e = (e.1, e.2) from rfl, ids_cons, hlk]; simp [hi]
  have := (copies_fresh src.ports ex inc c0).2 i (key _ _ (by rw [keys_copies]; exact hn) hl)
  exact ⟨by omega, this.2⟩

/-- **the copies carry their sources' attributes and properties, at every depth**: every entry `n ↦ o` of the dict of copies
comes from the source port of that name: a leaf is copied as a leaf with the same attributes; a nested namespace is copied
as a namespace whose properties are the source namespace's with the property setters run once more (`overload pr [] pr`, by
`C15_full_overloaded_props` = `expectedProps pr []`, and equal to `pr` itself when `pr` respects "`valid_type` set ⇒ `dynamic`",
`C15_full_nested_props_unchanged`), and whose own dict is again a dict of copies — of the nested namespace's ports under
the stripped rules — so the statement applies to it in turn. -/
theorem C15_full_copy_mirrors_source (ex inc : Option (List Rule)) (src : Ports) (c : Nat) (hdk : DK src)
    (n : Name) (o : Obj) (h : lookup n (copies ex inc src c).1 = some o) :
    ∃ p c1, lookup n src = some p ∧
      ((∃ j a, p = .leaf j a ∧ o = .leaf c1 a) ∨
       (∃ j pr sub, p = .ns j pr sub ∧ DK sub ∧
          o = .ns c1 (overload pr [] pr).1 (copies (strip n ex) (strip n inc) sub (c1 + 1)).1)) := by
  obtain ⟨p, c1, hm, hr⟩ := copies_entry ex inc src c n o (mem_of_lookup h)
  have hl := lookup_of_mem (DK_nodup hdk) hm
  refine ⟨p, c1, hl, ?_⟩
  rcases hr with hr | ⟨j, pr, sub, rfl, ho⟩
  · exact Or.inl hr
  · have hsub : DK sub := by
      clear hl h ho
      induction src with
      | nil => simp at hm
      | cons e rest ih =>
        simp only [List.mem_cons] at hm
        rcases hm with rfl | hm
        · simp only [DK] at hdk; exact hdk.2.1
        · obtain ⟨m, q⟩ := e
          cases q with
          | leaf _ _ => simp only [DK] at hdk; exact ih hdk.2 hm
          | ns _ _ _ => simp only [DK] at hdk; exact ih hdk.2.2 hm
    exact Or.inr ⟨j, pr, sub, rfl, hsub, by rw [ho, absorbLoop_empty _ _ _ _ (DK_nodup hsub)]⟩

/-- re-running the property setters on a namespace's own properties changes nothing when they respect the class's
convention "a `valid_type` other than `None` ⇒ `dynamic` is `True`" (which the constructor and the `valid_type` setter
establish, and only an explicit later `dynamic = False` breaks). -/
theorem C15_full_nested_props_unchanged (pr : Props) (hl : pr.length = nProps)
    (hconv : pr.getD vtIdx 0 ≠ noneAtom → pr.getD dynIdx 0 = trueAtom) : (overload pr [] pr).1 = pr := by
  rw [overload_props pr pr [] hl hl]
  match pr, hl with
  | [s0, s1, s2, s3, s4, s5, s6], _ =>
    simp [expectedProps, effProp, optGet, nProps, List.range, List.range.loop, vtIdx, dynIdx, noneAtom, trueAtom] at hconv ⊢
    intro h; exact (hconv h).symm

/-- **which namespace is the target**: the namespace `create_port_namespace` hands to `absorb` is the namespace that was
at the requested path (re-used as it is, nothing allocated), or — if the path did not exist — a new, empty namespace with
default properties and a fresh identity. -/
theorem C15_full_target_existing_or_new (dst : Ns) (path : List Name) (c : Nat) (tgt0 : Ns) (c0 : Nat)
    (ht : targetOf path dst c = some (tgt0, c0)) :
    (nsAt path dst = some tgt0 ∧ c0 = c) ∨
    (nsAt path dst = none ∧ tgt0.props = defaultProps ∧ tgt0.ports = [] ∧ c ≤ tgt0.id ∧ tgt0.id < c0) :=
  targetOf_spec path dst c tgt0 c0 ht

/-- **properties**: with the seven mutable properties of `PortNamespace`, the overload loop of `absorb` gives every property
the override from the namespace options if there is one and the source namespace's value otherwise — except that `dynamic`
ends up `True` whenever the `valid_type` that is set is not `None` (the `valid_type` setter runs later in the enumeration and
forces it; an override `dynamic=False` is then lost, and so is a source namespace's own `dynamic=False`). -/
theorem C15_full_overloaded_props (src self : Props) (opts : Opts) (hs : src.length = nProps) (hd : self.length = nProps) :
    (overload src opts self).1 = expectedProps src opts :=
  overload_props src self opts hs hd

/-- **frame**: a port of the destination at a path `q` that leaves the path to the target namespace at some component, or
that lies inside the target namespace below a name that is not absorbed, is after the call the same object with the same
contents (identity, properties / attributes, everything below it) — whether the call returns or raises. -/
theorem C15_full_frame (src dst : Ns) (nsp : Option (List Name)) (ex inc : Option (List Rule)) (opts : Option Opts)
    (c : Nat) (q : List Name) (h : untouched (absorbedNames ex inc src.ports) (nsPath nsp) q = true) :
    getAt q (exposePorts src nsp ex inc opts dst c).1.ports = getAt q dst.ports := by
  unfold exposePorts
  split
  · rfl
  · exact exposeAt_frame (absorbTop_kframe src ex inc _) _ q dst c h

/-- **frame, the destination itself**: it keeps its identity, every key of its dict keeps its position (new keys go to the
end), and unless it is itself the target it keeps its properties. -/
theorem C15_full_destination_kept (src dst : Ns) (nsp : Option (List Name)) (ex inc : Option (List Rule))
    (opts : Option Opts) (c : Nat) :
    (exposePorts src nsp ex inc opts dst c).1.id = dst.id ∧
    (∃ extra, keys (exposePorts src nsp ex inc opts dst c).1.ports = keys dst.ports ++ extra) ∧
    (nsPath nsp ≠ [] → (exposePorts src nsp ex inc opts dst c).1.props = dst.props) := by
  unfold exposePorts
  split
  · exact ⟨rfl, ⟨[], by simp⟩, fun _ => rfl⟩
  · exact exposeAt_root (absorbTop_root src ex inc _) _ dst c

/-- all identities of a namespace are below the allocation counter -/
def Full.Below (c : Nat) (n : Ns) : Prop := ∀ i ∈ n.ids, i < c

/-- **independence, one call**: every object of the destination afterwards was in the destination before or has been
allocated by this call (whether it returns or raises).  Hence, if all identities of the source and of the destination are
below the counter and the two share no object, then afterwards they still share no object (nothing reachable from the
destination is reachable from the source: a later change to an object of one side cannot show through to the other), and
all identities are below the new counter. -/
theorem C15_full_independent (src dst : Ns) (nsp : Option (List Name)) (ex inc : Option (List Rule))
    (opts : Option Opts) (c : Nat) (hd : Below c dst) (hs : Below c src) (hsep : ∀ i ∈ dst.ids, i ∉ src.ids) :
    c ≤ (exposePorts src nsp ex inc opts dst c).2.1 ∧
    (∀ i ∈ (exposePorts src nsp ex inc opts dst c).1.ids,
        i ∈ dst.ids ∨ (c ≤ i ∧ i < (exposePorts src nsp ex inc opts dst c).2.1)) ∧
    (∀ i ∈ (exposePorts src nsp ex inc opts dst c).1.ids, i ∉ src.ids) ∧
    Below (exposePorts src nsp ex inc opts dst c).2.1 (exposePorts src nsp ex inc opts dst c).1 ∧
    Below (exposePorts src nsp ex inc opts dst c).2.1 src := by
  have h := exposePorts_ids_all src nsp ex inc opts dst c
  have hall := h.2
  refine ⟨h.1, hall, ?_, ?_, ?_⟩
  · intro i hi hsrc
    rcases hall i hi with h' | h'
    · exact hsep i h' hsrc
    · have := hs i hsrc; omega
  · intro i hi
    rcases hall i hi with h' | h'
    · have := hd i h'; have := h.1; omega
    · exact h'.2
  · intro i hi; have := hs i hi; have := h.1; omega

/-- **independence is an invariant over sequences of expose calls**: start with a destination and sources whose identities
are below the counter and such that no source shares an object with the destination; after any sequence of expose calls
from these sources (returning or raising, into any namespaces), the same holds again. -/
theorem C15_full_seq_invariant (calls : List Call) (dst : Ns) (c : Nat) (hd : Below c dst)
    (hs : ∀ k ∈ calls, Below c k.src ∧ ∀ i ∈ dst.ids, i ∉ k.src.ids) :
    c ≤ (exposeSeq calls dst c).2 ∧ Below (exposeSeq calls dst c).2 (exposeSeq calls dst c).1 ∧
    ∀ k ∈ calls, Below (exposeSeq calls dst c).2 k.src ∧ ∀ i ∈ (exposeSeq calls dst c).1.ids, i ∉ k.src.ids := by
  have h := exposeSeq_ids_all calls dst c
  refine ⟨h.1, ?_, ?_⟩
  · intro i hi
    rcases h.2 i hi with h' | h'
    · have := hd i h'; have := h.1; omega
    · exact h'.2
  · intro k hk
    refine ⟨fun i hi => by have := (hs k hk).1 i hi; have := h.1; omega, ?_⟩
    intro i hi hsrc
    rcases h.2 i hi with h' | h'
    · exact (hs k hk).2 i h' hsrc
    · have := (hs k hk).1 i hsrc; omega

/-! ### rejection — and what a rejected call has already done to the destination -/

/-- **no option left over** means: every key of the namespace options is one of the properties. -/
theorem C15_full_options_accepted_iff (src self : Props) (opts : Opts) :
    (overload src opts self).2 = [] ↔ ∀ kv ∈ opts, kv.1 < src.length :=
  overload_left_nil src self opts

/-- **include together with a non-empty exclude** is rejected by the guard of `_expose_ports`, before anything is touched:
the destination is unchanged and nothing is allocated. -/
theorem C15_full_guard_rejects_unchanged (src dst : Ns) (nsp : Option (List Name)) (ex inc : Option (List Rule))
    (opts : Option Opts) (c : Nat) (he : truthy ex = true) (hi : inc.isSome = true) :
    exposePorts src nsp ex inc opts dst c = (dst, c, .error .exclusive) := by
  simp [exposePorts, he, hi]

/-- **include together with exclude is always rejected** (also with an EMPTY exclude, which passes the guard of
`_expose_ports` and is caught only by `absorb`, i.e. after `create_port_namespace` has run). -/
theorem C15_full_include_exclude_rejected (src dst : Ns) (nsp : Option (List Name)) (ex inc : Option (List Rule))
    (opts : Option Opts) (c : Nat) (he : ex.isSome = true) (hi : inc.isSome = true) :
    ∃ e, (exposePorts src nsp ex inc opts dst c).2.2 = .error e := by
  unfold exposePorts
  split
  · exact ⟨_, rfl⟩
  · cases ht : targetOf (nsPath nsp) dst c with
    | none =>
      rcases exposeAt_no_target (k := absorbTop src ex inc (opts.getD [])) _ _ _ ht with h | h
      · exact ⟨_, h⟩
      · exact ⟨_, h⟩
    | some tc =>
      have := (exposeAt_target (k := absorbTop src ex inc (opts.getD [])) _ _ _ tc.1 tc.2 ht).1
      rw [this, absorbTop_exclusive (by simp [he, hi])]
      exact ⟨_, rfl⟩

/-- **an unknown option is rejected — after the target's properties have been overloaded**: if some option is left over,
the call raises, and the namespace at the requested path afterwards is the target (created if it was missing) with its
properties ALREADY replaced by the source's / the valid overrides; its ports are as before. -/
theorem C15_full_unknown_option_rejected (src dst : Ns) (nsp : Option (List Name)) (ex inc : Option (List Rule))
    (opts : Option Opts) (c : Nat) (tgt0 : Ns) (c0 : Nat)
    (hguard : (truthy ex && inc.isSome) = false) (hrules : (ex.isSome && inc.isSome) = false)
    (ht : targetOf (nsPath nsp) dst c = some (tgt0, c0))
    (hopts : (overload src.props (opts.getD []) tgt0.props).2 ≠ []) :
    (exposePorts src nsp ex inc opts dst c).2.2 = .error .unknownOption ∧
    nsAt (nsPath nsp) (exposePorts src nsp ex inc opts dst c).1
      = some { tgt0 with props := (overload src.props (opts.getD []) tgt0.props).1 } := by
  have htgt := exposeAt_target (k := absorbTop src ex inc (opts.getD [])) _ _ _ _ _ ht
  constructor
  · simp only [exposePorts, hguard, Bool.false_eq_true, if_false, htgt.1, absorbTop_unknown hrules hopts]
  · simp only [exposePorts, hguard, Bool.false_eq_true, if_false, htgt.2, absorbTop_unknown hrules hopts]

/-- **a rejected call adds and removes no port**: whatever the reason of the rejection, the leaf ports of the destination
(all paths, in order) are the same as before.  What a rejected call MAY leave behind — the real code does — is new empty
namespaces on the path to the target and, for an unknown option, overloaded properties of the target (the `example`s below);
the frame `C15_full_frame`, `C15_full_destination_kept` and the independence theorems hold for rejected calls as well. -/
theorem C15_full_rejected_adds_no_port (src dst : Ns) (nsp : Option (List Name)) (ex inc : Option (List Rule))
    (opts : Option Opts) (c : Nat) (e : Err) (h : (exposePorts src nsp ex inc opts dst c).2.2 = .error e) :
    leafPathsF (exposePorts src nsp ex inc opts dst c).1.ports = leafPathsF dst.ports := by
  unfold exposePorts at h ⊢
  split
  · rfl
  · rename_i hg
    simp only [hg, if_false] at h
    refine exposeAt_error_leafPaths ?_ _ _ _ e h
    intro self c' e' he
    rw [absorbTop_error_ports _ _ _ _ _ _ e' he]

/-! ### non-vacuity: concrete trees -/

/-- source: namespace 20 (help=9) with leaf `a`, nested namespace `ab` (valid_type=8, so `dynamic` is forced) holding `x`, `y`,
and leaf `abc` -/
def exSrc : Ns := ⟨20, [3, 2, 9, 1, 1, 0, 0],
  [("a", .leaf 21 7), ("ab", .ns 22 [3, 2, 0, 1, 1, 8, 0] [("x", .leaf 23 7), ("y", .leaf 24 6)]), ("abc", .leaf 25 5)]⟩
/-- destination: leaf `pre1`, namespace `tgt` that already holds `abc` (will be overwritten in place) and `own` (stays) -/
def exDst : Ns := ⟨0, defaultProps,
  [("pre1", .leaf 1 5), ("tgt", .ns 2 [3, 2, 4, 1, 1, 0, 0] [("abc", .leaf 3 6), ("own", .leaf 4 5)])]⟩

-- the hypotheses of `C15_full_placement_selection` hold for: expose into the EXISTING namespace `tgt`, exclude `ab.y`,
-- override `required` (index 4) with atom 2
example : DK exSrc.ports ∧ WF (some [["ab", "y"]]) ∧ NoAnc (none : Option (List Rule)) ∧
    targetOf (nsPath (some ["tgt"])) exDst 30 = some (⟨2, [3, 2, 4, 1, 1, 0, 0], [("abc", .leaf 3 6), ("own", .leaf 4 5)]⟩, 30) ∧
    (overload exSrc.props [(4, 2)] [3, 2, 4, 1, 1, 0, 0]).2 = [] := by
  refine ⟨by simp [DK, exSrc, keys], ?_, ?_, rfl, rfl⟩
  · intro r hr; simp [rulesOf] at hr; subst hr; simp
  · intro r hr; simp [rulesOf] at hr
-- … and this is what the call does: `abc` overwritten in place by a fresh copy, `own` stays, `a` and `ab` (without `y`)
-- appended; the target keeps its identity 2 and takes the source's properties with `required` overridden
example : (exposePorts exSrc (some ["tgt"]) (some [["ab", "y"]]) none (some [(4, 2)]) exDst 30).1 =
    ⟨0, defaultProps, [("pre1", .leaf 1 5), ("tgt", .ns 2 [3, 2, 9, 1, 2, 0, 0]
      [("abc", .leaf 33 5), ("own", .leaf 4 5), ("a", .leaf 30 7), ("ab", .ns 31 [3, 1, 0, 1, 1, 8, 0] [("x", .leaf 32 7)])])]⟩ := by
  simp [exposePorts, nsPath, exposeAt, absorbTop, overload, overloadFrom, setProp, optGet, optDel, absorbLoop, setPort, lookup,
    truthy, mentions, touches, strip, exSrc, exDst, Ns.toObj, defaultProps, vtIdx, dynIdx, noneAtom, trueAtom]
example : untouched (absorbedNames (some [["ab", "y"]]) none exSrc.ports) ["tgt"] ["tgt", "own"] = true ∧
    untouched (absorbedNames (some [["ab", "y"]]) none exSrc.ports) ["tgt"] ["pre1"] = true ∧
    untouched (absorbedNames (some [["ab", "y"]]) none exSrc.ports) ["tgt"] ["tgt", "abc"] = false := by
  simp [untouched, absorbedNames, toPT, absorbPorts, exSrc, truthy, mentions, touches, strip]
example : Below 30 exDst ∧ Below 30 exSrc ∧ ∀ i ∈ exDst.ids, i ∉ exSrc.ids := by
  simp [Below, Ns.ids, ids, exDst, exSrc]

-- the real code changes the destination before it raises, and so does the model:
-- (1) `exclude=[]` with an include passes the guard of `_expose_ports`; `create_port_namespace('new.sub')` runs; `absorb` raises
example : (exposePorts exSrc (some ["new", "sub"]) (some []) (some [["a"]]) none exDst 30).2.2 = .error .exclusive ∧
    (exposePorts exSrc (some ["new", "sub"]) (some []) (some [["a"]]) none exDst 30).1.ports =
      exDst.ports ++ [("new", .ns 30 defaultProps [("sub", .ns 31 defaultProps [])])] := ⟨rfl, rfl⟩
-- (2) an unknown option (index 100): raised after the properties of the (existing) target have been overloaded
example : (exposePorts exSrc (some ["tgt"]) none none (some [(100, 1), (2, 6)]) exDst 30).2.2 = .error .unknownOption ∧
    nsAt ["tgt"] (exposePorts exSrc (some ["tgt"]) none none (some [(100, 1), (2, 6)]) exDst 30).1 =
      some ⟨2, [3, 2, 6, 1, 1, 0, 0], [("abc", .leaf 3 6), ("own", .leaf 4 5)]⟩ := ⟨rfl, rfl⟩
-- (3) `'new.'`: the recursive `create_port_namespace('')` raises after `new` has been created
example : (exposePorts exSrc (some ["new", ""]) none none none exDst 30).2.2 = .error .emptyName ∧
    keys (exposePorts exSrc (some ["new", ""]) none none none exDst 30).1.ports = ["pre1", "tgt", "new"] := ⟨rfl, rfl⟩
-- (4) the override `dynamic=False` (index 1, atom 2) is lost when the source's `valid_type` is not `None`
example : expectedProps [3, 2, 0, 1, 1, 8, 0] [(1, 2)] = [3, 1, 0, 1, 1, 8, 0] := by decide

end Expose
