import PlumpyModel.Expose.Proof
/-!
# C15 — exposing ports copies exactly the selected ports

Model: `Expose.absorbPorts` (lean/PlumpyModel/Expose/Model.lean) mirrors the loop of `PortNamespace.absorb`
(`exclude` test, the namespace test on the include rules, `strip_namespace`, recursion into a fresh copy of the nested
namespace) with value semantics.  Specification: `Expose.selected` — a source leaf is exposed iff no exclude rule is a
component-wise prefix of its path and, when include rules are given, some include rule is.

What is NOT a theorem here and is decided by the Python monitors on the real objects: the copies are fresh objects
(independence in both directions), namespace properties and option overrides, the destination's other ports stay.
-/
namespace Expose

/-- **selection**: for every source port tree (any nesting, any names — including names that are string prefixes of
one another) and every rule sets (exclude arbitrary; include without a rule that is an ancestor of another), the leaf
ports copied by `absorb` are exactly the source leaves selected by the rules, in source order. -/
theorem C15_selection_exact (ports : List (Name × PT)) (ex inc : Option (List Rule))
    (hex : WF ex) (hinc : WF inc) (hna : NoAnc inc) :
    leafPaths (absorbPorts ex inc ports) = (leafPaths ports).filter (selected ex inc) :=
  selection_exact ports ex inc hex hinc hna

/-- a namespaced include rule selects that path only, never a sibling whose name merely shares a string prefix -/
theorem C15_sibling_with_shared_prefix_not_selected (q : List Name) :
    selected none (some [["ab", "x"]]) ("a" :: q) = false ∧ selected none (some [["abc"]]) ("ab" :: q) = false ∧
    selected none (some [["ab", "x"]]) ["ab", "x"] = true := by
  refine ⟨?_, ?_, by decide⟩ <;> simp [selected, anyPrefix, isPrefix, truthy]

/-- the guard of `ProcessSpec._expose_ports` followed by the guard of `absorb`: what is rejected -/
def exposeRejected (ex inc : Option (List Rule)) : Bool :=
  (truthy ex && inc.isSome) || (ex.isSome && inc.isSome)

/-- include together with exclude is rejected, and nothing else is (as far as the rules are concerned) -/
theorem C15_include_exclude_rejected (ex inc : Option (List Rule)) :
    exposeRejected ex inc = true ↔ (ex ≠ none ∧ inc ≠ none) := by
  cases ex <;> cases inc <;> simp [exposeRejected, truthy]

-- non-vacuity: the witness of the repaired defect (F13): with `include=['ab.x']` the namespace `a` is not exposed
example : leafPaths (absorbPorts none (some [["ab", "x"]])
    [("a", .ns 0 [("x", .leaf 0)]), ("ab", .ns 0 [("x", .leaf 0), ("y", .leaf 0)]), ("abc", .leaf 0)]) = [["ab", "x"]] := by
  simp [absorbPorts, leafPaths, truthy, mentions, touches, strip]
example : WF (some [["ab", "x"]]) ∧ NoAnc (some [["ab", "x"]]) := by
  constructor
  · intro r hr; simp [rulesOf] at hr; subst hr; simp
  · intro r hr s hs; simp [rulesOf] at hr hs; subst hr; subst hs; simp

end Expose
