import PlumpyModel.Fault.Model
import PlumpyModel.Fault.Proof0
import PlumpyModel.Fault.Proof6
import PlumpyModel.Fault.Proof7
import PlumpyModel.Fault.Proof12
import PlumpyModel.Fault.Proof15
import PlumpyModel.Fault.Proof19
/-!
# C03 — a failure in user code ends the process EXCEPTED, never half-transitioned

Model: `Fault.transitionTo` (lean/PlumpyModel/Fault/Model.lean): one transition of the state machine in which every
lifecycle hook is a user override `[raise]; super(); [raise]`, with at most one injected fault.  The configuration
before the transition is that of a live process as C02's invariant describes it (`liveCfg`: future pending, not closed,
callbacks installed, no cleanup run, nothing notified).  All statements are over the complete (finite) space of
from-labels × targets × fault points × before/after variants, decided by the kernel.

The second half of the file is about WHOLE RUNS: the process-control model with listeners (`PM/Listener.lean`) with the same user
overrides put into every lifecycle hook (`Fault/Process.lean`, namespace `PMF.FP`: program, schedule of requests, requests that
listeners issue from inside transitions, one injected fault), plus the faults that are not lifecycle hooks: a raising step function
or `out()` call and a failing `call_soon` callback (statements about `PMF.L` itself), listeners and cleanups (the loops that swallow
their exceptions), construction.  Every case the harness runs is decided by these models (`pmodel faultrun` / `pmodel fault`).
-/
namespace Fault
open PMF

/-- the outcome the property demands: no exception escapes, the process is EXCEPTED with exactly the injected fault,
its future raises it, it is closed, callbacks are cleared and the cleanups ran exactly once -/
def good (r : Res) : Bool :=
  r.2.isNone && r.1.label == .excepted && r.1.excIsFault && r.1.fut == .exc true && r.1.closed && !r.1.hooks &&
  r.1.cleanups == 1 && r.1.term.getLast? == some .excepted

def liveLabel (l : Label) : Bool := l == .created || l == .running || l == .waiting

/-- the two fault points that lie after the process has been closed (finding F18) -/
def afterClose (p : FaultPt) : Bool := p.after && (p.phase == .terminated || p.phase == .close)

/-- **a fault in any state entry / exit / termination hook**, before or after the base implementation ran, at any
transition of a live process to any allowed target, ends the process EXCEPTED with exactly that exception — except at the
two points after `close()` (next theorem). -/
theorem C03_hook_fault_excepted (l : Label) (t : Target) (p : FaultPt)
    (hl : liveLabel l = true) (hal : t.label ∈ allowed l) (hne : t.label ≠ .excepted)
    (hr : reached l t p = true) (hs : afterClose p = false) :
    good (transitionTo (some p) (liveCfg l) t) = true := by
  obtain ⟨tl, tf⟩ := t
  obtain ⟨ph, af⟩ := p
  cases l <;> cases tl <;> cases ph <;> cases af <;> cases tf <;> first | rfl | (exfalso; revert hl hal hne hr hs; decide)

/-- **a failing step function, continuation or call_soon callback** (the exception reaches `fail()` / the end of the
step, which transitions to EXCEPTED with it): same outcome, from every live state -/
theorem C03_user_exception_excepted (l : Label) (hl : liveLabel l = true) :
    good (transitionTo none (liveCfg l) { label := .excepted, isFault := true }) = true := by
  cases l <;> first | rfl | (exfalso; revert hl; decide)

/-- without a fault a transition to an allowed target just happens (sanity of the model) -/
theorem C03_no_fault_no_exception (l : Label) (t : Target) (hl : liveLabel l = true) (hal : t.label ∈ allowed l) :
    (transitionTo none (liveCfg l) t).2 = none ∧ (transitionTo none (liveCfg l) t).1.label = t.label := by
  obtain ⟨tl, tf⟩ := t
  cases l <;> cases tl <;> cases tf <;> first | exact ⟨rfl, rfl⟩ | (exfalso; revert hl hal; decide)

/-- **finding F18 (witness)**: an `on_terminated` (or `on_close`) override raising AFTER `super()` — i.e. after the
process was closed and its callbacks cleared — leaves the process EXCEPTED while its future still reports the
outcome of the state it had entered.  This is the negation of `good` at exactly those two points. -/
theorem C03_witness_fault_after_close :
    good (transitionTo (some ⟨.terminated, true⟩) (liveCfg .running) { label := .finished }) = false ∧
    (transitionTo (some ⟨.terminated, true⟩) (liveCfg .running) { label := .finished }).1.label = .excepted ∧
    (transitionTo (some ⟨.terminated, true⟩) (liveCfg .running) { label := .finished }).1.fut = .result ∧
    good (transitionTo (some ⟨.close, true⟩) (liveCfg .running) { label := .killed }) = false := by decide

/-- **pause / play hooks**: a fault is handed to the requester, the process keeps its state, stays open, and no
pause request is left pending (so it remains controllable: C04 / C05 apply to the configuration) -/
theorem C03_pause_hook_fault_reported (c : PP) (h : PHook) (af : Bool) (hh : h ≠ .playing) :
    (doPause (some (h, af)) c).2 = some true ∧ (doPause (some (h, af)) c).1.base = c.base ∧
    (doPause (some (h, af)) c).1.pausing = false := by
  cases h <;> cases af <;> first | exact absurd rfl hh | simp [doPause]

theorem C03_play_hook_fault_reported (c : PP) (af : Bool) :
    (doPlay (some (.playing, af)) c).2 = some true ∧ (doPlay (some (.playing, af)) c).1.base = c.base := by
  cases af <;> simp [doPlay]

-- non-vacuity: the hypotheses of the main theorem are satisfiable, e.g. `on_finish` raising after `super()`
example : liveLabel .running = true ∧ Label.finished ∈ allowed .running ∧
    reached .running { label := .finished } ⟨.entering, true⟩ = true ∧ afterClose ⟨.entering, true⟩ = false := by decide

/-! ### user code called in loops that swallow exceptions; construction; `out()` -/

/-- **listeners and cleanups** (`EventHelper.fire_event`, the cleanup loop of `on_close`): whichever callbacks raise, EVERY callback
runs exactly once and in order, the state they leave is the one they leave when none of them raises, nothing propagates (the function
returns a state, not an exception), and exactly the raising ones are logged. -/
theorem C03_swallowed_exceptions_change_nothing {σ : Type} (cbs : List (Callback σ)) (s : σ) :
    (callAll cbs s).1 = (callAll (quiet cbs) s).1 ∧ (callAll cbs s).2.1 = cbs.length ∧
    (callAll cbs s).2.2 = (cbs.filter (·.raises)).length ∧ (callAll cbs s).1 = cbs.foldl (fun t cb => cb.eff t) s := by
  unfold callAll quiet
  rw [callAll_fold, callAll_fold]
  refine ⟨?_, by simp, by simp, rfl⟩
  show _ = List.foldl (fun t cb => cb.eff t) s (List.map (fun cb => { cb with raises := false }) cbs)
  rw [List.foldl_map]

-- three cleanups, the first one raising: all three ran, one exception was logged
example : callAll [⟨(· + 1), true⟩, ⟨(· + 10), false⟩, ⟨(· + 100), false⟩] (0 : Nat) = (111, 3, 1) := by decide

/-- **construction**: a fault in `on_create`, before or after `super().on_create()`, propagates to the caller of the constructor and
no process object is returned; without a fault the constructor returns a CREATED process. -/
theorem C03_construction_fault_propagates (af : Bool) :
    construct (some af) = (none, some true) ∧ (construct none).2 = none ∧ ((construct none).1.map (·.label)) = some .created := by
  cases af <;> decide

/-- **output hooks**: an `out()` call whose `on_output_emitting` / `on_output_emitted` override raises (before or after `super()`)
raises that exception into the step function that made the call — so the step function raises, which is
`PMF.L.C03_raising_step_excepted` below —; the value is stored iff `on_output_emitting` had returned, the listeners were told iff the
base `on_output_emitted` ran. -/
theorem C03_output_hook_fault (h : OHook) (af : Bool) :
    (outCall (some (h, af))).2 = some true ∧
    ((outCall (some (h, af))).1.stored = (h == .emitted)) ∧
    ((outCall (some (h, af))).1.notified = (h == .emitted && af)) ∧
    outCall none = ({ stored := true, notified := true }, none) := by
  cases h <;> cases af <;> decide

end Fault

/-! ## Whole runs: faults that are not lifecycle hooks (statements about the model with listeners itself) -/
namespace PMF
namespace L

/-- **a step function (or an `out()` call in it) that raises ends the process EXCEPTED with exactly that exception**: for every
program, plan of listener requests and history, if in the configuration reached the process is live and the stepping task is inside
a step function whose next move is to raise `e`, then the wake-up of the stepping task leaves the process EXCEPTED with `e`, its
future raising `e`, closed, the cleanups run once, listeners told once — whatever pause or kill request was pending (it is dropped)
— and `step_until_terminated()` has returned normally. -/
theorem C03_raising_step_excepted (P : Prog) (nf : Nat) (plan : Plan) (evs : List Ev) (e : Exc)
    (hl : terminal (runL P (initL nf plan) evs).c.st.label = false)
    (hpc : (runL P (initL nf plan) evs).c.pc = .inUser ⟨0, .raise e⟩) :
    let l' := (stepL P (runL P (initL nf plan) evs) .tick).1
    l'.c.st = .excepted e ∧ l'.c.fut = .exc e ∧ l'.c.closed = true ∧ l'.c.cleanups = 1 ∧ termCount l'.c.notif = 1 ∧
    l'.c.pc = .done := by
  intro l'
  have hi : Inv2 (runL P (initL nf plan) evs).c := runL_inv2 P _ evs (inv2_init nf)
  obtain ⟨h1, h2, h3⟩ := tick_raise (fireN_g3 _) (fireN_qq _) P _ e hi hl hpc
  obtain ⟨o1, o2, o3, o4⟩ := excepted_outcome h2 h1
  exact ⟨h1, o1, o2, o3, o4, h3⟩

/-- **… a step function that raises without awaiting anything** (configuration level: any configuration in which C02's invariant
holds — every reachable one, `C02_listener_outcome_agrees` —, the state RUNNING a function whose body raises at once): `Process.step`
ends the same way within the callback that activated the function. -/
theorem C03_raising_sync_step_excepted (P : Prog) (n m : Nat) (l : LCfg) (e : Exc) (fn : Nat) (args : List Val)
    (kw : List (Nat × Val)) (hi : Inv2 l.c) (hst : l.c.st = .running fn args kw) (hb : P fn args kw l.c.ctx = ⟨0, .raise e⟩)
    (hnc : ∀ e', l.c.pc ≠ .crashed e') :
    let l' := stepBodyL (fireN m) P (n + 1) l
    l'.c.st = .excepted e ∧ l'.c.fut = .exc e ∧ l'.c.closed = true ∧ l'.c.cleanups = 1 ∧ l'.c.pc = .done := by
  intro l'
  obtain ⟨h1, h2, h3⟩ := stepBodyL_raise (fireN_g3 m) (fireN_qq m) P n l e fn args kw hi hst hb hnc
  obtain ⟨o1, o2, o3, _⟩ := excepted_outcome h2 h1
  exact ⟨h1, o1, o2, o3, h3⟩

/-- **a failing `call_soon` callback fails a live process** (`callback_excepted` → `fail()`): for every program, plan and history, if
the process is live when the raising callback runs, it ends EXCEPTED with the callback's exception, future raising it, closed. -/
theorem C03_failing_callback_excepted (P : Prog) (nf : Nat) (plan : Plan) (evs : List Ev)
    (hl : terminal (runL P (initL nf plan) evs).c.st.label = false)
    (hr : (runL P (initL nf plan) evs).c.ready.contains (.usercb true) = true) :
    let l' := (stepL P (runL P (initL nf plan) evs) (.tickCb (.usercb true))).1
    l'.c.st = .excepted (.user 8) ∧ l'.c.fut = .exc (.user 8) ∧ l'.c.closed = true ∧ l'.c.cleanups = 1 := by
  intro l'
  have hi : Inv2 (runL P (initL nf plan) evs).c := runL_inv2 P _ evs (inv2_init nf)
  obtain ⟨h1, h2⟩ := callback_raise (fireN_g3 _) _ hi hl hr
  obtain ⟨o1, o2, o3, _⟩ := excepted_outcome h2 h1
  exact ⟨h1, o1, o2, o3⟩

/-- **… and changes nothing on a terminated one**: state, future, closedness are those before the callback ran. -/
theorem C03_late_failing_callback_changes_nothing (P : Prog) (l : LCfg) (ht : terminal l.c.st.label = true) :
    let l' := (stepL P l (.tickCb (.usercb true))).1
    l'.c.st = l.c.st ∧ l'.c.fut = l.c.fut ∧ l'.c.closed = l.c.closed ∧ l'.c.cleanups = l.c.cleanups ∧ l'.c.notif = l.c.notif := by
  intro l'
  have : l' = (if l.c.ready.contains (.usercb true) then l.upd fun c => { c with ready := c.ready.erase (.usercb true) } else l) :=
    callback_raise_terminated l ht
  rw [this]
  split <;> exact ⟨rfl, rfl, rfl, rfl, rfl⟩

end L
end PMF

/-! ## Whole runs with a fault in a lifecycle hook (`Fault/Process.lean`)

`runX P (initX nf plan (some a)) evs`: program `P`, `nf` awaited futures, the plan of requests that listeners issue from inside
notifications, the fault `a` (hook, number of calls that pass first, before / after `super()`), history `evs` of event-loop
callbacks and requests.  `fired` says that the fault has fired. -/
namespace PMF
namespace FP
open L

/-- the outcome the property demands of a run whose fault is `faultExc` -/
def GoodRun (x : FCfg) : Prop :=
  x.l.c.st = .excepted faultExc ∧ x.l.c.fut = .exc faultExc ∧ x.l.c.closed = true ∧ x.l.c.cleanups = 1 ∧ x.l.trans = none

/-- the run ended in an error of the state machine itself (a "cannot transition" / "future already resolved" / failed assertion
of `call_with_super_check`), not in the fault -/
def InternalError (x : FCfg) : Prop := ∃ e, Internal e ∧ x.l.c.st = .excepted e

/-- **a fault in a lifecycle hook of a transition ends the process EXCEPTED with exactly that exception**: for every program,
every plan of listener requests, every history of events (wake-ups of the stepping task and of callbacks in any order, pause, play,
kill, resume, fail, …) and every fault point — any of `on_exit_running/waiting`, `on_run/wait/finish/kill`,
`on_running/waiting/finished/killed`, `on_terminated`, `on_close`, any occurrence, raising before or after `super()` — EXCEPT the two
points after `close()` (`afterClose`, finding F18): once the fault has fired, in every later configuration the process is EXCEPTED
with the fault, its future raises the fault, it is closed, the cleanups ran exactly once and no transition is left in progress.
(Hypothesis `hni`, needed for `on_terminated` / `on_close` only: the run did not end in an error of the state machine itself — a
"cannot transition" or a failed assertion whose own failing transition is then hit by the fault, a second failure, which
`transition_to` re-raises.  For the other ten hooks there is no hypothesis beyond the fault having fired.  The hypothesis is always
true: `C03_fault_never_meets_state_machine_error`; the statement without it is `C03_hook_fault_ends_excepted_unconditional`.) -/
theorem C03_hook_fault_ends_excepted (P : Prog) (nf : Nat) (plan : Plan) (a : Arm) (evs : List Ev)
    (hm : mainHK a.hk = true) (hac : afterClose a = false)
    (hf : (runX P (initX nf plan (some a)) evs).fired = true)
    (hni : (a.hk = .onTerminated ∨ a.hk = .onClose) → ¬ InternalError (runX P (initX nf plan (some a)) evs)) :
    GoodRun (runX P (initX nf plan (some a)) evs) := by
  rw [runX_armed] at hf hni ⊢
  have hk := runF_K hac P _ evs (initX_K a nf plan)
  rcases hk.g with ⟨hh, _, e, he, hs⟩ | ⟨hi, hex⟩
  · exact absurd ⟨e, he, hs⟩ (hni hh)
  · have hst := hex hm hf
    have ht : terminal (runF P (initX nf plan (some a)) evs).l.c.st.label = true := by rw [hst]; exact excepted_terminal _
    obtain ⟨h1, h2, h3⟩ := hi.term ht
    rw [hst] at h3
    exact ⟨hst, by simpa [outcomeOf] using h3.symm, h1, h2, hk.tr⟩

/-- **no fault at any point ever breaks the agreement of the outcome reports** (the lifecycle part of C02's invariant): for every
program, plan, history and EVERY fault point other than the two after `close()` — the pause / play hooks included —, in every
configuration of the run: a live process has an unresolved future, is not closed and has run no cleanup; a terminated one is closed,
ran its cleanups once and its future holds the outcome of its state object.  A pause / play hook fault in particular never
terminates or half-terminates anything. -/
theorem C03_fault_never_breaks_agreement (P : Prog) (nf : Nat) (plan : Plan) (a : Arm) (evs : List Ev)
    (hac : afterClose a = false)
    (hni : (a.hk = .onTerminated ∨ a.hk = .onClose) → ¬ InternalError (runX P (initX nf plan (some a)) evs)) :
    Inv2w (runX P (initX nf plan (some a)) evs).l.c ∧ (runX P (initX nf plan (some a)) evs).l.trans = none := by
  rw [runX_armed] at hni ⊢
  have hk := runF_K hac P _ evs (initX_K a nf plan)
  rcases hk.g with ⟨hh, _, e, he, hs⟩ | ⟨hi, _⟩
  · exact absurd ⟨e, he, hs⟩ (hni hh)
  · exact ⟨hi, hk.tr⟩

/-- **pause / play hook faults, whole runs**: for every program, plan and history and every fault in `on_pausing`, `on_paused`,
`on_playing` (any occurrence, before or after `super()`), unconditionally: the agreement above holds in every configuration of the
run — the fault is handed to the requester (theorems below) and never terminates, closes or half-transitions anything. -/
theorem C03_pause_play_fault_never_disturbs (P : Prog) (nf : Nat) (plan : Plan) (a : Arm) (evs : List Ev)
    (hm : mainHK a.hk = false) :
    Inv2w (runX P (initX nf plan (some a)) evs).l.c ∧ (runX P (initX nf plan (some a)) evs).l.trans = none := by
  have hac : afterClose a = false := by
    unfold afterClose; cases h : a.hk <;> simp [h, mainHK] at hm ⊢
  rw [runX_armed]
  have hk := runF_K hac P _ evs (initX_K a nf plan)
  rcases hk.g with hb | ⟨hi, _⟩
  · have := hb.main; rw [hm] at this; cases this
  · exact ⟨hi, hk.tr⟩

/-- The clause "the stepping task returns normally" for hook faults in full: after a transition-hook fault has fired — ANY of the
twelve transition hooks, any occurrence, before or after `super()` except the two points after `close()` (F18) —, in a run that did
not end in an error of the state machine itself, finitely many wake-ups end `step_until_terminated()` normally.  Before the repairs
e94edb5 / a130f23 it was false (F28, F30).  Now it is PROVED: `C03_stepper_returns_after_hook_fault_proved` below.  (The ten hooks
other than `on_terminated` / `on_close` need no hypothesis on the final configuration: `C03_stepper_returns_after_hook_fault_partial`.
`on_terminated` / `on_close` raising before `super()` also run in the failing path of `transition_to`, where a second failure
propagates — alternative `Bad` of the invariant `K`; `Bad` is absorbing, `C03_terminated_with_fault_stays`, so the hypothesis on the
final configuration excludes it in every earlier one, and in every configuration that is not `Bad` the linking invariant holds,
`Fault/Proof13 … Proof15`.  `Bad` is in fact unreachable, `Fault/Proof16 … Proof19`: the statement without the hypothesis on the final
configuration is `C03_stepper_returns_after_hook_fault_unconditional`.) -/
def C03_stepper_returns_after_hook_fault : Prop :=
  ∀ (P : Prog) (nf : Nat) (plan : Plan) (a : Arm) (evs : List Ev), mainHK a.hk = true → afterClose a = false →
    (runX P (initX nf plan (some a)) evs).fired = true → ¬ InternalError (runX P (initX nf plan (some a)) evs) →
    ∃ n, (runF P (runX P (initX nf plan (some a)) evs) (List.replicate n .tick)).l.c.pc = .done

/-- **the stepping task returns normally after a hook fault** — for every program, plan, history and every fault in
`on_exit_running/waiting`, `on_run/wait/finish/kill`, `on_running/waiting/finished/killed` (any occurrence, before or after
`super()`): once the fault has fired, finitely many wake-ups of the stepping task end `step_until_terminated()` normally (its program
counter is `done`), wherever the task was suspended when the fault fired — inside a step function, on the wait of a WAITING state
(which the failed transition still completes, repair a130f23), on the pause future (released by `on_terminated`) — and whatever was
pending or requested.  (`_partial`: no hypothesis on the final configuration, but `on_terminated` / `on_close` are not covered; the
full statement, all twelve hooks, is `C03_stepper_returns_after_hook_fault_proved`.) -/
theorem C03_stepper_returns_after_hook_fault_partial (P : Prog) (nf : Nat) (plan : Plan) (a : Arm) (evs : List Ev)
    (hm : mainHK a.hk = true) (hnb : NoTC a)
    (hf : (runX P (initX nf plan (some a)) evs).fired = true) :
    ∃ n, (runF P (runX P (initX nf plan (some a)) evs) (List.replicate n .tick)).l.c.pc = .done := by
  have hac : afterClose a = false := by
    unfold afterClose
    cases h : a.after with
    | false => rfl
    | true =>
      have h1 : a.hk ≠ .onTerminated := fun h => hnb (Or.inl h)
      have h2 : a.hk ≠ .onClose := fun h => hnb (Or.inr h)
      simp [h1, h2]
  have hg := C03_hook_fault_ends_excepted P nf plan a evs hm hac hf (fun h => absurd h hnb)
  rw [runX_armed] at hg hf ⊢
  exact stepperF_returns_run hac hnb P nf plan evs (by rw [hg.1]; exact excepted_terminal _)

/-- **the exception never escapes into the stepping task, and the task is never left blocked**: for the same ten hooks, in EVERY
configuration of the run (fired or not): the stepping task has not crashed; if it is suspended on a waiting future, the current
state owns that future or the future is completed; if it is suspended on a pause future, that is the current one or a released one,
and on a terminated process it is released (the linking invariant `Inv10` of C02, for runs with a fault). -/
theorem C03_hook_fault_never_reaches_the_stepping_task (P : Prog) (nf : Nat) (plan : Plan) (a : Arm) (evs : List Ev)
    (hac : afterClose a = false) (hnb : NoTC a) :
    Inv10 (runX P (initX nf plan (some a)) evs).l.c := by
  rw [runX_armed]
  exact (runF_jf hac hnb P _ evs (initX_jf a nf plan)).old

/-- **terminal states are final and a fault that has fired has fired** (runs of the model with a fault, from ANY configuration):
once the process has terminated, every later configuration of the run has the same state object, and `fired` is never reset.  So
"the fault fired and the process is EXCEPTED with an error of the state machine itself" (`Bad`) is absorbing: if it holds in some
configuration of a run it holds in the final one. -/
theorem C03_terminated_with_fault_stays (P : Prog) (x : FCfg) (evs : List Ev) (ht : terminal x.l.c.st.label = true) :
    (runF P x evs).l.c.st = x.l.c.st ∧ (x.fired = true → (runF P x evs).fired = true) ∧
    (InternalError x → InternalError (runF P x evs)) := by
  obtain ⟨h1, h2⟩ := runF_terminal_final P x evs ht
  exact ⟨h1, h2, fun ⟨e, he, hs⟩ => ⟨e, he, by rw [h1]; exact hs⟩⟩

/-- **the stepping task returns normally after a hook fault — every transition hook** (`on_terminated` / `on_close` included; the
statement `C03_stepper_returns_after_hook_fault` in full): for every program, plan, history and every fault point except the two after
`close()`: once the fault has fired, if the run did not end in an error of the state machine itself, finitely many wake-ups of the
stepping task end `step_until_terminated()` normally — wherever the task was suspended when the fault fired (inside a step function,
on the wait of a WAITING state, on the pause future, which the `on_terminated` of the failing path releases when the first
`on_terminated` raised before doing so). -/
theorem C03_stepper_returns_after_hook_fault_proved : C03_stepper_returns_after_hook_fault := by
  intro P nf plan a evs hm hac hf hni
  have hg := C03_hook_fault_ends_excepted P nf plan a evs hm hac hf (fun _ => hni)
  rw [runX_armed] at hg hni ⊢
  exact stepperF_returns_run2 hac P nf plan evs (by rw [hg.1]; exact excepted_terminal _)
    (fun hb => hni (by obtain ⟨_, _, e, he, hs⟩ := hb; exact ⟨e, he, hs⟩))

/-- **the exception never escapes into the stepping task, and the task is never left blocked — every hook**: for every fault point
except the two after `close()` (the pause / play hooks included), in every configuration of a run that did not end in an error of
the state machine itself (hypothesis needed for `on_terminated` / `on_close` only): the linking invariant `Inv10` of C02 holds — the
stepping task has not crashed; suspended on a waiting future, the current state owns it or it is completed; suspended on a pause
future, that is the current one or a released one, and on a terminated process it is released. -/
theorem C03_hook_fault_never_reaches_the_stepping_task_any_hook (P : Prog) (nf : Nat) (plan : Plan) (a : Arm) (evs : List Ev)
    (hac : afterClose a = false)
    (hni : (a.hk = .onTerminated ∨ a.hk = .onClose) → ¬ InternalError (runX P (initX nf plan (some a)) evs)) :
    Inv10 (runX P (initX nf plan (some a)) evs).l.c := by
  rw [runX_armed] at hni ⊢
  exact (runF_jf2 hac P nf plan evs (fun hb => hni hb.1 (by obtain ⟨_, _, e, he, hs⟩ := hb; exact ⟨e, he, hs⟩))).old

/-- **`step_until_terminated()` returns, configuration level, every hook**: from ANY terminated configuration of the model with a
fault in which the stepping task has not crashed and is not blocked on an unreleased future, finitely many wake-ups end it normally
(on a terminated process a wake-up consults no hook and no listener: `tickStepperF_terminal_c`). -/
theorem C03_stepper_returns_configuration (P : Prog) (x : FCfg) (ht : terminal x.l.c.st.label = true)
    (hcr : ∀ e, x.l.c.pc ≠ .crashed e)
    (hpz : ∀ pf pf', x.l.c.pc = .awaitPaused pf → x.l.c.paused = some pf' → x.l.c.pfs[pf']? = some true)
    (hap : ∀ pf, x.l.c.pc = .awaitPaused pf → x.l.c.pfs[pf]? = some true)
    (haw : ∀ wf, x.l.c.pc = .awaitWaiting wf → ∃ w, x.l.c.wfs[wf]? = some w ∧ w ≠ .pending) :
    ∃ n, (runF P x (List.replicate n .tick)).l.c.pc = .done :=
  stepperF_returns P x ht hcr hpz hap haw

/-- **one transition with the armed fault, every scenario** (configuration level): from ANY configuration in which the invariant
holds and the process is live — whatever is pending or requested, inside or outside a step —, for any target state and any
notification function with the two properties proved of the model's own (`fireNF_nk`): the invariant holds afterwards (so: if the
fault fired in this transition, the process is EXCEPTED with it, closed, future raising it), and NOTHING propagates to the caller of
`transition_to` (`kill()`, `fail()`, the closing part of the step, the pending pause / kill action), except after an error of the
state machine itself. -/
theorem C03_transition_with_fault (a0 : Arm) (N : Hook → FCfg → FCfg) (hN : NK a0 N) (hac : afterClose a0 = false)
    (x : FCfg) (s : SObj) (hk : K a0 x) (hl : terminal x.l.c.st.label = false) :
    K a0 (transitionToF N x s).1 ∧ ((transitionToF N x s).2 = none ∨ Bad a0 (transitionToF N x s).1) :=
  transitionToF_K' hN x s hk hac hl

/-- **the step level**: the closing part of `Process.step` — for every way the step ended (`r`: a next state, among them the EXCEPTED
state of a raising step function; an interruption; an exception), every pending pause / kill action or none, every request a
listener makes meanwhile — keeps the invariant, fault or no fault; and so does every event (`stepF_K`). -/
theorem C03_step_with_fault (a0 : Arm) (n : Nat) (hac : afterClose a0 = false) (x : FCfg) (r : StepEnd) (hk : K a0 x) :
    K a0 (endOfStepF (fireNF n) x r) :=
  endOfStepF_K (fireNF_nk hac n) hac x r hk

/-- **pause hooks**: a fault in `on_pausing` (before or after `super()`) or in `on_paused` before `super()` is raised by
`_do_pause` to whoever asked (the caller of `pause()`, or the action future, next theorem); the process keeps its state object,
future, closedness — only `_pausing` is cleared —, is not paused, and the fault is spent. -/
theorem C03_pausing_hook_fault_reported (N : Hook → FCfg → FCfg) (x : FCfg) (a : Arm)
    (ha : x.arm = some a) (hl : a.left = 0) (hh : a.hk = .onPausing ∨ (a.hk = .onPaused ∧ a.after = false)) :
    (doPauseF N x).2 = some faultExc ∧ (doPauseF N x).1.l = x.l.upd (fun c => { c with pausing := none }) ∧
    (doPauseF N x).1.fired = true ∧ (doPauseF N x).1.arm = none := by
  obtain ⟨hk, left, af⟩ := a
  simp only at hl hh
  subst hl
  rcases hh with h | ⟨h, h'⟩
  · subst h; exact doPauseF_onPausing x af ha
  · subst h; subst h'; exact doPauseF_onPaused_before x ha

/-- … `on_paused` raising AFTER `super()`: the process IS paused (the base implementation ran, the listeners were notified), the
exception is raised to the requester all the same, `_pausing` is cleared. -/
theorem C03_paused_hook_fault_after_super (N : Hook → FCfg → FCfg) (x : FCfg) (ha : x.arm = some ⟨.onPaused, 0, true⟩) :
    ∃ x' : FCfg, x'.l = x.l ∧ x'.arm = none ∧ x'.fired = x.fired ∧ x'.rep = x.rep ∧
      (doPauseF N x).2 = some faultExc ∧
      (doPauseF N x).1.l = (N .paused (x'.updC doPauseHooks)).l.upd (fun c => { c with pausing := none }) ∧
      (doPauseF N x).1.fired = true ∧ (doPauseF N x).1.arm = none :=
  doPauseF_onPaused_after x ha

/-- **… as a pending action of the step**: the exception becomes the exception of the action future the requester holds, nothing
propagates into the step (the stepping task goes on), `_pausing` is cleared. -/
theorem C03_pause_action_fault_reported (N : Hook → FCfg → FCfg) (x : FCfg) (i : Nat) (act : Action) (af : Bool)
    (hai : x.l.c.actions[i]? = some act) (hk : act.kind = .pause) (hs : act.status = .pending)
    (ha : x.arm = some ⟨.onPausing, 0, af⟩) :
    (runActionF N x i none).2 = none ∧
    actionStatus (runActionF N x i none).1.l.c i = .failed faultExc ∧ (runActionF N x i none).1.l.c.pausing = none ∧
    (runActionF N x i none).1.l.c.st = x.l.c.st := by
  obtain ⟨h1, h2, _⟩ := runActionF_onPausing (N := N) x i act af hai hk hs ha
  refine ⟨h1, ?_, ?_, ?_⟩
  · rw [h2]
    have hlt : i < x.l.c.actions.length := by
      rcases Nat.lt_or_ge i x.l.c.actions.length with h | h
      · exact h
      · rw [List.getElem?_eq_none h] at hai; cases hai
    simp only [upd_c, actionStatus, setActionStatus, hai, setAt, List.getElem?_set_self hlt]
  · rw [h2]; simp only [upd_c]; unfold setActionStatus; split <;> rfl
  · rw [h2]; simp only [upd_c]; exact (setActionStatus_fix ..).1

/-- **play hook**: `on_playing` raising before `super()` is raised by `play()`; the process is still paused, nothing changed; raising
after `super()` the process plays (listeners notified) and `play()` raises. -/
theorem C03_playing_hook_fault_reported (N : Hook → FCfg → FCfg) (x : FCfg) (hp : x.l.c.paused.isSome = true) :
    (x.arm = some ⟨.onPlaying, 0, false⟩ →
      (playF N x).2 = .raised faultExc ∧ (playF N x).1.l = x.l ∧ (playF N x).1.fired = true ∧ (playF N x).1.arm = none) ∧
    (x.arm = some ⟨.onPlaying, 0, true⟩ →
      ∃ x' : FCfg, x'.l = x.l ∧ x'.arm = none ∧ x'.fired = x.fired ∧ x'.rep = x.rep ∧
        (playF N x).2 = .raised faultExc ∧ (playF N x).1.l = (N .played (x'.updC (fun c => (play c).1))).l ∧
        (playF N x).1.fired = true ∧ (playF N x).1.arm = none) :=
  ⟨fun ha => playF_onPlaying_before x ha hp, fun ha => playF_onPlaying_after x ha hp⟩

/-! ### the state machine itself never fails: the hypothesis `¬ InternalError` above is always true

The theorems above that cover `on_terminated` / `on_close` assume that the run "did not end in an error of the state machine itself"
(`InternalError`: the state is EXCEPTED with a "cannot transition", a "future already resolved" or a failed assertion) — the only way
the fault can be hit inside the FAILING path of `transition_to`, where a second failure propagates (alternative `Bad` of the invariant
`K`).  `Fault/Proof16 … Proof19`: that never happens.  The three sources of such errors are excluded one by one:
* `assert self._called == call_count` in `call_with_super_check`: every hook call, every transition and every notification leaves
  `_called` as it found it, whether it returns or raises (`C03_called_balanced`; repair 6c8055d is what makes this true);
* "future already resolved" in `on_finish / on_kill`: the future of a live process is pending or cancelled (`Inv2w`), and a
  cancelled one is replaced;
* "cannot transition": every state the model asks for is allowed from the current one — KILLED, EXCEPTED and RUNNING from every live
  state; what a step function returned, from RUNNING (the stepping task is inside a step function only while the state is not
  CREATED, and no state is ever CREATED again: invariant `IUP`);
and an assertion failing at the top of a nested `transition_to` (a request from inside a transition) returns without changing the
state.  So a transition of the model raises nothing at all (`C03_transition_raises_nothing`), `Bad` is unreachable
(`C03_fault_never_meets_state_machine_error`) and the statements above hold without the hypothesis (`…_unconditional`).

What is NOT true is `¬ InternalError` for every history: the model lets USER code raise the state machine's own exception types —
`fail(AssertionError())`, a step function raising `InvalidStateError`, an awaitable failing with one — and then the process is, correctly,
EXCEPTED with that exception (`C03_user_code_can_raise_the_state_machines_exceptions`).  The full statement for histories and programs
that do not do that is `C03_no_internal_error` (a `def`, not proved); the part proved is `C03_no_internal_error_partial`. -/

/-- **a transition of a live process to an allowed target raises nothing** (configuration level): from ANY configuration in which the
invariant `K` holds and the process is live, for any target that is allowed from the current state, whatever the armed fault (any of
the fifteen hooks, any occurrence, before or after `super()`, except the two points after `close()`) does in it and whatever the
listeners request meanwhile: nothing propagates to the caller of `transition_to` — no "cannot transition", no `InvalidStateError`
from the future, no failed `_called` assertion, and the fault itself is handled —, and the invariant holds afterwards WITHOUT the
alternative `Bad` (`K2`).  This is `C03_transition_with_fault` with its escape clause removed. -/
theorem C03_transition_raises_nothing (a0 : Arm) (n : Nat) (hac : afterClose a0 = false) (x : FCfg) (s : SObj) (hk : K a0 x)
    (hl : terminal x.l.c.st.label = false) (hal : s.label ∈ allowed x.l.c.st.label) :
    (transitionToF (fireNF n) x s).2 = none ∧ K2 a0 (transitionToF (fireNF n) x s).1 :=
  ⟨(transitionToF_G (fireNF_nk hac n) (fireNF_cf n) x s hk hac hl hal).2,
   (transitionToF_G (fireNF_nk hac n) (fireNF_cf n) x s hk hac hl hal).1⟩

/-- **every hook entered through `call_with_super_check` leaves `_called` as it found it** (function level, no hypothesis at all): a
whole `transition_to` — all its hooks, the failing path included, whether the fault fires in it or not, whether it returns or raises —
and every notification of the listeners (with the requests they issue, nested transitions included) return with the call counter
they were entered with; and none of them ever makes the state CREATED.  Hence the final `assert self._called == call_count` never
fails. -/
theorem C03_called_balanced (n : Nat) (x : FCfg) (s : SObj) (h : Hook) :
    (transitionToF (fireNF n) x s).1.called = x.called ∧ (fireNF n h x).called = x.called ∧
    ((transitionToF (fireNF n) x s).1.l.c.st.label = .created → x.l.c.st.label = .created) :=
  ⟨(transitionToF_cf (fireNF_cf n) x s).called, (fireNF_cf n h x).called, (transitionToF_cf (fireNF_cf n) x s).ncr⟩

/-- **the fault never meets an error of the state machine itself** — for every program, plan, history and every fault point except
the two after `close()`: NO configuration of the run is `Bad` (the fault fired in `on_terminated` / `on_close` and the process is
EXCEPTED with an error of the state machine itself).  So the hypothesis `hni` of `C03_hook_fault_ends_excepted`,
`C03_stepper_returns_after_hook_fault_proved`, … excludes nothing that can happen. -/
theorem C03_fault_never_meets_state_machine_error (P : Prog) (nf : Nat) (plan : Plan) (a : Arm) (evs : List Ev)
    (hac : afterClose a = false) :
    ¬ ((a.hk = .onTerminated ∨ a.hk = .onClose) ∧ (runX P (initX nf plan (some a)) evs).fired = true ∧
        InternalError (runX P (initX nf plan (some a)) evs)) := by
  rw [runX_armed]
  intro ⟨h1, h2, e, he, hs⟩
  exact runF_not_bad hac P nf plan evs ⟨h1, h2, e, he, hs⟩

/-- **a fault in a lifecycle hook of a transition ends the process EXCEPTED with exactly that exception — no hypothesis on the
run** (`C03_hook_fault_ends_excepted` for all twelve transition hooks without `hni`): for every program, plan, history and every
fault point except the two after `close()` (F18), once the fault has fired: EXCEPTED with the fault, future raising it, closed,
cleanups run once, no transition in progress. -/
theorem C03_hook_fault_ends_excepted_unconditional (P : Prog) (nf : Nat) (plan : Plan) (a : Arm) (evs : List Ev)
    (hm : mainHK a.hk = true) (hac : afterClose a = false)
    (hf : (runX P (initX nf plan (some a)) evs).fired = true) :
    GoodRun (runX P (initX nf plan (some a)) evs) :=
  C03_hook_fault_ends_excepted P nf plan a evs hm hac hf
    (fun h hi => C03_fault_never_meets_state_machine_error P nf plan a evs hac ⟨h, hf, hi⟩)

/-- **no fault at any point ever breaks the agreement of the outcome reports — no hypothesis on the run**
(`C03_fault_never_breaks_agreement` without `hni`): for every program, plan, history and every fault point other than the two after
`close()`, in every configuration of the run: a live process has an unresolved future, is not closed and ran no cleanup; a terminated
one is closed, ran its cleanups once and its future holds the outcome of its state object; no transition is left in progress. -/
theorem C03_fault_never_breaks_agreement_unconditional (P : Prog) (nf : Nat) (plan : Plan) (a : Arm) (evs : List Ev)
    (hac : afterClose a = false) :
    Inv2w (runX P (initX nf plan (some a)) evs).l.c ∧ (runX P (initX nf plan (some a)) evs).l.trans = none := by
  rw [runX_armed]
  have h := (runF_KI hac P _ evs (initX_KI a nf plan)).k2
  exact ⟨h.g.1, h.tr⟩

/-- **the stepping task returns normally after a hook fault — every transition hook, no hypothesis on the run**
(`C03_stepper_returns_after_hook_fault` with its hypothesis `¬ InternalError` discharged): for every program, plan, history and every
fault in any of the twelve transition hooks, any occurrence, before or after `super()` except the two points after `close()`: once the
fault has fired, finitely many wake-ups of the stepping task end `step_until_terminated()` normally. -/
theorem C03_stepper_returns_after_hook_fault_unconditional (P : Prog) (nf : Nat) (plan : Plan) (a : Arm) (evs : List Ev)
    (hm : mainHK a.hk = true) (hac : afterClose a = false)
    (hf : (runX P (initX nf plan (some a)) evs).fired = true) :
    ∃ n, (runF P (runX P (initX nf plan (some a)) evs) (List.replicate n .tick)).l.c.pc = .done :=
  C03_stepper_returns_after_hook_fault_proved P nf plan a evs hm hac hf
    (fun hi => C03_fault_never_meets_state_machine_error P nf plan a evs hac
      ⟨by
        have hg := C03_hook_fault_ends_excepted_unconditional P nf plan a evs hm hac hf
        obtain ⟨e, he, hs⟩ := hi
        rw [hg.1] at hs; cases hs
        exact absurd he faultExc_not_internal, hf, hi⟩)

/-- **the exception never escapes into the stepping task, and the task is never left blocked — every hook, no hypothesis on the run**
(`C03_hook_fault_never_reaches_the_stepping_task_any_hook` without `hni`): the linking invariant `Inv10` of C02 holds in every
configuration of every run with a fault at any point except the two after `close()`. -/
theorem C03_hook_fault_never_reaches_the_stepping_task_unconditional (P : Prog) (nf : Nat) (plan : Plan) (a : Arm)
    (evs : List Ev) (hac : afterClose a = false) :
    Inv10 (runX P (initX nf plan (some a)) evs).l.c := by
  rw [runX_armed]
  exact (runF_jf2 hac P nf plan evs (runF_not_bad hac P nf plan evs)).old

/-- user code that does not raise the state machine's own exception types: the step functions … -/
def CleanProg (P : Prog) : Prop := ∀ fn args kw ctx e, (P fn args kw ctx).out = .raise e → ¬ Internal e

/-- … and the events of the history (`fail(e)`, an awaitable completing with exception `e`) -/
def CleanEv : Ev → Prop
  | .fail e => ¬ Internal e
  | .complete _ (.exc e) => ¬ Internal e
  | _ => True

/-- The statement "no run ends in an error of the state machine itself" in full: for every program and history in which USER code
raises none of the state machine's own exception types, every plan and every armed fault (or none): the process is never EXCEPTED with
a "cannot transition", an `InvalidStateError` or a failed assertion.  NOT PROVED (no counterexample either: exhaustive search over
all histories of length ≤ 4 over ten events × sixty fault points, and of length ≤ 6 over six events × thirty fault points, × eight
plans of the harness's process finds none).  Proved: `C03_no_internal_error_partial` (below) and, for the way such an error could arise inside the model —
a transition raising it — `C03_transition_raises_nothing`.  Missing for the full statement: that before the fault fires (and in
runs without a fault, which are runs of `runL`, another function) every exception that becomes the state object comes from user
code — an invariant on the data that carries user exceptions (failed waiting futures, awaitables, parked wake-ups, the suspended
step function) through all twins, and the same chain for `PM/Listener.lean`; and the two fault points after `close()`, where the
invariant `K` does not hold (F18). -/
def C03_no_internal_error : Prop :=
  ∀ (P : Prog) (nf : Nat) (plan : Plan) (a : Option Arm) (evs : List Ev), CleanProg P → (∀ ev ∈ evs, CleanEv ev) →
    ¬ InternalError (runX P (initX nf plan a) evs)

/-- **no run in which a transition-hook fault has fired ends in an error of the state machine itself** (the part of
`C03_no_internal_error` that is proved; it needs no hypothesis on the program or the history — even if user code raises the state
machine's exception types): for every program, plan, history and every fault in any of the twelve transition hooks except the two
points after `close()`, once the fault has fired the process is EXCEPTED with the fault, not with an error of the state machine.
Missing: the configurations before the fault fires, pause / play hook faults, runs without a fault, the two points after `close()`
(see `C03_no_internal_error`). -/
theorem C03_no_internal_error_partial (P : Prog) (nf : Nat) (plan : Plan) (a : Arm) (evs : List Ev)
    (hm : mainHK a.hk = true) (hac : afterClose a = false)
    (hf : (runX P (initX nf plan (some a)) evs).fired = true) :
    ¬ InternalError (runX P (initX nf plan (some a)) evs) := by
  intro ⟨e, he, hs⟩
  rw [(C03_hook_fault_ends_excepted_unconditional P nf plan a evs hm hac hf).1] at hs
  cases hs
  exact faultExc_not_internal he

/-! ### witnesses and non-vacuity (concrete runs of the model, decided by the kernel; each is also a case of the harness) -/

/-- the process of the harness: `run` (one await) continues with `s2(1, k=2)`, `s2` waits, `s3` (one await) returns 5 -/
def procC03 : Prog := fun fn _ _ _ =>
  if fn = 0 then ⟨1, .ret (.cont 1 [1] [(0, 2)])⟩ else if fn = 1 then ⟨0, .ret (.wait 2)⟩ else ⟨1, .ret (.stop (some 5) true)⟩

-- non-vacuity of `C03_hook_fault_ends_excepted`: `on_finish` raising after `super()` (the future already holds the result), the fault
-- fires in the closing transition of the last step; the run satisfies every hypothesis, and the stepping task has returned
example :
    let x := runX procC03 (initX 0 [] (some ⟨.onFinish, 0, true⟩)) [.tick, .tick, .resume (some 7), .tick, .tick]
    mainHK .onFinish = true ∧ afterClose ⟨.onFinish, 0, true⟩ = false ∧ x.fired = true ∧ x.l.c.st = .excepted faultExc ∧
    x.l.c.fut = .exc faultExc ∧ x.l.c.pc = .done := by decide +kernel

-- … with a kill pending at that moment (requested while the last step was in flight): the kill action performs the transition, the
-- fault in `on_kill` fires there; EXCEPTED with the fault, and the requester of the kill is told `True` (`.done`)
example :
    let x := runX procC03 (initX 0 [] (some ⟨.onKill, 0, false⟩)) [.tick, .tick, .resume (some 7), .tick, .kill, .tick]
    x.fired = true ∧ x.l.c.st = .excepted faultExc ∧ x.l.c.fut = .exc faultExc ∧ x.l.c.closed = true ∧
    x.l.c.actions.map (·.status) = [.done] ∧ x.l.c.pc = .done := by decide +kernel

-- … with a kill requested by a LISTENER of the very transition in which the fault fires (`on_running` raising after `super()`,
-- i.e. after the listeners were notified): the request is deferred, the process excepts, the action is cancelled by the `finally`
example :
    let x := runX procC03 (initX 0 [(.running, 2, .kill)] (some ⟨.onRunning, 1, true⟩)) [.tick, .tick]
    x.fired = true ∧ x.l.c.st = .excepted faultExc ∧ x.l.c.fut = .exc faultExc ∧ x.l.c.closed = true ∧
    x.l.c.actions.map (·.status) = [.cancelled] ∧ x.l.c.pc = .done := by decide +kernel

-- non-vacuity of `C03_raising_step_excepted`: the harness's process whose `s3` raises after its await
example :
    let l := runL (withStepFault procC03 2 1) (initL 0 []) [.tick, .tick, .resume (some 7), .tick]
    terminal l.c.st.label = false ∧ l.c.pc = .inUser ⟨0, .raise faultExc⟩ := by decide +kernel

-- non-vacuity of `C03_stepper_returns_after_hook_fault_partial`: `fail()` on the WAITING process whose `on_exit_waiting` raises
-- (F30) — the fault fires while the stepping task is suspended on the wait of the state being left
example : mainHK .exitWaiting = true ∧ NoTC ⟨.exitWaiting, 0, false⟩ ∧
    (runX procC03 (initX 0 [] (some ⟨.exitWaiting, 0, false⟩)) [.tick, .tick, .tick, .fail (.user 9)]).fired = true ∧
    (runX procC03 (initX 0 [] (some ⟨.exitWaiting, 0, false⟩)) [.tick, .tick, .tick, .fail (.user 9)]).l.c.pc = .awaitWaiting 0 :=
  ⟨rfl, by unfold NoTC; decide, by decide +kernel, by decide +kernel⟩

-- non-vacuity of `C03_stepper_returns_after_hook_fault_proved` for the two hooks it adds: `kill()` on the paused process whose
-- `on_terminated` raises BEFORE `super()` — the fault fires while the stepping task is suspended on the pause future, which the
-- first `on_terminated` did not get to release; the failing path's `on_terminated` (the fault is spent) releases it: EXCEPTED with
-- the fault (not an error of the state machine), and the next wake-up ends `step_until_terminated()`
example :
    let x := runX procC03 (initX 0 [] (some ⟨.onTerminated, 0, false⟩)) [.tick, .pause, .tick, .kill]
    mainHK .onTerminated = true ∧ afterClose ⟨.onTerminated, 0, false⟩ = false ∧ x.fired = true ∧
    x.l.c.st = .excepted faultExc ∧ x.l.c.pc = .awaitPaused 0 ∧ x.l.c.pfs = [true] ∧ (runF procC03 x [.tick]).l.c.pc = .done := by
  decide +kernel

example : ¬ InternalError (runX procC03 (initX 0 [] (some ⟨.onTerminated, 0, false⟩)) [.tick, .pause, .tick, .kill]) := by
  intro ⟨e, he, hs⟩
  have h : (runX procC03 (initX 0 [] (some ⟨.onTerminated, 0, false⟩)) [.tick, .pause, .tick, .kill]).l.c.st = .excepted faultExc := by
    decide +kernel
  rw [h] at hs; cases hs; exact faultExc_not_internal he

-- … and `on_close` raising before `super()` in the closing transition of the last step
example :
    let x := runX procC03 (initX 0 [] (some ⟨.onClose, 0, false⟩)) [.tick, .tick, .resume (some 7), .tick, .tick]
    afterClose ⟨.onClose, 0, false⟩ = false ∧ x.fired = true ∧ x.l.c.st = .excepted faultExc ∧ x.l.c.closed = true ∧
    x.l.c.cleanups = 1 ∧ x.l.c.pc = .done := by decide +kernel

-- non-vacuity of the `…_unconditional` statements and of `C03_transition_raises_nothing`: the `on_terminated`-before-`super()` run
-- above satisfies their hypotheses (no hypothesis on the final configuration is left); a transition hypothesis instance: the
-- initial configuration is live, satisfies `K`, and RUNNING is allowed from CREATED
example : mainHK .onTerminated = true ∧ afterClose ⟨.onTerminated, 0, false⟩ = false ∧
    (runX procC03 (initX 0 [] (some ⟨.onTerminated, 0, false⟩)) [.tick, .pause, .tick, .kill]).fired = true :=
  ⟨rfl, rfl, by decide +kernel⟩

example : K ⟨.onRun, 0, false⟩ (initX 0 [] (some ⟨.onRun, 0, false⟩)) ∧
    terminal (initX 0 [] (some ⟨.onRun, 0, false⟩)).l.c.st.label = false ∧
    (SObj.running 0 [] []).label ∈ allowed (initX 0 [] (some ⟨.onRun, 0, false⟩)).l.c.st.label :=
  ⟨initX_K _ 0 [], rfl, by decide⟩

-- non-vacuity of `C03_no_internal_error`'s hypotheses: the harness's process and a history with a user failure are clean
example : CleanProg procC03 ∧ (∀ ev ∈ [Ev.tick, .fail (.user 9)], CleanEv ev) := by
  refine ⟨fun fn args kw ctx e h => ?_, fun ev hev => ?_⟩
  · unfold procC03 at h
    split at h
    · cases h
    · split at h <;> cases h
  · simp only [List.mem_cons, List.mem_nil_iff, or_false] at hev
    rcases hev with h | h <;> subst h
    · trivial
    · intro hi; rcases hi with h | h | ⟨a, b, h⟩ <;> cases h

/-- **user code CAN make the process EXCEPTED with one of the state machine's exception types** (why `C03_no_internal_error` needs
its hypotheses; a fact about the model's type of exceptions — and about plumpy: `proc.fail(AssertionError())` excepts the process with
that `AssertionError`): `fail(assertion)` on the created process, with a fault armed that never fires, or none. -/
theorem C03_user_code_can_raise_the_state_machines_exceptions :
    InternalError (runX procC03 (initX 0 [] (some ⟨.onRun, 5, false⟩)) [.fail .assertion]) ∧
    InternalError (runX procC03 (initX 0 [] none) [.fail .assertion]) ∧
    ¬ CleanEv (.fail .assertion) :=
  ⟨⟨.assertion, Or.inl rfl, by decide +kernel⟩, ⟨.assertion, Or.inl rfl, by decide +kernel⟩, fun h => h (Or.inl rfl)⟩

/-- **finding F18 on whole runs (witness)**: `on_terminated` raising AFTER `super()` in the closing transition of the last step: the
process is EXCEPTED with the fault while its future still holds the result of the FINISHED state it had entered — the two fault points
that `C03_hook_fault_ends_excepted` excludes, and the conclusion does fail there. -/
theorem C03_witness_fault_after_close_run :
    let x := runX procC03 (initX 0 [] (some ⟨.onTerminated, 0, true⟩)) [.tick, .tick, .resume (some 7), .tick, .tick]
    afterClose ⟨.onTerminated, 0, true⟩ = true ∧ x.fired = true ∧ x.l.c.st = .excepted faultExc ∧ x.l.c.fut = .result ∧
    x.l.c.closed = true := by decide +kernel

/-- **a fault in the pause hook of a pause action that was superseded while it ran is logged, and the request that superseded it is
served (finding F28, repaired by e94edb5; the run that used to crash the stepping task)**: a pause is pending when `run` returns; the
pause action performs the step's transition; a listener of that transition (`on_process_running`) calls `kill()`, which supersedes —
cancels — the pause action that is running; `on_pausing` then raises.  Nobody is left to report to: the step goes on, enacts the
kill, the process ends KILLED with everything agreeing, the requester of the kill is told `True`, `_killing` is cleared and
`step_until_terminated()` has returned. -/
theorem C03_superseded_pause_action_fault_is_logged :
    let x := runX procC03 (initX 0 [(.running, 2, .kill)] (some ⟨.onPausing, 0, false⟩)) [.tick, .pause, .tick]
    x.fired = true ∧ x.l.c.pc = .done ∧ x.l.c.st = .killed ∧ x.l.c.fut = .exc .killedErr ∧ x.l.c.closed = true ∧
    x.l.c.actions.map (·.status) = [.cancelled, .done] ∧ x.l.c.killing = none ∧ x.l.c.pausing = none := by decide +kernel

/-- **a hook that raises before calling `super()` no longer disturbs the hook call around it (finding F29, repaired by 6c8055d;
the run in which `play()` used to raise an `AssertionError`)**: `play()` → `on_playing` → the `on_process_played` listener calls
`kill()` → the transition's `on_exit_running` raises before calling `super()`: the transition handles the fault (EXCEPTED with it),
the call counter is back where it was, and `play()` returns `True`. -/
theorem C03_failing_hook_leaves_enclosing_hook_alone :
    let x := runX procC03 (initX 0 [(.played, 1, .kill)] (some ⟨.exitRunning, 1, false⟩)) [.tick, .pause, .tick]
    (stepF procC03 x .play).2 = .bool true ∧ (stepF procC03 x .play).1.l.c.st = .excepted faultExc ∧
    (stepF procC03 x .play).1.l.c.fut = .exc faultExc ∧ (stepF procC03 x .play).1.called = x.called := by decide +kernel

/-- **`fail()` on a WAITING process whose `on_exit_waiting` raises (finding F30, repaired by a130f23; the run that used to leave the
stepping task blocked for ever)**: the failed transition is redone with the EXITING callbacks bypassed, but the state — still
entered — is exited: `Waiting.exit()` completes the wait the stepping task is suspended on; the process is EXCEPTED with the fault,
closed, its future raising it, and the next wake-up of the stepping task ends `step_until_terminated()`. -/
theorem C03_failed_exit_hook_still_exits_the_state :
    let x := runX procC03 (initX 0 [] (some ⟨.exitWaiting, 0, false⟩)) [.tick, .tick, .tick, .fail (.user 9)]
    x.fired = true ∧ x.l.c.st = .excepted faultExc ∧ x.l.c.fut = .exc faultExc ∧ x.l.c.closed = true ∧
    x.l.c.pc = .awaitWaiting 0 ∧ x.l.c.wfs[0]? = some (.result none) ∧ (runF procC03 x [.tick]).l.c.pc = .done := by
  decide +kernel

end FP
end PMF
