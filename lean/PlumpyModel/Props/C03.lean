import PlumpyModel.Fault.Model
/-!
# C03 — a failure in user code ends the process EXCEPTED, never half-transitioned

Model: `Fault.transitionTo` (lean/PlumpyModel/Fault/Model.lean): one transition of the state machine in which every
lifecycle hook is a user override `[raise]; super(); [raise]`, with at most one injected fault.  The configuration
before the transition is that of a live process as C02's invariant describes it (`liveCfg`: future pending, not closed,
callbacks installed, no cleanup run, nothing notified).  All statements are over the complete (finite) space of
from-labels × targets × fault points × before/after variants, decided by the kernel.

Faults in listeners (swallowed by the event helper) are outside this model: the Python monitor compares every such run
with the fault-free run of the same schedule.
-/
namespace Fault
open PMF

/-- the outcome the property demands: no exception escapes, the process is EXCEPTED with exactly the injected fault,
its future raises it, it is closed, callbacks are cleared and the cleanups ran exactly once -/
def good (r : Res) : Bool :=
  r.2.isNone && r.1.label == .excepted && r.1.excIsFault && r.1.fut == .exc true && r.1.closed && !r.1.hooks &&
  r.1.cleanups == 1 && r.1.term.getLast? == some .excepted

def liveLabel (l : Label) : Bool := l == .created || l == .running || l == .waiting

/-- the two fault points that lie after the process has been closed (finding F18) -/
def afterClose (p : FaultPt) : Bool := p.after && (p.phase == .terminated || p.phase == .close)

/-- **a fault in any state entry / exit / termination hook**, before or after the base implementation ran, at any
transition of a live process to any allowed target, ends the process EXCEPTED with exactly that exception — except at the
two points after `close()` (next theorem). -/
theorem C03_hook_fault_excepted (l : Label) (t : Target) (p : FaultPt)
    (hl : liveLabel l = true) (hal : t.label ∈ allowed l) (hne : t.label ≠ .excepted)
    (hr : reached l t p = true) (hs : afterClose p = false) :
    good (transitionTo (some p) (liveCfg l) t) = true := by
  obtain ⟨tl, tf⟩ := t
  obtain ⟨ph, af⟩ := p
  cases l <;> cases tl <;> cases ph <;> cases af <;> cases tf <;> first | rfl | (exfalso; revert hl hal hne hr hs; decide)

/-- **a failing step function, continuation or call_soon callback** (the exception reaches `fail()` / the end of the
step, which transitions to EXCEPTED with it): same outcome, from every live state -/
theorem C03_user_exception_excepted (l : Label) (hl : liveLabel l = true) :
    good (transitionTo none (liveCfg l) { label := .excepted, isFault := true }) = true := by
  cases l <;> first | rfl | (exfalso; revert hl; decide)

/-- without a fault a transition to an allowed target just happens (sanity of the model) -/
theorem C03_no_fault_no_exception (l : Label) (t : Target) (hl : liveLabel l = true) (hal : t.label ∈ allowed l) :
    (transitionTo none (liveCfg l) t).2 = none ∧ (transitionTo none (liveCfg l) t).1.label = t.label := by
  obtain ⟨tl, tf⟩ := t
  cases l <;> cases tl <;> cases tf <;> first | exact ⟨rfl, rfl⟩ | (exfalso; revert hl hal; decide)

/-- **finding F18 (witness)**: an `on_terminated` (or `on_close`) override raising AFTER `super()` — i.e. after the
process was closed and its callbacks cleared — leaves the process EXCEPTED while its future still reports the
outcome of the state it had entered.  This is the negation of `good` at exactly those two points. -/
theorem C03_witness_fault_after_close :
    good (transitionTo (some ⟨.terminated, true⟩) (liveCfg .running) { label := .finished }) = false ∧
    (transitionTo (some ⟨.terminated, true⟩) (liveCfg .running) { label := .finished }).1.label = .excepted ∧
    (transitionTo (some ⟨.terminated, true⟩) (liveCfg .running) { label := .finished }).1.fut = .result ∧
    good (transitionTo (some ⟨.close, true⟩) (liveCfg .running) { label := .killed }) = false := by decide

/-- **pause / play hooks**: a fault is handed to the requester, the process keeps its state, stays open, and no
pause request is left pending (so it remains controllable: C04 / C05 apply to the configuration) -/
theorem C03_pause_hook_fault_reported (c : PP) (h : PHook) (af : Bool) (hh : h ≠ .playing) :
    (doPause (some (h, af)) c).2 = some true ∧ (doPause (some (h, af)) c).1.base = c.base ∧
    (doPause (some (h, af)) c).1.pausing = false := by
  cases h <;> cases af <;> first | exact absurd rfl hh | simp [doPause]

theorem C03_play_hook_fault_reported (c : PP) (af : Bool) :
    (doPlay (some (.playing, af)) c).2 = some true ∧ (doPlay (some (.playing, af)) c).1.base = c.base := by
  cases af <;> simp [doPlay]

-- non-vacuity: the hypotheses of the main theorem are satisfiable, e.g. `on_finish` raising after `super()`
example : liveLabel .running = true ∧ Label.finished ∈ allowed .running ∧
    reached .running { label := .finished } ⟨.entering, true⟩ = true ∧ afterClose ⟨.entering, true⟩ = false := by decide

end Fault
