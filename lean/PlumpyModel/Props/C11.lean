import PlumpyModel.Ports.Proof4
/-!
# C11 — only spec-conforming inputs create a process; defaults applied, inputs immutable

Model: `Ports.preProcess` (`PortNamespace.pre_process`), `Ports.validatePort` / `validatePorts` / `validateDynamic`
(`Port.validate`, `PortNamespace.validate`, `validate_ports`, `validate_dynamic_ports`), `Ports.construct`
(`Process.on_create`), in `PlumpyModel/Ports/Model.lean`.  Specification: the declarative predicates of
`PlumpyModel/Ports/Spec.lean` (`ConformsPort`, `DefaultsExact`, `FrozenPorts`), written from the property text.

Quantification: every port tree (arbitrary nesting and width, every combination of required / valid_type / default /
validator / dynamic / populate_defaults), every nested input dictionary, every validator oracle `vd`.  The only
hypothesis is `wfPorts`: port names are distinct within each namespace (they are the keys of a Python dict).

Not expressible in the functional model: that `raw_inputs` and the caller's dictionary stay exactly as given (`raw`
is an immutable argument here).  That is decided by the correspondence check (`harness/props/c11.py` compares both
with a deep copy taken before construction, and constructs every class twice).
-/
namespace Ports

/-- **Acceptance, declaratively.**  The inputs can be completed (no declared namespace is given a non-mapping), and the
inputs completed by the declared defaults conform to the top-level namespace: required ports present after defaults,
values of the declared types, port validators, no undeclared key outside a dynamic namespace, dynamic values of the
namespace's type at any depth, namespace validators, an optional namespace that is absent or empty accepted.
The completion `parsed` is characterised declaratively by `C11_defaults_exact`. -/
def Accepts (vd : Nat → V → Bool) (top : NsA) (ports : PortList) (raw : Items) : Prop :=
  ∃ parsed, preProcess ports raw = .ok parsed ∧ ConformsPort vd (.ns top ports) (some (.dict true parsed))

/-- the fully declarative variant: the completion is *any* mapping related to `raw` by the per-key rule
`DefaultsExact`, not the one the model computes (see `C11_accepts_iff_decl`) -/
def AcceptsDecl (vd : Nat → V → Bool) (top : NsA) (ports : PortList) (raw : Items) : Prop :=
  ∃ parsed, DefaultsExact ports raw parsed ∧ ConformsPort vd (.ns top ports) (some (.dict true parsed))

/-- **C11, first sentence.**  A process is constructed exactly with the inputs the spec accepts; otherwise
construction raises (and the constructor returns no process). -/
theorem C11_accepts_iff (vd : Nat → V → Bool) (top : NsA) (ports : PortList) (hwf : wfPorts ports = true) (raw : Items) :
    (∃ parsed, construct vd top ports raw = .ok parsed) ↔ Accepts vd top ports raw := by
  have hwf' : wfPort (.ns top ports) = true := by simpa [wfPort] using hwf
  unfold construct Accepts
  cases hp : preProcess ports raw with
  | error e => simp
  | ok parsed =>
    have h := validatePort_none_iff vd (.ns top ports) hwf' "inputs" [] (some (.dict true parsed))
    simp only [Except.ok.injEq, exists_eq_left']
    cases hv : validatePort vd "inputs" [] (.ns top ports) (some (.dict true parsed)) with
    | some e => rw [hv] at h; simp only [reduceCtorEq, false_iff] at h; simp [h]
    | none => rw [hv] at h; simp only [true_iff] at h; simp [h]

/-- the form of the design document: validation of the completed inputs passes iff the inputs are accepted -/
theorem C11_validate_iff (vd : Nat → V → Bool) (top : NsA) (ports : PortList) (hwf : wfPorts ports = true) (raw : Items) :
    (∃ parsed, preProcess ports raw = .ok parsed ∧
        validatePort vd "inputs" [] (.ns top ports) (some (.dict true parsed)) = none) ↔ Accepts vd top ports raw := by
  have hwf' : wfPort (.ns top ports) = true := by simpa [wfPort] using hwf
  unfold Accepts
  constructor
  · rintro ⟨parsed, h1, h2⟩; exact ⟨parsed, h1, (validatePort_none_iff vd _ hwf' _ _ _).1 h2⟩
  · rintro ⟨parsed, h1, h2⟩; exact ⟨parsed, h1, (validatePort_none_iff vd _ hwf' _ _ _).2 h2⟩

/-- one direction of the fully declarative variant: whatever is constructed is accepted in the sense of `AcceptsDecl` -/
theorem C11_constructed_acceptsDecl (vd : Nat → V → Bool) (top : NsA) (ports : PortList) (hwf : wfPorts ports = true)
    (raw : Items) (parsed : V) (h : construct vd top ports raw = .ok parsed) : AcceptsDecl vd top ports raw := by
  obtain ⟨p, hp, hc⟩ := (C11_accepts_iff vd top ports hwf raw).1 ⟨parsed, h⟩
  exact ⟨p, preProcess_spec ports hwf raw p hp, hc⟩

/-- **C11, first sentence, fully declarative.**  With validators that cannot tell two completions of the same inputs
apart (`VdStable`: completions differ at most in the order of keys, which Python dictionaries ignore when compared), a
process is constructed exactly when *some* mapping that completes the inputs by the declared defaults — in the sense of
the per-key rule `DefaultsExact`, with no reference to `pre_process` — conforms to the spec. -/
theorem C11_accepts_iff_decl (vd : Nat → V → Bool) (hvd : VdStable vd) (top : NsA) (ports : PortList)
    (hwf : wfPorts ports = true) (raw : Items) :
    (∃ parsed, construct vd top ports raw = .ok parsed) ↔ AcceptsDecl vd top ports raw := by
  constructor
  · rintro ⟨parsed, h⟩; exact C11_constructed_acceptsDecl vd top ports hwf raw parsed h
  · rintro ⟨parsed', hd, hc⟩
    obtain ⟨parsed, hp⟩ := preProcess_total ports hwf raw parsed' hd.1
    have hd2 := preProcess_spec ports hwf raw parsed hp
    refine (C11_accepts_iff vd top ports hwf raw).2 ⟨parsed, hp, ?_⟩
    refine ConformsPort_transfer vd hvd (.ns top ports) (some (.dict false raw)) _ _ ?_ ?_ hc
    · simp only [DefaultsPort]; exact ⟨parsed', rfl, hd.1, hd.2⟩
    · simp only [DefaultsPort]; exact ⟨parsed, rfl, hd2.1, hd2.2⟩

/-- `VdStable` is satisfiable, e.g. by validators that only look at atoms (leaf validators) -/
example : VdStable (fun n v => match v with | .atom _ id => id == n | .dict _ _ => false) := by
  intro n ports sup i1 i2 _ _; rfl

/-- **C11, rejection.**  Construction fails in exactly two ways: `TypeError` while completing (a declared namespace
was given, or declares as its default, a non-mapping), or the `ValueError` carrying the validation error of the
completed inputs. -/
theorem C11_reject_classes (vd : Nat → V → Bool) (top : NsA) (ports : PortList) (raw : Items) (e : Err)
    (h : construct vd top ports raw = .error e) :
    (preProcess ports raw = .error e) ∨
    (∃ parsed, preProcess ports raw = .ok parsed ∧
      validatePort vd "inputs" [] (.ns top ports) (some (.dict true parsed)) = some e) := by
  unfold construct at h
  cases hp : preProcess ports raw with
  | error e' => simp only [hp] at h; cases h; exact Or.inl rfl
  | ok parsed =>
    simp only [hp] at h
    cases hv : validatePort vd "inputs" [] (.ns top ports) (some (.dict true parsed)) with
    | some e' => simp only [hv] at h; cases h; exact Or.inr ⟨parsed, rfl, hv⟩
    | none => simp only [hv] at h; cases h

/-- **C11, second sentence (defaults).**  The parsed inputs are the raw inputs completed with exactly the declared
defaults, per key at every declared level (`DefaultsExact`): a supplied value is preserved (a supplied namespace
value recursively); a declared leaf that is not supplied appears with its (evaluated) default and does not appear
if it has none; an unsupplied namespace is left out when `populate_defaults` is off, starts from its own default if it
has one, from the empty mapping if it declares ports, and is left out otherwise; every key that is not a declared port
is exactly as supplied, so nothing else appears. -/
theorem C11_defaults_exact (vd : Nat → V → Bool) (top : NsA) (ports : PortList) (hwf : wfPorts ports = true)
    (raw : Items) (parsed : V) (h : construct vd top ports raw = .ok parsed) :
    ∃ items, parsed = .dict true items ∧ DefaultsExact ports raw items := by
  obtain ⟨items, hp, _, he⟩ := (construct_ok_iff vd top ports raw parsed).1 h
  exact ⟨items, he, preProcess_spec ports hwf raw items hp⟩

/-- the path runs through declared namespaces and ends at a key that is not a declared namespace
(a leaf port, or an undeclared key such as a dynamic one) -/
def LeafPath : PortList → List String → Prop
  | _, [] => False
  | ports, [k] => ∀ a sub, lookup k ports ≠ some (.ns a sub)
  | ports, k :: k' :: rest => ∃ a sub, lookup k ports = some (.ns a sub) ∧ LeafPath sub (k' :: rest)

/-- **C11, "every supplied value is preserved", path form**: a value supplied at a `LeafPath` is found unchanged at the
same path of the completed mapping -/
theorem C11_supplied_preserved : ∀ (path : List String) (ports : PortList) (raw out : Items) (f f' : Bool) (v : V),
    DefaultsExact ports raw out → LeafPath ports path →
    getPath (some (.dict f raw)) path = some v → getPath (some (.dict f' out)) path = some v
  | [], _, _, _, _, _, _, _, hl, _ => hl.elim
  | [k], ports, raw, out, f, f', v, hd, hl, hg => by
      simp only [getPath] at hg ⊢
      cases hp : lookup k ports with
      | none => rw [hd.2.1 k hp]; exact hg
      | some p =>
        have := DefaultsPorts_lookup ports raw out k p hd.1 hp
        cases p with
        | leaf a => simp only [DefaultsPort, hg] at this; exact this
        | ns a sub => exact absurd hp (hl a sub)
  | k :: k' :: rest, ports, raw, out, f, f', v, hd, hl, hg => by
      obtain ⟨a, sub, hp, hl'⟩ := hl
      simp only [getPath] at hg ⊢
      have := DefaultsPorts_lookup ports raw out k _ hd.1 hp
      cases hr : lookup k raw with
      | none => rw [hr] at hg; simp [getPath] at hg
      | some w =>
        cases w with
        | atom t i => rw [hr] at hg; simp [getPath] at hg
        | dict fr items =>
          rw [hr] at hg this
          simp only [DefaultsPort] at this
          obtain ⟨items', h1, h2, h3⟩ := this
          rw [h1]
          exact C11_supplied_preserved (k' :: rest) sub items items' fr true v ⟨h2, h3⟩ hl' hg

/-- **C11, "read-only at every declared namespace level".**  The parsed inputs are a frozen mapping, and below it
every value that sits at a declared namespace is again a frozen mapping, recursively (`FrozenPorts`).  (Frozen /
plain is the tag of `V.dict`; the harness observes it by attempting a mutation at every level.) -/
theorem C11_frozen_levels (vd : Nat → V → Bool) (top : NsA) (ports : PortList) (hwf : wfPorts ports = true)
    (raw : Items) (parsed : V) (h : construct vd top ports raw = .ok parsed) :
    ∃ items, parsed = .dict true items ∧ FrozenPorts ports items := by
  obtain ⟨items, h1, h2⟩ := C11_defaults_exact vd top ports hwf raw parsed h
  exact ⟨items, h1, FrozenPorts_of_DefaultsPorts ports raw items h2.1⟩

/-! ## non-vacuity: a concrete spec with every kind of attribute, accepted and rejected inputs -/

/-- `a`: required int with validator 3; `b`: optional with callable default; `ns`: optional namespace, populate off,
with a required leaf; `dyn`: dynamic namespace of ints with a nested declared namespace `sub` holding a default -/
def exPorts : PortList :=
  [("a", .leaf { required := true, validType := some 0, default := none, callable := false, validator := some 3 }),
   ("b", .leaf { required := true, validType := none, default := some (.atom 1 2), callable := true, validator := none }),
   ("ns", .ns { required := false, validType := none, default := none, dynamic := false, populate := false, validator := none }
      [("x", .leaf { required := true, validType := none, default := none, callable := false, validator := none })]),
   ("dyn", .ns { required := true, validType := some 0, default := none, dynamic := true, populate := true, validator := none }
      [("sub", .ns { required := true, validType := none, default := none, dynamic := false, populate := true, validator := none }
         [("y", .leaf { required := false, validType := none, default := some (.atom 0 7), callable := false, validator := none })])])]

def exTop : NsA := { required := true, validType := none, default := none, dynamic := false, populate := true, validator := none }
def exVd (n : Nat) (v : V) : Bool := v.mentions n

example : wfPorts exPorts = true := by decide

/-- accepted: defaults filled in at two levels, `ns` left out, dynamic value two levels deep kept, all declared levels frozen -/
example : construct exVd exTop exPorts [("a", .atom 0 1), ("dyn", .dict false [("k", .dict false [("l", .atom 0 5)])])] =
    .ok (.dict true [("a", .atom 0 1),
      ("dyn", .dict true [("k", .dict false [("l", .atom 0 5)]), ("sub", .dict true [("y", .atom 0 7)])]),
      ("b", .atom 1 2)]) := by decide

example : Accepts exVd exTop exPorts [("a", .atom 0 1), ("dyn", .dict false [("k", .dict false [("l", .atom 0 5)])])] :=
  (C11_accepts_iff exVd exTop exPorts (by decide) _).1 ⟨.dict true [("a", .atom 0 1),
      ("dyn", .dict true [("k", .dict false [("l", .atom 0 5)]), ("sub", .dict true [("y", .atom 0 7)])]),
      ("b", .atom 1 2)], by decide⟩

/-- rejected: wrong type two levels down in the dynamic namespace; required port missing; validator; unknown key;
non-mapping for a namespace; supplied optional namespace lacking its required port -/
example : construct exVd exTop exPorts [("a", .atom 0 1), ("dyn", .dict false [("k", .dict false [("l", .atom 1 5)])])] =
    .error (.validation "inputs.dyn.k.dyn.l") := by decide
example : construct exVd exTop exPorts [] = .error (.validation "inputs.a") := by decide
example : construct exVd exTop exPorts [("a", .atom 0 3)] = .error (.validation "inputs.a") := by decide
example : construct exVd exTop exPorts [("a", .atom 0 1), ("zz", .atom 0 1)] = .error (.validation "inputs") := by decide
example : construct exVd exTop exPorts [("a", .atom 0 1), ("dyn", .atom 0 1)] = .error .typeError := by decide
example : construct exVd exTop exPorts [("a", .atom 0 1), ("ns", .dict false [("q", .atom 0 1)])] =
    .error (.validation "inputs.ns.x") := by decide
example : ¬ Accepts exVd exTop exPorts [] := by
  rw [← C11_accepts_iff exVd exTop exPorts (by decide)]
  rintro ⟨p, h⟩
  have : construct exVd exTop exPorts [] = .error (.validation "inputs.a") := by decide
  rw [this] at h; cases h

end Ports
