import PlumpyModel.Persist.Resume
import PlumpyModel.Outline.Proof
/-!
# C08 — resuming from any checkpoint reproduces the uninterrupted execution

**Proved on the outline-chain model** (`Outline.stepB`, `Outline.doStep = WorkChain._do_step`, `Outline.runChain`, the
model that C09 proves to refine the structured-program semantics, with the stepper persistence of
`Persist.saveTop / restoreTop`): `C08_stepper_restore`, `C08_persisted_determines_future`, `C08_resume_equiv`,
`C08_no_reexecution_no_skip`.  The world `σ` and the oracle `W : World σ` (every step function and predicate is a
function of the world) are universally quantified; "steps depend only on persisted state" is the typing of `W`: the
world *is* the persisted state (the context), which C07 shows to be restored exactly, so it is handed over a crash
unchanged, while the stepper goes through save and restore.

**Plain processes** (chains of `Continue` / `Wait` commands) have no interpreter state: what runs next is the function
named by the RUNNING state with its `args` / `kwargs` (C13_activation_exact, C13_continue_exact) or the
`done_callback` of the WAITING state with the resume value (C13_wait_resume_exact).  `C08_continuation_persisted`
shows that exactly these members (and outputs, inputs, status, paused flag) survive save and load; together with C13
this is the resume equivalence for plain processes.  The composition itself is not a Lean theorem: it is decided by the
crash-restore correspondence of harness/props/c08.py on the real code.
-/
namespace Persist
open Outline

variable (E : Env)

/-- **a restored stepper is the same state** (position, chosen branch and live child restored exactly, at any nesting
depth) **and denotes the same remaining program** -/
theorem C08_stepper_restore (is : Block) (s : St) (h : shapeB is s = true) :
    restoreB E is (saveB E is s) = .ok s ∧
    ∀ s', restoreB E is (saveB E is s) = .ok s' → absB is s' = absB is s := by
  refine ⟨restoreB_saveB E is s h, fun s' h' => ?_⟩
  rw [restoreB_saveB E is s h] at h'; cases h'; rfl

/-- the same for the top-level stepper of a work chain (a single instruction is its own stepper) -/
theorem C08_top_stepper_restore (is : Block) (s : St) (h : shapeTop is s = true) :
    restoreTop E is (saveTop E is s) = .ok s := restoreTop_saveTop E is s h

/-- a configuration of a running chain: the persisted part (stepper state, world) and whatever else lives in the
instance (event loop, futures, listeners, …) -/
structure Cfg (σ ρ : Type) where
  s : St
  w : σ
  runtime : ρ

def Cfg.persisted {σ ρ} (c : Cfg σ ρ) : St × σ := (c.s, c.w)

/-- **the persisted view determines the future**: two configurations with the same persisted view produce the same
calls and the same result.  With `Outline.runChain` this is immediate: the chain is a function of the stepper state and
the world, and the oracle `W` can read nothing else — which is the property's hypothesis "steps depend only on
persisted state". -/
theorem C08_persisted_determines_future {σ ρ} (W : World σ) (is : Block) (fuel : Nat) (c₁ c₂ : Cfg σ ρ)
    (h : c₁.persisted = c₂.persisted) : runChain W is fuel c₁.s c₁.w = runChain W is fuel c₂.s c₂.w := by
  simp only [Cfg.persisted, Prod.mk.injEq] at h
  rw [h.1, h.2]

/-- **resume equivalence for any list of crash points** (`cs` = numbers of `_do_step` calls between consecutive
checkpoints, any length): saving, abandoning and restoring the stepper at those step boundaries gives the result and
the final world (call trace, context) of the uninterrupted chain. -/
theorem C08_resume_equiv {σ} (W : World σ) (is : Block) (fuel : Nat) (cs : List Nat) (s : St) (w : σ)
    (h : liveTop is s = true) : runCrash E W is fuel cs s w = runChain W is (cs.sum + fuel) s w := by
  induction cs generalizing s w with
  | nil => simp [runCrash]
  | cons n cs ih =>
    have hadd : (n :: cs).sum + fuel = n + (cs.sum + fuel) := by simp [List.sum_cons]; omega
    rw [hadd, runChain_add]
    simp only [runCrash]
    cases hr : runSteps W is n s w with
    | running s' w' =>
      have hl := runSteps_live W is n s w h hr
      simp only [restoreTop_saveTop E is s' (liveTop_shapeTop hl)]
      exact ih s' w' hl
    | finished r w' => rfl
    | failed => rfl

/-- started on a whole outline -/
theorem C08_resume_equiv_outline {σ} (W : World σ) (is : Block) (hne : is ≠ []) (fuel : Nat) (cs : List Nat) (w : σ) :
    runCrash E W is fuel cs (createBlock is) w = runChain W is (cs.sum + fuel) (createBlock is) w :=
  C08_resume_equiv E W is fuel cs _ w (liveTop_createBlock is hne)

/-- **no step re-executed, none skipped**: at a checkpoint taken after `n` `_do_step` calls the restored stepper is
exactly the state `s'` the uninterrupted chain is in, with the world `w'` (all calls made so far); the crashed run
continues as the chain from `(s', w')` and so does the uninterrupted one: what was executed before the checkpoint is in
`w'` once, and the continuation is the same function of `(s', w')` in both. -/
theorem C08_no_reexecution_no_skip {σ} (W : World σ) (is : Block) (fuel m n : Nat) (cs : List Nat) (s s' : St) (w w' : σ)
    (h : liveTop is s = true) (hr : runSteps W is n s w = .running s' w') :
    restoreTop E is (saveTop E is s') = .ok s' ∧
    runCrash E W is fuel (n :: cs) s w = runCrash E W is fuel cs s' w' ∧
    runChain W is (n + m) s w = runChain W is m s' w' := by
  have hl := runSteps_live W is n s w h hr
  have hrt := restoreTop_saveTop E is s' (liveTop_shapeTop hl)
  refine ⟨hrt, ?_, ?_⟩
  · simp only [runCrash, hr, hrt]
  · rw [runChain_add, hr]

/-- **plain processes**: the continuation (`run_fn` + `args` + `kwargs`, or `done_callback` + `msg` + `data`) and
everything a step can read of the process (inputs, outputs, status, paused flag) are restored exactly -/
theorem C08_continuation_persisted (ctx : Option Loader) (C : Cls) (v : View) (hE : E.ok ctx) (hs : savable C v = true)
    (v' : View) (h : load E C none (save E C ctx v) = .ok v') :
    v'.state = v.state ∧ v'.outputs = v.outputs ∧ v'.inputsParsed = v.inputsParsed ∧ v'.inputsRaw = v.inputsRaw ∧
    v'.paused = v.paused ∧ v'.status = v.status := by
  rw [load_save E ctx C v hE hs none (Or.inl rfl)] at h
  cases h; exact ⟨rfl, rfl, rfl, rfl, rfl, rfl⟩

/-! ### non-vacuity -/
section
private def demoE : Env := { glob := defaultLoader, find := fun _ => none, fnName := fun f => s!"s{f}" }
private def demoW : World (List Nat) where
  stepFn w f := (f :: w, .none)
  pred w p := ((100 + p) :: w, w.length < 9)
private def demo : Block := [.call 1, .while_ 0 [.call 2, .ite [(some 1, [.call 4, .call 5])]], .call 3]
example : liveTop demo (createBlock demo) = true := by decide +kernel
-- two crashes (after 2 and after 1 further `_do_step` calls), each inside the loop / the if-branch
example : runCrash demoE demoW demo 20 [2, 1] (createBlock demo) [] = runChain demoW demo 23 (createBlock demo) [] :=
  C08_resume_equiv_outline demoE demoW demo (by decide) 20 [2, 1] []
example : (runChain demoW demo 23 (createBlock demo) []).isSome = true := by decide +kernel
-- the checkpoints of that run are taken in nested states
example : (match runSteps demoW demo 2 (createBlock demo) [] with
    | .running (.node 1 (some (.node 0 (some (.node 1 (some _)))))) _ => true | _ => false) = true := by decide +kernel
end

end Persist
