import PlumpyModel.Persist.Resume
import PlumpyModel.Outline.Proof
import PlumpyModel.Persist.Proof6
import PlumpyModel.Persist.PlainView
/-!
# C08 — resuming from any checkpoint reproduces the uninterrupted execution

**Proved on the outline-chain model** (`Outline.stepB`, `Outline.doStep = WorkChain._do_step`, `Outline.runChain`, the
model that C09 proves to refine the structured-program semantics, with the stepper persistence of
`Persist.saveTop / restoreTop`): `C08_stepper_restore`, `C08_persisted_determines_future`, `C08_resume_equiv`,
`C08_no_reexecution_no_skip`.  The world `σ` and the oracle `W : World σ` (every step function and predicate is a
function of the world) are universally quantified; "steps depend only on persisted state" is the typing of `W`: the
world *is* the persisted state (the context), which C07 shows to be restored exactly, so it is handed over a crash
unchanged, while the stepper goes through save and restore.

**Plain processes** (chains of `Continue` / `Wait` commands) have no interpreter state: what runs next is the function
named by the RUNNING state with its `args` / `kwargs` (C13_activation_exact, C13_continue_exact) or the
`done_callback` of the WAITING state with the resume value (C13_wait_resume_exact).  `C08_continuation_persisted`
shows that exactly these members (and outputs, inputs, status, paused flag) survive save and load.  The composition is
**proved on the process-control model** `PMF` (`PM/Model.lean`, the model of C01–C06 / C13) at the end of this file
(namespace `PMF`): `Persist/Plain.lean` defines what a bundle keeps of a configuration (`saveCfg`), the fresh instance built
from it (`restoreCfg`) and histories of stepping-task callbacks and `resume` requests in which a callback may be cut at
step boundaries — checkpoint, abandon, restore, any number of times in a row (`CEv.tick cuts`, `crun`).
`C08_plain_resume_equiv`: for every program without `waitOn`, every such history and every placement of cuts at step
boundaries, the call traces of the abandoned instances up to their checkpoints followed by the trace of the last instance
are the trace of the uninterrupted history (`CEv.ref`: the same events without cuts), and the state objects agree;
`C08_plain_same_outcome`, `C08_plain_no_reexecution_no_skip`, `C08_plain_same_point`, `C08_plain_restore_at_boundary`;
`C08_plain_bundle_roundtrip` links `saveCfg` / `restoreCfg` to `Persist.save` / `Persist.load` of C07.
Hypothesis besides admissibility of the cuts: no callback of the uninterrupted run exhausts the model's fuel (`fuelOk`, as
in C05 / C06).  By the shape of `CEv.tick cuts` the stepping task of a restored instance gets its first callback before the
environment's next request (the harness creates the task on restore and runs it until quiescent before it wakes the process).  Not covered by the theorem: pause / play / kill requests in the history (C05 / C04 treat them without
crashes), work-chain steps that await futures (a WAITING state holding live awaitables cannot be saved, C07).  The tie to
the code is `pmodel restoreplain` (lean/Driver/PlainRestore.lean): every plain-process crash-restore chain of
harness/props/c08.py is also run through `crun` and compared (trace, final state, number of restores).
-/
namespace Persist
open Outline

variable (E : Env)

/-- **a restored stepper is the same state** (position, chosen branch and live child restored exactly, at any nesting
depth) **and denotes the same remaining program** -/
theorem C08_stepper_restore (is : Block) (s : St) (h : shapeB is s = true) :
    restoreB E is (saveB E is s) = .ok s ∧
    ∀ s', restoreB E is (saveB E is s) = .ok s' → absB is s' = absB is s := by
  refine ⟨restoreB_saveB E is s h, fun s' h' => ?_⟩
  rw [restoreB_saveB E is s h] at h'; cases h'; rfl

/-- the same for the top-level stepper of a work chain (a single instruction is its own stepper) -/
theorem C08_top_stepper_restore (is : Block) (s : St) (h : shapeTop is s = true) :
    restoreTop E is (saveTop E is s) = .ok s := restoreTop_saveTop E is s h

/-- a configuration of a running chain: the persisted part (stepper state, world) and whatever else lives in the
instance (event loop, futures, listeners, …) -/
structure Cfg (σ ρ : Type) where
  s : St
  w : σ
  runtime : ρ

def Cfg.persisted {σ ρ} (c : Cfg σ ρ) : St × σ := (c.s, c.w)

/-- **the persisted view determines the future**: two configurations with the same persisted view produce the same
calls and the same result.  With `Outline.runChain` this is immediate: the chain is a function of the stepper state and
the world, and the oracle `W` can read nothing else — which is the property's hypothesis "steps depend only on
persisted state". -/
theorem C08_persisted_determines_future {σ ρ} (W : World σ) (is : Block) (fuel : Nat) (c₁ c₂ : Cfg σ ρ)
    (h : c₁.persisted = c₂.persisted) : runChain W is fuel c₁.s c₁.w = runChain W is fuel c₂.s c₂.w := by
  simp only [Cfg.persisted, Prod.mk.injEq] at h
  rw [h.1, h.2]

/-- **resume equivalence for any list of crash points** (`cs` = numbers of `_do_step` calls between consecutive
checkpoints, any length): saving, abandoning and restoring the stepper at those step boundaries gives the result and
the final world (call trace, context) of the uninterrupted chain. -/
theorem C08_resume_equiv {σ} (W : World σ) (is : Block) (fuel : Nat) (cs : List Nat) (s : St) (w : σ)
    (h : liveTop is s = true) : runCrash E W is fuel cs s w = runChain W is (cs.sum + fuel) s w := by
  induction cs generalizing s w with
  | nil => simp [runCrash]
  | cons n cs ih =>
    have hadd : (n :: cs).sum + fuel = n + (cs.sum + fuel) := by simp [List.sum_cons]; omega
    rw [hadd, runChain_add]
    simp only [runCrash]
    cases hr : runSteps W is n s w with
    | running s' w' =>
      have hl := runSteps_live W is n s w h hr
      simp only [restoreTop_saveTop E is s' (liveTop_shapeTop hl)]
      exact ih s' w' hl
    | finished r w' => rfl
    | failed => rfl

/-- started on a whole outline -/
theorem C08_resume_equiv_outline {σ} (W : World σ) (is : Block) (hne : is ≠ []) (fuel : Nat) (cs : List Nat) (w : σ) :
    runCrash E W is fuel cs (createBlock is) w = runChain W is (cs.sum + fuel) (createBlock is) w :=
  C08_resume_equiv E W is fuel cs _ w (liveTop_createBlock is hne)

/-- **no step re-executed, none skipped**: at a checkpoint taken after `n` `_do_step` calls the restored stepper is
exactly the state `s'` the uninterrupted chain is in, with the world `w'` (all calls made so far); the crashed run
continues as the chain from `(s', w')` and so does the uninterrupted one: what was executed before the checkpoint is in
`w'` once, and the continuation is the same function of `(s', w')` in both. -/
theorem C08_no_reexecution_no_skip {σ} (W : World σ) (is : Block) (fuel m n : Nat) (cs : List Nat) (s s' : St) (w w' : σ)
    (h : liveTop is s = true) (hr : runSteps W is n s w = .running s' w') :
    restoreTop E is (saveTop E is s') = .ok s' ∧
    runCrash E W is fuel (n :: cs) s w = runCrash E W is fuel cs s' w' ∧
    runChain W is (n + m) s w = runChain W is m s' w' := by
  have hl := runSteps_live W is n s w h hr
  have hrt := restoreTop_saveTop E is s' (liveTop_shapeTop hl)
  refine ⟨hrt, ?_, ?_⟩
  · simp only [runCrash, hr, hrt]
  · rw [runChain_add, hr]

/-- **plain processes**: the continuation (`run_fn` + `args` + `kwargs`, or `done_callback` + `msg` + `data`) and
everything a step can read of the process (inputs, outputs, status, paused flag) are restored exactly -/
theorem C08_continuation_persisted (ctx : Option Loader) (C : Cls) (v : View) (hE : E.ok ctx) (hs : savable C v = true)
    (v' : View) (h : load E C none (save E C ctx v) = .ok v') :
    v'.state = v.state ∧ v'.outputs = v.outputs ∧ v'.inputsParsed = v.inputsParsed ∧ v'.inputsRaw = v.inputsRaw ∧
    v'.paused = v.paused ∧ v'.status = v.status := by
  rw [load_save E ctx C v hE hs none (Or.inl rfl)] at h
  cases h; exact ⟨rfl, rfl, rfl, rfl, rfl, rfl⟩

/-! ### non-vacuity -/
section
private def demoE : Env := { glob := defaultLoader, find := fun _ => none, fnName := fun f => s!"s{f}" }
private def demoW : World (List Nat) where
  stepFn w f := (f :: w, .none)
  pred w p := ((100 + p) :: w, w.length < 9)
private def demo : Block := [.call 1, .while_ 0 [.call 2, .ite [(some 1, [.call 4, .call 5])]], .call 3]
example : liveTop demo (createBlock demo) = true := by decide +kernel
-- two crashes (after 2 and after 1 further `_do_step` calls), each inside the loop / the if-branch
example : runCrash demoE demoW demo 20 [2, 1] (createBlock demo) [] = runChain demoW demo 23 (createBlock demo) [] :=
  C08_resume_equiv_outline demoE demoW demo (by decide) 20 [2, 1] []
example : (runChain demoW demo 23 (createBlock demo) []).isSome = true := by decide +kernel
-- the checkpoints of that run are taken in nested states
example : (match runSteps demoW demo 2 (createBlock demo) [] with
    | .running (.node 1 (some (.node 0 (some (.node 1 (some _)))))) _ => true | _ => false) = true := by decide +kernel
end

end Persist

/-! ## Plain processes: crash / restore in the process-control model -/
namespace PMF

/-- **resume equivalence for plain processes, any number of checkpoints anywhere**: `evs` is a history of callbacks of the
stepping task and `resume` requests; each callback may carry cuts `[n₁, …, n_k]` — after `n₁` completed steps the instance
is checkpointed, abandoned and restored from the bundle in a fresh configuration, the restored instance runs `n₂` steps and
is checkpointed, abandoned and restored again, … and the last instance runs its callback to the end.  If every cut is taken
at a step boundary (`cadm`: no step in flight, process live, nothing delivered to the wait future) then, compared with the
same history without cuts: (1) the calls of user code of all abandoned instances up to their checkpoints followed by those
of the running instance are exactly the calls of the uninterrupted run (function, positional and keyword arguments, in
order); (2) the state objects are equal up to the index of the wait future; (3) the process futures agree. -/
theorem C08_plain_resume_equiv (P : Prog) (hP : NoWaitOn P) (evs : List CEv)
    (hadm : cadm P cinit evs = true) (hfuel : fuelOk P (init 0) (evs.map CEv.ref) = true) :
    (crun P cinit evs).trace = (run P (init 0) (evs.map CEv.ref)).trace ∧
    SSim (crun P cinit evs).cur.st (run P (init 0) (evs.map CEv.ref)).st ∧
    (crun P cinit evs).cur.fut = (run P (init 0) (evs.map CEv.ref)).fut := by
  obtain ⟨⟨L, hL, hat⟩, _, _, _⟩ := crun_rel P hP evs cinit (init 0) relS_init hadm hfuel
  refine ⟨?_, hat.both.core.st.ssim, congrArg ShRec.fut hat.both.core.sh⟩
  have := hat.both.trace
  rw [ext_trace, hL] at this
  exact this

/-- **the outcome is the same**: when the uninterrupted run has terminated, the last instance of the run with crashes holds
the very same state object — FINISHED with the same result and success flag, EXCEPTED with the same exception, or
KILLED — and its future is resolved in the same way (and vice versa) -/
theorem C08_plain_same_outcome (P : Prog) (hP : NoWaitOn P) (evs : List CEv)
    (hadm : cadm P cinit evs = true) (hfuel : fuelOk P (init 0) (evs.map CEv.ref) = true) :
    (crun P cinit evs).cur.st.label = (run P (init 0) (evs.map CEv.ref)).st.label ∧
    (terminal (run P (init 0) (evs.map CEv.ref)).st.label = true →
      (crun P cinit evs).cur.st = (run P (init 0) (evs.map CEv.ref)).st ∧
      (crun P cinit evs).cur.fut = (run P (init 0) (evs.map CEv.ref)).fut) := by
  obtain ⟨_, h2, h3⟩ := C08_plain_resume_equiv P hP evs hadm hfuel
  refine ⟨h2.label, fun ht => ⟨?_, h3⟩⟩
  rcases h2 with ⟨heq, _⟩ | ⟨fn, wf, aw, wf', _, h⟩
  · exact heq
  · rw [h] at ht; simp [SObj.label, terminal, allowed] at ht

/-- **no step that completed before a checkpoint is executed again, none after it is skipped**: every call of user code
occurs in the instances of the run with crashes (abandoned ones counted up to their checkpoints) exactly as often as in the
uninterrupted run, and what the abandoned instances had executed when they were checkpointed is the oldest part of the
uninterrupted trace (traces are newest first), in the same order -/
theorem C08_plain_no_reexecution_no_skip (P : Prog) (hP : NoWaitOn P) (evs : List CEv)
    (hadm : cadm P cinit evs = true) (hfuel : fuelOk P (init 0) (evs.map CEv.ref) = true) :
    (∀ a : Act, ((crun P cinit evs).cur.trace.count a + (crun P cinit evs).past.count a) =
      (run P (init 0) (evs.map CEv.ref)).trace.count a) ∧
    (run P (init 0) (evs.map CEv.ref)).trace = (crun P cinit evs).cur.trace ++ (crun P cinit evs).past := by
  have h := (C08_plain_resume_equiv P hP evs hadm hfuel).1
  unfold CState.trace at h
  refine ⟨fun a => ?_, h.symm⟩
  rw [← h, List.count_append]

/-- **both runs are at the same point**: the stepping tasks agree on whether a step is in flight, the ENTERED logs end at
the same label, and nothing but the restored process's own ENTERED log / call trace was lost: the uninterrupted ENTERED log
ends with the log of the running instance -/
theorem C08_plain_same_point (P : Prog) (hP : NoWaitOn P) (evs : List CEv)
    (hadm : cadm P cinit evs = true) (hfuel : fuelOk P (init 0) (evs.map CEv.ref) = true) :
    (crun P cinit evs).cur.stepping = (run P (init 0) (evs.map CEv.ref)).stepping ∧
    (crun P cinit evs).cur.closed = (run P (init 0) (evs.map CEv.ref)).closed ∧
    (∃ older, (run P (init 0) (evs.map CEv.ref)).entered = (crun P cinit evs).cur.entered ++ older) ∧
    ((crun P cinit evs).cur.pc = .done ↔ (run P (init 0) (evs.map CEv.ref)).pc = .done) := by
  obtain ⟨⟨L, _, hat⟩, _, _, _⟩ := crun_rel P hP evs cinit (init 0) relS_init hadm hfuel
  refine ⟨hat.both.stepping, hat.both.closed, ⟨L.e, ?_⟩, ?_⟩
  · have := congrArg ShRec.entered hat.both.core.sh
    exact this.symm
  · have hp := hat.pc
    rw [ext_pc] at hp
    constructor
    · intro h; rw [h] at hp; exact hp
    · intro h
      cases hpc : (crun P cinit evs).cur.pc with
      | done => rfl
      | notStarted => rw [hpc] at hp; have : _ = Pc.notStarted := hp; rw [this] at h; cases h
      | crashed e => rw [hpc] at hp; have : _ = Pc.crashed e := hp; rw [this] at h; cases h
      | awaitPaused pf => rw [hpc] at hp; exact absurd hp (by simp [PcRelAt])
      | inUser b => rw [hpc] at hp; rw [hp.1] at h; cases h
      | awaitWaiting wf => rw [hpc] at hp; obtain ⟨_, _, _, _, _, _, hpd⟩ := hp; rw [hpd] at h; cases h

/-- **one restore, at any boundary** (the relation the whole-history theorem is built from): if the running instance `b`
(with the logs `L` of its predecessors put under its own) and the uninterrupted configuration `d` are between two steps and
agree up to the heap of wait futures, and `b` is at a step boundary, then the instance restored from `b`'s bundle — fresh
futures, stepping task not started, logs empty — is related to `d` in the same way once `b`'s own trace is put under it. -/
theorem C08_plain_restore_at_boundary (b d : Cfg) (L : Logs) (hm : BMid (ext b L) d) (hcl : Clean d) (hI : Inv d)
    (hb : boundary b = true) :
    ∃ L' : Logs, L'.t = b.trace ++ L.t ∧ BMid (ext (restoreCfg (saveCfg b)) L') d ∧
      (restoreCfg (saveCfg b)).pc = .notStarted :=
  restore_mid b d L hm hcl hI hb

/-- what a bundle carries is all a restored instance has: saving the restored instance gives the same bundle (C07 in the
process-control model), so a second checkpoint taken before the restored instance did anything is the first one -/
theorem C08_plain_save_restore_save (c : Cfg) : saveCfg (restoreCfg (saveCfg c)) = saveCfg c := by
  cases hst : c.st <;> cases hp : c.paused <;> simp [saveCfg, restoreCfg, saveSt, restoreSt, hst, hp]

/-- **what `restoreCfg` builds an instance from is what the persistence model's bundle keeps** (the link to C07): write the
process-control bundle `saveCfg c` of a plain process into a persisted view (`viewOf`: function / callback by name, `args`,
`kwargs`, result, exception through a coding `K` that is injective on what occurs; every other member from any savable view
`base`), save it with `Persist.save`, send it through a medium, load it with `Persist.load` — with the loader of the save
context or none: the view comes back, its process-control part read off by `savedOf` is `saveCfg c`, and the instance built
from it is `restoreCfg (saveCfg c)`.  `Persist.save` / `load` iterate the member sets and keys generated from the source, so
a member dropped from `_auto_persist` breaks this theorem through `load_save`. -/
theorem C08_plain_bundle_roundtrip (K : Codec) (E : Persist.Env) (ctx ctx' : Option Persist.Loader) (C : Persist.Cls)
    (hC : C.outline = none) (base : Persist.View) (hE : E.ok ctx) (hbase : Persist.savable C base = true)
    (hc : ctx' = none ∨ ctx' = ctx) (c : Cfg) (hctx : c.ctx = []) (hcov : K.covers (saveCfg c)) :
    ∃ v', Persist.load E C ctx' (Persist.Medium.pickle (Persist.save E C ctx (viewOf K base (saveCfg c)))) = .ok v' ∧
      savedOf K v' = some (saveCfg c) ∧ (savedOf K v').map restoreCfg = some (restoreCfg (saveCfg c)) := by
  refine ⟨viewOf K base (saveCfg c),
    Persist.load_save E ctx C _ hE (savable_viewOf K C hC base hbase (saveCfg c)) ctx' hc, ?_, ?_⟩
  · exact savedOf_viewOf K base (saveCfg c) hctx hcov
  · rw [savedOf_viewOf K base (saveCfg c) hctx hcov]; rfl

/-! ### non-vacuity -/
section
/-- `f0` continues with arguments, `f1` awaits once and waits for a wake-up, `f2(v)` continues, `f3` stops -/
private def plainDemo : Prog := fun fn a _ _ =>
  if fn = 0 then ⟨0, .ret (.cont 1 [4, 5] [(1, 6)])⟩ else if fn = 1 then ⟨1, .ret (.wait 2)⟩
  else if fn = 2 then ⟨0, .ret (.cont 3 a [])⟩ else ⟨0, .ret (.stop (some 9) true)⟩
example : NoWaitOn plainDemo := by
  intro fn a k x f aw
  unfold plainDemo
  split
  · intro h; cases h
  · split
    · intro h; cases h
    · split <;> intro h <;> cases h
/-- three restores: of the freshly created process, again at once, after its first step (inside the synchronous chain
f0 → f1), and — second callback — of the WAITING process; then the wake-up and two more restores inside the chain f2 → f3 -/
private def plainHist : List CEv := [.tick [0, 0, 2], .tick [0], .resume (some 7), .tick [0, 1]]
example : cadm plainDemo cinit plainHist = true := by decide +kernel
example : fuelOk plainDemo (init 0) (plainHist.map CEv.ref) = true := by decide +kernel
example : (crun plainDemo cinit plainHist).restores = 6 ∧ (crun plainDemo cinit plainHist).cur.st = .finished (some 9) true ∧
    ((crun plainDemo cinit plainHist).trace.map fun a => (a.fn, a.args)) = [(3, [7]), (2, [7]), (1, [4, 5]), (0, [])] ∧
    ((crun plainDemo cinit plainHist).cur.trace.map fun a => a.fn) = [3] := by decide +kernel
-- the bundle round trip: the process suspended in `f1(4, 5, k1=6)`, values interned by a table, default loader
private def demoK : Codec :=
  tableCodec [.args [], .kw [], .args [4, 5], .kw [(1, 6)], .res (some 9)] ["f0", "f1", "f2", "f3"]
private def demoEnv : Persist.Env := { glob := Persist.defaultLoader, find := fun _ => none, fnName := fun f => s!"s{f}" }
private def demoBase : Persist.View :=
  { Persist.blankView (.killed .none .none) with
    pid := .nat 7
    inputsParsed := some (.opaque "fd{a:i1}")
    outputs := [("t0", .opaque "[[],[]]")] }
example : (saveCfg (run plainDemo (init 0) [.tick])).st = .running 1 [4, 5] [(1, 6)] := by decide +kernel
example : demoK.covers (saveCfg (run plainDemo (init 0) [.tick])) := by
  refine ⟨?_, trivial⟩
  show (1 < 4 ∧ ["f0", "f1", "f2", "f3"].idxOf "f1" = 1) ∧
    Payload.args [4, 5] ∈ [Payload.args [], .kw [], .args [4, 5], .kw [(1, 6)], .res (some 9)] ∧
    Payload.kw [(1, 6)] ∈ [Payload.args [], .kw [], .args [4, 5], .kw [(1, 6)], .res (some 9)]
  decide
example : demoEnv.ok none := ⟨fun _ => rfl, fun _ h => by cases h⟩
example : Persist.savable { name := "GenP", outline := none } demoBase = true := by decide
-- a cut inside a step that is in flight is not admissible
example : cadm plainDemo cinit [.tick [3]] = false := by decide +kernel
end

end PMF

