import PlumpyModel.Comms.Model
namespace Comms
theorem C16_placeholder : True := trivial
end Comms
