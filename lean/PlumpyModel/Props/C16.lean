import PlumpyModel.Comms.Proof
/-!
# C16 — remote control equals direct control; each transition announced once, in order

Model: `PlumpyModel/Comms/Model.lean` (handlers, `_schedule_rpc`, subscriptions/cleanups, `on_entered` broadcasting with an
oracle per transition index) on top of the process-control model `PMF`.  Helper lemmas: `Comms/ProofPM.lean`, `Comms/Proof.lean`.

Honest reading guide.  `C16_rpc_is_direct_call`, `C16_broadcast_is_direct_call`, `C16_status_is_direct_call` and
`C16_unknown_intent_rejected` are close to definitional *in the model*: the model's scheduled callback is written as "run the
direct call"; what they add is that nothing else of the configuration moves and what the reply slot holds.  Their substance is the
correspondence check, which compares the real `LoopCommunicator` path with a twin process receiving the direct call.
`C16_broadcast_log_exact`, `C16_tolerated_failure_invisible` and `C16_unsubscribed_after_termination` are invariants over every
history and rest on two facts proved about every event of `PMF` (the entered log grows only at its head; terminated ⇒ closed).
The generated tables are pinned by `C16_dispatch_tables`, `C16_tolerated_kinds`, `C16_subject_format`, `C16_status_fields`,
`C16_own_announcements_filtered`: a change of the source that changes one of them breaks that theorem.
-/
namespace Comms
open PMF

/-! ### the tables found in the source say what the property says -/

/-- the `if` chains of `message_receive` / `broadcast_receive` map each intent to the method of the same name; `status` is an
    RPC only -/
theorem C16_dispatch_tables :
    dispatch Gen.rpcDispatch "play" = some .play ∧ dispatch Gen.rpcDispatch "pause" = some .pause ∧
    dispatch Gen.rpcDispatch "kill" = some .kill ∧ dispatch Gen.rpcDispatch "status" = some .status ∧
    dispatch Gen.broadcastDispatch "play" = some .play ∧ dispatch Gen.broadcastDispatch "pause" = some .pause ∧
    dispatch Gen.broadcastDispatch "kill" = some .kill ∧ dispatch Gen.broadcastDispatch "status" = none := by decide

/-- the tolerated kinds are closed connection, invalid channel, timeout -/
theorem C16_tolerated_kinds :
    Gen.toleratedBroadcastFailures = ["ConnectionClosed", "ChannelInvalidStateError", "TimeoutError"] := by decide

/-- the subject is `state_changed.<from>.<to>` -/
theorem C16_subject_format (frm : Option Label) (to : Label) :
    subject frm to = "state_changed." ++ labelStr frm ++ "." ++ to.name := by
  simp [subject, Gen.stateChangedSubject, String.join]

/-- the status reply carries the state and the paused flag -/
theorem C16_status_fields : "state" ∈ Gen.statusInfoKeys ∧ "paused" ∈ Gen.statusInfoKeys := by decide

/-- the process's own broadcast subscription filters out `state_changed…` subjects, and nothing else -/
theorem C16_own_announcements_filtered :
    filterPrefix = some "state_changed" ∧ filteredOut "state_changed.running.finished" = true ∧
    filteredOut "pause" = false ∧ filteredOut "play" = false ∧ filteredOut "kill" = false := by decide +kernel

/-! ### remote control is the direct call, run as its own callback -/

/-- **RPC pause / play / kill = direct call** (clause 1).  For every configuration in which the callback scheduled by
`_schedule_rpc` for message `id` is pending: running it (`Ev.call id`) leaves the process and the process's side of the
communicator exactly as the direct call made at that point (`Ev.pm e`) does — including every state-change broadcast and the
cleanups — the handler's return value is the direct call's, and the reply slot of the message holds that return value
(read through `resolve`: a plain value at once, an action by its eventual outcome, see `C16_reply_is_unwrapped_result`). -/
theorem C16_rpc_is_direct_call (O : Oracle) (P : Prog) (c : Cfg) (id : Nat) (k : Call) (e : PMF.Ev)
    (hf : c.ch.failed = none) (hs : c.calls.find? (·.id = id) = some ⟨id, false, k⟩) (hk : evOf k = some e) :
    (step O P c (.call id)).1.p = (step O P c (.pm e)).1.p ∧
    (step O P c (.call id)).1.ch = (step O P c (.pm e)).1.ch ∧
    (step O P c (.call id)).1.inbox = c.inbox ∧
    ∃ r, (step O P c (.pm e)).2 = .ret r ∧ (step O P c (.call id)).2 = .called k r ∧
      (step O P c (.call id)).1.replies = c.replies.map (fun x => if x.1 = id then (id, .ret r) else x) := by
  have hd : PMF.step P c.p e = direct k c.p := by
    cases k <;> simp [evOf] at hk <;> subst hk <;> rfl
  simp [step, hf, hs, hd, runPM, setReply]

/-- the reply a sender reads is the unwrapped result of the direct call: a boolean as it is; an action `True` once it ran,
    cancelled if it was superseded, pending until then; an exception of the call as an error -/
theorem C16_reply_is_unwrapped_result (p : PMF.Cfg) (r : RetV) :
    replyVal p (.ret r) = resolve p r ∧
    (∀ b, resolve p (.bool b) = .bool b) ∧
    (∀ i, actionStatus p i = .done → resolve p (.action i) = .bool true) ∧
    (∀ i, actionStatus p i = .cancelled → resolve p (.action i) = .cancelled) ∧
    (∀ i, actionStatus p i = .pending → resolve p (.action i) = .pending) := by
  refine ⟨rfl, fun _ => rfl, ?_, ?_, ?_⟩ <;> intro i h <;> simp [resolve, h]

/-- the handler itself (`message_receive` for pause/play/kill) only schedules: the process is untouched until the callback runs -/
theorem C16_handler_only_schedules (O : Oracle) (P : Prog) (c : Cfg) (id : Nat) (w : String) (k : Call)
    (hf : c.ch.failed = none) (hm : c.inbox.find? (·.id = id) = some ⟨id, false, w⟩)
    (hd : dispatch Gen.rpcDispatch w = some k) (hk : k ≠ .status) :
    (step O P c (.recv id)).1.p = c.p ∧ (step O P c (.recv id)).1.ch = c.ch ∧
    (step O P c (.recv id)).1.replies = c.replies ∧
    (step O P c (.recv id)).1.calls = c.calls ++ [⟨id, false, k⟩] ∧ (step O P c (.recv id)).2 = .scheduled k := by
  cases k <;> simp_all [step, messageReceive]

/-- **RPC status = direct call**: the reply is the status at the point where the handler runs, nothing changes -/
theorem C16_status_is_direct_call (O : Oracle) (P : Prog) (c : Cfg) (id : Nat)
    (hf : c.ch.failed = none) (hm : c.inbox.find? (·.id = id) = some ⟨id, false, "status"⟩) :
    (step O P c (.recv id)).1.p = c.p ∧ (step O P c (.recv id)).1.ch = c.ch ∧
    (step O P c (.recv id)).1.calls = c.calls ∧
    (step O P c (.recv id)).2 = (step O P c .status).2 ∧
    (step O P c (.recv id)).1.replies =
      c.replies.map (fun x => if x.1 = id then (id, .status c.p.st.label c.p.paused.isSome) else x) := by
  have hd : dispatch Gen.rpcDispatch "status" = some .status := by decide
  simp [step, hf, hm, messageReceive, hd, setReply, statusObs]

/-- **broadcast pause / play / kill = direct call** (clause 1, broadcast variants): same effect as the direct call; there is no
    reply channel, so the reply table is untouched -/
theorem C16_broadcast_is_direct_call (O : Oracle) (P : Prog) (c : Cfg) (id : Nat) (k : Call) (e : PMF.Ev)
    (hf : c.ch.failed = none) (hs : c.calls.find? (·.id = id) = some ⟨id, true, k⟩) (hk : evOf k = some e) :
    (step O P c (.call id)).1.p = (step O P c (.pm e)).1.p ∧
    (step O P c (.call id)).1.ch = (step O P c (.pm e)).1.ch ∧
    (step O P c (.call id)).1.replies = c.replies ∧
    ∃ r, (step O P c (.pm e)).2 = .ret r ∧ (step O P c (.call id)).2 = .called k r := by
  have hd : PMF.step P c.p e = direct k c.p := by
    cases k <;> simp [evOf] at hk <;> subst hk <;> rfl
  simp [step, hf, hs, hd, runPM]

/-- which broadcasts are honoured: a subject that is the wire value of `play`, `pause` or `kill` schedules that call; any other
    subject (including `status`) is ignored and changes nothing -/
theorem C16_broadcast_receive (O : Oracle) (P : Prog) (c : Cfg) (id : Nat) (w : String)
    (hf : c.ch.failed = none) (hm : c.inbox.find? (·.id = id) = some ⟨id, true, w⟩) :
    (step O P c (.recv id)).1.p = c.p ∧ (step O P c (.recv id)).1.ch = c.ch ∧
    (step O P c (.recv id)).1.replies = c.replies ∧
    ((∃ k, dispatch Gen.broadcastDispatch w = some k ∧ k ≠ .status ∧
        (step O P c (.recv id)).1.calls = c.calls ++ [⟨id, true, k⟩]) ∨
     ((dispatch Gen.broadcastDispatch w = none ∨ dispatch Gen.broadcastDispatch w = some .status) ∧
        (step O P c (.recv id)).1.calls = c.calls ∧ (step O P c (.recv id)).2 = .ignored)) := by
  simp only [step, hf, hm, Option.isSome_none, Bool.false_eq_true, if_false, if_true, broadcastReceive]
  cases hd : dispatch Gen.broadcastDispatch w with
  | none => simp
  | some k => cases k <;> simp

/-! ### each completed transition is announced exactly once, in order -/

/-- **broadcast log exact** (clause 2).  For every program, every broadcast oracle and every history of process callbacks,
direct calls, messages and their handlers, as long as no non-tolerated exception escaped `on_entered`: `on_entered` ran exactly
once per entry of the entered-states log, and the broadcasts that went out are, in order (both logs newest first), exactly
`owed pid entered` — one announcement per entry, with subject `state_changed.<entry before it>.<entry>` (`None` for the first),
sender the process id, index its position — minus those at which the oracle made `broadcast_send` fail. -/
theorem C16_broadcast_log_exact (O : Oracle) (P : Prog) (nfut : Nat) (pid : String) (evs : List Ev)
    (hf : (run O P (create O nfut pid) evs).ch.failed = none) :
    (run O P (create O nfut pid) evs).ch.announced = (run O P (create O nfut pid) evs).p.entered.length ∧
    (run O P (create O nfut pid) evs).ch.blog =
      (owed pid (run O P (create O nfut pid) evs).p.entered).filter (okAt O) := by
  have hc : (create O nfut pid).ch.failed = none := by
    cases hx : (create O nfut pid).ch.failed with
    | none => rfl
    | some v =>
      have := run_of_failed O P evs (create O nfut pid) (by simp [hx])
      rw [this, hx] at hf; cases hf
  have g := run_good O P evs _ (create_good O nfut pid hc) hf
  have hp : (run O P (create O nfut pid) evs).ch.pid = pid := by rw [run_pid, create_pid]
  exact ⟨g.ann.count, by rw [g.ann.blog, hp]⟩

/-- what is owed, spelled out: per entered state one announcement, subject `state_changed.<from>.<to>`, sent by the pid -/
theorem C16_owed_spec (pid : String) (b : Label) (rest : List Label) :
    owed pid (b :: rest) =
      ⟨rest.length, "state_changed." ++ labelStr rest.head? ++ "." ++ b.name, pid⟩ :: owed pid rest := by
  simp [owed, C16_subject_format]

/-- without failures every transition is announced: the log *is* what is owed — exactly once each, in order -/
theorem C16_each_transition_announced_once (P : Prog) (nfut : Nat) (pid : String) (evs : List Ev) :
    (run allOk P (create allOk nfut pid) evs).ch.failed = none ∧
    (run allOk P (create allOk nfut pid) evs).ch.blog = owed pid (run allOk P (create allOk nfut pid) evs).p.entered := by
  have q : Quiet allOk := fun _ => Or.inl rfl
  have s := (run_sim allOk allOk q q P evs _ _ (create_sim allOk allOk q q nfut pid)).1
  refine ⟨s.ok, ?_⟩
  rw [(C16_broadcast_log_exact allOk P nfut pid evs s.ok).2]
  apply List.filter_eq_self.mpr
  intro b _; rfl

/-! ### a tolerated broadcast failure never disturbs the process -/

/-- **tolerated failure invisible** (clause 3).  For every transition index `i`, every tolerated kind (from the `except` clauses
found in the source), every program and every history: the run in which `broadcast_send` fails with that kind at transition `i`
never lets an exception escape, ends in the same process configuration, with the same messages in flight, the same replies, the
same subscriptions, and produced the same observation after every event as the failure-free run; the broadcast log is the
failure-free log without the entry of transition `i`. -/
theorem C16_tolerated_failure_invisible (i : Nat) (cls : String) (hc : cls ∈ Gen.toleratedBroadcastFailures)
    (P : Prog) (nfut : Nat) (pid : String) (evs : List Ev) :
    (run (failAt i cls) P (create (failAt i cls) nfut pid) evs).ch.failed = none ∧
    (run (failAt i cls) P (create (failAt i cls) nfut pid) evs).p = (run allOk P (create allOk nfut pid) evs).p ∧
    (run (failAt i cls) P (create (failAt i cls) nfut pid) evs).inbox = (run allOk P (create allOk nfut pid) evs).inbox ∧
    (run (failAt i cls) P (create (failAt i cls) nfut pid) evs).calls = (run allOk P (create allOk nfut pid) evs).calls ∧
    (run (failAt i cls) P (create (failAt i cls) nfut pid) evs).replies = (run allOk P (create allOk nfut pid) evs).replies ∧
    erase (run (failAt i cls) P (create (failAt i cls) nfut pid) evs).ch = erase (run allOk P (create allOk nfut pid) evs).ch ∧
    trace (failAt i cls) P (create (failAt i cls) nfut pid) evs = trace allOk P (create allOk nfut pid) evs ∧
    (run (failAt i cls) P (create (failAt i cls) nfut pid) evs).ch.blog =
      (run allOk P (create allOk nfut pid) evs).ch.blog.filter (fun b => b.idx ≠ i) := by
  have q1 := quiet_failAt i cls hc
  have q2 : Quiet allOk := fun _ => Or.inl rfl
  have h := run_sim (failAt i cls) allOk q1 q2 P evs _ _ (create_sim (failAt i cls) allOk q1 q2 nfut pid)
  refine ⟨h.1.ok, h.1.p, h.1.inbox, h.1.calls, h.1.replies, h.1.ch, h.2, ?_⟩
  have hb := (C16_each_transition_announced_once P nfut pid evs).2
  rw [(C16_broadcast_log_exact (failAt i cls) P nfut pid evs h.1.ok).2, hb, h.1.p]
  apply List.filter_congr
  intro b _
  by_cases hbi : b.idx = i <;> simp [okAt, failAt, isOk, hbi]

/-- `erase` forgets only the broadcast log: equality of erased channels is equality of the subscriptions, the cleanups, the
    transition counter and the failure flag -/
theorem C16_erase_spec (a b : Chan) (h : erase a = erase b) :
    a.pid = b.pid ∧ a.subRpc = b.subRpc ∧ a.subBc = b.subBc ∧ a.cleanups = b.cleanups ∧ a.announced = b.announced ∧
    a.failed = b.failed := by
  have h1 := congrArg Chan.pid h
  have h2 := congrArg Chan.subRpc h
  have h3 := congrArg Chan.subBc h
  have h4 := congrArg Chan.cleanups h
  have h5 := congrArg Chan.announced h
  have h6 := congrArg Chan.failed h
  exact ⟨h1, h2, h3, h4, h5, h6⟩

/-! ### a terminated process no longer receives messages -/

/-- **unsubscribed after termination** (clause 4).  In every reachable configuration (no escaped exception): a closed process
has no subscription left (the cleanups registered by `init` ran); a terminated process is closed; hence an RPC to it is
unroutable and a broadcast finds no subscriber, and neither changes anything. -/
theorem C16_unsubscribed_after_termination (O : Oracle) (P : Prog) (nfut : Nat) (pid : String) (evs : List Ev)
    (hf : (run O P (create O nfut pid) evs).ch.failed = none) :
    ((run O P (create O nfut pid) evs).p.closed = true →
        (run O P (create O nfut pid) evs).ch.subRpc = false ∧ (run O P (create O nfut pid) evs).ch.subBc = false) ∧
    (terminal (run O P (create O nfut pid) evs).p.st.label = true →
        (run O P (create O nfut pid) evs).p.closed = true ∧
        ∀ w, step O P (run O P (create O nfut pid) evs) (.rpc w) = (run O P (create O nfut pid) evs, .unroutable) ∧
             step O P (run O P (create O nfut pid) evs) (.bcast w) = (run O P (create O nfut pid) evs, .nosub)) := by
  have hc : (create O nfut pid).ch.failed = none := by
    cases hx : (create O nfut pid).ch.failed with
    | none => rfl
    | some v =>
      have := run_of_failed O P evs (create O nfut pid) (by simp [hx])
      rw [this, hx] at hf; cases hf
  have g := run_good O P evs _ (create_good O nfut pid hc) hf
  refine ⟨g.closed, fun ht => ?_⟩
  have hcl := g.tc ht
  have hs := g.closed hcl
  refine ⟨hcl, fun w => ?_⟩
  simp [step, hf, hs.1, hs.2]

/-! ### unknown intents -/

/-- **unknown intent rejected**: an RPC whose intent is none of the four wire values makes `message_receive` raise
(`RuntimeError`, the class found in the source); the error is the reply; process, communicator side and scheduled calls are
untouched. -/
theorem C16_unknown_intent_rejected (O : Oracle) (P : Prog) (c : Cfg) (id : Nat) (w : String)
    (hf : c.ch.failed = none) (hm : c.inbox.find? (·.id = id) = some ⟨id, false, w⟩)
    (h1 : w ≠ "play") (h2 : w ≠ "pause") (h3 : w ≠ "kill") (h4 : w ≠ "status") :
    (step O P c (.recv id)).2 = .rejected "RuntimeError" ∧
    (step O P c (.recv id)).1.p = c.p ∧ (step O P c (.recv id)).1.ch = c.ch ∧ (step O P c (.recv id)).1.calls = c.calls ∧
    (step O P c (.recv id)).1.replies = c.replies.map (fun x => if x.1 = id then (id, .exc "RuntimeError") else x) := by
  have hd : dispatch Gen.rpcDispatch w = none := by
    simp [dispatch, Gen.rpcDispatch, wireOf, Gen.intents, List.find?, Ne.symm h1, Ne.symm h2, Ne.symm h3, Ne.symm h4]
  simp [step, hf, hm, messageReceive, hd, setReply, Gen.rpcUnknownIntentRaises]

/-! ### non-vacuity: the hypotheses are satisfiable on concrete, non-trivial histories -/

section Examples

/-- an async program; a pause RPC is sent after the first callback, its handler and its scheduled call run inside the step -/
def exEvs : List Ev := [.pm .tick, .rpc "pause", .recv 0, .call 0, .pm .tick, .pm .tick, .pm .tick]
def exCfg : Cfg := run allOk (progOf "Async2") (create allOk 0 "pid") [.pm .tick, .rpc "pause", .recv 0]

-- C16_rpc_is_direct_call applies: the scheduled call of message 0 is pending, nothing failed, and the call is a pause in a step
example : exCfg.ch.failed = none ∧ exCfg.calls.find? (·.id = 0) = some ⟨0, false, .pause⟩ ∧ evOf .pause = some .pause ∧
    exCfg.p.stepping = true := by decide +kernel
-- … and the reply is then an action whose eventual outcome is True, the process ends up paused
example : (run allOk (progOf "Async2") (create allOk 0 "pid") exEvs).p.paused.isSome = true ∧
    ((run allOk (progOf "Async2") (create allOk 0 "pid") exEvs).replies.map
      (fun e => replyVal (run allOk (progOf "Async2") (create allOk 0 "pid") exEvs).p e.2)) = [.bool true] := by
  decide +kernel
-- C16_broadcast_is_direct_call applies: a kill broadcast whose call is pending
example : (run allOk (progOf "Async2") (create allOk 0 "pid") [.pm .tick, .bcast "kill", .recv 0]).calls.find? (·.id = 0)
    = some ⟨0, true, .kill⟩ := by decide +kernel
-- C16_status_is_direct_call / C16_unknown_intent_rejected apply: such messages sit in the inbox
example : (run allOk (progOf "Waiter") (create allOk 0 "pid") [.rpc "status", .rpc "bogus"]).inbox =
    [⟨0, false, "status"⟩, ⟨1, false, "bogus"⟩] := by decide +kernel
-- C16_broadcast_log_exact on a run with four transitions, one of which fails in a tolerated way: three announcements
example : (run (failAt 2 "TimeoutError") (progOf "Sync2") (create (failAt 2 "TimeoutError") 0 "pid") [.pm .tick]).ch.failed
      = none ∧
    ((run (failAt 2 "TimeoutError") (progOf "Sync2") (create (failAt 2 "TimeoutError") 0 "pid") [.pm .tick]).ch.blog.map
      (·.subject)) = ["state_changed.running.finished", "state_changed.created.running", "state_changed.None.created"] ∧
    (run (failAt 2 "TimeoutError") (progOf "Sync2") (create (failAt 2 "TimeoutError") 0 "pid") [.pm .tick]).p.entered
      = [.finished, .running, .running, .created] := by decide +kernel
-- C16_tolerated_failure_invisible: the tolerated kinds exist
example : "ConnectionClosed" ∈ Gen.toleratedBroadcastFailures ∧ "TimeoutError" ∈ Gen.toleratedBroadcastFailures := by decide
-- a non-tolerated exception does escape (so `failed = none` is a real hypothesis, and the model stops there)
example : (run (failAt 1 "ValueError") (progOf "Sync2") (create (failAt 1 "ValueError") 0 "pid") [.pm .tick]).ch.failed
    = some 1 := by decide +kernel
-- C16_unsubscribed_after_termination: a run that terminates; before it, both subscriptions exist
example : terminal (run allOk (progOf "Sync2") (create allOk 0 "pid") [.pm .tick]).p.st.label = true ∧
    (create allOk 0 "pid").ch.subRpc = true ∧ (create allOk 0 "pid").ch.subBc = true := by decide +kernel

end Examples

end Comms
