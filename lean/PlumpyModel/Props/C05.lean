import PlumpyModel.PM.Proof3
import PlumpyModel.PM.Proof12
import PlumpyModel.PM.Proof14
import PlumpyModel.PM.Proof15
import PlumpyModel.PM.Proof16
import PlumpyModel.PM.Proof18
import PlumpyModel.PM.Proof13
import PlumpyModel.PM.LProof12
import PlumpyModel.Status.Model
/-!
# C05 — pause/play is transparent: nothing runs while paused

Model: `PMF`.  Every activation of a step function or continuation is logged in `Cfg.trace` together with the value of
`paused` at the moment it starts.

Transparency itself ("the executed steps, the context and the final result are those of the uninterrupted run") is proved
below as a simulation between the run with pause/play requests and the run of its *reference history* (the same history
without pause and play and without some of its ticks; in the fourth class some ticks are also moved later), for four nested
classes of histories of ticks, pause and play requests placed anywhere, and wake-up requests (`resume`, completion of an
awaited future, its done-callback, `call_soon`, a non-raising callback) placed
* at moments at which no pause is in effect (`C05_transparent_partial`, `PM/Proof12.lean`);
* also while the process is held by a pause on a wait (`C05_transparent_partial2`, `PM/Proof14.lean`);
* also between a pause request that interrupted a pending wait and the next tick (`C05_transparent_partial3`,
  `PM/Proof16.lean`; fuel hypothesis with one iteration of slack);
* also — `resume`, `call_soon`, non-raising callbacks, the completion of futures the state just left did not await — while the
  process is held at a step boundary in CREATED or RUNNING (`C05_transparent_partial4`, `PM/Proof17.lean`, `Proof18.lean`): the
  reference run is then ahead by the next step, and the reference history delivers those requests *before* the tick that ended
  the previous step, by deferring that tick.
Still excluded: during such a hold, the completion of a future that the state just left awaited and the run of a done-callback;
histories with kill / fail / cancel / failing callbacks.  The unrestricted statement `C05_transparent_full` is **false** as it stands
(`C05_transparent_full_false`, `PM/Proof15.lean`: a program that awaits one future under two context keys — the real
`to_context` keeps one key per future); the statement to aim at is `C05_transparent_full_distinct`.  The interleavings outside
the proved classes are decided by the Python monitor `c05-transparent` only.
-/
namespace PMF

/-- `pause()` and `play()` never raise, in any configuration -/
theorem C05_pause_total (c : Cfg) (e : Exc) : (pause c).2 ≠ .raised e := by
  unfold pause
  split
  · simp
  · split
    · simp
    · split
      · simp
      · split
        · simp
        · split
          · dsimp only; split <;> simp
          · simp

theorem C05_play_total (c : Cfg) (e : Exc) : (play c).2 ≠ .raised e := by
  unfold play
  split
  · split <;> simp
  · simp

/-- **no user code while paused**: for every user program and every history of ticks, scheduled callbacks and
pause / play / kill / resume / fail / call_soon / cancel / complete requests, no step function or continuation is ever
started while the process reports paused. -/
theorem C05_nothing_runs_while_paused (P : Prog) (nf : Nat) (evs : List Ev) :
    ∀ a ∈ (run P (init nf) evs).trace, a.paused = false :=
  C05_no_user_code_while_paused P nf evs

theorem cancelAction_paused (c : Cfg) (i : Nat) : (cancelAction c i).paused = c.paused := by
  unfold cancelAction
  split
  · unfold setActionStatus; split <;> rfl
  · rfl

/-- `play()` always returns `True` and leaves the process un-paused -/
theorem C05_play_unpauses (c : Cfg) : (play c).1.paused = none ∧ (play c).2 = .bool true := by
  unfold play
  split
  · rename_i hp
    split
    · refine ⟨?_, rfl⟩
      show (cancelAction c _).paused = none
      rw [cancelAction_paused]; exact hp
    · exact ⟨hp, rfl⟩
  · exact ⟨rfl, rfl⟩

/-- `play()` cancels a pause that has not yet taken effect: no pause request stays pending -/
theorem C05_play_cancels_pending_pause (c : Cfg) (hp : c.paused = none) :
    (play c).1.pausing = none ∧ ∀ i, c.pausing = some i → actionStatus (play c).1 i ≠ .pending := by
  unfold play
  simp only [hp]
  split
  · rename_i i hi
    refine ⟨rfl, ?_⟩
    intro j hj
    rw [hi] at hj; cases hj
    show actionStatus (cancelAction c i) i ≠ .pending
    unfold cancelAction
    split
    · rename_i hpend
      unfold setActionStatus
      cases ha : c.actions[i]? with
      | none => simp [actionStatus, ha] at hpend
      | some a =>
        simp only [actionStatus, setAt, List.getElem?_set]
        have hlt : i < c.actions.length := (List.getElem?_eq_some_iff.mp ha).1
        simp [hlt]
    · assumption
  · rename_i hq
    exact ⟨hq, by intro i hi; rw [hq] at hi; cases hi⟩

/-! ### transparency as a simulation

`unpaused P c evs` is the *reference history* of a history `evs` with pauses started in `c`: every `pause` and `play` is
dropped, and so is every `tick` that finds the stepping task suspended on a pause future (`evImage`).  `Sim P c d` relates a
configuration `c` of the run with pauses to a configuration `d` of the reference run; it is a disjunction of three phases:

* `InStep`: both runs are at the same point of the same step (same state object up to the index of the wait future, same
  trace, context, process future, logs, scheduled callbacks, stepping flag and program counter); a pause may have been
  requested but has not taken effect;
* `QW`: as before, but the pause request hit a pending wait: the run with pauses has interrupted its wait future and will
  re-arm the wait at its next tick;
* `Lag`: the run with pauses is suspended on a pause future, and the reference run is what the loop of
  `step_until_terminated` makes of that very configuration (it is ahead by the steps the other one still has to run). -/

/-- **transparency (partial): the run with pauses is simulated by the run of its reference history.**
For every program, every number of awaited futures and every history `evs` consisting of ticks, `pause` and `play` requests
at arbitrary positions, and `resume` / `complete` / awaitable-done / `call_soon` / non-raising-callback events at quiet
positions (`quiet`: the stepping task is
not suspended on a pause future, and the current wait was not interrupted by a pause request that the stepping task has
still to notice; a pause may be requested but not yet in effect) — `admissible`; no kill, fail, cancel, failing callback —, the
configuration reached by `evs` and the configuration reached by the reference history `unpaused … evs` (no pause, no play,
fewer ticks) are related by `Sim` — provided no tick of the reference run exhausts the fuel of the model's step loop
(`fuelOk`: the real code would not terminate there).

Missing with respect to `C05_transparent_full`: wake-up requests that arrive while the process is held by a pause (or
released by play but the stepping task not yet woken), or between a pause request that interrupted a pending wait and the
next tick; histories with kill / fail / cancel / a failing scheduled callback. -/
theorem C05_transparent_partial (P : Prog) (nf : Nat) (evs : List Ev)
    (hadm : admissible P (init nf) evs = true)
    (hfuel : fuelOk P (init nf) (unpaused P (init nf) evs) = true) :
    Sim P (run P (init nf) evs) (run P (init nf) (unpaused P (init nf) evs)) :=
  run_sim P evs _ _ (sim_init P nf) (invP_init nf) (inv_init nf) hadm hfuel

/-- **same steps, same context, same result (partial)**: under the hypotheses of `C05_transparent_partial`, if the run with
pauses has terminated then the run without any pause or play request has terminated in the *same state object* (result and
success flag, or exception, or killed), having executed the same sequence of step functions with the same arguments and
keyword arguments (none of them while paused, on either side), with the same context, the same process future, the same log
of entered states, the same cleanups and — apart from the paused/played notifications themselves — the same listener
notifications. -/
theorem C05_same_result_partial (P : Prog) (nf : Nat) (evs : List Ev)
    (hadm : admissible P (init nf) evs = true)
    (hfuel : fuelOk P (init nf) (unpaused P (init nf) evs) = true)
    (hterm : terminal (run P (init nf) evs).st.label = true) :
    (run P (init nf) (unpaused P (init nf) evs)).st = (run P (init nf) evs).st ∧
    (run P (init nf) (unpaused P (init nf) evs)).trace = (run P (init nf) evs).trace ∧
    (run P (init nf) (unpaused P (init nf) evs)).ctx = (run P (init nf) evs).ctx ∧
    (run P (init nf) (unpaused P (init nf) evs)).fut = (run P (init nf) evs).fut ∧
    (run P (init nf) (unpaused P (init nf) evs)).entered = (run P (init nf) evs).entered ∧
    (run P (init nf) (unpaused P (init nf) evs)).cleanups = (run P (init nf) evs).cleanups ∧
    (run P (init nf) (unpaused P (init nf) evs)).notif.filter notPP = (run P (init nf) evs).notif.filter notPP ∧
    (∀ a ∈ (run P (init nf) evs).trace, a.paused = false) := by
  obtain ⟨h1, h2⟩ := (C05_transparent_partial P nf evs hadm hfuel).of_terminal hterm
  obtain ⟨g1, g2, g3, g4, g5, g6, g7, g8, g9, g10, g11, g12, g13, g14, g15⟩ := sh_fields h2
  exact ⟨h1, g12, g9, g2, g11, g5, g14, C05_nothing_runs_while_paused P nf evs⟩

/-- **at every quiet moment both runs are at the same point (partial)**: under the same hypotheses, whenever the stepping
task of the run with pauses is not suspended on a pause future and its current wait is not interrupted (in particular:
before the first pause takes effect, and after a play once the stepping task has been woken), the reference run is in the
same state (up to the index of the wait future), with the same trace, context, stepping flag, scheduled callbacks and
awaited futures. -/
theorem C05_same_point_when_quiet_partial (P : Prog) (nf : Nat) (evs : List Ev)
    (hadm : admissible P (init nf) evs = true)
    (hfuel : fuelOk P (init nf) (unpaused P (init nf) evs) = true)
    (hq : quiet (run P (init nf) evs) = true) :
    SSim (run P (init nf) evs).st (run P (init nf) (unpaused P (init nf) evs)).st ∧
    (run P (init nf) (unpaused P (init nf) evs)).trace = (run P (init nf) evs).trace ∧
    (run P (init nf) (unpaused P (init nf) evs)).ctx = (run P (init nf) evs).ctx ∧
    (run P (init nf) (unpaused P (init nf) evs)).stepping = (run P (init nf) evs).stepping ∧
    (run P (init nf) (unpaused P (init nf) evs)).ready = (run P (init nf) evs).ready ∧
    (run P (init nf) (unpaused P (init nf) evs)).efs = (run P (init nf) evs).efs := by
  obtain ⟨h1, h2⟩ := (C05_transparent_partial P nf evs hadm hfuel).at_quiet hq
  obtain ⟨g1, g2, g3, g4, g5, g6, g7, g8, g9, g10, g11, g12, g13, g14, g15⟩ := sh_fields h2
  exact ⟨h1, g12, g9, g1, g10, g6⟩

/-- **the run with pauses is never ahead and never out of order (partial)**: under the same hypotheses, at *every* moment of
the history the steps executed so far by the run with pauses (functions, arguments, keyword arguments, newest first) are the
older part of what the reference run has executed: pausing only delays steps, it neither adds, nor drops, nor reorders
any (and by `C05_same_result_partial` nothing is missing at termination). -/
theorem C05_never_ahead_partial (P : Prog) (nf : Nat) (evs : List Ev)
    (hadm : admissible P (init nf) evs = true)
    (hfuel : fuelOk P (init nf) (unpaused P (init nf) evs) = true) :
    ∃ later, (run P (init nf) (unpaused P (init nf) evs)).trace = later ++ (run P (init nf) evs).trace :=
  (C05_transparent_partial P nf evs hadm hfuel).never_ahead

/-- **the reference history is the history without its pause and play requests and without some of its ticks**: it is a
sublist of the erasure `erasePP evs`, it contains no pause and no play, and its events other than ticks are exactly those
of `erasePP evs`, in the same order. -/
theorem C05_reference_history_is_erasure (P : Prog) (c : Cfg) (evs : List Ev) :
    (unpaused P c evs).Sublist (erasePP evs) ∧
    (∀ e ∈ unpaused P c evs, e ≠ .pause ∧ e ≠ .play) ∧
    (unpaused P c evs).filter (fun e => !isTick e) = (erasePP evs).filter (fun e => !isTick e) :=
  ⟨unpaused_sublist P evs c, unpaused_no_pp P evs c, unpaused_nonticks P evs c⟩

/-! the unrestricted statement (refuted below for programs that await one future under two keys; open for the others):
wake-up requests may arrive at any moment at which the run with pauses accepts them, also while a pause is requested or in
effect -/

/-- a request of the uninterrupted run that is effective in the run with pauses: a `resume` arrives while WAITING on a wait
that has no outcome yet, an awaitable-done callback runs when it is scheduled -/
def evAllowedFull (c : Cfg) : Ev → Bool
  | .tick => true
  | .pause => true
  | .play => true
  | .resume _ =>
      match c.st with
      | .waiting _ wf wk _ =>
          match c.wfs[wf]? with
          | some .pending => true
          | some (.interrupted _) => wk.isNone
          | _ => false
      | _ => false
  | .complete _ _ => true
  | .tickCb (.adone f) => c.ready.contains (.adone f)
  | _ => false

def admissibleFull (P : Prog) : Cfg → List Ev → Bool
  | _, [] => true
  | c, e :: es => evAllowedFull c e && admissibleFull P (step P c e).1 es

/-- **transparency, full statement** (FALSE as it stands: `C05_transparent_full_false`; see `C05_transparent_full_distinct`.
`C05_transparent_partial` / `…_partial2` / `…_partial3` prove its instances for three nested classes of histories, with the
reference history computed by `unpaused` / `unpaused2` / `unpaused3`):
for every history of ticks, pause/play requests and effective wake-up requests there is a history without pause and play,
with the same requests other than ticks, that ends in the same terminal state with the same trace and context.  For wake-ups
that arrive while the run with pauses is held the reference history may have to deliver them later relative to its own
ticks, hence a permutation instead of an erasure. -/
def C05_transparent_full : Prop :=
  ∀ (P : Prog) (nf : Nat) (evs : List Ev), admissibleFull P (init nf) evs = true →
    ∃ evs' : List Ev, (∀ e ∈ evs', e ≠ .pause ∧ e ≠ .play) ∧
      (evs'.filter (fun e => !isTick e)).Perm ((erasePP evs).filter (fun e => !isTick e)) ∧
      (fuelOk P (init nf) evs' = true → terminal (run P (init nf) evs).st.label = true →
        (run P (init nf) evs').st = (run P (init nf) evs).st ∧
        (run P (init nf) evs').trace = (run P (init nf) evs).trace ∧
        (run P (init nf) evs').ctx = (run P (init nf) evs).ctx)

/-- **the full statement is false as it stands**: `dupP` awaits ONE external future under TWO context keys (5 and 6) in one
`ToContext` and then returns what the context holds under key 6.  In `dupHist` the wait is resumed, the future completes, and a
pause holds the stepping task at the step boundary after the wait; the future's done-callback runs during the hold — as the
callback of a state that was left it files the result under the LAST key registered (6), and the next step returns 3.  No
history without pause and play that issues the same three requests (any order, any ticks) ends with result 3: run on the
WAITING state the callback files the result under the FIRST key (5), run later it is too late for the step that reads the
context (`dup_no_reference`, an exhaustive exploration of 44 configurations).  The real `to_context` keeps one key per future
(a dict keyed by the future), so this is a property of the model outside the class of programs it is compared on, not of
plumpy: on the real library both runs file the result under `k6` (DESIGN.md, C05).  The statement to aim at is
`C05_transparent_full_distinct`. -/
theorem C05_transparent_full_false : ¬ C05_transparent_full := by
  intro h
  obtain ⟨evs', _, h2, h3⟩ := h dupP 1 dupHist (by decide +kernel)
  rw [dupHist_reqs] at h2
  obtain ⟨hf, hne⟩ := dup_no_reference evs' h2
  have := (h3 hf (by rw [dupHist_result]; decide)).1
  rw [dupHist_result] at this
  exact hne this

example : ¬ B10.AwDistinct dupP := by
  intro h
  have := h 0 [] [] []
  simp [dupP, B10.OutOk, B10.DistinctF] at this

/-- **transparency, full statement for programs that never await the same future twice in one `ToContext`** (`AwDistinct`,
the dict semantics of `Waiting._awaiting`).  Not proved: `C05_transparent_full_on_partial3` proves the instances in which the
wake-ups arrive anywhere except while the process is held at a step boundary in CREATED or RUNNING, with the identity
permutation and an erasure; `C05_transparent_full_on_partial4` adds, at those positions, `resume`, the completion of a future
that the state just left did not await (and `call_soon` / non-raising callbacks, which `admissibleFull` does not mention),
again with the identity permutation of the requests, ticks being moved.  Missing: at those positions, the completion of a
future the state just left awaited (its done-callback is scheduled in one run and dropped by `Waiting.exit` in the other: the
relation would have to tolerate a scheduled callback that never runs) and the run of a done-callback (it has to file the
result under the same key on a WAITING state and on a state that was left — where `AwDistinct` is needed).  An exhaustive search (Lean interpreter, all `admissibleFull` histories of length ≤ 11 of a two-wait workchain
with synchronous and asynchronous steps, ≈ 170 000 terminated histories) found no counterexample, and none that needs a
reordering of the requests: in the model, moving ticks suffices (in ≈ 20 000 of them the erasure `unpaused` does not work and
a wake-up has to come *before* the tick that ended the previous step).  On the real library the loop is FIFO, so there the
reference run may need the requests themselves reordered (DESIGN.md, C05). -/
def C05_transparent_full_distinct : Prop :=
  ∀ (P : Prog) (nf : Nat) (evs : List Ev), B10.AwDistinct P → admissibleFull P (init nf) evs = true →
    ∃ evs' : List Ev, (∀ e ∈ evs', e ≠ .pause ∧ e ≠ .play) ∧
      (evs'.filter (fun e => !isTick e)).Perm ((erasePP evs).filter (fun e => !isTick e)) ∧
      (fuelOk P (init nf) evs' = true → terminal (run P (init nf) evs).st.label = true →
        (run P (init nf) evs').st = (run P (init nf) evs).st ∧
        (run P (init nf) evs').trace = (run P (init nf) evs).trace ∧
        (run P (init nf) evs').ctx = (run P (init nf) evs).ctx)

/-! ### second part: wake-ups that arrive while the process is held by a pause on a wait

`admissible2` (helper lemmas in `PM/Proof14.lean`) admits a wake-up request also at a position at which the stepping task is
suspended on a pause future (the process is held by a pause, or released by play and not yet woken) *and the state is WAITING
on a wait without outcome* — and, once such a wake-up has arrived, every further one during the same hold (the flag `g` of
`admissible2` / `unpaused2`, computed by `nextG`, remembers that).  The reference history `unpaused2` is again an erasure:
it keeps the tick that wakes the stepping task from such a hold (both runs resume the wait at that tick).  The simulation
relation `Sim2` adds the phase `LagW` to `Sim`: the run with pauses is suspended on a pause future at a step boundary in
WAITING and the reference run is suspended on that wait — through the view `onWait` that is `InStep`. -/

/-- **transparency (second partial class): the run with pauses is simulated by the run of its reference history.**
As `C05_transparent_partial`, for the larger class `admissible2 P false`: ticks, `pause`, `play` anywhere; `resume` /
`complete` / awaitable-done / `call_soon` / non-raising callback ticks at quiet positions (`quiet`) **and** at positions
where the stepping task is suspended on a pause future with the process WAITING on a wait that has no outcome yet
(`heldPc c && pendingWait c`), and at every later position of the same hold (`wakeOk`).  Still excluded, by
`admissible2` (a decidable predicate on the history): wake-ups while the process is held at a step boundary in a state other
than WAITING (CREATED, RUNNING: the reference run is already ahead by the next step); wake-ups between a pause request that
interrupted a pending wait and the next tick (`waitInterrupted`); kill / fail / cancel / a failing callback. -/
theorem C05_transparent_partial2 (P : Prog) (nf : Nat) (evs : List Ev)
    (hadm : admissible2 P false (init nf) evs = true)
    (hfuel : fuelOk P (init nf) (unpaused2 P false (init nf) evs) = true) :
    ∃ g, Sim2 P g (run P (init nf) evs) (run P (init nf) (unpaused2 P false (init nf) evs)) :=
  run_sim2 P evs false _ _ (sim2_init P nf) (invP_init nf) (inv_init nf) hadm hfuel

/-- **same steps, same context, same result (second partial class)**: under the hypotheses of `C05_transparent_partial2`, if
the run with pauses has terminated then the reference run (no pause, no play) has terminated in the same state object, with
the same executed steps (functions, arguments, keyword arguments), context, process future, log of entered states, cleanups
and — apart from paused/played — listener notifications; and nothing ran while paused. -/
theorem C05_same_result_partial2 (P : Prog) (nf : Nat) (evs : List Ev)
    (hadm : admissible2 P false (init nf) evs = true)
    (hfuel : fuelOk P (init nf) (unpaused2 P false (init nf) evs) = true)
    (hterm : terminal (run P (init nf) evs).st.label = true) :
    (run P (init nf) (unpaused2 P false (init nf) evs)).st = (run P (init nf) evs).st ∧
    (run P (init nf) (unpaused2 P false (init nf) evs)).trace = (run P (init nf) evs).trace ∧
    (run P (init nf) (unpaused2 P false (init nf) evs)).ctx = (run P (init nf) evs).ctx ∧
    (run P (init nf) (unpaused2 P false (init nf) evs)).fut = (run P (init nf) evs).fut ∧
    (run P (init nf) (unpaused2 P false (init nf) evs)).entered = (run P (init nf) evs).entered ∧
    (run P (init nf) (unpaused2 P false (init nf) evs)).cleanups = (run P (init nf) evs).cleanups ∧
    (run P (init nf) (unpaused2 P false (init nf) evs)).notif.filter notPP = (run P (init nf) evs).notif.filter notPP ∧
    (∀ a ∈ (run P (init nf) evs).trace, a.paused = false) := by
  obtain ⟨g, hs⟩ := C05_transparent_partial2 P nf evs hadm hfuel
  obtain ⟨h1, h2⟩ := hs.of_terminal hterm
  obtain ⟨g1, g2, g3, g4, g5, g6, g7, g8, g9, g10, g11, g12, g13, g14, g15⟩ := sh_fields h2
  exact ⟨h1, g12, g9, g2, g11, g5, g14, C05_nothing_runs_while_paused P nf evs⟩

/-- **never ahead, never out of order (second partial class)**: at every moment of such a history the steps executed so far
by the run with pauses are the older part of what the reference run has executed. -/
theorem C05_never_ahead_partial2 (P : Prog) (nf : Nat) (evs : List Ev)
    (hadm : admissible2 P false (init nf) evs = true)
    (hfuel : fuelOk P (init nf) (unpaused2 P false (init nf) evs) = true) :
    ∃ later, (run P (init nf) (unpaused2 P false (init nf) evs)).trace = later ++ (run P (init nf) evs).trace := by
  obtain ⟨g, hs⟩ := C05_transparent_partial2 P nf evs hadm hfuel
  exact hs.never_ahead

/-- **the reference history of the second class is again an erasure**: a sublist of `erasePP evs` without pause and play whose
events other than ticks are exactly those of `erasePP evs` in the same order — no wake-up has to be reordered, only ticks are
dropped (in particular the instance of `C05_transparent_full` for these histories holds with the identity permutation). -/
theorem C05_reference_history_is_erasure2 (P : Prog) (g : Bool) (c : Cfg) (evs : List Ev) :
    (unpaused2 P g c evs).Sublist (erasePP evs) ∧
    (∀ e ∈ unpaused2 P g c evs, e ≠ .pause ∧ e ≠ .play) ∧
    (unpaused2 P g c evs).filter (fun e => !isTick e) = (erasePP evs).filter (fun e => !isTick e) :=
  ⟨unpaused2_sublist P evs g c, unpaused2_no_pp P evs g c, unpaused2_nonticks P evs g c⟩

/-- **the second class contains the first**: every history admitted by `C05_transparent_partial` is admitted by
`C05_transparent_partial2`, with the same reference history. -/
theorem C05_partial2_extends_partial (P : Prog) (c : Cfg) (evs : List Ev) (h : admissible P c evs = true) :
    admissible2 P false c evs = true ∧ unpaused2 P false c evs = unpaused P c evs :=
  admissible_sub P evs c h

/-! ### third part: wake-ups between a pause request that interrupted a pending wait and the next tick

`admissible3` (helper lemmas in `PM/Proof16.lean`) admits a wake-up request at *every* position at which the stepping task is
not suspended on a pause future — the quiet ones and those at which the current wait carries the interruption of a pause
request that the stepping task has still to notice (the wake-up is then parked on the state object and put on the re-armed
wait at the next tick) — and at the held positions of `admissible2`.  The reference history `unpaused3` drops, in addition,
the tick at which the stepping task re-arms an interrupted wait and is then held by the pause.  The relation `Sim3` replaces
the phase `QW` by `QW2` (through the view `unint` — interruption removed, parked wake-up on the future — it is `InStep`).
When `play` retracted the pause before that tick, the run with pauses resumes its wait one loop iteration later than the
reference run in the same tick: the fuel hypothesis is `fuelOkN … (fuel0 - 1)`, one iteration of slack. -/

/-- **transparency (third partial class): the run with pauses is simulated by the run of its reference history.**
For every program and every history of ticks, `pause`, `play` anywhere and `resume` / `complete` / awaitable-done /
`call_soon` / non-raising callback ticks at every position accepted by `admissible3 P false` (`wakeOk3`), i.e. at all
positions except those at which the stepping task is suspended on a pause future (held by a pause, or released and not yet
woken), no wake-up has been accepted during this hold (and the hold did not begin with the re-arming of an interrupted
wait), and the state is not WAITING on a wait without outcome — in reachable configurations: the process is held at a step
boundary in CREATED or RUNNING, where the reference run is already ahead by the next step.  No kill / fail / cancel / failing
callback.  The fuel hypothesis is the one of `C05_transparent_partial` with one loop iteration of slack. -/
theorem C05_transparent_partial3 (P : Prog) (nf : Nat) (evs : List Ev)
    (hadm : admissible3 P false (init nf) evs = true)
    (hfuel : fuelOkN P (fuel0 - 1) (init nf) (unpaused3 P false (init nf) evs) = true) :
    ∃ g, Sim3 P g (run P (init nf) evs) (run P (init nf) (unpaused3 P false (init nf) evs)) :=
  run_sim3 P evs false _ _ (sim3_init P nf) (invP_init nf) (inv_init nf) hadm hfuel

/-- **same steps, same context, same result (third partial class)**: under the hypotheses of `C05_transparent_partial3`, if
the run with pauses has terminated then the reference run (no pause, no play, the same other requests in the same order) has
terminated in the same state object, with the same executed steps, context, process future, log of entered states, cleanups
and — apart from paused/played — listener notifications; and nothing ran while paused. -/
theorem C05_same_result_partial3 (P : Prog) (nf : Nat) (evs : List Ev)
    (hadm : admissible3 P false (init nf) evs = true)
    (hfuel : fuelOkN P (fuel0 - 1) (init nf) (unpaused3 P false (init nf) evs) = true)
    (hterm : terminal (run P (init nf) evs).st.label = true) :
    (run P (init nf) (unpaused3 P false (init nf) evs)).st = (run P (init nf) evs).st ∧
    (run P (init nf) (unpaused3 P false (init nf) evs)).trace = (run P (init nf) evs).trace ∧
    (run P (init nf) (unpaused3 P false (init nf) evs)).ctx = (run P (init nf) evs).ctx ∧
    (run P (init nf) (unpaused3 P false (init nf) evs)).fut = (run P (init nf) evs).fut ∧
    (run P (init nf) (unpaused3 P false (init nf) evs)).entered = (run P (init nf) evs).entered ∧
    (run P (init nf) (unpaused3 P false (init nf) evs)).cleanups = (run P (init nf) evs).cleanups ∧
    (run P (init nf) (unpaused3 P false (init nf) evs)).notif.filter notPP = (run P (init nf) evs).notif.filter notPP ∧
    (∀ a ∈ (run P (init nf) evs).trace, a.paused = false) := by
  obtain ⟨g, hs⟩ := C05_transparent_partial3 P nf evs hadm hfuel
  obtain ⟨h1, h2⟩ := hs.of_terminal hterm
  obtain ⟨g1, g2, g3, g4, g5, g6, g7, g8, g9, g10, g11, g12, g13, g14, g15⟩ := sh_fields h2
  exact ⟨h1, g12, g9, g2, g11, g5, g14, C05_nothing_runs_while_paused P nf evs⟩

/-- **never ahead, never out of order (third partial class)** -/
theorem C05_never_ahead_partial3 (P : Prog) (nf : Nat) (evs : List Ev)
    (hadm : admissible3 P false (init nf) evs = true)
    (hfuel : fuelOkN P (fuel0 - 1) (init nf) (unpaused3 P false (init nf) evs) = true) :
    ∃ later, (run P (init nf) (unpaused3 P false (init nf) evs)).trace = later ++ (run P (init nf) evs).trace := by
  obtain ⟨g, hs⟩ := C05_transparent_partial3 P nf evs hadm hfuel
  exact hs.never_ahead

/-- **the instance of the full statement for the third class**: for these histories the reference history required by
`C05_transparent_full` exists and is an erasure — no pause, no play, the other requests in their original order (the
permutation is the identity), a sublist of `erasePP evs`. -/
theorem C05_transparent_full_on_partial3 (P : Prog) (nf : Nat) (evs : List Ev)
    (hadm : admissible3 P false (init nf) evs = true) :
    ∃ evs' : List Ev, evs'.Sublist (erasePP evs) ∧ (∀ e ∈ evs', e ≠ .pause ∧ e ≠ .play) ∧
      evs'.filter (fun e => !isTick e) = (erasePP evs).filter (fun e => !isTick e) ∧
      (fuelOkN P (fuel0 - 1) (init nf) evs' = true → terminal (run P (init nf) evs).st.label = true →
        (run P (init nf) evs').st = (run P (init nf) evs).st ∧
        (run P (init nf) evs').trace = (run P (init nf) evs).trace ∧
        (run P (init nf) evs').ctx = (run P (init nf) evs).ctx) := by
  refine ⟨unpaused3 P false (init nf) evs, unpaused3_sublist P evs false _, unpaused3_no_pp P evs false _,
    unpaused3_nonticks P evs false _, ?_⟩
  intro hf ht
  obtain ⟨h1, h2, h3, _⟩ := C05_same_result_partial3 P nf evs hadm hf ht
  exact ⟨h1, h2, h3⟩

/-- **the third class contains the second** (and hence the first) -/
theorem C05_partial3_extends_partial2 (P : Prog) (c : Cfg) (evs : List Ev) (h : admissible2 P false c evs = true) :
    admissible3 P false c evs = true :=
  admissible2_sub3 P evs false false c id h

/-- the fuel hypothesis with slack implies the plain one -/
theorem C05_fuel_slack (P : Prog) (c : Cfg) (evs : List Ev) (h : fuelOkN P (fuel0 - 1) c evs = true) : fuelOk P c evs = true :=
  fuelOkN_le P _ fuel0_pred_le evs c h

/-! ### fourth part: wake-ups while the process is held at a step boundary in CREATED or RUNNING

There the reference run is ahead by the next step, and a wake-up has to reach it *before* the tick that ended the previous
step.  `unpaused4` (helper lemmas in `PM/Proof17.lean`, `PM/Proof18.lean`) **defers that tick**: a tick of the run with pauses
whose first step ends with the pause taking effect at a step boundary in CREATED or RUNNING (`defers`) is not emitted when it
happens but when the held stepping task is woken, or after the last request; the wake-ups of the hold are emitted at once.
The reference history is no longer an erasure: it is a *permutation* of an erasure in which only ticks have moved (later) —
the requests other than ticks keep their order (`C05_reference_history4`).  While a tick is deferred the two runs are related by
`Pend`: the run with pauses corresponds to `firstStep d`, the reference configuration after the first step of the tick it
has not received yet; a wake-up keeps that because it commutes with that step (`C05_wakeup_commutes_with_first_step`). -/

/-- **transparency (fourth partial class): the run with pauses is simulated by the run of its reference history.**
For every program and every history of ticks, `pause`, `play` anywhere, the wake-ups of `C05_transparent_partial3` at the
positions admitted there, **and**, while the process is held at a step boundary in CREATED or RUNNING by a pause that took
effect after the first step of a tick (`defers`: the stepping task was not suspended on a pause future, its wait not
interrupted, and that step was a transition into RUNNING — the user code returned a continuation, or the wait had been resumed
with a value — or the task had not started yet), the requests `pendOk L`: `resume` (refused: the process is not WAITING),
`call_soon`, the run of a non-raising scheduled callback, and the completion of any external future that carried no
done-callback when that tick started (`L`: the futures the program was waiting on; in particular every future the program has
not awaited yet).  The reference history `unpaused4` delivers these requests *before* the tick after which the process was
held.  At the end of the history the two runs are related by `Sim3`, the relation of the third class.

Still excluded (by `admissible4`, a decidable predicate on the history): during such a hold, the completion of a future that
carried a done-callback when the deferred tick started and the run of a done-callback (`tickCb (adone f)`; on a program
that awaits one future under two keys this is where `C05_transparent_full_false` lives); wake-ups at a hold in CREATED or
RUNNING that did not begin with a `defers` tick (none is known to be reachable); kill / fail / cancel / a failing callback. -/
theorem C05_transparent_partial4 (P : Prog) (nf : Nat) (evs : List Ev)
    (hadm : admissible4 P false none (init nf) evs = true)
    (hfuel : fuelOkN P (fuel0 - 1) (init nf) (unpaused4 P false none (init nf) evs) = true) :
    ∃ g, Sim3 P g (run P (init nf) evs) (run P (init nf) (unpaused4 P false none (init nf) evs)) :=
  run_sim4 P evs false none _ _ (sim4_init P nf) (invP_init nf) (inv_init nf) hadm hfuel

/-- **same steps, same context, same result (fourth partial class)**: under the hypotheses of `C05_transparent_partial4`, if
the run with pauses has terminated then the reference run (no pause, no play, the same other requests in the same order,
ticks dropped or moved later) has terminated in the same state object, with the same executed steps (functions, arguments,
keyword arguments), context, process future, log of entered states, cleanups and — apart from paused/played — listener
notifications; and nothing ran while paused. -/
theorem C05_same_result_partial4 (P : Prog) (nf : Nat) (evs : List Ev)
    (hadm : admissible4 P false none (init nf) evs = true)
    (hfuel : fuelOkN P (fuel0 - 1) (init nf) (unpaused4 P false none (init nf) evs) = true)
    (hterm : terminal (run P (init nf) evs).st.label = true) :
    (run P (init nf) (unpaused4 P false none (init nf) evs)).st = (run P (init nf) evs).st ∧
    (run P (init nf) (unpaused4 P false none (init nf) evs)).trace = (run P (init nf) evs).trace ∧
    (run P (init nf) (unpaused4 P false none (init nf) evs)).ctx = (run P (init nf) evs).ctx ∧
    (run P (init nf) (unpaused4 P false none (init nf) evs)).fut = (run P (init nf) evs).fut ∧
    (run P (init nf) (unpaused4 P false none (init nf) evs)).entered = (run P (init nf) evs).entered ∧
    (run P (init nf) (unpaused4 P false none (init nf) evs)).cleanups = (run P (init nf) evs).cleanups ∧
    (run P (init nf) (unpaused4 P false none (init nf) evs)).notif.filter notPP = (run P (init nf) evs).notif.filter notPP ∧
    (∀ a ∈ (run P (init nf) evs).trace, a.paused = false) := by
  obtain ⟨g, hs⟩ := C05_transparent_partial4 P nf evs hadm hfuel
  obtain ⟨h1, h2⟩ := hs.of_terminal hterm
  obtain ⟨g1, g2, g3, g4, g5, g6, g7, g8, g9, g10, g11, g12, g13, g14, g15⟩ := sh_fields h2
  exact ⟨h1, g12, g9, g2, g11, g5, g14, C05_nothing_runs_while_paused P nf evs⟩

/-- **never ahead, never out of order (fourth partial class)**: at the end of every such history (hence, the class being
closed under prefixes, at every moment of it — the reference history of a prefix ends with the deferred tick, if any) the
steps executed so far by the run with pauses are the older part of what the reference run has executed. -/
theorem C05_never_ahead_partial4 (P : Prog) (nf : Nat) (evs : List Ev)
    (hadm : admissible4 P false none (init nf) evs = true)
    (hfuel : fuelOkN P (fuel0 - 1) (init nf) (unpaused4 P false none (init nf) evs) = true) :
    ∃ later, (run P (init nf) (unpaused4 P false none (init nf) evs)).trace = later ++ (run P (init nf) evs).trace := by
  obtain ⟨g, hs⟩ := C05_transparent_partial4 P nf evs hadm hfuel
  exact hs.never_ahead

/-- **the reference history of the fourth class**: it contains no pause and no play; its requests other than ticks are those
of `erasePP evs` **in the same order** — in particular a permutation of them, the clause of `C05_transparent_full`: the
wake-ups of a hold reach the reference run before the tick that preceded them because the *tick* is moved, not they —; and up
to one tick delivered after the last request it is a sublist of `erasePP evs` (ticks are dropped, or emitted in the place of a
later tick). -/
theorem C05_reference_history4 (P : Prog) (g : Bool) (p : Option (List Nat)) (c : Cfg) (evs : List Ev) :
    (∀ e ∈ unpaused4 P g p c evs, e ≠ .pause ∧ e ≠ .play) ∧
    (unpaused4 P g p c evs).filter (fun e => !isTick e) = (erasePP evs).filter (fun e => !isTick e) ∧
    ((unpaused4 P g p c evs).filter (fun e => !isTick e)).Perm ((erasePP evs).filter (fun e => !isTick e)) ∧
    (unpaused4 P g p c evs).Sublist (erasePP evs ++ [.tick]) :=
  ⟨unpaused4_no_pp P evs g p c, unpaused4_nonticks P evs g p c, by rw [unpaused4_nonticks P evs g p c],
    unpaused4_sublist P evs g p c⟩

/-- **the instance of the full statement for the fourth class**: for these histories the reference history required by
`C05_transparent_full` / `C05_transparent_full_distinct` exists (fuel hypothesis with one iteration of slack). -/
theorem C05_transparent_full_on_partial4 (P : Prog) (nf : Nat) (evs : List Ev)
    (hadm : admissible4 P false none (init nf) evs = true) :
    ∃ evs' : List Ev, (∀ e ∈ evs', e ≠ .pause ∧ e ≠ .play) ∧
      (evs'.filter (fun e => !isTick e)).Perm ((erasePP evs).filter (fun e => !isTick e)) ∧
      (fuelOkN P (fuel0 - 1) (init nf) evs' = true → terminal (run P (init nf) evs).st.label = true →
        (run P (init nf) evs').st = (run P (init nf) evs).st ∧
        (run P (init nf) evs').trace = (run P (init nf) evs).trace ∧
        (run P (init nf) evs').ctx = (run P (init nf) evs).ctx) := by
  obtain ⟨r1, _, r3, _⟩ := C05_reference_history4 P false none (init nf) evs
  refine ⟨unpaused4 P false none (init nf) evs, r1, r3, ?_⟩
  intro hf ht
  obtain ⟨h1, h2, h3, _⟩ := C05_same_result_partial4 P nf evs hadm hf ht
  exact ⟨h1, h2, h3⟩

/-- **the fourth class contains the third** (and hence the second and the first) -/
theorem C05_partial4_extends_partial3 (P : Prog) (c : Cfg) (evs : List Ev) (h : admissible3 P false c evs = true) :
    admissible4 P false none c evs = true :=
  admissible3_sub4 P evs false none c h

/-- **a wake-up request commutes with the step after which the process is held** (the one-step fact behind the fourth class,
on any configuration `d` without pending interrupt action, live and not closed): if the first step of the next tick is a
transition into RUNNING — the user code suspended at its last `await` returns a continuation, or the wait of the stepping
task has a result — or the stepping task has not started (`okFirst`), and the request `e` is a `resume` (`ResumeNoop`: the
state is not WAITING or its wait has a result, so the request changes nothing), a `call_soon`, the run of a non-raising
scheduled callback, or the completion of a future that carries no done-callback (`pendOk L`, `L` ⊇ the futures carrying one),
then delivering `e` before that step or after it gives the same configuration.  It fails for the completion of a future the
state being left awaits: before the step the done-callback is scheduled, after it the callback was dropped by `Waiting.exit`. -/
theorem C05_wakeup_commutes_with_first_step (P : Prog) (L : List Nat) (d : Cfg) (e : Ev) (hok : okFirst d = true)
    (hi : d.interrupt = none) (hl : terminal d.st.label = false) (hc : d.closed = false) (hr : ResumeNoop d)
    (hL : ∀ f, f ∈ d.efCb → f ∈ L) (he : pendOk L e = true) :
    firstStep (step P d e).1 = (step P (firstStep d) e).1 :=
  firstStep_wake_comm P L d e hok hi hl hc hr hL he

-- non-vacuity: a pause takes effect at the step boundary, the continuation only runs after play
section
private def two : Prog := fun fn _ _ _ => if fn = 0 then ⟨1, .ret (.cont 1 [] [])⟩ else ⟨0, .ret (.stop none true)⟩
example : (run two (init 0) [.tick, .pause, .tick, .tick, .tick]).trace.length = 1 := by decide +kernel
example : (run two (init 0) [.tick, .pause, .tick, .play, .tick]).trace.length = 2 := by decide +kernel
end


-- non-vacuity of the transparency theorems: an asynchronous step that waits, a continuation taking the resume value, an
-- asynchronous last step; pauses requested inside the asynchronous step, on the pending wait (retracted by play), after the
-- wake-up was delivered, twice in a row while held, and during the last step; 21 events against 7 in the reference history
section
private def wt : Prog := fun fn args _ _ =>
  match fn with
  | 0 => ⟨1, .ret (.wait 1)⟩
  | 1 => ⟨0, .ret (.cont 2 args [(1, 4)])⟩
  | _ => ⟨1, .ret (.stop args.head? true)⟩
private def wtHist : List Ev :=
  [.tick, .pause, .tick, .tick, .play, .tick, .pause, .play, .tick, .resume (some 7), .pause, .tick, .play, .pause, .tick,
   .play, .tick, .pause, .tick, .play, .tick]
example : admissible wt (init 0) wtHist = true := by decide +kernel
example : unpaused wt (init 0) wtHist = [.tick, .tick, .tick, .resume (some 7), .tick, .tick, .tick] := by decide +kernel
example : fuelOk wt (init 0) (unpaused wt (init 0) wtHist) = true := by decide +kernel
example : (run wt (init 0) wtHist).st = .finished (some 7) true := by decide +kernel
example : (run wt (init 0) wtHist).trace.length = 3 := by decide +kernel
example : ((run wt (init 0) wtHist).notif.filter (fun n => !notPP n)).length = 8 := by decide +kernel
example : (run wt (init 0) (unpaused wt (init 0) wtHist)).st = .finished (some 7) true := by decide +kernel
-- a workchain-style wait on an external future whose result lands in the context, with a pause held across the completion
private def wc : Prog := fun fn _ _ ctx =>
  match fn with
  | 0 => ⟨0, .ret (.waitOn 1 [(0, 5)])⟩
  | _ => ⟨0, .ret (.stop ((ctx.find? (·.1 = 5)).map (·.2)) true)⟩
private def wcHist : List Ev :=
  [.pause, .tick, .tick, .play, .tick, .complete 0 (.result 3), .tickCb (.adone 0), .pause, .tick, .tick, .play, .tick]
example : admissible wc (init 1) wcHist = true := by decide +kernel
example : fuelOk wc (init 1) (unpaused wc (init 1) wcHist) = true := by decide +kernel
example : (run wc (init 1) wcHist).st = .finished (some 3) true := by decide +kernel
example : (run wc (init 1) wcHist).ctx = [(5, 3)] := by decide +kernel
-- the awaited future completes while a pause is requested but not yet in effect (inside the asynchronous first step)
private def wc2 : Prog := fun fn _ _ ctx =>
  match fn with
  | 0 => ⟨1, .ret (.waitOn 1 [(0, 5)])⟩
  | _ => ⟨0, .ret (.stop ((ctx.find? (·.1 = 5)).map (·.2)) true)⟩
private def wc2Hist : List Ev :=
  [.tick, .pause, .complete 0 (.result 3), .tick, .play, .tick, .tickCb (.adone 0), .tick]
example : admissible wc2 (init 1) wc2Hist = true := by decide +kernel
example : unpaused wc2 (init 1) wc2Hist = [.tick, .complete 0 (.result 3), .tick, .tickCb (.adone 0), .tick] := by decide +kernel
example : fuelOk wc2 (init 1) (unpaused wc2 (init 1) wc2Hist) = true := by decide +kernel
example : (run wc2 (init 1) wc2Hist).st = .finished (some 3) true := by decide +kernel
-- second class: `resume` arrives while the process is held by a pause on its wait (rejected by `admissible`), the hold is
-- prolonged by a second pause, a tick of the held task, play; three steps executed, the resume value ends as the result
private def wtHist2 : List Ev :=
  [.tick, .pause, .tick, .resume (some 7), .tick, .pause, .play, .pause, .tick, .play, .tick, .tick]
example : admissible wt (init 0) wtHist2 = false := by decide +kernel
example : admissible2 wt false (init 0) wtHist2 = true := by decide +kernel
example : unpaused2 wt false (init 0) wtHist2 = [.tick, .tick, .resume (some 7), .tick, .tick] := by decide +kernel
example : fuelOk wt (init 0) (unpaused2 wt false (init 0) wtHist2) = true := by decide +kernel
example : (run wt (init 0) wtHist2).st = .finished (some 7) true := by decide +kernel
example : (run wt (init 0) wtHist2).trace.length = 3 := by decide +kernel
-- second class, workchain: both awaited futures complete, their done-callbacks and a `call_soon` callback run while the
-- process is held on the wait; the results land in the context, the step after the wait reads one of them
private def wc3 : Prog := fun fn _ _ ctx =>
  match fn with
  | 0 => ⟨1, .ret (.waitOn 1 [(0, 5), (1, 6)])⟩
  | _ => ⟨0, .ret (.stop ((ctx.find? (·.1 = 5)).map (·.2)) true)⟩
private def wc3Hist : List Ev :=
  [.tick, .pause, .tick, .complete 0 (.result 3), .tickCb (.adone 0), .callSoon false, .complete 1 (.result 4), .tick,
   .tickCb (.usercb false), .tickCb (.adone 1), .play, .tick]
example : admissible wc3 (init 2) wc3Hist = false := by decide +kernel
example : admissible2 wc3 false (init 2) wc3Hist = true := by decide +kernel
example : fuelOk wc3 (init 2) (unpaused2 wc3 false (init 2) wc3Hist) = true := by decide +kernel
example : (run wc3 (init 2) wc3Hist).st = .finished (some 3) true := by decide +kernel
example : (run wc3 (init 2) wc3Hist).ctx = [(6, 4), (5, 3)] := by decide +kernel
example : (run wc3 (init 2) wc3Hist).trace.length = 2 := by decide +kernel
-- third class: a pause request interrupts the pending wait, `resume` is parked on the interrupted wait (rejected by
-- `admissible2`); (a) the pause takes effect at the next tick, the process is held with the outcome already there, play, tick;
-- (b) play retracts the pause first, the next tick re-arms the wait and resumes it at once
private def qHistA : List Ev := [.tick, .tick, .pause, .resume (some 7), .tick, .tick, .play, .tick, .tick]
private def qHistB : List Ev := [.tick, .tick, .pause, .resume (some 7), .play, .tick, .tick]
example : admissible2 wt false (init 0) qHistA = false ∧ admissible2 wt false (init 0) qHistB = false := by decide +kernel
example : admissible3 wt false (init 0) qHistA = true ∧ admissible3 wt false (init 0) qHistB = true := by decide +kernel
example : unpaused3 wt false (init 0) qHistA = [.tick, .tick, .resume (some 7), .tick, .tick] := by decide +kernel
example : unpaused3 wt false (init 0) qHistB = [.tick, .tick, .resume (some 7), .tick, .tick] := by decide +kernel
example : fuelOkN wt (fuel0 - 1) (init 0) (unpaused3 wt false (init 0) qHistA) = true := by decide +kernel
example : fuelOkN wt (fuel0 - 1) (init 0) (unpaused3 wt false (init 0) qHistB) = true := by decide +kernel
example : (run wt (init 0) qHistA).st = .finished (some 7) true ∧ (run wt (init 0) qHistA).trace.length = 3 := by decide +kernel
example : (run wt (init 0) qHistB).st = .finished (some 7) true ∧ (run wt (init 0) qHistB).trace.length = 3 := by decide +kernel
-- third class, workchain: the pause request interrupts the wait on two futures; both complete and their done-callbacks run
-- before the stepping task notices (the second one parks the wake-up); held, a `call_soon` while held, play
private def wc4 : Prog := fun fn _ _ ctx =>
  match fn with
  | 0 => ⟨0, .ret (.waitOn 1 [(0, 5), (1, 6)])⟩
  | _ => ⟨0, .ret (.stop ((ctx.find? (·.1 = 5)).map (·.2)) true)⟩
private def wc4Hist : List Ev :=
  [.tick, .complete 0 (.result 3), .pause, .tickCb (.adone 0), .complete 1 (.result 4), .tickCb (.adone 1), .tick,
   .callSoon false, .play, .tick, .tickCb (.usercb false)]
example : admissible2 wc4 false (init 2) wc4Hist = false := by decide +kernel
example : admissible3 wc4 false (init 2) wc4Hist = true := by decide +kernel
example : fuelOkN wc4 (fuel0 - 1) (init 2) (unpaused3 wc4 false (init 2) wc4Hist) = true := by decide +kernel
example : (run wc4 (init 2) wc4Hist).st = .finished (some 3) true ∧ (run wc4 (init 2) wc4Hist).ctx = [(6, 4), (5, 3)] := by
  decide +kernel
-- fourth class: (a) the wait is resumed, a pause is requested, the next tick leaves the wait and the pause takes effect at
-- the boundary before step 1 (RUNNING): the reference run executes steps 1 and 2 in that tick.  During the hold: `call_soon`,
-- a refused `resume`, the completion of a future the program never awaits; play; the callback runs.  `admissible3` rejects
-- the history; the reference history delivers the three requests before the tick (which it emits in place of the waking tick)
private def crHist : List Ev :=
  [.tick, .tick, .resume (some 7), .pause, .tick, .callSoon false, .resume (some 9), .complete 0 (.result 3), .play, .tick,
   .tickCb (.usercb false), .tick]
example : admissible3 wt false (init 1) crHist = false := by decide +kernel
example : admissible4 wt false none (init 1) crHist = true := by decide +kernel
example : unpaused4 wt false none (init 1) crHist =
    [.tick, .tick, .resume (some 7), .callSoon false, .resume (some 9), .complete 0 (.result 3), .tick, .tickCb (.usercb false),
     .tick] := by decide +kernel
example : fuelOkN wt (fuel0 - 1) (init 1) (unpaused4 wt false none (init 1) crHist) = true := by decide +kernel
example : (run wt (init 1) crHist).st = .finished (some 7) true ∧ (run wt (init 1) crHist).trace.length = 3 := by decide +kernel
-- (b) workchain: the pause is requested inside the asynchronous step 0 and takes effect at the boundary before step 1; while
-- the process is held the future that step 1 is going to await completes (and a callback is scheduled); after play step 1
-- finds the future done, its done-callback files the result, step 2 returns it
private def wc5 : Prog := fun fn _ _ ctx =>
  match fn with
  | 0 => ⟨1, .ret (.cont 1 [] [])⟩
  | 1 => ⟨0, .ret (.waitOn 2 [(0, 5)])⟩
  | _ => ⟨0, .ret (.stop ((ctx.find? (·.1 = 5)).map (·.2)) true)⟩
private def wc5Hist : List Ev :=
  [.tick, .pause, .tick, .complete 0 (.result 3), .callSoon false, .play, .tick, .tickCb (.adone 0), .tickCb (.usercb false),
   .tick]
example : admissible3 wc5 false (init 1) wc5Hist = false := by decide +kernel
example : admissible4 wc5 false none (init 1) wc5Hist = true := by decide +kernel
example : unpaused4 wc5 false none (init 1) wc5Hist =
    [.tick, .complete 0 (.result 3), .callSoon false, .tick, .tickCb (.adone 0), .tickCb (.usercb false), .tick] := by
  decide +kernel
example : fuelOkN wc5 (fuel0 - 1) (init 1) (unpaused4 wc5 false none (init 1) wc5Hist) = true := by decide +kernel
example : (run wc5 (init 1) wc5Hist).st = .finished (some 3) true ∧ (run wc5 (init 1) wc5Hist).ctx = [(5, 3)] ∧
    (run wc5 (init 1) wc5Hist).trace.length = 3 := by decide +kernel
-- a history that ends while the tick is still deferred: the reference history delivers it last
example : unpaused4 wc5 false none (init 1) [.tick, .pause, .tick, .complete 0 (.result 3)] =
    [.tick, .complete 0 (.result 3), .tick] := by decide +kernel
-- the hypotheses of `C05_wakeup_commutes_with_first_step` are satisfiable: `wc5` suspended at the `await` of step 0
example : okFirst (run wc5 (init 1) [.tick]) = true ∧ (run wc5 (init 1) [.tick]).interrupt = none ∧
    terminal (run wc5 (init 1) [.tick]).st.label = false ∧ (run wc5 (init 1) [.tick]).closed = false ∧
    (run wc5 (init 1) [.tick]).efCb = [] ∧ pendOk [] (.complete 0 (.result 3)) = true := by decide +kernel
example : ResumeNoop (run wc5 (init 1) [.tick]) := Or.inl (by
  have : (run wc5 (init 1) [.tick]).st = .running 0 [] [] := by decide +kernel
  rw [this]; intro a b c d h; cases h)
end
/-!
## pause / play requested DURING a transition (listeners, state-event callbacks)

Model: `PMF.L` (see the section of the same name in `Props/C04.lean`).  `fireN n`: notifications with the oracle's requests nested
at most `n` deep; `endOfStepL`: the closing part of `Process.step()`; `NoInt c c'`: every interruption found on a wait future of `c'`
was already there in `c`.
-/
namespace L

/-- **no user code while paused, with listeners**: for every program, every plan of `pause()` / `play()` / `kill()` calls made by
listeners and state-event callbacks from inside notifications (in the middle of transitions, while a pending request is being
enacted, …) and every history of ticks and requests, no step function or continuation is ever started while the process reports
paused — in particular not the step that follows, in the same callback, a step during whose closing part a listener paused. -/
theorem C05_listener_nothing_runs_while_paused (P : Prog) (nf : Nat) (plan : Plan) (evs : List Ev) :
    ∀ a ∈ (runL P (initL nf plan) evs).c.trace, a.paused = false :=
  (runL_invP P (initL nf plan) evs (invP_init nf)).traceOk

/-- **a request made while a step is closing interrupts nothing** [F24, F26]: for every configuration, plan, nesting depth and
outcome of the step, the closing part of the step (in which listeners and state-event callbacks may `pause()`, `play()`, `kill()`
in any combination, also while an earlier request is being enacted) puts no interruption on any wait future — so the state the
step has entered is not interrupted later by a request that was already enacted (no second pause after the next `play()`). -/
theorem C05_listener_no_stale_interruption (n : Nat) (l : LCfg) (r : StepEnd) : NoInt l.c (endOfStepL (fireN n) l r).c :=
  endOfStepL_noInt (fireN_ni n) l r

/-- … in particular the wait future of the WAITING state that the step returns carries no interruption when the step has ended -/
theorem C05_listener_new_wait_not_interrupted (n : Nat) (l : LCfg) (fn k : Nat) :
    (finishUserL (fireN n) l (.ret (.wait fn))).c.wfs[l.c.wfs.length]? ≠ some (.interrupted k) :=
  finishUserL_wait_noInt (fireN_ni n) l fn k

/-- **`play()` really un-pauses, also from inside `on_process_paused`** [F26]: called while a step is in progress (e.g. by a
listener while the pause is being enacted at the end of the step), `play()` returns with the process not paused, whatever the
`on_process_played` listeners request in turn. -/
theorem C05_listener_play_unpauses (n : Nat) (l : LCfg) (hs : l.c.stepping = true) :
    (playL (fireN n) l).1.c.paused = none ∧ (playL (fireN n) l).2 = .bool true :=
  ⟨playL_unpauses (fireN_pn n) l hs, by unfold playL; split <;> rfl⟩

/-- … and a `pause()` or `kill()` made while a step is in progress never pauses at once -/
theorem C05_listener_requests_deferred (n : Nat) (h : Hook) (l : LCfg) (hs : l.c.stepping = true) (hp : l.c.paused = none) :
    (fireN n h l).c.paused = none := fireN_pn n h l hs hp

/-- **`play()` during the transition of a pending pause retracts the pause** [F23]: the pause action `i` performs the step's
transition; if a listener or state-event callback of that transition calls `play()` (which clears `_pausing` and cancels the
action: `C05_play_cancels_pending_pause`), the action does not pause after the transition: `paused`, the notifications and the
state are exactly what the transition left. -/
theorem C05_listener_play_retracts (F : Hook → LCfg → LCfg) (l : LCfg) (i : Nat) (s : SObj) (a : Action)
    (ha : l.c.actions[i]? = some a) (hp : a.status = .pending) (hk : a.kind = .pause)
    (hr : (transitionToL F l s).c.pausing = none) :
    (runActionL F l i (some s)).c.paused = (transitionToL F l s).c.paused ∧
    (runActionL F l i (some s)).c.notif = (transitionToL F l s).c.notif ∧
    (runActionL F l i (some s)).c.st = (transitionToL F l s).c.st :=
  runActionL_retracted F l i s a ha hp hk hr

-- non-vacuity (the witnesses of F23, F24, F26)
section
private def async2 : Prog := fun fn _ _ _ => if fn = 0 then ⟨2, .ret (.cont 1 [] [])⟩ else ⟨1, .ret (.stop (some 3) true)⟩
private def waiter : Prog := fun fn _ _ _ => if fn = 0 then ⟨0, .ret (.wait 1)⟩ else ⟨0, .ret (.stop (some 7) true)⟩
-- F23: a pause is pending; `on_process_running` of the step's transition plays: not paused, the action future is cancelled
example : (runL async2 (initL 0 [(.running, 2, .play)]) [.tick, .pause, .tick, .tick]).c.paused = none ∧
    (runL async2 (initL 0 [(.running, 2, .play)]) [.tick, .pause, .tick, .tick]).c.notif = [.running, .running] := by decide +kernel
-- F24: `on_process_waiting` pauses during the transition into WAITING: paused once, the wait future is still pending, and after
-- play + resume the process finishes
example : (runL waiter (initL 0 [(.waiting, 1, .pause)]) [.tick]).c.paused ≠ none ∧
    (runL waiter (initL 0 [(.waiting, 1, .pause)]) [.tick]).c.wfs = [.pending] := by decide +kernel
example : (runL waiter (initL 0 [(.waiting, 1, .pause)]) [.tick, .play, .resume (some 5), .tick]).c.st.label = .finished := by
  decide +kernel
-- F26: a pause is pending when the waiting step is interrupted; `on_process_paused` plays while it is enacted, `on_process_played`
-- pauses again: the re-armed wait future (index 1) is pending, the process is paused once more and finishes after play + resume
example : (runL waiter (initL 0 [(.paused, 1, .play), (.played, 1, .pause)]) [.tick, .pause, .tick]).c.wfs = [.interrupted 0, .pending] ∧
    (runL waiter (initL 0 [(.paused, 1, .play), (.played, 1, .pause)]) [.tick, .pause, .tick]).c.notif =
      [.paused, .played, .paused, .waiting, .running] := by decide +kernel
example : (runL waiter (initL 0 [(.paused, 1, .play), (.played, 1, .pause)]) [.tick, .pause, .tick, .play, .resume none, .tick]).c.st.label
    = .finished := by decide +kernel
end

end L

end PMF

/-! ### the status message (model `StatusM`: `set_status`, `on_paused`, `on_playing`) -/
namespace StatusM

/-- while paused (no further `on_paused` / `on_playing`) the saved status is kept, whatever `set_status` calls happen -/
theorem run_keeps_pre (s : St) (mid : List Op) (h : ∀ o ∈ mid, ∃ v, o = .setStatus v) : (run s mid).pre = s.pre := by
  induction mid generalizing s with
  | nil => rfl
  | cons o rest ih =>
    obtain ⟨v, rfl⟩ := h _ (List.mem_cons_self ..)
    have := ih (step s (.setStatus v)) (fun o ho => h o (List.mem_cons_of_mem _ ho))
    simpa [run, List.foldl, step] using this

/-- **the status message present before the pause is restored by play**: for every status `s.status` present when the pause
takes effect, every pause message (or none), and every sequence of `set_status` calls made while paused, the `on_playing`
that ends the pause leaves exactly `s.status`, and nothing saved. -/
theorem C05_status_restored (s : St) (msg : Option String) (mid : List Op) (h : ∀ o ∈ mid, ∃ v, o = .setStatus v) :
    run s ([.onPaused msg] ++ mid ++ [.onPlaying]) = { status := s.status, pre := none } := by
  have hpre : (step s (.onPaused msg)).pre = s.status := by cases msg <;> rfl
  have hk := run_keeps_pre (step s (.onPaused msg)) mid h
  have hsplit : run s ([.onPaused msg] ++ mid ++ [.onPlaying]) = step (run (step s (.onPaused msg)) mid) .onPlaying := by
    simp [run, List.foldl_append]
  rw [hsplit]
  show ({ status := (run (step s (.onPaused msg)) mid).pre, pre := none } : St) = _
  rw [hk, hpre]

/-- while paused the status shows the pause message when one was given, the previous status otherwise -/
theorem C05_status_while_paused (s : St) (msg : Option String) :
    (step s (.onPaused msg)).status = (match msg with | some m => some m | none => s.status) := by
  cases msg <;> rfl

/-- the statement over whole histories: in any history of hook calls, after every `on_playing` that follows an `on_paused`
(with only `set_status` calls in between) the status is the one that was present just before that `on_paused`. -/
theorem C05_status_restored_in_history (s0 : St) (before : List Op) (msg : Option String) (mid : List Op)
    (h : ∀ o ∈ mid, ∃ v, o = .setStatus v) :
    (run s0 (before ++ [.onPaused msg] ++ mid ++ [.onPlaying])).status = (run s0 before).status := by
  have h1 := C05_status_restored (run s0 before) msg mid h
  have hsplit : run s0 (before ++ [.onPaused msg] ++ mid ++ [.onPlaying])
      = run (run s0 before) ([.onPaused msg] ++ mid ++ [.onPlaying]) := by
    simp [run, List.foldl_append]
  rw [hsplit, h1]

-- non-vacuity and the cases a sampled test misses: no status before the pause (None) with a pause message
example : run {} [.onPaused (some "held"), .onPlaying] = {} := by decide
example : run {} [.setStatus (some "busy"), .onPaused none, .setStatus (some "x"), .onPlaying] = { status := some "busy" } := by decide
example : (run {} [.setStatus (some "busy"), .onPaused (some "held")]).status = some "held" := by decide

end StatusM
