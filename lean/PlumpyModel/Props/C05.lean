import PlumpyModel.PM.Proof3
import PlumpyModel.PM.LProof12
import PlumpyModel.Status.Model
/-!
# C05 — pause/play is transparent: nothing runs while paused

Model: `PMF`.  Every activation of a step function or continuation is logged in `Cfg.trace` together with the value of
`paused` at the moment it starts.
-/
namespace PMF

/-- `pause()` and `play()` never raise, in any configuration -/
theorem C05_pause_total (c : Cfg) (e : Exc) : (pause c).2 ≠ .raised e := by
  unfold pause
  split
  · simp
  · split
    · simp
    · split
      · simp
      · split
        · simp
        · split
          · dsimp only; split <;> simp
          · simp

theorem C05_play_total (c : Cfg) (e : Exc) : (play c).2 ≠ .raised e := by
  unfold play
  split
  · split <;> simp
  · simp

/-- **no user code while paused**: for every user program and every history of ticks, scheduled callbacks and
pause / play / kill / resume / fail / call_soon / cancel / complete requests, no step function or continuation is ever
started while the process reports paused. -/
theorem C05_nothing_runs_while_paused (P : Prog) (nf : Nat) (evs : List Ev) :
    ∀ a ∈ (run P (init nf) evs).trace, a.paused = false :=
  C05_no_user_code_while_paused P nf evs

theorem cancelAction_paused (c : Cfg) (i : Nat) : (cancelAction c i).paused = c.paused := by
  unfold cancelAction
  split
  · unfold setActionStatus; split <;> rfl
  · rfl

/-- `play()` always returns `True` and leaves the process un-paused -/
theorem C05_play_unpauses (c : Cfg) : (play c).1.paused = none ∧ (play c).2 = .bool true := by
  unfold play
  split
  · rename_i hp
    split
    · refine ⟨?_, rfl⟩
      show (cancelAction c _).paused = none
      rw [cancelAction_paused]; exact hp
    · exact ⟨hp, rfl⟩
  · exact ⟨rfl, rfl⟩

/-- `play()` cancels a pause that has not yet taken effect: no pause request stays pending -/
theorem C05_play_cancels_pending_pause (c : Cfg) (hp : c.paused = none) :
    (play c).1.pausing = none ∧ ∀ i, c.pausing = some i → actionStatus (play c).1 i ≠ .pending := by
  unfold play
  simp only [hp]
  split
  · rename_i i hi
    refine ⟨rfl, ?_⟩
    intro j hj
    rw [hi] at hj; cases hj
    show actionStatus (cancelAction c i) i ≠ .pending
    unfold cancelAction
    split
    · rename_i hpend
      unfold setActionStatus
      cases ha : c.actions[i]? with
      | none => simp [actionStatus, ha] at hpend
      | some a =>
        simp only [actionStatus, setAt, List.getElem?_set]
        have hlt : i < c.actions.length := (List.getElem?_eq_some_iff.mp ha).1
        simp [hlt]
    · assumption
  · rename_i hq
    exact ⟨hq, by intro i hi; rw [hq] at hi; cases hi⟩

-- non-vacuity: a pause takes effect at the step boundary, the continuation only runs after play
section
private def two : Prog := fun fn _ _ _ => if fn = 0 then ⟨1, .ret (.cont 1 [] [])⟩ else ⟨0, .ret (.stop none true)⟩
example : (run two (init 0) [.tick, .pause, .tick, .tick, .tick]).trace.length = 1 := by decide +kernel
example : (run two (init 0) [.tick, .pause, .tick, .play, .tick]).trace.length = 2 := by decide +kernel
end

/-!
## pause / play requested DURING a transition (listeners, state-event callbacks)

Model: `PMF.L` (see the section of the same name in `Props/C04.lean`).  `fireN n`: notifications with the oracle's requests nested
at most `n` deep; `endOfStepL`: the closing part of `Process.step()`; `NoInt c c'`: every interruption found on a wait future of `c'`
was already there in `c`.
-/
namespace L

/-- **no user code while paused, with listeners**: for every program, every plan of `pause()` / `play()` / `kill()` calls made by
listeners and state-event callbacks from inside notifications (in the middle of transitions, while a pending request is being
enacted, …) and every history of ticks and requests, no step function or continuation is ever started while the process reports
paused — in particular not the step that follows, in the same callback, a step during whose closing part a listener paused. -/
theorem C05_listener_nothing_runs_while_paused (P : Prog) (nf : Nat) (plan : Plan) (evs : List Ev) :
    ∀ a ∈ (runL P (initL nf plan) evs).c.trace, a.paused = false :=
  (runL_invP P (initL nf plan) evs (invP_init nf)).traceOk

/-- **a request made while a step is closing interrupts nothing** [F24, F26]: for every configuration, plan, nesting depth and
outcome of the step, the closing part of the step (in which listeners and state-event callbacks may `pause()`, `play()`, `kill()`
in any combination, also while an earlier request is being enacted) puts no interruption on any wait future — so the state the
step has entered is not interrupted later by a request that was already enacted (no second pause after the next `play()`). -/
theorem C05_listener_no_stale_interruption (n : Nat) (l : LCfg) (r : StepEnd) : NoInt l.c (endOfStepL (fireN n) l r).c :=
  endOfStepL_noInt (fireN_ni n) l r

/-- … in particular the wait future of the WAITING state that the step returns carries no interruption when the step has ended -/
theorem C05_listener_new_wait_not_interrupted (n : Nat) (l : LCfg) (fn k : Nat) :
    (finishUserL (fireN n) l (.ret (.wait fn))).c.wfs[l.c.wfs.length]? ≠ some (.interrupted k) :=
  finishUserL_wait_noInt (fireN_ni n) l fn k

/-- **`play()` really un-pauses, also from inside `on_process_paused`** [F26]: called while a step is in progress (e.g. by a
listener while the pause is being enacted at the end of the step), `play()` returns with the process not paused, whatever the
`on_process_played` listeners request in turn. -/
theorem C05_listener_play_unpauses (n : Nat) (l : LCfg) (hs : l.c.stepping = true) :
    (playL (fireN n) l).1.c.paused = none ∧ (playL (fireN n) l).2 = .bool true :=
  ⟨playL_unpauses (fireN_pn n) l hs, by unfold playL; split <;> rfl⟩

/-- … and a `pause()` or `kill()` made while a step is in progress never pauses at once -/
theorem C05_listener_requests_deferred (n : Nat) (h : Hook) (l : LCfg) (hs : l.c.stepping = true) (hp : l.c.paused = none) :
    (fireN n h l).c.paused = none := fireN_pn n h l hs hp

/-- **`play()` during the transition of a pending pause retracts the pause** [F23]: the pause action `i` performs the step's
transition; if a listener or state-event callback of that transition calls `play()` (which clears `_pausing` and cancels the
action: `C05_play_cancels_pending_pause`), the action does not pause after the transition: `paused`, the notifications and the
state are exactly what the transition left. -/
theorem C05_listener_play_retracts (F : Hook → LCfg → LCfg) (l : LCfg) (i : Nat) (s : SObj) (a : Action)
    (ha : l.c.actions[i]? = some a) (hp : a.status = .pending) (hk : a.kind = .pause)
    (hr : (transitionToL F l s).c.pausing = none) :
    (runActionL F l i (some s)).c.paused = (transitionToL F l s).c.paused ∧
    (runActionL F l i (some s)).c.notif = (transitionToL F l s).c.notif ∧
    (runActionL F l i (some s)).c.st = (transitionToL F l s).c.st :=
  runActionL_retracted F l i s a ha hp hk hr

-- non-vacuity (the witnesses of F23, F24, F26)
section
private def async2 : Prog := fun fn _ _ _ => if fn = 0 then ⟨2, .ret (.cont 1 [] [])⟩ else ⟨1, .ret (.stop (some 3) true)⟩
private def waiter : Prog := fun fn _ _ _ => if fn = 0 then ⟨0, .ret (.wait 1)⟩ else ⟨0, .ret (.stop (some 7) true)⟩
-- F23: a pause is pending; `on_process_running` of the step's transition plays: not paused, the action future is cancelled
example : (runL async2 (initL 0 [(.running, 2, .play)]) [.tick, .pause, .tick, .tick]).c.paused = none ∧
    (runL async2 (initL 0 [(.running, 2, .play)]) [.tick, .pause, .tick, .tick]).c.notif = [.running, .running] := by decide +kernel
-- F24: `on_process_waiting` pauses during the transition into WAITING: paused once, the wait future is still pending, and after
-- play + resume the process finishes
example : (runL waiter (initL 0 [(.waiting, 1, .pause)]) [.tick]).c.paused ≠ none ∧
    (runL waiter (initL 0 [(.waiting, 1, .pause)]) [.tick]).c.wfs = [.pending] := by decide +kernel
example : (runL waiter (initL 0 [(.waiting, 1, .pause)]) [.tick, .play, .resume (some 5), .tick]).c.st.label = .finished := by
  decide +kernel
-- F26: a pause is pending when the waiting step is interrupted; `on_process_paused` plays while it is enacted, `on_process_played`
-- pauses again: the re-armed wait future (index 1) is pending, the process is paused once more and finishes after play + resume
example : (runL waiter (initL 0 [(.paused, 1, .play), (.played, 1, .pause)]) [.tick, .pause, .tick]).c.wfs = [.interrupted 0, .pending] ∧
    (runL waiter (initL 0 [(.paused, 1, .play), (.played, 1, .pause)]) [.tick, .pause, .tick]).c.notif =
      [.paused, .played, .paused, .waiting, .running] := by decide +kernel
example : (runL waiter (initL 0 [(.paused, 1, .play), (.played, 1, .pause)]) [.tick, .pause, .tick, .play, .resume none, .tick]).c.st.label
    = .finished := by decide +kernel
end

end L

end PMF

/-! ### the status message (model `StatusM`: `set_status`, `on_paused`, `on_playing`) -/
namespace StatusM

/-- while paused (no further `on_paused` / `on_playing`) the saved status is kept, whatever `set_status` calls happen -/
theorem run_keeps_pre (s : St) (mid : List Op) (h : ∀ o ∈ mid, ∃ v, o = .setStatus v) : (run s mid).pre = s.pre := by
  induction mid generalizing s with
  | nil => rfl
  | cons o rest ih =>
    obtain ⟨v, rfl⟩ := h _ (List.mem_cons_self ..)
    have := ih (step s (.setStatus v)) (fun o ho => h o (List.mem_cons_of_mem _ ho))
    simpa [run, List.foldl, step] using this

/-- **the status message present before the pause is restored by play**: for every status `s.status` present when the pause
takes effect, every pause message (or none), and every sequence of `set_status` calls made while paused, the `on_playing`
that ends the pause leaves exactly `s.status`, and nothing saved. -/
theorem C05_status_restored (s : St) (msg : Option String) (mid : List Op) (h : ∀ o ∈ mid, ∃ v, o = .setStatus v) :
    run s ([.onPaused msg] ++ mid ++ [.onPlaying]) = { status := s.status, pre := none } := by
  have hpre : (step s (.onPaused msg)).pre = s.status := by cases msg <;> rfl
  have hk := run_keeps_pre (step s (.onPaused msg)) mid h
  have hsplit : run s ([.onPaused msg] ++ mid ++ [.onPlaying]) = step (run (step s (.onPaused msg)) mid) .onPlaying := by
    simp [run, List.foldl_append]
  rw [hsplit]
  show ({ status := (run (step s (.onPaused msg)) mid).pre, pre := none } : St) = _
  rw [hk, hpre]

/-- while paused the status shows the pause message when one was given, the previous status otherwise -/
theorem C05_status_while_paused (s : St) (msg : Option String) :
    (step s (.onPaused msg)).status = (match msg with | some m => some m | none => s.status) := by
  cases msg <;> rfl

/-- the statement over whole histories: in any history of hook calls, after every `on_playing` that follows an `on_paused`
(with only `set_status` calls in between) the status is the one that was present just before that `on_paused`. -/
theorem C05_status_restored_in_history (s0 : St) (before : List Op) (msg : Option String) (mid : List Op)
    (h : ∀ o ∈ mid, ∃ v, o = .setStatus v) :
    (run s0 (before ++ [.onPaused msg] ++ mid ++ [.onPlaying])).status = (run s0 before).status := by
  have h1 := C05_status_restored (run s0 before) msg mid h
  have hsplit : run s0 (before ++ [.onPaused msg] ++ mid ++ [.onPlaying])
      = run (run s0 before) ([.onPaused msg] ++ mid ++ [.onPlaying]) := by
    simp [run, List.foldl_append]
  rw [hsplit, h1]

-- non-vacuity and the cases a sampled test misses: no status before the pause (None) with a pause message
example : run {} [.onPaused (some "held"), .onPlaying] = {} := by decide
example : run {} [.setStatus (some "busy"), .onPaused none, .setStatus (some "x"), .onPlaying] = { status := some "busy" } := by decide
example : (run {} [.setStatus (some "busy"), .onPaused (some "held")]).status = some "held" := by decide

end StatusM
