import PlumpyModel.PM.Proof3
/-!
# C05 — pause/play is transparent: nothing runs while paused

Model: `PMF`.  Every activation of a step function or continuation is logged in `Cfg.trace` together with the value of
`paused` at the moment it starts.
-/
namespace PMF

/-- `pause()` and `play()` never raise, in any configuration -/
theorem C05_pause_total (c : Cfg) (e : Exc) : (pause c).2 ≠ .raised e := by
  unfold pause
  split
  · simp
  · split
    · simp
    · split
      · simp
      · split
        · simp
        · split
          · dsimp only; split <;> simp
          · simp

theorem C05_play_total (c : Cfg) (e : Exc) : (play c).2 ≠ .raised e := by
  unfold play
  split
  · split <;> simp
  · simp

/-- **no user code while paused**: for every user program and every history of ticks, scheduled callbacks and
pause / play / kill / resume / fail / call_soon / cancel / complete requests, no step function or continuation is ever
started while the process reports paused. -/
theorem C05_nothing_runs_while_paused (P : Prog) (nf : Nat) (evs : List Ev) :
    ∀ a ∈ (run P (init nf) evs).trace, a.paused = false :=
  C05_no_user_code_while_paused P nf evs

theorem cancelAction_paused (c : Cfg) (i : Nat) : (cancelAction c i).paused = c.paused := by
  unfold cancelAction
  split
  · unfold setActionStatus; split <;> rfl
  · rfl

/-- `play()` always returns `True` and leaves the process un-paused -/
theorem C05_play_unpauses (c : Cfg) : (play c).1.paused = none ∧ (play c).2 = .bool true := by
  unfold play
  split
  · rename_i hp
    split
    · refine ⟨?_, rfl⟩
      show (cancelAction c _).paused = none
      rw [cancelAction_paused]; exact hp
    · exact ⟨hp, rfl⟩
  · exact ⟨rfl, rfl⟩

/-- `play()` cancels a pause that has not yet taken effect: no pause request stays pending -/
theorem C05_play_cancels_pending_pause (c : Cfg) (hp : c.paused = none) :
    (play c).1.pausing = none ∧ ∀ i, c.pausing = some i → actionStatus (play c).1 i ≠ .pending := by
  unfold play
  simp only [hp]
  split
  · rename_i i hi
    refine ⟨rfl, ?_⟩
    intro j hj
    rw [hi] at hj; cases hj
    show actionStatus (cancelAction c i) i ≠ .pending
    unfold cancelAction
    split
    · rename_i hpend
      unfold setActionStatus
      cases ha : c.actions[i]? with
      | none => simp [actionStatus, ha] at hpend
      | some a =>
        simp only [actionStatus, setAt, List.getElem?_set]
        have hlt : i < c.actions.length := (List.getElem?_eq_some_iff.mp ha).1
        simp [hlt]
    · assumption
  · rename_i hq
    exact ⟨hq, by intro i hi; rw [hq] at hi; cases hi⟩

-- non-vacuity: a pause takes effect at the step boundary, the continuation only runs after play
section
private def two : Prog := fun fn _ _ _ => if fn = 0 then ⟨1, .ret (.cont 1 [] [])⟩ else ⟨0, .ret (.stop none true)⟩
example : (run two (init 0) [.tick, .pause, .tick, .tick, .tick]).trace.length = 1 := by decide +kernel
example : (run two (init 0) [.tick, .pause, .tick, .play, .tick]).trace.length = 2 := by decide +kernel
end

end PMF
