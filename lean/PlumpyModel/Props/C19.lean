import PlumpyModel.Savable.Proof
/-!
# C19 — any Savable round-trips its declared members through the named loader

Model: `Sav.save` / `Sav.load` (`Savable.save`, `save_members`, `Savable.load`, `recreate_from`, `load_members`,
`_get_value`, `SavableFuture.save_instance_state` / `recreate_from`), `Sav.ensureLoader` (`_ensure_object_loader`),
`Sav.Fam` (who owns which `_auto_persist` set: the `auto_persist` decorator and the `Savable.auto_persist` classmethod).

Quantification: every class family reachable by any sequence of declarations, every method table, every global loader,
every context loader, every object *of any nesting depth* (the proofs are by induction on the nesting of values).

**Copy at save time** ("later mutation of the original does not show") is value semantics in this functional model:
a value *is* its content when `save` runs, `deepcopy v = v`.  That clause is decided by the correspondence check (the
harness mutates the original after `save` and compares the saved state and the reloaded object with the model's), not
by a theorem here.
-/
namespace Sav

/-! ## What "restored" means, clause by clause -/

/-- `Restored W o o'`: `o'` restores `o` in the sense of the property.
* a plain value is equal;
* a bound method is bound to the object that now holds it (`own = true`) and is the same function (by name);
* a Savable is an object of the same class on which every declared member of that class is present and restores the
  original's member, recursively;
* a future is in the same one of the four states, with the same exception, or a result that restores the original's. -/
inductive Restored (W : World) : Val → Val → Prop
  | plain (p : Plain) : Restored W (.plain p) (.plain p)
  | method (n : Name) : Restored W (.method true n) (.method true n)
  | obj (c : Nat) (a a' : List (Name × Val))
      (present : ∀ ms, W.fam.eff c = some ms → ∀ m ∈ ms, (lookup m a').isSome = true)
      (members : ∀ ms, W.fam.eff c = some ms → ∀ m ∈ ms, ∀ v v', lookup m a = some v → lookup m a' = some v' →
        Restored W v v') :
      Restored W (.obj c a) (.obj c a')
  | futPending : Restored W .futPending .futPending
  | futCancelled : Restored W .futCancelled .futCancelled
  | futExc (e : String) : Restored W (.futExc e) (.futExc e)
  | futResult (v v' : Val) : Restored W v v' → Restored W (.futResult v) (.futResult v')

/-- the restriction `proj` that the round trip computes does restore every well-formed value -/
theorem C19_proj_restores (W : World) (dom : PyObj → Bool) :
    ∀ v : Val, ∀ meths, wfVal W dom meths v = true → Restored W v (proj W v) := by
  intro v
  induction v using Val.ind with
  | plain p => intro _ _; simp only [proj]; exact .plain p
  | method o n =>
    intro meths h
    simp only [wfVal, Bool.and_eq_true] at h
    obtain ⟨ho, _⟩ := h
    subst ho
    simp only [proj]; exact .method n
  | obj c a ih =>
    intro meths h
    simp only [wfVal, Bool.and_eq_true] at h
    obtain ⟨_, hall⟩ := h
    cases heff : W.fam.eff c with
    | none =>
      simp only [proj, heff]
      exact .obj c a [] (by intro ms h'; rw [heff] at h'; cases h') (by intro ms h'; rw [heff] at h'; cases h')
    | some ms =>
      simp only [proj, heff]
      rw [heff] at hall
      simp only [List.all_eq_true] at hall
      refine .obj c a _ ?_ ?_
      · intro ms' h' m hm
        rw [heff] at h'; simp only [Option.some.injEq] at h'; subst h'
        have := hall m hm
        rw [lookup_wfAttrs] at this
        rw [lookup_select, lookup_projAttrs]
        cases hv : lookup m a with
        | none => simp [hv] at this
        | some v => simp [hm]
      · intro ms' h' m hm v v' hv hv'
        rw [heff] at h'; simp only [Option.some.injEq] at h'; subst h'
        rw [lookup_select, lookup_projAttrs, hv] at hv'
        simp [hm] at hv'
        subst hv'
        have := hall m hm
        rw [lookup_wfAttrs, hv] at this
        simp at this
        exact ih m v (lookup_mem hv) _ this
  | futPending => intro _ _; simp only [proj]; exact .futPending
  | futResult v ih =>
    intro meths h
    simp only [wfVal, Bool.and_eq_true] at h
    simp only [proj]; exact .futResult _ _ (ih [] h.2)
  | futExc e => intro _ _; simp only [proj]; exact .futExc e
  | futCancelled => intro _ _; simp only [proj]; exact .futCancelled
  | raw s => intro meths h; simp [wfVal] at h

/-! ## Clause 1: every declared member is restored, at any nesting depth -/

/-- **C19 (members round-trip), general form.**  `o` is any Savable (an object of a generated class or a future) that
is well formed (`wfVal`: declared members present hereditarily, methods bound to their holder and defined on its
class, classes within `dom`).  It is saved with any context `ctx`, which makes `TL` the loader that names the classes
and `rec` the recorded loader (`saveHead`); it is loaded with any context `lctx` for which `_ensure_object_loader`
yields `L`; `TL` and `L` agree on `dom`.  Then `save` succeeds and `load` returns `proj W o`, which restores `o`. -/
theorem C19_members_roundtrip (W : World) (ctx lctx : Ctx) (rec : Option Ident) (TL L : Loader) (dom : PyObj → Bool)
    (o : Val) (hsav : isSavable o = true) (hwf : wfVal W dom [] o = true)
    (hhead : saveHead W ctx = .ok (rec, TL)) (hens : ensureLoader W lctx rec = .ok L) (hrt : RoundTrips TL L dom) :
    ∃ s o', save W ctx o = .ok s ∧ load W lctx s = .ok o' ∧ o' = proj W o ∧ Restored W o o' := by
  obtain ⟨s, h1, h2, h3⟩ := (roundtrip_core hhead hrt o [] hwf).2 hsav
  refine ⟨s, proj W o, h1, ?_, rfl, C19_proj_restores W dom o [] hwf⟩
  simp [load, h2, hens, h3]

/-- **default or global-custom loader** (no context at save, none at load): the global loader names and resolves -/
theorem C19_members_roundtrip_global (W : World) (dom : PyObj → Bool) (o : Val) (hsav : isSavable o = true)
    (hwf : wfVal W dom [] o = true) (hrt : RoundTrips W.global W.global dom) :
    ∃ s o', save W none o = .ok s ∧ load W none s = .ok o' ∧ Restored W o o' := by
  obtain ⟨s, o', h1, h2, _, h4⟩ :=
    C19_members_roundtrip W none none none W.global W.global dom o hsav hwf rfl rfl hrt
  exact ⟨s, o', h1, h2, h4⟩

/-- **per-save custom loader** `Lc`, loaded *without* a context: the global loader can name the class of `Lc`
(`lid`) and resolve that name, and instantiating the class gives `Lc`; `Lc` names and resolves the classes of `dom`
(nothing is asked of the global loader about them).  The round trip goes through `Lc`. -/
theorem C19_members_roundtrip_persave (W : World) (Lc : Loader) (lid : Ident) (dom : PyObj → Bool) (o : Val)
    (hsav : isSavable o = true) (hwf : wfVal W dom [] o = true)
    (hid : W.global.identify (.loaderCls Lc.cls) = .ok lid) (hload : W.global.load lid = some (.loaderCls Lc.cls))
    (hinst : W.instantiate Lc.cls = Lc) (hrt : RoundTrips Lc Lc dom) :
    ∃ s o', save W (some Lc) o = .ok s ∧ s.recorded = some lid ∧ load W none s = .ok o' ∧ Restored W o o' := by
  have hhead : saveHead W (some Lc) = .ok (some lid, Lc) := by simp [saveHead, hid]
  have hens : ensureLoader W none (some lid) = .ok Lc := by simp [ensureLoader, hload, hinst]
  obtain ⟨s, h1, h2, h3⟩ := (roundtrip_core hhead hrt o [] hwf).2 hsav
  refine ⟨s, proj W o, h1, h2, ?_, C19_proj_restores W dom o [] hwf⟩
  simp [load, h2, hens, h3]

/-- what the round trip keeps of an object: exactly the declared members, each one the restriction of the original's -/
theorem C19_members_exactly_declared (W : World) (c : Nat) (attrs : List (Name × Val)) (ms : List Name)
    (heff : W.fam.eff c = some ms) :
    ∃ attrs', proj W (.obj c attrs) = .obj c attrs' ∧
      ∀ m, lookup m attrs' = if m ∈ ms then (lookup m attrs).map (proj W) else none := by
  refine ⟨select ms (projAttrs W attrs), by simp [proj, heff], ?_⟩
  intro m
  rw [lookup_select, lookup_projAttrs]

/-! ## Clause 2: declarations on a child do not reach the parent — and exactly when -/

/-- **C19 (inheritance of `auto_persist` sets).**  In any family reachable from freshly created classes by any
sequence of declarations (`Fam.WF`, see `C19_reachable_wf`), declaring members `d.members` on an existing class
`d.cls` leaves the effective member set of every proper ancestor `p` unchanged, **provided** the declaration is made
* with the decorator `@auto_persist(...)` (it rebinds the class to a fresh copy first), or
* with the classmethod on a class that already has its own set (it was decorated before), or
* with the classmethod when no ancestor has declared anything (`_auto_persist is None`: a fresh set is created). -/
theorem C19_autopersist_inherit_independent (F : Fam) (hwf : F.WF) (d : Decl) (p : Nat)
    (hc : d.cls < F.own.length) (hp : p < d.cls)
    (hcond : d.kind = .decorator ∨ (∃ r, F.own[d.cls]? = some (some r)) ∨ F.ref d.cls = none) :
    (F.apply d).eff p = F.eff p := by
  unfold Fam.apply
  cases hk : d.kind with
  | decorator => exact Fam.eff_decorate_lt hwf _ hc hp
  | classmethod =>
    rcases hcond with h | ⟨r, h⟩ | h
    · rw [hk] at h; cases h
    · exact Fam.eff_classmethod_own_lt hwf _ h hp
    · exact Fam.eff_classmethod_none_lt hwf _ h hp

/-- the condition is exact: in the remaining case (classmethod on a class that only *inherits* a set) the set object
is shared, and every class that sees that object — the base that owns it and all classes inheriting it — gets the
new members -/
theorem C19_autopersist_shared_leaks (F : Fam) (c r p : Nat) (ms : List Name)
    (hr : F.ref c = some r) (hp : F.ref p = some r) :
    (F.classmethod c ms).eff p = (F.eff p).map (insertAll · ms) := by
  rw [Fam.eff_classmethod_of_ref ms hr hp]; simp

/-- a class without its own set sees the very set object of its base: the premise of the leak -/
theorem C19_autopersist_inherited_is_shared (F : Fam) (c : Nat) (h : (F.own[c + 1]?).join = none) :
    F.ref (c + 1) = F.ref c := lookupOwn_inherit h

/-- every family built from `n` fresh classes by any list of declarations satisfies the ownership invariant -/
theorem C19_reachable_wf (n : Nat) (ds : List Decl) : (Fam.build n ds).WF := Fam.build_wf n ds

/-- the decorated class itself: a copy of what it inherited so far, plus the new members -/
theorem C19_autopersist_decorated_set (F : Fam) (c : Nat) (ms : List Name) (hc : c < F.own.length) :
    (F.decorate c ms).eff c = some (insertAll ((F.eff c).getD []) ms) := Fam.eff_decorate_self ms hc

/-! ## Clause 3: futures -/

/-- the state of a future value -/
def futState : Val → Option String
  | .futPending => some "PENDING"
  | .futResult _ => some "FINISHED"
  | .futExc _ => some "FINISHED"
  | .futCancelled => some "CANCELLED"
  | _ => none

/-- **C19 (futures).**  Under the loader hypotheses of `C19_members_roundtrip`, a future that is pending, cancelled,
failed with `e`, or resolved with a well-formed value `v` (plain, or itself a Savable of any depth, or a future) is
saved and comes back pending, cancelled, failed with `e`, resolved with the restored `v`, respectively. -/
theorem C19_future_state_restored (W : World) (ctx lctx : Ctx) (rec : Option Ident) (TL L : Loader)
    (dom : PyObj → Bool) (hdom : dom .future = true)
    (hhead : saveHead W ctx = .ok (rec, TL)) (hens : ensureLoader W lctx rec = .ok L) (hrt : RoundTrips TL L dom) :
    (∃ s, save W ctx .futPending = .ok s ∧ load W lctx s = .ok .futPending) ∧
    (∃ s, save W ctx .futCancelled = .ok s ∧ load W lctx s = .ok .futCancelled) ∧
    (∀ e, ∃ s, save W ctx (.futExc e) = .ok s ∧ load W lctx s = .ok (.futExc e)) ∧
    (∀ v, wfVal W dom [] v = true →
      ∃ s v', save W ctx (.futResult v) = .ok s ∧ load W lctx s = .ok (.futResult v') ∧ Restored W v v') := by
  refine ⟨?_, ?_, ?_, ?_⟩
  · obtain ⟨s, o', h1, h2, h3, _⟩ :=
      C19_members_roundtrip W ctx lctx rec TL L dom .futPending rfl (by simp [wfVal, hdom]) hhead hens hrt
    exact ⟨s, h1, by rw [h2, h3]; simp [proj]⟩
  · obtain ⟨s, o', h1, h2, h3, _⟩ :=
      C19_members_roundtrip W ctx lctx rec TL L dom .futCancelled rfl (by simp [wfVal, hdom]) hhead hens hrt
    exact ⟨s, h1, by rw [h2, h3]; simp [proj]⟩
  · intro e
    obtain ⟨s, o', h1, h2, h3, _⟩ :=
      C19_members_roundtrip W ctx lctx rec TL L dom (.futExc e) rfl (by simp [wfVal, hdom]) hhead hens hrt
    exact ⟨s, h1, by rw [h2, h3]; simp [proj]⟩
  · intro v hv
    obtain ⟨s, o', h1, h2, h3, _⟩ :=
      C19_members_roundtrip W ctx lctx rec TL L dom (.futResult v) rfl (by simp [wfVal, hdom, hv]) hhead hens hrt
    refine ⟨s, proj W v, h1, by rw [h2, h3]; simp [proj], C19_proj_restores W dom v [] hv⟩

/-- the state string of a round-tripped future is the original's -/
theorem C19_future_state_same (W : World) (v : Val) : futState (proj W v) = futState v := by
  cases v with
  | obj c a => simp only [proj]; split <;> rfl
  | _ => rfl

/-- the set of persisted future attributes is what the source declares (`@auto_persist('_state', '_result')`):
a proof obligation on the generated table -/
theorem C19_future_members_table : futureMembers = ["_result", "_state"] := futureMembers_eq

/-! ## Clause 4: which loader resolves the class -/

/-- **C19 (loader precedence)**, `_ensure_object_loader`: 1) a loader in the load context wins over everything;
2) otherwise the loader recorded in the saved state, found through the global loader and instantiated;
3) otherwise the global default.  An unknown recorded identifier is a `ValueError`. -/
theorem C19_loader_precedence (W : World) :
    (∀ L rec, ensureLoader W (some L) rec = .ok L) ∧
    (∀ lid l, W.global.load lid = some (.loaderCls l) → ensureLoader W none (some lid) = .ok (W.instantiate l)) ∧
    (ensureLoader W none none = .ok W.global) ∧
    (∀ lid, W.global.load lid = none → ensureLoader W none (some lid) = .error .valueError) := by
  refine ⟨?_, ?_, ?_, ?_⟩
  · intro L rec; rfl
  · intro lid l h; simp [ensureLoader, h]
  · rfl
  · intro lid h; simp [ensureLoader, h]

/-- `save` records a loader exactly when the save context carries one: the identifier the global loader gives to the
*class* of that loader; and the class of the object is named by the context loader if there is one, else by the global
loader -/
theorem C19_save_records_loader (W : World) (ctx : Ctx) (c : Nat) (attrs : List (Name × Val))
    (st : SVal) (h : save W ctx (.obj c attrs) = .ok st) :
    ∃ cid types entries rec, st = .state (some cid) rec types entries ∧
      (match ctx with
       | none => rec = none ∧ W.global.identify (.cls c) = .ok cid
       | some Lc => (∃ lid, rec = some lid ∧ W.global.identify (.loaderCls Lc.cls) = .ok lid) ∧
                    Lc.identify (.cls c) = .ok cid) := by
  cases ctx with
  | none =>
    simp only [save, saveHead] at h
    cases hid : W.global.identify (.cls c) with
    | error e => simp [hid] at h
    | ok cid =>
      simp only [hid] at h
      cases heff : W.fam.eff c with
      | none => simp [heff, mkState] at h; exact ⟨cid, _, _, none, h.symm, rfl, rfl⟩
      | some ms =>
        simp only [heff] at h
        cases hm : saveMembers ms (saveAttrs W none attrs) with
        | error e => simp [hm] at h
        | ok ts => simp [hm, mkState] at h; exact ⟨cid, _, _, none, h.symm, rfl, rfl⟩
  | some Lc =>
    simp only [save, saveHead] at h
    cases hl : W.global.identify (.loaderCls Lc.cls) with
    | error e => simp [hl] at h
    | ok lid =>
      simp only [hl] at h
      cases hid : Lc.identify (.cls c) with
      | error e => simp [hid] at h
      | ok cid =>
        simp only [hid] at h
        cases heff : W.fam.eff c with
        | none => simp [heff, mkState] at h; exact ⟨cid, _, _, some lid, h.symm, ⟨lid, rfl, hl⟩, hid⟩
        | some ms =>
          simp only [heff] at h
          cases hm : saveMembers ms (saveAttrs W (some Lc) attrs) with
          | error e => simp [hm] at h
          | ok ts => simp [hm, mkState] at h; exact ⟨cid, _, _, some lid, h.symm, ⟨lid, rfl, hl⟩, hid⟩

/-- the loader that `load` hands the class name to: the context's, else the recorded one, else the global one -/
theorem C19_load_uses_ensured_loader (W : World) (lctx : Ctx) (s : SVal) (L : Loader)
    (h : ensureLoader W lctx s.recorded = .ok L) : load W lctx s = loadWith W L s := by
  simp [load, h]

/-! ## Clause 5: an unknown class is a ValueError, never a wrong object -/

/-- **C19 (unknown class)**: whatever the saved state contains, if the class name is missing or the effective loader
does not resolve it, `load` raises `ValueError` -/
theorem C19_unknown_class_valueerror (W : World) (lctx : Ctx) (L : Loader) (cls rec : Option Ident)
    (types : List (Name × Tag)) (entries : List (Name × SVal))
    (hens : ensureLoader W lctx rec = .ok L)
    (hunk : cls = none ∨ ∃ cid, cls = some cid ∧ L.load cid = none) :
    load W lctx (.state cls rec types entries) = .error .valueError := by
  simp only [load, SVal.recorded, hens]
  rcases hunk with h | ⟨cid, h1, h2⟩
  · subst h; simp [loadWith]
  · subst h1; simp [loadWith, h2]

/-- the object a value is an instance of -/
def classOf : Val → Option PyObj
  | .obj c _ => some (.cls c)
  | .futPending | .futResult _ | .futExc _ | .futCancelled => some .future
  | _ => none

/-- **never a wrong object**: whenever `load` returns, the result is an instance of exactly the object that the
effective loader resolved the recorded class name to -/
theorem C19_loaded_class_is_resolved (W : World) (lctx : Ctx) (s : SVal) (v : Val) (h : load W lctx s = .ok v) :
    ∃ L cid types entries rec, ensureLoader W lctx s.recorded = .ok L ∧ s = .state (some cid) rec types entries ∧
      (L.load cid).isSome ∧ classOf v = L.load cid := by
  unfold load at h
  cases hens : ensureLoader W lctx s.recorded with
  | error e => simp [hens] at h
  | ok L =>
    simp only [hens] at h
    cases s with
    | plain p => simp [loadWith] at h
    | mname n => simp [loadWith] at h
    | exc e => simp [loadWith] at h
    | state cls rec types entries =>
      cases cls with
      | none => simp [loadWith] at h
      | some cid =>
        refine ⟨L, cid, types, entries, rec, rfl, rfl, ?_⟩
        simp only [loadWith] at h
        cases hl : L.load cid with
        | none => simp [hl] at h
        | some x =>
          simp only [hl] at h
          cases x with
          | cls c =>
            simp only at h
            cases heff : W.fam.eff c with
            | none => simp [heff] at h; subst h; simp [classOf]
            | some ms =>
              simp only [heff] at h
              split at h
              · simp at h
              · simp at h; subst h; simp [classOf]
          | future =>
            simp only at h
            refine ⟨rfl, ?_⟩
            unfold recreateFuture at h
            repeat' split at h
            all_goals first | (simp at h; done) | (simp at h; subst h; simp [classOf])
          | loaderCls l => simp at h
          | other n => simp at h

/-- an unknown *recorded loader* is a `ValueError` as well -/
theorem C19_unknown_loader_valueerror (W : World) (s : SVal) (lid : Ident) (hrec : s.recorded = some lid)
    (hunk : W.global.load lid = none) : load W none s = .error .valueError := by
  simp [load, hrec, ensureLoader, hunk]

/-! ## Non-vacuity: a concrete family, loaders and a depth-3 object satisfy every hypothesis -/
section examples

private def N : Naming where
  modOf
    | .future => "plumpy.persistence"
    | .loaderCls 0 => "plumpy.loaders"
    | _ => "fam"
  nameOf
    | .cls 0 => "K0" | .cls 1 => "K1" | .cls _ => "K2"
    | .future => "SavableFuture"
    | .loaderCls 0 => "DefaultObjectLoader" | .loaderCls _ => "LoaderX"
    | .other _ => "x"

private def reg : List PyObj := [.cls 0, .cls 1, .cls 2, .future, .loaderCls 0, .loaderCls 1]
private def dom (x : PyObj) : Bool := reg.contains x
private def dfl : Loader := regLoader 0 N.default reg
private def cx : Loader := regLoader 1 (N.custom "cx") reg

/-- `@auto_persist('a') class K0`, `@auto_persist('b','n') class K1(K0)`, `@auto_persist('f') class K2(K1)` -/
private def fam : Fam := Fam.build 3 [⟨.decorator, 0, ["a"]⟩, ⟨.decorator, 1, ["b", "n"]⟩, ⟨.decorator, 2, ["f"]⟩]
private def W : World where
  fam := fam
  methods := fun _ => ["m0", "m1"]
  global := dfl
  instantiate := fun l => if l = 1 then cx else dfl

example : fam.eff 0 = some ["a"] ∧ fam.eff 1 = some ["a", "b", "n"] ∧ fam.eff 2 = some ["a", "b", "n", "f"] := by decide

/-- nesting depth 3, a bound method, a future resolved with a Savable, an undeclared attribute -/
private def o : Val :=
  .obj 2 [("a", .plain "[1,2]"), ("b", .method true "m1"),
    ("n", .obj 1 [("a", .plain "1"), ("b", .plain "\"s\""), ("n", .obj 0 [("a", .plain "{\"k\":0}"), ("junk", .raw (.exc "x"))])]),
    ("f", .futResult (.obj 0 [("a", .futCancelled)])), ("undeclared", .plain "0")]

example : isSavable o = true := rfl
example : wfVal W dom [] o = true := by decide

theorem C19_example_rt_dfl : RoundTrips dfl dfl dom := by
  intro x hx
  simp only [dom, reg, List.contains_iff_mem, List.mem_cons, List.not_mem_nil, or_false] at hx
  rcases hx with rfl | rfl | rfl | rfl | rfl | rfl <;> exact ⟨_, rfl, by decide⟩

theorem C19_example_rt_cx : RoundTrips cx cx dom := by
  intro x hx
  simp only [dom, reg, List.contains_iff_mem, List.mem_cons, List.not_mem_nil, or_false] at hx
  rcases hx with rfl | rfl | rfl | rfl | rfl | rfl <;> exact ⟨_, rfl, by decide⟩

/-- the hypotheses of `C19_members_roundtrip_global` hold, and this is what comes back -/
example : ∃ s o', save W none o = .ok s ∧ load W none s = .ok o' ∧ Restored W o o' :=
  C19_members_roundtrip_global W dom o rfl (by decide) C19_example_rt_dfl

example : ((save W none o).bind (load W none)).map Val.render =
    .ok "K2{a=[1,2],b=meth:1:m1,f=F.result(K0{a=F.cancelled}),n=K1{a=1,b=\"s\",n=K0{a={\"k\":0}}}}" := by rfl

/-- the hypotheses of `C19_members_roundtrip_persave` hold for the custom loader `cx` -/
example : ∃ s o', save W (some cx) o = .ok s ∧ s.recorded = some "fam:LoaderX" ∧ load W none s = .ok o' ∧
    Restored W o o' :=
  C19_members_roundtrip_persave W cx "fam:LoaderX" dom o rfl (by decide) (by rfl) (by decide) (by rfl) C19_example_rt_cx

example : (save W (some cx) (.obj 0 [("a", .plain "1")])).map SVal.render =
    .ok "{c=cx!fam!K0;l=fam:LoaderX;t=;e=a=1}" := by rfl

/-- precedence: a state saved through `cx` is not loadable with an explicit default-loader context (the context wins
over the recorded loader, and the default loader does not know `cx!fam!K0`): `ValueError`, not a wrong object -/
example : (save W (some cx) (.obj 0 [("a", .plain "1")])).bind (load W (some dfl)) = .error .valueError := by rfl

/-- hypotheses of `C19_autopersist_inherit_independent` on a reachable family, all three admissible ways -/
example : (Fam.build 2 [⟨.decorator, 0, ["a"]⟩]).own.length = 2 := by decide
example : let F := Fam.build 2 [⟨.decorator, 0, ["a"]⟩]
    (F.apply ⟨.decorator, 1, ["b"]⟩).eff 0 = some ["a"] ∧ (F.apply ⟨.decorator, 1, ["b"]⟩).eff 1 = some ["a", "b"] := by decide
example : let F := Fam.build 2 [⟨.decorator, 0, ["a"]⟩, ⟨.decorator, 1, []⟩]
    (∃ r, F.own[1]? = some (some r)) ∧ (F.apply ⟨.classmethod, 1, ["b"]⟩).eff 0 = some ["a"] := by
  exact ⟨⟨1, by decide⟩, by decide⟩
example : let F := Fam.build 2 []
    F.ref 1 = none ∧ (F.apply ⟨.classmethod, 1, ["b"]⟩).eff 0 = none ∧ (F.apply ⟨.classmethod, 1, ["b"]⟩).eff 1 = some ["b"] := by
  decide

/-- the excluded case is real: the classmethod on a child that only inherits its set changes the parent -/
example : let F := Fam.build 2 [⟨.decorator, 0, ["a"]⟩]
    F.ref 1 = F.ref 0 ∧ (F.apply ⟨.classmethod, 1, ["b"]⟩).eff 0 = some ["a", "b"] := by decide

/-- copy on inherit: what the parent declares *after* the child was decorated does not reach the child -/
example : (Fam.build 2 [⟨.decorator, 0, ["a"]⟩, ⟨.decorator, 1, ["b"]⟩, ⟨.classmethod, 0, ["late"]⟩]).eff 1 = some ["a", "b"] := by
  decide

/-- unknown class and unknown recorded loader -/
example : load W none (.state (some "fam:Nope") none [] []) = .error .valueError := by rfl
example : load W none (.state (some "fam:K0") (some "fam:Nope") [] []) = .error .valueError := by rfl

end examples

end Sav
