import PlumpyModel.PM.Proof7
import PlumpyModel.PM.LProof8
import PlumpyModel.Persist.Proof7
/-!
# C04 — a kill request is never lost and no live process is unkillable

Model: `PMF`.  `Committed k c` = the process is KILLED, or EXCEPTED, or the kill action `k` is still the pending
interrupt action of the step in flight (`Pending k c`: live, stepping, `killing = interrupt = some k`, action `k`
pending and of kind kill).  `endOfStep` is the tail of `Process.step` (the `except` clauses, running the interrupt
action or the transition, the `finally`).
-/
namespace PMF

/-- `kill()` never raises, in any configuration -/
theorem C04_kill_total (c : Cfg) (e : Exc) : (kill c).2 ≠ .raised e := by
  unfold kill
  split
  · simp
  · split
    · simp
    · split
      · simp
      · split
        · dsimp only; split <;> simp
        · simp

/-- `kill()` on a live process that is not inside a step (between steps, while paused, not yet started) and has no
kill pending takes effect at once: the process is KILLED (or EXCEPTED if entering KILLED fails), and the call
returns `True`. -/
theorem C04_kill_when_idle (c : Cfg) (hl : terminal c.st.label = false) (hk : c.killing = none)
    (hs : c.stepping = false) :
    (kill c).2 = .bool true ∧ ((kill c).1.st.label = .killed ∨ (kill c).1.st.label = .excepted) := by
  have h1 : c.st.label ≠ .killed := by intro h; rw [h] at hl; simp [terminal, allowed] at hl
  have hkill : kill c = (transitionTo c .killed, .bool true) := by
    unfold kill
    simp [h1, hl, hk, hs]
  rw [hkill]
  exact ⟨rfl, transitionTo_label c .killed⟩

/-- **a kill is never lost**: take any program and any history `evs₁`; if `kill()` then hands back an action future
`k` (the process was live, inside a step, no kill pending), then after EVERY further history `evs₂` — pauses, plays,
resumes, more kills, `fail`, call_soon callbacks, future cancellation, awaitable completions, ticks in any order — the
process is KILLED or EXCEPTED, or the kill is still the pending interrupt action of the step in flight. -/
theorem C04_kill_committed (P : Prog) (nf : Nat) (evs₁ evs₂ : List Ev) (k : Nat) :
    let c₁ := run P (init nf) evs₁
    terminal c₁.st.label = false → c₁.killing = none → (kill c₁).2 = .action k →
    Committed k (run P (kill c₁).1 evs₂) :=
  C04_kill_never_lost P nf evs₁ evs₂ k

/-- **… and takes effect when the current step yields**: with the kill pending, whatever the step produced (a next
state, a pause interruption, an exception), the end of the step leaves the process KILLED or EXCEPTED. -/
theorem C04_end_of_step_kills (k : Nat) (c : Cfg) (r : StepEnd) (h : Pending k c) :
    (endOfStep c r).st.label = .killed ∨ (endOfStep c r).st.label = .excepted :=
  endOfStep_pending k c r h

/-- a pause request cannot displace a pending kill (repair D): it is refused and changes nothing relevant -/
theorem C04_pause_keeps_kill (k : Nat) (c : Cfg) (h : Pending k c) : Pending k (pause c).1 := pause_pending k c h

/-- a further kill() while one is pending hands back the same action -/
theorem C04_second_kill_same_action (k : Nat) (c : Cfg) (h : Pending k c) : (kill c).2 = .action k := by
  obtain ⟨hl, hkill, _⟩ := h
  have h1 : c.st.label ≠ .killed := by intro h; rw [h] at hl; simp [terminal, allowed] at hl
  unfold kill
  simp [h1, hl, hkill]


/-- **no stale kill**: in every reachable configuration, if a kill is recorded as pending (`_killing` set) then the
process is KILLED / EXCEPTED or that very action is still the pending interrupt action of the step in flight. -/
theorem C04_no_stale_killing (P : Prog) (nf : Nat) (evs : List Ev) (i : Nat)
    (hk : (run P (init nf) evs).killing = some i) : Committed i (run P (init nf) evs) :=
  (run_killingOk P (init nf) evs (killingOk_init nf) (pausingOk_init nf)).1 i hk

/-- **from every reachable live configuration a further kill() still terminates the process**: outside a step it
kills at once; inside a step it hands back an action that is the pending kill of the step in flight — which by
`C04_kill_committed`-style stability (`step_committed`) survives every further event and by `C04_end_of_step_kills`
kills when the step yields. -/
theorem C04_always_killable (P : Prog) (nf : Nat) (evs : List Ev)
    (hl : terminal (run P (init nf) evs).st.label = false) :
    let c := run P (init nf) evs
    (c.stepping = false → (kill c).2 = .bool true ∧ ((kill c).1.st.label = .killed ∨ (kill c).1.st.label = .excepted)) ∧
    (c.stepping = true → ∃ k, (kill c).2 = .action k ∧ Pending k (kill c).1) := by
  intro c
  have hl' : terminal c.st.label = false := hl
  have hko : KillingOk c := (run_killingOk P (init nf) evs (killingOk_init nf) (pausingOk_init nf)).1
  have hkl : c.st.label ≠ .killed := by intro h; rw [h] at hl; simp [terminal, allowed] at hl
  have hpend : ∀ i, c.killing = some i → Pending i c := by
    intro i hi
    rcases hko i hi with h | h | h
    · exact absurd h hkl
    · rw [h] at hl; simp [terminal, allowed] at hl
    · exact h
  constructor
  · intro hs
    have hnk : c.killing = none := by
      cases hk : c.killing with
      | none => rfl
      | some i => have := (hpend i hk).2.2.2.2.1; rw [hs] at this; cases this
    exact C04_kill_when_idle c hl' hnk hs
  · intro hs
    cases hk : c.killing with
    | some i =>
      have hp := hpend i hk
      refine ⟨i, C04_second_kill_same_action i c hp, ?_⟩
      have : kill c = (hand c i, .action i) := by unfold kill; simp [hkl, hl', hk]
      rw [this]; exact hp.keep (hand_keep ..)
    | none =>
      have hn := requestInterrupt_new c .kill
      have hval : (kill c).2 = .action c.actions.length := by
        unfold kill
        simp only [hkl, if_false, hl', Bool.false_eq_true, hk, hs, if_true]
        simp only [hn.1]
      exact ⟨c.actions.length, hval, kill_commits c _ hl' hk hval⟩

-- non-vacuity: a kill during an asynchronous step is pending, survives a pause and a play, and kills at the end of the step
section
private def async1 : Prog := fun _ _ _ _ => ⟨1, .ret (.stop (some 3) true)⟩
example : (kill (run async1 (init 0) [.tick])).2 = .action 0 := by decide +kernel
example : (run async1 (init 0) [.tick, .kill, .pause, .play, .tick]).st.label = .killed := by decide +kernel
end

/-!
## Requests made DURING a transition (listeners, state-event callbacks)

Model: `PMF.L` (lean/PlumpyModel/PM/Listener.lean): the configuration carries an oracle `plan : List (Hook × Nat × Req)`; at the
`n`-th `on_process_running / waiting / paused / played` notification and at the `n`-th exiting / entering phase of a transition the
callback issues `pause()`, `play()` or `kill()`, executed with the semantics the real calls have at that point (`_stepping`,
`_executing`, `_transitioning`).  `fireN n` is the notification function with requests nested at most `n` deep (the model uses
`n = plan.length`, which is never exceeded; the theorems hold for every `n`).  `endOfStepL` is the closing part of `Process.step()`
(the `except` clauses, running the interrupt action or the nominal transition, the `while` loop that enacts what was requested
meanwhile, the `finally`); `dispatchL` is the same without `except` / `finally`.
`KE c`: the process is KILLED or EXCEPTED.  `Owed l`: the oracle has issued a `kill()` at a moment when the process was live and no
transition into a terminal state was in progress (`LCfg.issued` logs every request of the oracle with that flag).
-/
namespace L

/-- **a kill that is pending when the step starts closing is enacted, whatever the listeners do** [F22]: with the kill action `k`
pending in the interrupt slot (requested by anybody while the step was in flight), for every plan, every nesting depth and every
outcome of the step, the closing part leaves the process KILLED — or EXCEPTED (the step failed, or entering KILLED failed). -/
theorem C04_listener_pending_kill_enacted (n k : Nat) (l : LCfg) (r : StepEnd) (h : Pending k l.c) :
    KE (endOfStepL (fireN n) l r).c := endOfStepL_pending k l r h

/-- **no stale kill, with listeners**: for every program, every plan of requests issued from inside notifications and every history
of events, in the configuration reached: a recorded kill (`_killing`) is the pending interrupt action of the step in flight unless
the process has terminated, the pause alias points to a pause action, and no transition is in progress.  (`KJ`, the invariant that
is carried through every model function — every transition, every request of the oracle in every context, the closing part of
every step, every event.) -/
theorem C04_listener_no_stale_killing (P : Prog) (nf : Nat) (plan : Plan) (evs : List Ev) :
    let l := runL P (initL nf plan) evs
    (∀ k, l.c.killing = some k → terminal l.c.st.label = true ∨ Pending k l.c) ∧ PausingOk l.c ∧ l.trans = none :=
  let h := runL_kj P (initL nf plan) evs (kj_init nf plan) rfl
  ⟨h.1.kok, h.1.pok, h.2⟩

/-- **a kill issued by a listener is never lost** [F22, F25]: for every program, plan and history, if the oracle has issued a
`kill()` at a moment when the process was live and no transition into a terminal state was in progress — from
`on_process_running/waiting/paused/played` or from the exiting / entering phase of a transition, inside or outside a step, also while
another request was being enacted — then in the configuration reached the process is KILLED or EXCEPTED, or the kill is the pending
interrupt action of the step in flight (and then `C04_listener_pending_kill_enacted`: that step ends KILLED / EXCEPTED). -/
theorem C04_listener_kill_committed (P : Prog) (nf : Nat) (plan : Plan) (evs : List Ev) :
    Owed (runL P (initL nf plan) evs) →
    KE (runL P (initL nf plan) evs).c ∨ ∃ k, Pending k (runL P (initL nf plan) evs).c :=
  runL_owed P nf plan evs

/-- … hence, whenever no step is in progress, every such kill has taken effect -/
theorem C04_listener_kill_effective_between_steps (P : Prog) (nf : Nat) (plan : Plan) (evs : List Ev)
    (hs : (runL P (initL nf plan) evs).c.stepping = false) :
    Owed (runL P (initL nf plan) evs) → KE (runL P (initL nf plan) evs).c := by
  intro ho
  rcases runL_owed P nf plan evs ho with h | ⟨k, hp⟩
  · exact h
  · have := hp.2.2.2.2.1; rw [hs] at this; cases this

/-- **a kill issued while a step is closing has been enacted when the step ends** [F22, F25]: from any configuration that
satisfies the invariant (every reachable one does: `runL_kj`) with no transition in progress, for every nesting depth and outcome of
the step: if the oracle issues a `kill()` on the live process during the closing part (from a notification, or from the exiting /
entering phase of a transition into a non-terminal state, possibly while a pause is being enacted), or had issued one before, then
when the closing part returns the process is KILLED (EXCEPTED if entering KILLED or the step failed).  In particular the `finally`
of `step()` does not cancel it. -/
theorem C04_listener_kill_enacted (n : Nat) (l : LCfg) (r : StepEnd) (p : KJ l) (htr : l.trans = none) :
    Owed (endOfStepL (fireN n) l r) → KE (endOfStepL (fireN n) l r).c :=
  endOfStepL_owed (fireN_good n) l r p htr

/-- **nothing requested during the closing part is left behind** [F25]: when the `while` loop of the closing part returns, the
interrupt-action slot is empty, or its action is done (it ran, or was retracted / superseded), or the process has terminated — for
every configuration, plan and nesting depth.  So the `finally` of `step()` never cancels a request that a listener made on a process
that is still live. -/
theorem C04_listener_nothing_left_pending (n : Nat) (l : LCfg) (next : Option SObj) :
    Quiet (dispatchL (fireN n) l next) := dispatchL_quiet (fireN_adv n) l next

-- non-vacuity.  F25: `on_process_running` pauses, `on_process_paused` (while that pause is being enacted) kills: KILLED, with both
-- action futures resolved; the kill is owed; the configuration in which that step closes satisfies the invariant.
section
private def planF25 : Plan := [(.running, 1, .pause), (.paused, 1, .kill)]
private def closing : LCfg := { c := { init 0 with stepping := true }, plan := planF25 }
example : (runL sync2 (initL 0 planF25) [.tick]).c.st.label = .killed := by decide +kernel
example : Owed (runL sync2 (initL 0 planF25) [.tick]) := ⟨.paused, by decide +kernel⟩
example : (runL sync2 (initL 0 planF25) [.tick]).c.handed.map (actionStatus (runL sync2 (initL 0 planF25) [.tick]).c) = [.done, .cancelled] := by
  decide +kernel
example : KJ closing ∧ closing.trans = none :=
  ⟨KJ.mk (fun k hk => by cases hk) (fun i hi => by cases hi) (fun ho => by obtain ⟨_, hm⟩ := ho; cases hm)
    (fun ho => by obtain ⟨_, hm⟩ := ho; cases hm), rfl⟩
example : Owed (endOfStepL (fireN 2) closing (.next (some (.running 0 [] [])))) := ⟨.paused, by decide +kernel⟩
example : (endOfStepL (fireN 2) closing (.next (some (.running 0 [] [])))).c.st.label = .killed := by decide +kernel
-- F22: a pause is pending when the step closes, `on_process_waiting` kills during the transition that the pause action performs
private def waiter : Prog := fun fn _ _ _ => if fn = 0 then ⟨1, .ret (.wait 1)⟩ else ⟨0, .ret (.stop (some 7) true)⟩
example : (runL waiter (initL 0 [(.waiting, 1, .kill)]) [.tick, .pause, .tick]).c.st.label = .killed := by decide +kernel
-- a kill from `on_process_played` outside a step (the process waits for the pause to end) is owed and made at once
example : Owed (runL waiter (initL 0 [(.played, 1, .kill)]) [.pause, .tick, .play]) ∧
    (runL waiter (initL 0 [(.played, 1, .kill)]) [.pause, .tick, .play]).c.st.label = .killed := ⟨⟨.played, by decide +kernel⟩, by decide +kernel⟩
-- a kill from the exiting phase of the transition into FINISHED is not owed (the transition cannot be abandoned): FINISHED
example : (runL sync2 (initL 0 [(.exiting, 3, .kill)]) [.tick]).c.st.label = .finished ∧
    (runL sync2 (initL 0 [(.exiting, 3, .kill)]) [.tick]).issued = [(.exiting, .kill, false)] := by decide +kernel
end

end L

/-!
## A process loaded from a checkpoint

"Every reachable live configuration" includes one that was LOADED: `saveCfg c` is what a bundle keeps of a configuration
(`lean/PlumpyModel/Persist/Plain.lean`), `restoreCfg b` the fresh instance `load_instance_state` + `init()` build from it in a new
event loop, `restoreCfgN m b` the same in an environment that holds `m` pending external futures (`Persist/Reload.lean`;
`restoreCfgN 0 = restoreCfg` by `rfl`).  The theorems below hold for EVERY bundle `b` — in particular for
`b = saveCfg (run P (init nf) evs)` taken at a step `boundary`, where `harness/props/c04.py` checkpoints (`checkpointAt`) — and for
every history `evs` of events applied to the restored instance (callbacks in any order, pause, play, kill, resume, fail, call_soon,
future cancellation, awaitable completions).  A restored configuration records no request (`_killing`, `_pausing`, the action table
are not in a bundle), so it is a base case of the invariants `KillingOk` / `PausingOk` like `init nf`, and `init()` installs the
`try_killing` callback on the loaded future exactly when it is still pending (`FutHook`).
-/

/-- **a kill of a restored process is never lost**: load any bundle, apply any history `evs₁`; if `kill()` then hands back an
action future `k` (the restored process is live, inside a step, no kill pending), then after EVERY further history `evs₂` the
process is KILLED or EXCEPTED, or the kill is still the pending interrupt action of the step in flight — exactly
`C04_kill_committed`, with the restored configuration in the place of the freshly created one. -/
theorem C04_restored_kill_committed (P : Prog) (m : Nat) (b : Saved) (evs₁ evs₂ : List Ev) (k : Nat) :
    let r := run P (restoreCfgN m b) evs₁
    terminal r.st.label = false → r.killing = none → (kill r).2 = .action k →
    Committed k (run P (kill r).1 evs₂) :=
  fun hl hnk hr => kill_never_lost_from P (restoreCfgN m b) (pausingOk_restored m b) evs₁ evs₂ k hl hnk hr

/-- **no stale kill after a restore**: in every configuration reached from a restored one, a recorded `_killing` is the pending
interrupt action of the step in flight, or the process is KILLED / EXCEPTED (`C04_no_stale_killing` for restored processes). -/
theorem C04_restored_no_stale_killing (P : Prog) (m : Nat) (b : Saved) (evs : List Ev) (i : Nat)
    (hk : (run P (restoreCfgN m b) evs).killing = some i) : Committed i (run P (restoreCfgN m b) evs) :=
  (run_killingOk P (restoreCfgN m b) evs (killingOk_restored m b) (pausingOk_restored m b)).1 i hk

/-- **from every live configuration reached by a restored process a further kill() still terminates it**: outside a step it
kills at once (`True`; EXCEPTED only if entering KILLED fails); inside a step it hands back an action that is the pending kill of
that step — which survives every further event (`C04_restored_kill_committed`) and kills when the step yields
(`C04_end_of_step_kills`).  `C04_always_killable` for restored processes. -/
theorem C04_restored_always_killable (P : Prog) (m : Nat) (b : Saved) (evs : List Ev)
    (hl : terminal (run P (restoreCfgN m b) evs).st.label = false) :
    let r := run P (restoreCfgN m b) evs
    (r.stepping = false → (kill r).2 = .bool true ∧ ((kill r).1.st.label = .killed ∨ (kill r).1.st.label = .excepted)) ∧
    (r.stepping = true → ∃ k, (kill r).2 = .action k ∧ Pending k (kill r).1) :=
  always_killable_of _ (run_killingOk P (restoreCfgN m b) evs (killingOk_restored m b) (pausingOk_restored m b)).1 hl

/-- the same in the words of the property: take any reachable configuration `c` at a step boundary (where the harness
checkpoints), save it, load it (`restoreCfg (saveCfg c)`), let anything happen to the loaded process; if it is still live, `kill()`
terminates it as it would a process that was never checkpointed.  (The hypothesis `boundary c` only says where checkpoints are
taken; the conclusion holds for any bundle: `C04_restored_always_killable`.) -/
theorem C04_checkpointed_process_killable (P : Prog) (nf : Nat) (evs evs' : List Ev) :
    let c := run P (init nf) evs
    let r := run P (restoreCfg (saveCfg c)) evs'
    boundary c = true → terminal r.st.label = false →
    (r.stepping = false → (kill r).2 = .bool true ∧ ((kill r).1.st.label = .killed ∨ (kill r).1.st.label = .excepted)) ∧
    (r.stepping = true → ∃ k, (kill r).2 = .action k ∧ Pending k (kill r).1) :=
  fun _ hl => C04_restored_always_killable P 0 (saveCfg (run P (init nf) evs)) evs' hl

/-- **the kill hook is installed on a restored process**: in every configuration reached from a restored one, a process future
that is still pending carries the `try_killing` callback, and that callback is not already scheduled.  (`init()` adds it when the
loaded future is not done; nothing but `future().cancel()` touches a pending future.  The seeded change "the hook is attached in
`__init__` only" makes exactly this false.) -/
theorem C04_restored_future_has_kill_hook (P : Prog) (m : Nat) (b : Saved) (evs : List Ev) :
    let r := run P (restoreCfgN m b) evs
    r.fut = .pending → r.futHasKillCb = true ∧ Cb.trykill ∉ r.ready :=
  run_futHook P (restoreCfgN m b) evs (futHook_restored m b)

/-- the same for a process that was never checkpointed -/
theorem C04_future_has_kill_hook (P : Prog) (nf : Nat) (evs : List Ev) :
    let c := run P (init nf) evs
    c.fut = .pending → c.futHasKillCb = true ∧ Cb.trykill ∉ c.ready :=
  run_futHook P (init nf) evs (futHook_init nf)

/-- **cancelling the future of a restored process has the same effect as kill()**: in every configuration `r` reached from a
restored one whose future is still pending, `future().cancel()` succeeds and schedules `try_killing`; when that callback runs next,
the configuration is the one `kill()` would have produced on `r` — every field: state object, action table, `_killing`, interrupt
slot, heaps, logs, scheduled callbacks — except the process-future object itself (cancelled; replaced and resolved with
`KilledError` when the process terminates, repair H) and the list of action futures handed to callers (`try_killing` keeps the
one it gets to itself). -/
theorem C04_restored_cancel_is_kill (P : Prog) (m : Nat) (b : Saved) (evs : List Ev) :
    let r := run P (restoreCfgN m b) evs
    r.fut = .pending →
    (cancelFut r).2 = .bool true ∧ Cb.trykill ∈ (cancelFut r).1.ready ∧
    SameButFut (tickCb (cancelFut r).1 .trykill) (kill r).1 :=
  fun hf => cancel_then_trykill _ hf (run_futHook P (restoreCfgN m b) evs (futHook_restored m b))

/-- the same for a process that was never checkpointed (`cancel_future_equals_kill` of the design) -/
theorem C04_cancel_is_kill (P : Prog) (nf : Nat) (evs : List Ev) :
    let c := run P (init nf) evs
    c.fut = .pending →
    (cancelFut c).2 = .bool true ∧ Cb.trykill ∈ (cancelFut c).1.ready ∧
    SameButFut (tickCb (cancelFut c).1 .trykill) (kill c).1 :=
  fun hf => cancel_then_trykill _ hf (run_futHook P (init nf) evs (futHook_init nf))

/-- **… whenever the callback gets to run**: cancel the pending future of a live restored process, then let ANY history `evs₂`
happen before the `try_killing` callback runs (the callbacks that were ready before it, further requests): the callback is still
scheduled, and if the process is still live when it runs, it does what `kill()` does there — outside a step the process is KILLED
(EXCEPTED if entering KILLED fails), inside a step the kill is the pending interrupt action, which then survives every further
history `evs₃` (and kills when the step yields, `C04_end_of_step_kills`). -/
theorem C04_restored_cancel_kills (P : Prog) (m : Nat) (b : Saved) (evs evs₂ : List Ev) :
    let r := run P (restoreCfgN m b) evs
    let r₂ := run P (cancelFut r).1 evs₂
    r.fut = .pending → Ev.tickCb .trykill ∉ evs₂ →
    Cb.trykill ∈ r₂.ready ∧
    (terminal r₂.st.label = false →
      (r₂.stepping = false → (tickCb r₂ .trykill).st.label = .killed ∨ (tickCb r₂ .trykill).st.label = .excepted) ∧
      (r₂.stepping = true → ∃ k, Pending k (tickCb r₂ .trykill) ∧ ∀ evs₃, Committed k (run P (tickCb r₂ .trykill) evs₃))) := by
  intro r r₂ hf hno
  have hh := run_futHook P (restoreCfgN m b) evs (futHook_restored m b)
  have hsched := (cancel_then_trykill r hf hh).2.1
  have hr₂ : r₂ = run P (restoreCfgN m b) (evs ++ .cancelFut :: evs₂) := by
    show run P (cancelFut r).1 evs₂ = _
    simp only [run, List.foldl_append, List.foldl_cons, step]
    rfl
  have hinv := run_killingOk P (restoreCfgN m b) (evs ++ .cancelFut :: evs₂) (killingOk_restored m b) (pausingOk_restored m b)
  rw [← hr₂] at hinv
  have hmem : Cb.trykill ∈ r₂.ready := run_keeps_trykill P (cancelFut r).1 evs₂ hno hsched
  refine ⟨hmem, fun hl => ?_⟩
  have hk := trykill_kills r₂ hinv.1 hl hmem
  refine ⟨hk.1, fun hs => ?_⟩
  obtain ⟨k, hp⟩ := hk.2 hs
  exact ⟨k, hp, pending_committed_run P k _ hp (step_pausingOk P r₂ (.tickCb .trykill) hinv.2)⟩

-- non-vacuity: a process checkpointed when it enters WAITING (inside the callback of its stepping task, as the harness does),
-- loaded in a fresh loop, is killed while it waits — by kill() and by cancelling its future; a process checkpointed while it
-- is paused between two steps (a reachable boundary) is loaded paused and killed at once
section
private def waiter2 : Prog := fun fn _ _ _ => if fn = 0 then ⟨1, .ret (.wait 1)⟩ else ⟨0, .ret (.stop (some 7) true)⟩
private def bWaiting : Saved := { st := .waiting 1, paused := false, fut := .pending, ctx := [] }
example : checkpointAt waiter2 (run waiter2 (init 0) [.tick]) 3 = some bWaiting := by decide +kernel
-- the restored process waits inside a step: kill() hands back an action, the wake-up of the step enacts it
example : terminal (run waiter2 (restoreCfgN 0 bWaiting) [.tick]).st.label = false ∧
    (run waiter2 (restoreCfgN 0 bWaiting) [.tick]).killing = none ∧
    (kill (run waiter2 (restoreCfgN 0 bWaiting) [.tick])).2 = .action 0 := by decide +kernel
example : (run waiter2 (restoreCfgN 0 bWaiting) [.tick, .kill, .tick]).st.label = .killed := by decide +kernel
-- before its stepping task has run it is killed at once
example : (kill (restoreCfgN 0 bWaiting)).2 = .bool true ∧ (kill (restoreCfgN 0 bWaiting)).1.st.label = .killed := by decide +kernel
-- cancelling the future: hook installed, `try_killing` scheduled, the process ends KILLED with the future replaced
example : (run waiter2 (restoreCfgN 0 bWaiting) [.tick]).fut = .pending ∧
    (run waiter2 (restoreCfgN 0 bWaiting) [.tick]).futHasKillCb = true := by decide +kernel
example : (run waiter2 (restoreCfgN 0 bWaiting) [.tick, .cancelFut]).ready = [.trykill] := by decide +kernel
example : (run waiter2 (restoreCfgN 0 bWaiting) [.tick, .cancelFut, .tickCb .trykill, .tick]).st.label = .killed ∧
    (run waiter2 (restoreCfgN 0 bWaiting) [.tick, .cancelFut, .tickCb .trykill, .tick]).fut = .exc .killedErr := by decide +kernel
-- a callback that was ready before `try_killing` runs first (`C04_restored_cancel_kills` with `evs₂ = [callSoon, usercb]`)
example : Ev.tickCb .trykill ∉ [Ev.callSoon false, .tickCb (.usercb false)] := by decide
example : (run waiter2 (restoreCfgN 0 bWaiting) [.tick, .cancelFut, .callSoon false, .tickCb (.usercb false), .tickCb .trykill, .tick]).st.label = .killed := by
  decide +kernel
-- a reachable boundary in the sense of `run`: paused during an asynchronous step, the pause enacted when the step yields
private def async2 : Prog := fun fn _ _ _ => if fn = 0 then ⟨1, .ret (.cont 1 [] [])⟩ else ⟨1, .ret (.stop (some 3) true)⟩
example : boundary (run async2 (init 0) [.tick, .pause, .tick]) = true ∧
    saveCfg (run async2 (init 0) [.tick, .pause, .tick]) = { st := .running 1 [] [], paused := true, fut := .pending, ctx := [] } := by
  decide +kernel
example : terminal (run async2 (restoreCfg (saveCfg (run async2 (init 0) [.tick, .pause, .tick]))) [.tick]).st.label = false ∧
    (kill (run async2 (restoreCfg (saveCfg (run async2 (init 0) [.tick, .pause, .tick]))) [.tick])).1.st.label = .killed := by
  decide +kernel
-- a work chain restored while RUNNING finds the environment's fresh futures and is killed while it waits for them
private def chain1 : Prog := fun fn _ _ _ => if fn = 0 then ⟨0, .ret (.waitOn 1 [(0, 0)])⟩ else ⟨0, .ret (.stop none true)⟩
example : (run chain1 (restoreCfgN 1 { st := .running 0 [] [], paused := false, fut := .pending, ctx := [] }) [.tick]).st.label = .waiting ∧
    (run chain1 (restoreCfgN 1 { st := .running 0 [] [], paused := false, fut := .pending, ctx := [] }) [.tick, .cancelFut, .tickCb .trykill, .tick]).st.label = .killed := by
  decide +kernel
end

end PMF
