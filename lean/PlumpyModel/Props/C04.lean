import PlumpyModel.PM.Proof7
import PlumpyModel.PM.LProof8
/-!
# C04 — a kill request is never lost and no live process is unkillable

Model: `PMF`.  `Committed k c` = the process is KILLED, or EXCEPTED, or the kill action `k` is still the pending
interrupt action of the step in flight (`Pending k c`: live, stepping, `killing = interrupt = some k`, action `k`
pending and of kind kill).  `endOfStep` is the tail of `Process.step` (the `except` clauses, running the interrupt
action or the transition, the `finally`).
-/
namespace PMF

/-- `kill()` never raises, in any configuration -/
theorem C04_kill_total (c : Cfg) (e : Exc) : (kill c).2 ≠ .raised e := by
  unfold kill
  split
  · simp
  · split
    · simp
    · split
      · simp
      · split
        · dsimp only; split <;> simp
        · simp

/-- `kill()` on a live process that is not inside a step (between steps, while paused, not yet started) and has no
kill pending takes effect at once: the process is KILLED (or EXCEPTED if entering KILLED fails), and the call
returns `True`. -/
theorem C04_kill_when_idle (c : Cfg) (hl : terminal c.st.label = false) (hk : c.killing = none)
    (hs : c.stepping = false) :
    (kill c).2 = .bool true ∧ ((kill c).1.st.label = .killed ∨ (kill c).1.st.label = .excepted) := by
  have h1 : c.st.label ≠ .killed := by intro h; rw [h] at hl; simp [terminal, allowed] at hl
  have hkill : kill c = (transitionTo c .killed, .bool true) := by
    unfold kill
    simp [h1, hl, hk, hs]
  rw [hkill]
  exact ⟨rfl, transitionTo_label c .killed⟩

/-- **a kill is never lost**: take any program and any history `evs₁`; if `kill()` then hands back an action future
`k` (the process was live, inside a step, no kill pending), then after EVERY further history `evs₂` — pauses, plays,
resumes, more kills, `fail`, call_soon callbacks, future cancellation, awaitable completions, ticks in any order — the
process is KILLED or EXCEPTED, or the kill is still the pending interrupt action of the step in flight. -/
theorem C04_kill_committed (P : Prog) (nf : Nat) (evs₁ evs₂ : List Ev) (k : Nat) :
    let c₁ := run P (init nf) evs₁
    terminal c₁.st.label = false → c₁.killing = none → (kill c₁).2 = .action k →
    Committed k (run P (kill c₁).1 evs₂) :=
  C04_kill_never_lost P nf evs₁ evs₂ k

/-- **… and takes effect when the current step yields**: with the kill pending, whatever the step produced (a next
state, a pause interruption, an exception), the end of the step leaves the process KILLED or EXCEPTED. -/
theorem C04_end_of_step_kills (k : Nat) (c : Cfg) (r : StepEnd) (h : Pending k c) :
    (endOfStep c r).st.label = .killed ∨ (endOfStep c r).st.label = .excepted :=
  endOfStep_pending k c r h

/-- a pause request cannot displace a pending kill (repair D): it is refused and changes nothing relevant -/
theorem C04_pause_keeps_kill (k : Nat) (c : Cfg) (h : Pending k c) : Pending k (pause c).1 := pause_pending k c h

/-- a further kill() while one is pending hands back the same action -/
theorem C04_second_kill_same_action (k : Nat) (c : Cfg) (h : Pending k c) : (kill c).2 = .action k := by
  obtain ⟨hl, hkill, _⟩ := h
  have h1 : c.st.label ≠ .killed := by intro h; rw [h] at hl; simp [terminal, allowed] at hl
  unfold kill
  simp [h1, hl, hkill]


/-- **no stale kill**: in every reachable configuration, if a kill is recorded as pending (`_killing` set) then the
process is KILLED / EXCEPTED or that very action is still the pending interrupt action of the step in flight. -/
theorem C04_no_stale_killing (P : Prog) (nf : Nat) (evs : List Ev) (i : Nat)
    (hk : (run P (init nf) evs).killing = some i) : Committed i (run P (init nf) evs) :=
  (run_killingOk P (init nf) evs (killingOk_init nf) (pausingOk_init nf)).1 i hk

/-- **from every reachable live configuration a further kill() still terminates the process**: outside a step it
kills at once; inside a step it hands back an action that is the pending kill of the step in flight — which by
`C04_kill_committed`-style stability (`step_committed`) survives every further event and by `C04_end_of_step_kills`
kills when the step yields. -/
theorem C04_always_killable (P : Prog) (nf : Nat) (evs : List Ev)
    (hl : terminal (run P (init nf) evs).st.label = false) :
    let c := run P (init nf) evs
    (c.stepping = false → (kill c).2 = .bool true ∧ ((kill c).1.st.label = .killed ∨ (kill c).1.st.label = .excepted)) ∧
    (c.stepping = true → ∃ k, (kill c).2 = .action k ∧ Pending k (kill c).1) := by
  intro c
  have hl' : terminal c.st.label = false := hl
  have hko : KillingOk c := (run_killingOk P (init nf) evs (killingOk_init nf) (pausingOk_init nf)).1
  have hkl : c.st.label ≠ .killed := by intro h; rw [h] at hl; simp [terminal, allowed] at hl
  have hpend : ∀ i, c.killing = some i → Pending i c := by
    intro i hi
    rcases hko i hi with h | h | h
    · exact absurd h hkl
    · rw [h] at hl; simp [terminal, allowed] at hl
    · exact h
  constructor
  · intro hs
    have hnk : c.killing = none := by
      cases hk : c.killing with
      | none => rfl
      | some i => have := (hpend i hk).2.2.2.2.1; rw [hs] at this; cases this
    exact C04_kill_when_idle c hl' hnk hs
  · intro hs
    cases hk : c.killing with
    | some i =>
      have hp := hpend i hk
      refine ⟨i, C04_second_kill_same_action i c hp, ?_⟩
      have : kill c = (hand c i, .action i) := by unfold kill; simp [hkl, hl', hk]
      rw [this]; exact hp.keep (hand_keep ..)
    | none =>
      have hn := requestInterrupt_new c .kill
      have hval : (kill c).2 = .action c.actions.length := by
        unfold kill
        simp only [hkl, if_false, hl', Bool.false_eq_true, hk, hs, if_true]
        simp only [hn.1]
      exact ⟨c.actions.length, hval, kill_commits c _ hl' hk hval⟩

-- non-vacuity: a kill during an asynchronous step is pending, survives a pause and a play, and kills at the end of the step
section
private def async1 : Prog := fun _ _ _ _ => ⟨1, .ret (.stop (some 3) true)⟩
example : (kill (run async1 (init 0) [.tick])).2 = .action 0 := by decide +kernel
example : (run async1 (init 0) [.tick, .kill, .pause, .play, .tick]).st.label = .killed := by decide +kernel
end

/-!
## Requests made DURING a transition (listeners, state-event callbacks)

Model: `PMF.L` (lean/PlumpyModel/PM/Listener.lean): the configuration carries an oracle `plan : List (Hook × Nat × Req)`; at the
`n`-th `on_process_running / waiting / paused / played` notification and at the `n`-th exiting / entering phase of a transition the
callback issues `pause()`, `play()` or `kill()`, executed with the semantics the real calls have at that point (`_stepping`,
`_executing`, `_transitioning`).  `fireN n` is the notification function with requests nested at most `n` deep (the model uses
`n = plan.length`, which is never exceeded; the theorems hold for every `n`).  `endOfStepL` is the closing part of `Process.step()`
(the `except` clauses, running the interrupt action or the nominal transition, the `while` loop that enacts what was requested
meanwhile, the `finally`); `dispatchL` is the same without `except` / `finally`.
`KE c`: the process is KILLED or EXCEPTED.  `Owed l`: the oracle has issued a `kill()` at a moment when the process was live and no
transition into a terminal state was in progress (`LCfg.issued` logs every request of the oracle with that flag).
-/
namespace L

/-- **a kill that is pending when the step starts closing is enacted, whatever the listeners do** [F22]: with the kill action `k`
pending in the interrupt slot (requested by anybody while the step was in flight), for every plan, every nesting depth and every
outcome of the step, the closing part leaves the process KILLED — or EXCEPTED (the step failed, or entering KILLED failed). -/
theorem C04_listener_pending_kill_enacted (n k : Nat) (l : LCfg) (r : StepEnd) (h : Pending k l.c) :
    KE (endOfStepL (fireN n) l r).c := endOfStepL_pending k l r h

/-- **no stale kill, with listeners**: for every program, every plan of requests issued from inside notifications and every history
of events, in the configuration reached: a recorded kill (`_killing`) is the pending interrupt action of the step in flight unless
the process has terminated, the pause alias points to a pause action, and no transition is in progress.  (`KJ`, the invariant that
is carried through every model function — every transition, every request of the oracle in every context, the closing part of
every step, every event.) -/
theorem C04_listener_no_stale_killing (P : Prog) (nf : Nat) (plan : Plan) (evs : List Ev) :
    let l := runL P (initL nf plan) evs
    (∀ k, l.c.killing = some k → terminal l.c.st.label = true ∨ Pending k l.c) ∧ PausingOk l.c ∧ l.trans = none :=
  let h := runL_kj P (initL nf plan) evs (kj_init nf plan) rfl
  ⟨h.1.kok, h.1.pok, h.2⟩

/-- **a kill issued by a listener is never lost** [F22, F25]: for every program, plan and history, if the oracle has issued a
`kill()` at a moment when the process was live and no transition into a terminal state was in progress — from
`on_process_running/waiting/paused/played` or from the exiting / entering phase of a transition, inside or outside a step, also while
another request was being enacted — then in the configuration reached the process is KILLED or EXCEPTED, or the kill is the pending
interrupt action of the step in flight (and then `C04_listener_pending_kill_enacted`: that step ends KILLED / EXCEPTED). -/
theorem C04_listener_kill_committed (P : Prog) (nf : Nat) (plan : Plan) (evs : List Ev) :
    Owed (runL P (initL nf plan) evs) →
    KE (runL P (initL nf plan) evs).c ∨ ∃ k, Pending k (runL P (initL nf plan) evs).c :=
  runL_owed P nf plan evs

/-- … hence, whenever no step is in progress, every such kill has taken effect -/
theorem C04_listener_kill_effective_between_steps (P : Prog) (nf : Nat) (plan : Plan) (evs : List Ev)
    (hs : (runL P (initL nf plan) evs).c.stepping = false) :
    Owed (runL P (initL nf plan) evs) → KE (runL P (initL nf plan) evs).c := by
  intro ho
  rcases runL_owed P nf plan evs ho with h | ⟨k, hp⟩
  · exact h
  · have := hp.2.2.2.2.1; rw [hs] at this; cases this

/-- **a kill issued while a step is closing has been enacted when the step ends** [F22, F25]: from any configuration that
satisfies the invariant (every reachable one does: `runL_kj`) with no transition in progress, for every nesting depth and outcome of
the step: if the oracle issues a `kill()` on the live process during the closing part (from a notification, or from the exiting /
entering phase of a transition into a non-terminal state, possibly while a pause is being enacted), or had issued one before, then
when the closing part returns the process is KILLED (EXCEPTED if entering KILLED or the step failed).  In particular the `finally`
of `step()` does not cancel it. -/
theorem C04_listener_kill_enacted (n : Nat) (l : LCfg) (r : StepEnd) (p : KJ l) (htr : l.trans = none) :
    Owed (endOfStepL (fireN n) l r) → KE (endOfStepL (fireN n) l r).c :=
  endOfStepL_owed (fireN_good n) l r p htr

/-- **nothing requested during the closing part is left behind** [F25]: when the `while` loop of the closing part returns, the
interrupt-action slot is empty, or its action is done (it ran, or was retracted / superseded), or the process has terminated — for
every configuration, plan and nesting depth.  So the `finally` of `step()` never cancels a request that a listener made on a process
that is still live. -/
theorem C04_listener_nothing_left_pending (n : Nat) (l : LCfg) (next : Option SObj) :
    Quiet (dispatchL (fireN n) l next) := dispatchL_quiet (fireN_adv n) l next

-- non-vacuity.  F25: `on_process_running` pauses, `on_process_paused` (while that pause is being enacted) kills: KILLED, with both
-- action futures resolved; the kill is owed; the configuration in which that step closes satisfies the invariant.
section
private def planF25 : Plan := [(.running, 1, .pause), (.paused, 1, .kill)]
private def closing : LCfg := { c := { init 0 with stepping := true }, plan := planF25 }
example : (runL sync2 (initL 0 planF25) [.tick]).c.st.label = .killed := by decide +kernel
example : Owed (runL sync2 (initL 0 planF25) [.tick]) := ⟨.paused, by decide +kernel⟩
example : (runL sync2 (initL 0 planF25) [.tick]).c.handed.map (actionStatus (runL sync2 (initL 0 planF25) [.tick]).c) = [.done, .cancelled] := by
  decide +kernel
example : KJ closing ∧ closing.trans = none :=
  ⟨KJ.mk (fun k hk => by cases hk) (fun i hi => by cases hi) (fun ho => by obtain ⟨_, hm⟩ := ho; cases hm)
    (fun ho => by obtain ⟨_, hm⟩ := ho; cases hm), rfl⟩
example : Owed (endOfStepL (fireN 2) closing (.next (some (.running 0 [] [])))) := ⟨.paused, by decide +kernel⟩
example : (endOfStepL (fireN 2) closing (.next (some (.running 0 [] [])))).c.st.label = .killed := by decide +kernel
-- F22: a pause is pending when the step closes, `on_process_waiting` kills during the transition that the pause action performs
private def waiter : Prog := fun fn _ _ _ => if fn = 0 then ⟨1, .ret (.wait 1)⟩ else ⟨0, .ret (.stop (some 7) true)⟩
example : (runL waiter (initL 0 [(.waiting, 1, .kill)]) [.tick, .pause, .tick]).c.st.label = .killed := by decide +kernel
-- a kill from `on_process_played` outside a step (the process waits for the pause to end) is owed and made at once
example : Owed (runL waiter (initL 0 [(.played, 1, .kill)]) [.pause, .tick, .play]) ∧
    (runL waiter (initL 0 [(.played, 1, .kill)]) [.pause, .tick, .play]).c.st.label = .killed := ⟨⟨.played, by decide +kernel⟩, by decide +kernel⟩
-- a kill from the exiting phase of the transition into FINISHED is not owed (the transition cannot be abandoned): FINISHED
example : (runL sync2 (initL 0 [(.exiting, 3, .kill)]) [.tick]).c.st.label = .finished ∧
    (runL sync2 (initL 0 [(.exiting, 3, .kill)]) [.tick]).issued = [(.exiting, .kill, false)] := by decide +kernel
end

end L

end PMF
