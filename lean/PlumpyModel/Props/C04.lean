import PlumpyModel.PM.Proof7
/-!
# C04 — a kill request is never lost and no live process is unkillable

Model: `PMF`.  `Committed k c` = the process is KILLED, or EXCEPTED, or the kill action `k` is still the pending
interrupt action of the step in flight (`Pending k c`: live, stepping, `killing = interrupt = some k`, action `k`
pending and of kind kill).  `endOfStep` is the tail of `Process.step` (the `except` clauses, running the interrupt
action or the transition, the `finally`).
-/
namespace PMF

/-- `kill()` never raises, in any configuration -/
theorem C04_kill_total (c : Cfg) (e : Exc) : (kill c).2 ≠ .raised e := by
  unfold kill
  split
  · simp
  · split
    · simp
    · split
      · simp
      · split
        · dsimp only; split <;> simp
        · simp

/-- `kill()` on a live process that is not inside a step (between steps, while paused, not yet started) and has no
kill pending takes effect at once: the process is KILLED (or EXCEPTED if entering KILLED fails), and the call
returns `True`. -/
theorem C04_kill_when_idle (c : Cfg) (hl : terminal c.st.label = false) (hk : c.killing = none)
    (hs : c.stepping = false) :
    (kill c).2 = .bool true ∧ ((kill c).1.st.label = .killed ∨ (kill c).1.st.label = .excepted) := by
  have h1 : c.st.label ≠ .killed := by intro h; rw [h] at hl; simp [terminal, allowed] at hl
  have hkill : kill c = (transitionTo c .killed, .bool true) := by
    unfold kill
    simp [h1, hl, hk, hs]
  rw [hkill]
  exact ⟨rfl, transitionTo_label c .killed⟩

/-- **a kill is never lost**: take any program and any history `evs₁`; if `kill()` then hands back an action future
`k` (the process was live, inside a step, no kill pending), then after EVERY further history `evs₂` — pauses, plays,
resumes, more kills, `fail`, call_soon callbacks, future cancellation, awaitable completions, ticks in any order — the
process is KILLED or EXCEPTED, or the kill is still the pending interrupt action of the step in flight. -/
theorem C04_kill_committed (P : Prog) (nf : Nat) (evs₁ evs₂ : List Ev) (k : Nat) :
    let c₁ := run P (init nf) evs₁
    terminal c₁.st.label = false → c₁.killing = none → (kill c₁).2 = .action k →
    Committed k (run P (kill c₁).1 evs₂) :=
  C04_kill_never_lost P nf evs₁ evs₂ k

/-- **… and takes effect when the current step yields**: with the kill pending, whatever the step produced (a next
state, a pause interruption, an exception), the end of the step leaves the process KILLED or EXCEPTED. -/
theorem C04_end_of_step_kills (k : Nat) (c : Cfg) (r : StepEnd) (h : Pending k c) :
    (endOfStep c r).st.label = .killed ∨ (endOfStep c r).st.label = .excepted :=
  endOfStep_pending k c r h

/-- a pause request cannot displace a pending kill (repair D): it is refused and changes nothing relevant -/
theorem C04_pause_keeps_kill (k : Nat) (c : Cfg) (h : Pending k c) : Pending k (pause c).1 := pause_pending k c h

/-- a further kill() while one is pending hands back the same action -/
theorem C04_second_kill_same_action (k : Nat) (c : Cfg) (h : Pending k c) : (kill c).2 = .action k := by
  obtain ⟨hl, hkill, _⟩ := h
  have h1 : c.st.label ≠ .killed := by intro h; rw [h] at hl; simp [terminal, allowed] at hl
  unfold kill
  simp [h1, hl, hkill]


/-- **no stale kill**: in every reachable configuration, if a kill is recorded as pending (`_killing` set) then the
process is KILLED / EXCEPTED or that very action is still the pending interrupt action of the step in flight. -/
theorem C04_no_stale_killing (P : Prog) (nf : Nat) (evs : List Ev) (i : Nat)
    (hk : (run P (init nf) evs).killing = some i) : Committed i (run P (init nf) evs) :=
  (run_killingOk P (init nf) evs (killingOk_init nf) (pausingOk_init nf)).1 i hk

/-- **from every reachable live configuration a further kill() still terminates the process**: outside a step it
kills at once; inside a step it hands back an action that is the pending kill of the step in flight — which by
`C04_kill_committed`-style stability (`step_committed`) survives every further event and by `C04_end_of_step_kills`
kills when the step yields. -/
theorem C04_always_killable (P : Prog) (nf : Nat) (evs : List Ev)
    (hl : terminal (run P (init nf) evs).st.label = false) :
    let c := run P (init nf) evs
    (c.stepping = false → (kill c).2 = .bool true ∧ ((kill c).1.st.label = .killed ∨ (kill c).1.st.label = .excepted)) ∧
    (c.stepping = true → ∃ k, (kill c).2 = .action k ∧ Pending k (kill c).1) := by
  intro c
  have hl' : terminal c.st.label = false := hl
  have hko : KillingOk c := (run_killingOk P (init nf) evs (killingOk_init nf) (pausingOk_init nf)).1
  have hkl : c.st.label ≠ .killed := by intro h; rw [h] at hl; simp [terminal, allowed] at hl
  have hpend : ∀ i, c.killing = some i → Pending i c := by
    intro i hi
    rcases hko i hi with h | h | h
    · exact absurd h hkl
    · rw [h] at hl; simp [terminal, allowed] at hl
    · exact h
  constructor
  · intro hs
    have hnk : c.killing = none := by
      cases hk : c.killing with
      | none => rfl
      | some i => have := (hpend i hk).2.2.2.2.1; rw [hs] at this; cases this
    exact C04_kill_when_idle c hl' hnk hs
  · intro hs
    cases hk : c.killing with
    | some i =>
      have hp := hpend i hk
      refine ⟨i, C04_second_kill_same_action i c hp, ?_⟩
      have : kill c = (hand c i, .action i) := by unfold kill; simp [hkl, hl', hk]
      rw [this]; exact hp.keep (hand_keep ..)
    | none =>
      have hn := requestInterrupt_new c .kill
      have hval : (kill c).2 = .action c.actions.length := by
        unfold kill
        simp only [hkl, if_false, hl', Bool.false_eq_true, hk, hs, if_true]
        simp only [hn.1]
      exact ⟨c.actions.length, hval, kill_commits c _ hl' hk hval⟩

-- non-vacuity: a kill during an asynchronous step is pending, survives a pause and a play, and kills at the end of the step
section
private def async1 : Prog := fun _ _ _ _ => ⟨1, .ret (.stop (some 3) true)⟩
example : (kill (run async1 (init 0) [.tick])).2 = .action 0 := by decide +kernel
example : (run async1 (init 0) [.tick, .kill, .pause, .play, .tick]).st.label = .killed := by decide +kernel
end

end PMF
