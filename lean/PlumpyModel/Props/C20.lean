import PlumpyModel.Futures.Proof
/-!
# C20 — future adapters deliver result, error or cancellation exactly once
-/
namespace Futures

/-- **C20, `unwrap_kiwi_future`** -/
theorem C20_unwrap_innermost (n : Nat) (o : Outcome) (pre post : List Ev) (fuel : Nat) (hfuel : n + 1 ≤ fuel) :
    let d := chainD n o
    let s1 := envRun d fuel (newFutures .kiwi (n + 1) {}) pre
    let u := (unwrapKiwi s1 0).2
    let s3 := envRun d fuel (runStack fuel (unwrapKiwi s1 0).1) post
    s3.errs = [] ∧ s3.fuelOut = false ∧
    ((∀ i, i ≤ n → s3.st i ≠ .pending) → s3.st u = o.toSt ∧ s3.sets.count u = 1) ∧
    ((∃ i, i ≤ n ∧ s3.st i = .pending) → s3.st u = .pending ∧ s3.sets.count u = 0) ∧
    (∀ i, i ≤ n → Ev.complete i ∈ pre ++ post → s3.st i ≠ .pending) := by
  intro d s1 u s3
  have hpre : UPre .kiwi n o s1 := upre_envRun fuel pre _ (upre_init .kiwi n o)
  obtain ⟨hu, hcur⟩ := unwrap_wrap hpre
  have hq2 : UQuiet n o (runStack fuel (unwrapKiwi s1 0).1) :=
    unwrap_runStack (n + 1) 0 _ hcur (by omega) fuel hfuel
  have hq3 : UQuiet n o s3 := unwrap_envRun fuel hfuel post _ hq2
  have hu' : u = n + 1 := hu
  have hdone : ∀ i, i ≤ n → Ev.complete i ∈ pre ++ post → s3.st i ≠ .pending := by
    intro i hi hmem
    have hd : d i ≠ .pending := chainD_ne_pending hi
    rcases List.mem_append.mp hmem with h | h
    · have h1 : s1.st i ≠ .pending :=
        envRun_complete_done d fuel i hd pre _ (by rw [(upre_init .kiwi n o).next]; omega) h
      have hm : Mono s1 s3 :=
        ((mono_unwrapKiwi s1 0).trans (mono_runStack fuel _)).trans (mono_envRun d fuel post _)
      exact done_of_mono hm (by rw [hpre.next]; omega) h1
    · refine envRun_complete_done d fuel i hd post _ ?_ h
      have : (runStack fuel (unwrapKiwi s1 0).1).next = n + 2 := by
        rcases hq2 with ⟨k, h, _⟩ | h
        · exact h.next
        · exact h.next
      omega
  rw [hu']
  rcases hq3 with ⟨k, h, hs⟩ | h
  · obtain ⟨hpk, _⟩ := h.waiting hs
    refine ⟨h.errs, h.fuel, fun hall => absurd hpk (hall k h.hk), fun _ => ⟨h.upend, ?_⟩, hdone⟩
    exact List.count_eq_zero.mpr h.unset
  · refine ⟨h.errs, h.fuel, fun _ => ⟨h.ust, h.uset⟩, fun ⟨i, hi, hp⟩ => ?_, hdone⟩
    exact absurd hp (by rw [h.all i hi]; exact chainD_ne_pending hi)

end Futures
