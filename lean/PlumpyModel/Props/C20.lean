import PlumpyModel.Futures.Proof
import PlumpyModel.Futures.ProofMirror
/-!
# C20 — future adapters deliver result, error or cancellation exactly once
-/
namespace Futures

/-- **C20, `unwrap_kiwi_future`** -/
theorem C20_unwrap_innermost (n : Nat) (o : Outcome) (pre post : List Ev) (fuel : Nat) (hfuel : n + 1 ≤ fuel) :
    let d := chainD n o
    let s1 := envRun d fuel (newFutures .kiwi (n + 1) {}) pre
    let u := (unwrapKiwi s1 0).2
    let s3 := envRun d fuel (runStack fuel (unwrapKiwi s1 0).1) post
    s3.errs = [] ∧ s3.fuelOut = false ∧
    ((∀ i, i ≤ n → s3.st i ≠ .pending) → s3.st u = o.toSt ∧ s3.sets.count u = 1) ∧
    ((∃ i, i ≤ n ∧ s3.st i = .pending) → s3.st u = .pending ∧ s3.sets.count u = 0) ∧
    (∀ i, i ≤ n → Ev.complete i ∈ pre ++ post → s3.st i ≠ .pending) := by
  intro d s1 u s3
  have hpre : UPre .kiwi n o s1 := upre_envRun fuel pre _ (upre_init .kiwi n o)
  obtain ⟨hu, hcur⟩ := unwrap_wrap hpre
  have hq2 : UQuiet n o (runStack fuel (unwrapKiwi s1 0).1) :=
    unwrap_runStack (n + 1) 0 _ hcur (by omega) fuel hfuel
  have hq3 : UQuiet n o s3 := unwrap_envRun fuel hfuel post _ hq2
  have hu' : u = n + 1 := hu
  have hdone : ∀ i, i ≤ n → Ev.complete i ∈ pre ++ post → s3.st i ≠ .pending := by
    intro i hi hmem
    have hd : d i ≠ .pending := chainD_ne_pending hi
    rcases List.mem_append.mp hmem with h | h
    · have h1 : s1.st i ≠ .pending :=
        envRun_complete_done d fuel i hd pre _ (by rw [(upre_init .kiwi n o).next]; omega) h
      have hm : Mono s1 s3 :=
        ((mono_unwrapKiwi s1 0).trans (mono_runStack fuel _)).trans (mono_envRun d fuel post _)
      exact done_of_mono hm (by rw [hpre.next]; omega) h1
    · refine envRun_complete_done d fuel i hd post _ ?_ h
      have : (runStack fuel (unwrapKiwi s1 0).1).next = n + 2 := by
        rcases hq2 with ⟨k, h, _⟩ | h
        · exact h.next
        · exact h.next
      omega
  rw [hu']
  rcases hq3 with ⟨k, h, hs⟩ | h
  · obtain ⟨hpk, _⟩ := h.waiting hs
    refine ⟨h.errs, h.fuel, fun hall => absurd hpk (hall k h.hk), fun _ => ⟨h.upend, ?_⟩, hdone⟩
    exact List.count_eq_zero.mpr h.unset
  · refine ⟨h.errs, h.fuel, fun _ => ⟨h.ust, h.uset⟩, fun ⟨i, hi, hp⟩ => ?_, hdone⟩
    exact absurd hp (by rw [h.all i hi]; exact chainD_ne_pending hi)

theorem Outcome.toSt_ne_ref (o : Outcome) (g : FId) : o.toSt ≠ .result (.ref g) := by cases o <;> simp [Outcome.toSt]

/-- **C20, `plum_to_kiwi_future`** -/
theorem C20_mirror_faithful (n : Nat) (o : Outcome) (pre post : List Ev) (fuel : Nat) :
    let d := chainD n o
    let s1 := envRun d fuel (newFutures .aio (n + 1) {}) pre
    let k := (plumToKiwi s1 0).2
    let s3 := envRun d fuel (runStack fuel (plumToKiwi s1 0).1) post
    s3.errs = [] ∧ s3.fuelOut = false ∧
    (∃ m, m ≤ n ∧
      (∀ i, i < m → s3.st i = .result (.ref (i + 1)) ∧ s3.st (k + i) = .result (.ref (k + i + 1)) ∧
        s3.sets.count (k + i) = 1) ∧
      ((s3.st (k + m) = .pending ∧ s3.sets.count (k + m) = 0 ∧ (s3.st m = .pending ∨ s3.ready ≠ [])) ∨
       (m = n ∧ s3.st n = o.toSt ∧ s3.st (k + n) = o.toSt ∧ s3.sets.count (k + n) = 1))) ∧
    (deref s3 (n + 1) k = .pending ∨ deref s3 (n + 1) k = o.toSt) ∧
    (s3.st n = .pending → deref s3 (n + 1) k = .pending) ∧
    ((∀ i, i ≤ n → s3.st i ≠ .pending) → s3.ready = [] → deref s3 (n + 1) k = o.toSt) ∧
    (∀ i, i ≤ n → Ev.complete i ∈ pre ++ post → s3.st i ≠ .pending) := by
  intro d s1 k s3
  have hpre : UPre .aio n o s1 := upre_envRun fuel pre _ (upre_init .aio n o)
  obtain ⟨hk, hinv⟩ := mirror_wrap hpre
  have hq2 : MQuiet n o (runStack fuel (plumToKiwi s1 0).1) := by
    rw [runStack_nil _ _ hinv.1.stack]; exact ⟨0, hinv⟩
  obtain ⟨m, hb, hpos⟩ : MQuiet n o s3 := mirror_envRun fuel post _ hq2
  have hk' : k = n + 1 := hk
  have hdone : ∀ i, i ≤ n → Ev.complete i ∈ pre ++ post → s3.st i ≠ .pending := by
    intro i hi hmem
    have hd : d i ≠ .pending := chainD_ne_pending hi
    rcases List.mem_append.mp hmem with h | h
    · have h1 : s1.st i ≠ .pending :=
        envRun_complete_done d fuel i hd pre _ (by rw [(upre_init .aio n o).next]; omega) h
      have hm : Mono s1 s3 :=
        ((mono_plumToKiwi s1 0).trans (mono_runStack fuel _)).trans (mono_envRun d fuel post _)
      exact done_of_mono hm (by rw [hpre.next]; omega) h1
    · refine envRun_complete_done d fuel i hd post _ ?_ h
      rw [runStack_nil _ _ hinv.1.stack, hinv.1.next]; omega
  have hm := hb.hm
  have hbelow : ∀ i, i < m → s3.st i = .result (.ref (i + 1)) ∧ s3.st (k + i) = .result (.ref (k + i + 1)) ∧
      s3.sets.count (k + i) = 1 := by
    intro i hi
    obtain ⟨h1, h2, h3⟩ := hb.below i hi
    rw [hk']
    have hin : i < n := by omega
    have e : n + 2 + i = n + 1 + i + 1 := by omega
    refine ⟨?_, ?_, h2⟩
    · rw [h3, chainD_lt hin]
    · rw [h1, e]
  have hchain : ∀ i, i < m → s3.st (k + i) = .result (.ref (k + i + 1)) := fun i hi => (hbelow i hi).2.1
  have hderef : (∀ g, s3.st (k + m) ≠ .result (.ref g)) → deref s3 (n + 1) k = s3.st (k + m) :=
    fun h => deref_chain s3 k m (n + 1) (by omega) hchain h
  rw [hk'] at hderef
  rw [hk']
  rcases hpos with ⟨h1, h2, h3, h4, h5⟩ | ⟨h1, h2, h3, h4, h5⟩ | ⟨h1, h2, h3, h4, h5, h6⟩
  · have hd := hderef (by rw [h4]; simp)
    rw [h4] at hd
    refine ⟨hb.errs, hb.fuel, ⟨m, hm, by rw [← hk']; exact hbelow, .inl ⟨h4, List.count_eq_zero.mpr h5, .inl h1⟩⟩,
      .inl hd, fun _ => hd, fun hall _ => absurd h1 (hall m hm), hdone⟩
  · have hd := hderef (by rw [h4]; simp)
    rw [h4] at hd
    refine ⟨hb.errs, hb.fuel, ⟨m, hm, by rw [← hk']; exact hbelow, .inl ⟨h4, List.count_eq_zero.mpr h5, .inr (by simp [h3])⟩⟩,
      .inl hd, fun _ => hd, fun _ hr => by simp [h3] at hr, hdone⟩
  · subst h1
    have hd := hderef (by rw [h5]; exact Outcome.toSt_ne_ref o)
    rw [h5] at hd
    rw [chainD_last] at h2
    refine ⟨hb.errs, hb.fuel, ⟨m, hm, by rw [← hk']; exact hbelow, .inr ⟨rfl, h2, h5, h6⟩⟩,
      .inr hd, fun hp => by rw [h2] at hp; exact absurd hp (Outcome.toSt_ne_pending o), fun _ _ => hd, hdone⟩

end Futures
