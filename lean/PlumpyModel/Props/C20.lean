import PlumpyModel.Futures.Proof
import PlumpyModel.Futures.ProofMirror
import PlumpyModel.Futures.ProofAction
import PlumpyModel.Futures.ProofTask
import PlumpyModel.Futures.ProofRpc
/-!
# C20 — future adapters deliver result, error or cancellation exactly once

Model: `PlumpyModel/Futures/Model.lean` (future cells `pending | result v | exc e | cancelled` in a heap, done-callbacks,
concurrent futures invoking callbacks inline, asyncio futures scheduling them on the loop; a value is a plain value or a
reference to another future).

**Scenario of the chain theorems.**  The environment owns futures `0..n`; level `i < n` resolves to future `i+1` and level
`n` — the *innermost computation* — ends with `o`: a value, an exception or a cancellation (`chainD n o`).  This is the
reading of "every outcome at every level": a level that fails or is cancelled has nothing below it, it *is* the innermost
computation (that is also what the code does: `unwrap_kiwi_future`'s docstring, "if at any point in the chain a future
resolves to an exception then the returned future will also resolve to that exception").  The environment is an arbitrary
list of events `Ev.complete f` (complete future `f` with its designated outcome; repeated or spurious completions are
included — the futures reject them) and `Ev.tick i` (run the `i`-th ready loop callback — any of them, not only the first).
`pre` are the events before the adapter is applied, `post` those after: every order of "apply the adapter" and "complete
level j" is covered, for every depth `n` (the helper lemmas are by induction on the depth and on the event list).

`s.sets` is a ghost log of every delivery *attempt* (`set_result`, `set_exception`, `cancel`, successful or not) and
`s.errs` the exceptions that escaped from callbacks (an `InvalidStateError` of a second delivery would land there):
"exactly once" is `count = 1 ∧ errs = []`.

What the code does differently from a naive reading of the property text (modelled as the code does it, see the report):
* `plum_to_kiwi_future` does not flatten: the mirror of a loop future that resolves to a loop future resolves to the
  *mirror of that future* (`C20_mirror_faithful` states the level-by-level shape and, via `deref`, the innermost outcome);
* `CancellableAction.run` does not chain a result that is a future, it stores the future as its result (flattening is done by
  `_schedule_rpc`'s `while isfuture(result)` loop, `C20_schedule_rpc_unwraps`);
* `create_task` awaits `coro()`; a coroutine that *returns* a future resolves the task future to that future
  (`taskRef`, `.ret (.ref f)`), which `plum_to_kiwi_future` + `unwrap_kiwi_future` flatten on the communicator side;
* a `BaseException` other than `CancelledError` is not captured by `kiwipy.capture_exceptions`: the returned future of
  `create_task` stays pending (`raiseSt`), a `CancellableAction` lets it propagate out of `run()`.
-/
namespace Futures

/-- **C20, `unwrap_kiwi_future` ends with the innermost outcome and nothing else** — for every depth `n`, every innermost
outcome `o`, every order of events (`pre`: before `unwrap_kiwi_future(level 0)` is called, `post`: after), with `u` the
unwrapping future and `s3` the state after all events:
* no exception escapes from any callback and the inline recursion terminates (`errs = []`, `fuelOut = false`);
* if every level is complete, `u` holds exactly the innermost outcome and was set exactly once;
* if some level is still pending — in particular while the innermost computation is not complete — `u` is pending and no
  delivery has been attempted on it;
* a level the environment has completed stays complete (so "every level is complete" holds as soon as every
  `Ev.complete i`, `i ≤ n`, occurs in `pre ++ post`). -/
theorem C20_unwrap_innermost (n : Nat) (o : Outcome) (pre post : List Ev) (fuel : Nat) (hfuel : n + 1 ≤ fuel) :
    let d := chainD n o
    let s1 := envRun d fuel (newFutures .kiwi (n + 1) {}) pre
    let u := (unwrapKiwi s1 0).2
    let s3 := envRun d fuel (runStack fuel (unwrapKiwi s1 0).1) post
    s3.errs = [] ∧ s3.fuelOut = false ∧
    ((∀ i, i ≤ n → s3.st i ≠ .pending) → s3.st u = o.toSt ∧ s3.sets.count u = 1) ∧
    ((∃ i, i ≤ n ∧ s3.st i = .pending) → s3.st u = .pending ∧ s3.sets.count u = 0) ∧
    (∀ i, i ≤ n → Ev.complete i ∈ pre ++ post → s3.st i ≠ .pending) := by
  intro d s1 u s3
  have hpre : UPre .kiwi n o s1 := upre_envRun fuel pre _ (upre_init .kiwi n o)
  obtain ⟨hu, hcur⟩ := unwrap_wrap hpre
  have hq2 : UQuiet n o (runStack fuel (unwrapKiwi s1 0).1) :=
    unwrap_runStack (n + 1) 0 _ hcur (by omega) fuel hfuel
  have hq3 : UQuiet n o s3 := unwrap_envRun fuel hfuel post _ hq2
  have hu' : u = n + 1 := hu
  have hdone : ∀ i, i ≤ n → Ev.complete i ∈ pre ++ post → s3.st i ≠ .pending := by
    intro i hi hmem
    have hd : d i ≠ .pending := chainD_ne_pending hi
    rcases List.mem_append.mp hmem with h | h
    · have h1 : s1.st i ≠ .pending :=
        envRun_complete_done d fuel i hd pre _ (by rw [(upre_init .kiwi n o).next]; omega) h
      have hm : Mono s1 s3 :=
        ((mono_unwrapKiwi s1 0).trans (mono_runStack fuel _)).trans (mono_envRun d fuel post _)
      exact done_of_mono hm (by rw [hpre.next]; omega) h1
    · refine envRun_complete_done d fuel i hd post _ ?_ h
      have : (runStack fuel (unwrapKiwi s1 0).1).next = n + 2 := by
        rcases hq2 with ⟨k, h, _⟩ | h
        · exact h.next
        · exact h.next
      omega
  rw [hu']
  rcases hq3 with ⟨k, h, hs⟩ | h
  · obtain ⟨hpk, _⟩ := h.waiting hs
    refine ⟨h.errs, h.fuel, fun hall => absurd hpk (hall k h.hk), fun _ => ⟨h.upend, ?_⟩, hdone⟩
    exact List.count_eq_zero.mpr h.unset
  · refine ⟨h.errs, h.fuel, fun _ => ⟨h.ust, h.uset⟩, fun ⟨i, hi, hp⟩ => ?_, hdone⟩
    exact absurd hp (by rw [h.all i hi]; exact chainD_ne_pending hi)

/-- **C20, `plum_to_kiwi_future` is a faithful communicator-side mirror** — for every depth `n`, outcome `o` and order of
completions and loop callbacks, with `k` the kiwi future returned for level 0:
* no exception escapes, nothing is set twice;
* *level by level*: there is a frontier `m ≤ n` such that levels `i < m` of the chain are resolved and their mirrors
  `k+i` are resolved (exactly once) to the next mirror `k+i+1`; mirror `k+m` is either pending and untouched (level `m` is
  pending or its `on_done` callback is still scheduled), or `m = n` and it holds the innermost outcome, set exactly once;
* *innermost*: following results that are futures from `k` (`deref`) yields `pending` or the innermost outcome and nothing
  else; `pending` as long as the innermost computation is not complete; the innermost outcome once every level is complete
  and the loop has nothing ready. -/
theorem C20_mirror_faithful (n : Nat) (o : Outcome) (pre post : List Ev) (fuel : Nat) :
    let d := chainD n o
    let s1 := envRun d fuel (newFutures .aio (n + 1) {}) pre
    let k := (plumToKiwi s1 0).2
    let s3 := envRun d fuel (runStack fuel (plumToKiwi s1 0).1) post
    s3.errs = [] ∧ s3.fuelOut = false ∧
    (∃ m, m ≤ n ∧
      (∀ i, i < m → s3.st i = .result (.ref (i + 1)) ∧ s3.st (k + i) = .result (.ref (k + i + 1)) ∧
        s3.sets.count (k + i) = 1) ∧
      ((s3.st (k + m) = .pending ∧ s3.sets.count (k + m) = 0 ∧ (s3.st m = .pending ∨ s3.ready ≠ [])) ∨
       (m = n ∧ s3.st n = o.toSt ∧ s3.st (k + n) = o.toSt ∧ s3.sets.count (k + n) = 1))) ∧
    (deref s3 (n + 1) k = .pending ∨ deref s3 (n + 1) k = o.toSt) ∧
    (s3.st n = .pending → deref s3 (n + 1) k = .pending) ∧
    ((∀ i, i ≤ n → s3.st i ≠ .pending) → s3.ready = [] → deref s3 (n + 1) k = o.toSt) ∧
    (∀ i, i ≤ n → Ev.complete i ∈ pre ++ post → s3.st i ≠ .pending) := by
  intro d s1 k s3
  have hpre : UPre .aio n o s1 := upre_envRun fuel pre _ (upre_init .aio n o)
  obtain ⟨hk, hinv⟩ := mirror_wrap hpre
  have hq2 : MQuiet n o (runStack fuel (plumToKiwi s1 0).1) := by
    rw [runStack_nil _ _ hinv.1.stack]; exact ⟨0, hinv⟩
  obtain ⟨m, hb, hpos⟩ : MQuiet n o s3 := mirror_envRun fuel post _ hq2
  have hk' : k = n + 1 := hk
  have hdone : ∀ i, i ≤ n → Ev.complete i ∈ pre ++ post → s3.st i ≠ .pending := by
    intro i hi hmem
    have hd : d i ≠ .pending := chainD_ne_pending hi
    rcases List.mem_append.mp hmem with h | h
    · have h1 : s1.st i ≠ .pending :=
        envRun_complete_done d fuel i hd pre _ (by rw [(upre_init .aio n o).next]; omega) h
      have hm : Mono s1 s3 :=
        ((mono_plumToKiwi s1 0).trans (mono_runStack fuel _)).trans (mono_envRun d fuel post _)
      exact done_of_mono hm (by rw [hpre.next]; omega) h1
    · refine envRun_complete_done d fuel i hd post _ ?_ h
      rw [runStack_nil _ _ hinv.1.stack, hinv.1.next]; omega
  have hm := hb.hm
  have hbelow : ∀ i, i < m → s3.st i = .result (.ref (i + 1)) ∧ s3.st (k + i) = .result (.ref (k + i + 1)) ∧
      s3.sets.count (k + i) = 1 := by
    intro i hi
    obtain ⟨h1, h2, h3⟩ := hb.below i hi
    rw [hk']
    have hin : i < n := by omega
    have e : n + 2 + i = n + 1 + i + 1 := by omega
    refine ⟨?_, ?_, h2⟩
    · rw [h3, chainD_lt hin]
    · rw [h1, e]
  have hchain : ∀ i, i < m → s3.st (k + i) = .result (.ref (k + i + 1)) := fun i hi => (hbelow i hi).2.1
  have hderef : (∀ g, s3.st (k + m) ≠ .result (.ref g)) → deref s3 (n + 1) k = s3.st (k + m) :=
    fun h => deref_chain s3 k m (n + 1) (by omega) hchain h
  rw [hk'] at hderef
  rw [hk']
  rcases hpos with ⟨h1, h2, h3, h4, h5⟩ | ⟨h1, h2, h3, h4, h5⟩ | ⟨h1, h2, h3, h4, h5, h6⟩
  · have hd := hderef (by rw [h4]; simp)
    rw [h4] at hd
    refine ⟨hb.errs, hb.fuel, ⟨m, hm, by rw [← hk']; exact hbelow, .inl ⟨h4, List.count_eq_zero.mpr h5, .inl h1⟩⟩,
      .inl hd, fun _ => hd, fun hall _ => absurd h1 (hall m hm), hdone⟩
  · have hd := hderef (by rw [h4]; simp)
    rw [h4] at hd
    refine ⟨hb.errs, hb.fuel, ⟨m, hm, by rw [← hk']; exact hbelow, .inl ⟨h4, List.count_eq_zero.mpr h5, .inr (by simp [h3])⟩⟩,
      .inl hd, fun _ => hd, fun _ hr => by simp [h3] at hr, hdone⟩
  · subst h1
    have hd := hderef (by rw [h5]; exact Outcome.toSt_ne_ref o)
    rw [h5] at hd
    rw [chainD_last] at h2
    refine ⟨hb.errs, hb.fuel, ⟨m, hm, by rw [← hk']; exact hbelow, .inr ⟨rfl, h2, h5, h6⟩⟩,
      .inr hd, fun hp => by rw [h2] at hp; exact absurd hp (Outcome.toSt_ne_pending o), fun _ _ => hd, hdone⟩

/-- **C20, a cancellable action runs its function at most once**: after any history of `run()` and `cancel()` calls
(from any state `s0` of the rest of the world) the function has been called at most once. -/
theorem C20_action_runs_at_most_once (s0 : State) (fn : ActFn) (evs : List AEv) :
    let a := (newAction s0 fn).2
    let s := actRun a (newAction s0 fn).1 evs
    ∃ act, s.acts a = some act ∧ act.calls ≤ 1 :=
  (actRun_inv evs _ (newAction_inv s0 fn)).calls_le

/-- **C20, a cancellable action refuses to run again or after cancellation**: after any history, (1) once the action
is cancelled `run()` raises `InvalidStateError`, does not call the function and changes nothing; (2) the same after a
`run()` that returned normally; (3) the same whenever the action is done. -/
theorem C20_action_refuses_rerun_and_after_cancel (s0 : State) (fn : ActFn) (evs : List AEv) :
    let a := (newAction s0 fn).2
    let s := actRun a (newAction s0 fn).1 evs
    (runAction (actStep a s .cancel) a = (actStep a s .cancel, some .actionInvalid)) ∧
    ((runAction s a).2 = none → runAction (actStep a s .run) a = (actStep a s .run, some .actionInvalid)) ∧
    (s.st a ≠ .pending → runAction s a = (s, some .actionInvalid)) := by
  intro a s
  have h : AInv fn a s := actRun_inv evs _ (newAction_inv s0 fn)
  obtain ⟨act, hact, _⟩ := h.calls_le
  refine ⟨?_, fun hn => ?_, fun hd => runAction_refuses s a act hact hd⟩
  · obtain ⟨act', hact', _⟩ := (actStep_inv h .cancel).calls_le
    exact runAction_refuses _ a act' hact' (cancelFut_st_self s a)
  · obtain ⟨act', hact', _⟩ := (actStep_inv h .run).calls_le
    exact runAction_refuses _ a act' hact' (run_none_done h hn)

/-- **C20, a cancellable action reports its outcome through itself**: the first `run()` calls the function exactly once
and drops it, and nothing is logged.  If the function does not get its own action cancelled while it runs: a returned value
(a plain value or a future — it is *not* chained, the future is the result) becomes the action's result and an `Exception`
becomes the action's exception, while `run()` itself returns normally; only a `BaseException` propagates out of `run()`
(the action stays pending).  If the action is cancelled while its function runs (superseded by another request) it stays
cancelled, a returned value is dropped and an `Exception` is logged — there is no one left to report to, and the caller of `run()`
still has to serve the request that superseded the action (repair e94edb5, finding F28); only a `BaseException` propagates. -/
theorem C20_action_reports_through_itself (s0 : State) (fn : ActFn) :
    let a := (newAction s0 fn).2
    let r := runAction (newAction s0 fn).1 a
    r.1.acts a = some { fn := none, calls := 1 } ∧ r.1.errs = s0.errs ∧
    (fn.cancels = false →
      match fn.out with
      | .ret v => r.2 = none ∧ r.1.st a = .result v
      | .raise e => (e.isException = true → r.2 = none ∧ r.1.st a = .exc e) ∧
                    (e.isException = false → r.2 = some e ∧ r.1.st a = .pending)) ∧
    (fn.cancels = true → r.1.st a = .cancelled ∧
      r.2 = match fn.out with | .ret _ => none | .raise e => if e.isException then none else some e) := by
  intro a r
  have h1 : (newAction s0 fn).1.st a = .pending := by simp [a, newAction, alloc, State.setAct, State.st]
  have h2 : (newAction s0 fn).1.acts a = some { fn := some fn, calls := 0 } := by simp [a, newAction, alloc, State.setAct]
  have he : (newAction s0 fn).1.errs = s0.errs := by simp [newAction, alloc, State.setAct]
  have := run_fresh h1 h2
  exact ⟨this.1, by rw [← he]; exact this.2.1, this.2.2.1, this.2.2.2⟩

/-- **C20, `create_task` captures the coroutine's outcome** — `N` loop futures with arbitrary designated outcomes `d`
(values, futures, exceptions, cancellation, or never completed), any coroutine `c` awaiting some of them (`Coro`: awaits,
then `return v` / `return await f` / `raise e`), any order of completions and loop callbacks.  `taskRef st c` is the
reference semantics of the coroutine given the states `st` of the futures it awaits: its result, its exception, `cancelled`
if it ends with `CancelledError` (awaiting a cancelled future — the repaired behaviour, finding F20), `pending` while it is
blocked.  The returned future `fut` is pending or holds exactly `taskRef`; it holds `taskRef` whenever the loop has nothing
ready; it is set exactly once (never while pending). -/
theorem C20_create_task_captures (N : Nat) (d : FId → St) (hd : ∀ f, N ≤ f → d f = .pending) (c : Coro) (hc : c.wf N)
    (pre post : List Ev) (fuel : Nat) :
    let s1 := envRun d fuel (newFutures .aio N {}) pre
    let fut := (createTask s1 c).2
    let s3 := envRun d fuel (createTask s1 c).1 post
    s3.errs = [] ∧ s3.fuelOut = false ∧
    (s3.st fut = .pending ∨ s3.st fut = taskRef s3.st c) ∧
    (s3.ready = [] → s3.st fut = taskRef s3.st c) ∧
    (s3.st fut = .pending → s3.sets.count fut = 0) ∧ (s3.st fut ≠ .pending → s3.sets.count fut = 1) := by
  intro s1 fut s3
  have hpre : EPre N d s1 := epre_envRun hd fuel pre _ (epre_init N d)
  obtain ⟨hf, hinv⟩ := task_wrap c hpre
  obtain ⟨hb, hpos⟩ : TInv N d c s3 := task_envRun hc hd fuel post _ hinv
  have hf' : fut = N := hf
  rw [hf']
  rcases hpos with ⟨hl, hr, _⟩ | ⟨f, k, hl, haw, hfN, hpf, _, _, hr⟩ | ⟨f, k, hl, hfN, hr, _⟩ | ⟨_, hr, _, _, hst, hu1, hu2⟩
  · refine ⟨hb.errs, hb.fuel, .inl hl.fpend, fun h => by simp [hr] at h, fun _ => List.count_eq_zero.mpr hl.unset,
      fun h => absurd hl.fpend h⟩
  · have hp : taskRef s3.st c = .pending := by rw [hl.passed.taskRef_eq]; exact taskRef_awaiting haw hpf
    refine ⟨hb.errs, hb.fuel, .inl hl.fpend, fun _ => by rw [hp]; exact hl.fpend,
      fun _ => List.count_eq_zero.mpr hl.unset, fun h => absurd hl.fpend h⟩
  · refine ⟨hb.errs, hb.fuel, .inl hl.fpend, fun h => by simp [hr] at h, fun _ => List.count_eq_zero.mpr hl.unset,
      fun h => absurd hl.fpend h⟩
  · exact ⟨hb.errs, hb.fuel, .inr hst, fun _ => hst, fun h => List.count_eq_zero.mpr (hu1 h), hu2⟩

/-- **C20, the reply future of `Process._schedule_rpc` ends with the innermost outcome** — the callback returns level 0 of
a chain of loop futures (e.g. the `CancellableAction` returned by `pause()`/`kill()`); for every depth, outcome and order:
the reply future `kf` is pending or holds the innermost outcome and nothing else; it is pending while the innermost
computation is pending; once every level is complete and the loop has nothing ready it holds the innermost outcome —
value, exception or cancellation (finding F20: before commit 93ed834 a cancellation left it pending for ever);
it is set exactly once. -/
theorem C20_schedule_rpc_unwraps (n : Nat) (o : Outcome) (pre post : List Ev) (fuel : Nat) (hfuel : n + 2 ≤ fuel) :
    let d := chainD n o
    let s1 := envRun d fuel (newFutures .aio (n + 1) {}) pre
    let kf := (scheduleRpc s1 (.ret (.ref 0))).2
    let s3 := envRun d fuel (scheduleRpc s1 (.ret (.ref 0))).1 post
    s3.errs = [] ∧ s3.fuelOut = false ∧
    (s3.st kf = .pending ∨ s3.st kf = o.toSt) ∧
    (s3.st n = .pending → s3.st kf = .pending) ∧
    ((∀ i, i ≤ n → s3.st i ≠ .pending) → s3.ready = [] → s3.st kf = o.toSt) ∧
    (s3.st kf = .pending → s3.sets.count kf = 0) ∧ (s3.st kf ≠ .pending → s3.sets.count kf = 1) ∧
    (∀ i, i ≤ n → Ev.complete i ∈ pre ++ post → s3.st i ≠ .pending) := by
  intro d s1 kf s3
  have hpre : UPre .aio n o s1 := upre_envRun fuel pre _ (upre_init .aio n o)
  obtain ⟨hk, hinv⟩ := rpc_wrap hpre (upre_ntasks fuel pre)
  obtain ⟨hb, hpos⟩ : RInv n o s3 := rpc_envRun fuel hfuel post _ hinv
  have hk' : kf = n + 1 := hk
  have hdone : ∀ i, i ≤ n → Ev.complete i ∈ pre ++ post → s3.st i ≠ .pending := by
    intro i hi hmem
    have hd : d i ≠ .pending := chainD_ne_pending hi
    rcases List.mem_append.mp hmem with h | h
    · have h1 : s1.st i ≠ .pending :=
        envRun_complete_done d fuel i hd pre _ (by rw [(upre_init .aio n o).next]; omega) h
      have hm : Mono s1 s3 := (mono_scheduleRpc s1 _).trans (mono_envRun d fuel post _)
      exact done_of_mono hm (by rw [hpre.next]; omega) h1
    · refine envRun_complete_done d fuel i hd post _ ?_ h
      rw [hinv.1.next]; omega
  rw [hk']
  have hlive : RLive n s3 → _ := fun hl =>
    (⟨hb.errs, hb.fuel, .inl hl.kpend, fun _ => hl.kpend, fun _ => List.count_eq_zero.mpr hl.unset,
      fun h => absurd hl.kpend h⟩ : s3.errs = [] ∧ s3.fuelOut = false ∧ (s3.st (n + 1) = .pending ∨ s3.st (n + 1) = o.toSt) ∧
      (s3.st n = .pending → s3.st (n + 1) = .pending) ∧ (s3.st (n + 1) = .pending → s3.sets.count (n + 1) = 0) ∧
      (s3.st (n + 1) ≠ .pending → s3.sets.count (n + 1) = 1))
  rcases hpos with ⟨hl, _, hr, _⟩ | ⟨j, hj, hl, _, _, hpj, _, _, _⟩ | ⟨j, hj, hl, _, _, hr, _⟩ | ⟨_, _, _, hall, hst, hcnt⟩
  · obtain ⟨a, b, c, e, f, g⟩ := hlive hl
    exact ⟨a, b, c, e, fun _ h => by simp [hr] at h, f, g, hdone⟩
  · obtain ⟨a, b, c, e, f, g⟩ := hlive hl
    exact ⟨a, b, c, e, fun hall _ => absurd hpj (hall j hj), f, g, hdone⟩
  · obtain ⟨a, b, c, e, f, g⟩ := hlive hl
    exact ⟨a, b, c, e, fun _ h => by simp [hr] at h, f, g, hdone⟩
  · have hnp : s3.st (n + 1) ≠ .pending := by rw [hst]; exact Outcome.toSt_ne_pending o
    refine ⟨hb.errs, hb.fuel, .inr hst, fun hp => ?_, fun _ _ => hst, fun h => absurd h hnp, fun _ => hcnt, hdone⟩
    exact absurd hp (by rw [hall n (Nat.le_refl _)]; exact chainD_ne_pending (Nat.le_refl _))

/-- **C20, a future that is done is final** (the substrate of "exactly once"): no operation of the model — a delivery by
anyone, applying any adapter, running an action, any loop callback, any inline callback, a whole loop run — changes the
state of a future that is already done. -/
theorem C20_done_is_final (s : State) (f : Nat) (hf : f < s.next) (hd : s.st f ≠ .pending) :
    (∀ g o, (setOutcome s g o).1.st f = s.st f) ∧ (∀ g, (cancelFut s g).st f = s.st f) ∧
    (∀ g, (unwrapKiwi s g).1.st f = s.st f) ∧ (∀ g, (plumToKiwi s g).1.st f = s.st f) ∧
    (∀ c, (createTask s c).1.st f = s.st f) ∧ (∀ c, (scheduleRpc s c).1.st f = s.st f) ∧
    (∀ c, (newAction s c).1.st f = s.st f) ∧ (∀ a, (runAction s a).1.st f = s.st f) ∧
    (∀ fuel i, (tick s fuel i).st f = s.st f) ∧ (∀ fuel, (runStack fuel s).st f = s.st f) ∧
    (∀ fuel n, (drain fuel n s).st f = s.st f) ∧ (∀ d fuel evs, (envRun d fuel s evs).st f = s.st f) :=
  ⟨fun g o => (mono_setOutcome s g o).2 f hf hd, fun g => (mono_cancelFut s g).2 f hf hd,
   fun g => (mono_unwrapKiwi s g).2 f hf hd, fun g => (mono_plumToKiwi s g).2 f hf hd,
   fun c => (mono_createTask s c).2 f hf hd, fun c => (mono_scheduleRpc s c).2 f hf hd,
   fun c => (mono_newAction s c).2 f hf hd, fun a => (mono_runAction s a).2 f hf hd,
   fun fuel i => (mono_tick s fuel i).2 f hf hd, fun fuel => (mono_runStack fuel s).2 f hf hd,
   fun fuel n => (mono_drain fuel n s).2 f hf hd, fun d fuel evs => (mono_envRun d fuel evs s).2 f hf hd⟩

/-! ## Non-vacuity: the hypotheses are satisfiable and the conclusions are reached on concrete runs -/

/-- depth 2, level 1 completes before the adapter is applied, then the innermost, then level 0: the value arrives -/
example :
    let d := chainD 2 (.value 7)
    let s1 := envRun d 10 (newFutures .kiwi 3 {}) [.complete 1]
    let s3 := envRun d 10 (runStack 10 (unwrapKiwi s1 0).1) [.complete 2, .complete 0]
    (unwrapKiwi s1 0).2 = 3 ∧ s3.st 3 = .result (.plain 7) ∧ s3.sets.count 3 = 1 ∧ s3.errs = [] ∧
      (∀ i, i ≤ 2 → s3.st i ≠ .pending) := by decide

/-- the innermost computation is cancelled first; the unwrapping future stays pending until the outer levels complete -/
example :
    let d := chainD 2 .cancelled
    let s1 := envRun d 10 (newFutures .kiwi 3 {}) [.complete 2]
    let s2 := envRun d 10 (runStack 10 (unwrapKiwi s1 0).1) [.complete 1]
    let s3 := envRun d 10 s2 [.complete 0]
    s2.st 2 = .cancelled ∧ s2.st 3 = .pending ∧ s3.st 3 = .cancelled := by decide

/-- mirror of a depth-1 chain ending with an exception: two mirrors, level by level, after two loop callbacks -/
example :
    let d := chainD 1 (.error 3)
    let s1 := envRun d 10 (newFutures .aio 2 {}) []
    let s3 := envRun d 10 (runStack 10 (plumToKiwi s1 0).1) [.complete 1, .complete 0, .tick 0, .tick 0]
    (plumToKiwi s1 0).2 = 2 ∧ s3.st 2 = .result (.ref 3) ∧ s3.st 3 = .exc (.user 3) ∧ s3.ready = [] ∧
      deref s3 2 2 = .exc (.user 3) := by decide

/-- before the loop runs the callback the mirror is still pending (the `ready ≠ []` alternative of the theorem) -/
example :
    let d := chainD 0 (.value 1)
    let s3 := envRun d 10 (runStack 10 (plumToKiwi (newFutures .aio 1 {}) 0).1) [.complete 0]
    s3.st 0 = .result (.plain 1) ∧ s3.st 1 = .pending ∧ s3.ready ≠ [] := by decide

/-- `create_task`: a coroutine awaits future 0 (a value) and returns the result of future 1, which gets cancelled -/
example :
    let d : FId → St := fun f => if f = 0 then .result (.plain 1) else if f = 1 then .cancelled else .pending
    let c : Coro := .await 0 (.retAwait 1)
    let s1 := newFutures .aio 2 {}
    let s3 := envRun d 10 (createTask s1 c).1 [.tick 0, .complete 1, .complete 0, .tick 0]
    c.wf 2 ∧ (createTask s1 c).2 = 2 ∧ s3.st 2 = .cancelled ∧ taskRef s3.st c = .cancelled ∧ s3.ready = [] := by
  refine ⟨⟨by decide, show (1 : Nat) < 2 by decide⟩, ?_⟩; decide

/-- `_schedule_rpc`: the awaited action (level 0) is cancelled: the reply is cancelled (finding F20) -/
example :
    let d := chainD 0 .cancelled
    let s1 := newFutures .aio 1 {}
    let s3 := envRun d 10 (scheduleRpc s1 (.ret (.ref 0))).1 [.tick 0, .complete 0, .tick 0]
    (scheduleRpc s1 (.ret (.ref 0))).2 = 1 ∧ s3.st 1 = .cancelled ∧ s3.ready = [] ∧ s3.sets.count 1 = 1 := by decide

/-- an action whose function returns 5: run, run again, cancel, run -/
example :
    let a := (newAction {} { out := .ret (.plain 5) }).2
    let s := actRun a (newAction {} { out := .ret (.plain 5) }).1 [.run, .run, .cancel, .run]
    s.st a = .result (.plain 5) ∧ (s.acts a).map (·.calls) = some 1 ∧ (runAction s a).2 = some .actionInvalid := by decide

/-- an action cancelled before it ran never calls its function -/
example :
    let a := (newAction {} { out := .raise (.user 2) }).2
    let s := actRun a (newAction {} { out := .raise (.user 2) }).1 [.cancel, .run]
    s.st a = .cancelled ∧ (s.acts a).map (·.calls) = some 0 := by decide

/-- an action superseded (cancelled) while its function runs stays cancelled; the exception of its function does not leave `run()` -/
example :
    let a := (newAction {} { cancels := true, out := .raise (.user 2) }).2
    let r := runAction (newAction {} { cancels := true, out := .raise (.user 2) }).1 a
    r.1.st a = .cancelled ∧ r.2 = none ∧ (r.1.acts a).map (·.calls) = some 1 := by decide

end Futures
