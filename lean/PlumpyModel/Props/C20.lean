import PlumpyModel.Futures.Proof
import PlumpyModel.Futures.ProofMirror
import PlumpyModel.Futures.ProofAction
import PlumpyModel.Futures.ProofTask
import PlumpyModel.Futures.ProofRpc
/-!
# C20 — future adapters deliver result, error or cancellation exactly once
-/
namespace Futures

/-- **C20, `unwrap_kiwi_future`** -/
theorem C20_unwrap_innermost (n : Nat) (o : Outcome) (pre post : List Ev) (fuel : Nat) (hfuel : n + 1 ≤ fuel) :
    let d := chainD n o
    let s1 := envRun d fuel (newFutures .kiwi (n + 1) {}) pre
    let u := (unwrapKiwi s1 0).2
    let s3 := envRun d fuel (runStack fuel (unwrapKiwi s1 0).1) post
    s3.errs = [] ∧ s3.fuelOut = false ∧
    ((∀ i, i ≤ n → s3.st i ≠ .pending) → s3.st u = o.toSt ∧ s3.sets.count u = 1) ∧
    ((∃ i, i ≤ n ∧ s3.st i = .pending) → s3.st u = .pending ∧ s3.sets.count u = 0) ∧
    (∀ i, i ≤ n → Ev.complete i ∈ pre ++ post → s3.st i ≠ .pending) := by
  intro d s1 u s3
  have hpre : UPre .kiwi n o s1 := upre_envRun fuel pre _ (upre_init .kiwi n o)
  obtain ⟨hu, hcur⟩ := unwrap_wrap hpre
  have hq2 : UQuiet n o (runStack fuel (unwrapKiwi s1 0).1) :=
    unwrap_runStack (n + 1) 0 _ hcur (by omega) fuel hfuel
  have hq3 : UQuiet n o s3 := unwrap_envRun fuel hfuel post _ hq2
  have hu' : u = n + 1 := hu
  have hdone : ∀ i, i ≤ n → Ev.complete i ∈ pre ++ post → s3.st i ≠ .pending := by
    intro i hi hmem
    have hd : d i ≠ .pending := chainD_ne_pending hi
    rcases List.mem_append.mp hmem with h | h
    · have h1 : s1.st i ≠ .pending :=
        envRun_complete_done d fuel i hd pre _ (by rw [(upre_init .kiwi n o).next]; omega) h
      have hm : Mono s1 s3 :=
        ((mono_unwrapKiwi s1 0).trans (mono_runStack fuel _)).trans (mono_envRun d fuel post _)
      exact done_of_mono hm (by rw [hpre.next]; omega) h1
    · refine envRun_complete_done d fuel i hd post _ ?_ h
      have : (runStack fuel (unwrapKiwi s1 0).1).next = n + 2 := by
        rcases hq2 with ⟨k, h, _⟩ | h
        · exact h.next
        · exact h.next
      omega
  rw [hu']
  rcases hq3 with ⟨k, h, hs⟩ | h
  · obtain ⟨hpk, _⟩ := h.waiting hs
    refine ⟨h.errs, h.fuel, fun hall => absurd hpk (hall k h.hk), fun _ => ⟨h.upend, ?_⟩, hdone⟩
    exact List.count_eq_zero.mpr h.unset
  · refine ⟨h.errs, h.fuel, fun _ => ⟨h.ust, h.uset⟩, fun ⟨i, hi, hp⟩ => ?_, hdone⟩
    exact absurd hp (by rw [h.all i hi]; exact chainD_ne_pending hi)

theorem Outcome.toSt_ne_ref (o : Outcome) (g : FId) : o.toSt ≠ .result (.ref g) := by cases o <;> simp [Outcome.toSt]

/-- **C20, `plum_to_kiwi_future`** -/
theorem C20_mirror_faithful (n : Nat) (o : Outcome) (pre post : List Ev) (fuel : Nat) :
    let d := chainD n o
    let s1 := envRun d fuel (newFutures .aio (n + 1) {}) pre
    let k := (plumToKiwi s1 0).2
    let s3 := envRun d fuel (runStack fuel (plumToKiwi s1 0).1) post
    s3.errs = [] ∧ s3.fuelOut = false ∧
    (∃ m, m ≤ n ∧
      (∀ i, i < m → s3.st i = .result (.ref (i + 1)) ∧ s3.st (k + i) = .result (.ref (k + i + 1)) ∧
        s3.sets.count (k + i) = 1) ∧
      ((s3.st (k + m) = .pending ∧ s3.sets.count (k + m) = 0 ∧ (s3.st m = .pending ∨ s3.ready ≠ [])) ∨
       (m = n ∧ s3.st n = o.toSt ∧ s3.st (k + n) = o.toSt ∧ s3.sets.count (k + n) = 1))) ∧
    (deref s3 (n + 1) k = .pending ∨ deref s3 (n + 1) k = o.toSt) ∧
    (s3.st n = .pending → deref s3 (n + 1) k = .pending) ∧
    ((∀ i, i ≤ n → s3.st i ≠ .pending) → s3.ready = [] → deref s3 (n + 1) k = o.toSt) ∧
    (∀ i, i ≤ n → Ev.complete i ∈ pre ++ post → s3.st i ≠ .pending) := by
  intro d s1 k s3
  have hpre : UPre .aio n o s1 := upre_envRun fuel pre _ (upre_init .aio n o)
  obtain ⟨hk, hinv⟩ := mirror_wrap hpre
  have hq2 : MQuiet n o (runStack fuel (plumToKiwi s1 0).1) := by
    rw [runStack_nil _ _ hinv.1.stack]; exact ⟨0, hinv⟩
  obtain ⟨m, hb, hpos⟩ : MQuiet n o s3 := mirror_envRun fuel post _ hq2
  have hk' : k = n + 1 := hk
  have hdone : ∀ i, i ≤ n → Ev.complete i ∈ pre ++ post → s3.st i ≠ .pending := by
    intro i hi hmem
    have hd : d i ≠ .pending := chainD_ne_pending hi
    rcases List.mem_append.mp hmem with h | h
    · have h1 : s1.st i ≠ .pending :=
        envRun_complete_done d fuel i hd pre _ (by rw [(upre_init .aio n o).next]; omega) h
      have hm : Mono s1 s3 :=
        ((mono_plumToKiwi s1 0).trans (mono_runStack fuel _)).trans (mono_envRun d fuel post _)
      exact done_of_mono hm (by rw [hpre.next]; omega) h1
    · refine envRun_complete_done d fuel i hd post _ ?_ h
      rw [runStack_nil _ _ hinv.1.stack, hinv.1.next]; omega
  have hm := hb.hm
  have hbelow : ∀ i, i < m → s3.st i = .result (.ref (i + 1)) ∧ s3.st (k + i) = .result (.ref (k + i + 1)) ∧
      s3.sets.count (k + i) = 1 := by
    intro i hi
    obtain ⟨h1, h2, h3⟩ := hb.below i hi
    rw [hk']
    have hin : i < n := by omega
    have e : n + 2 + i = n + 1 + i + 1 := by omega
    refine ⟨?_, ?_, h2⟩
    · rw [h3, chainD_lt hin]
    · rw [h1, e]
  have hchain : ∀ i, i < m → s3.st (k + i) = .result (.ref (k + i + 1)) := fun i hi => (hbelow i hi).2.1
  have hderef : (∀ g, s3.st (k + m) ≠ .result (.ref g)) → deref s3 (n + 1) k = s3.st (k + m) :=
    fun h => deref_chain s3 k m (n + 1) (by omega) hchain h
  rw [hk'] at hderef
  rw [hk']
  rcases hpos with ⟨h1, h2, h3, h4, h5⟩ | ⟨h1, h2, h3, h4, h5⟩ | ⟨h1, h2, h3, h4, h5, h6⟩
  · have hd := hderef (by rw [h4]; simp)
    rw [h4] at hd
    refine ⟨hb.errs, hb.fuel, ⟨m, hm, by rw [← hk']; exact hbelow, .inl ⟨h4, List.count_eq_zero.mpr h5, .inl h1⟩⟩,
      .inl hd, fun _ => hd, fun hall _ => absurd h1 (hall m hm), hdone⟩
  · have hd := hderef (by rw [h4]; simp)
    rw [h4] at hd
    refine ⟨hb.errs, hb.fuel, ⟨m, hm, by rw [← hk']; exact hbelow, .inl ⟨h4, List.count_eq_zero.mpr h5, .inr (by simp [h3])⟩⟩,
      .inl hd, fun _ => hd, fun _ hr => by simp [h3] at hr, hdone⟩
  · subst h1
    have hd := hderef (by rw [h5]; exact Outcome.toSt_ne_ref o)
    rw [h5] at hd
    rw [chainD_last] at h2
    refine ⟨hb.errs, hb.fuel, ⟨m, hm, by rw [← hk']; exact hbelow, .inr ⟨rfl, h2, h5, h6⟩⟩,
      .inr hd, fun hp => by rw [h2] at hp; exact absurd hp (Outcome.toSt_ne_pending o), fun _ _ => hd, hdone⟩

/-- **C20, a cancellable action runs its function at most once**: after any history of `run()` and `cancel()` calls
(from any state `s0` of the rest of the world) the function has been called at most once. -/
theorem C20_action_runs_at_most_once (s0 : State) (fn : Call) (evs : List AEv) :
    let a := (newAction s0 fn).2
    let s := actRun a (newAction s0 fn).1 evs
    ∃ act, s.acts a = some act ∧ act.calls ≤ 1 :=
  (actRun_inv evs _ (newAction_inv s0 fn)).calls_le

/-- **C20, a cancellable action refuses to run again or after cancellation**: after any history, (1) once the action
is cancelled `run()` raises `InvalidStateError`, does not call the function and changes nothing; (2) the same after a
`run()` that returned normally; (3) the same whenever the action is done. -/
theorem C20_action_refuses_rerun_and_after_cancel (s0 : State) (fn : Call) (evs : List AEv) :
    let a := (newAction s0 fn).2
    let s := actRun a (newAction s0 fn).1 evs
    (runAction (actStep a s .cancel) a = (actStep a s .cancel, some .actionInvalid)) ∧
    ((runAction s a).2 = none → runAction (actStep a s .run) a = (actStep a s .run, some .actionInvalid)) ∧
    (s.st a ≠ .pending → runAction s a = (s, some .actionInvalid)) := by
  intro a s
  have h : AInv fn a s := actRun_inv evs _ (newAction_inv s0 fn)
  obtain ⟨act, hact, _⟩ := h.calls_le
  refine ⟨?_, fun hn => ?_, fun hd => runAction_refuses s a act hact hd⟩
  · obtain ⟨act', hact', _⟩ := (actStep_inv h .cancel).calls_le
    exact runAction_refuses _ a act' hact' (cancelFut_st_self s a)
  · obtain ⟨act', hact', _⟩ := (actStep_inv h .run).calls_le
    exact runAction_refuses _ a act' hact' (run_none_done h hn)

/-- **C20, a cancellable action reports its outcome through itself**: the first `run()` calls the function once; a
returned value (a plain value or a future) becomes the action's result and an `Exception` becomes the action's
exception, `run()` itself returns normally and nothing is logged; only a `BaseException` propagates out of `run()`
(the action stays pending, the function is dropped). -/
theorem C20_action_reports_through_itself (s0 : State) (fn : Call) :
    let a := (newAction s0 fn).2
    let r := runAction (newAction s0 fn).1 a
    r.1.acts a = some { fn := none, calls := 1 } ∧ r.1.errs = s0.errs ∧
    match fn with
    | .ret v => r.2 = none ∧ r.1.st a = .result v
    | .raise e => (e.isException = true → r.2 = none ∧ r.1.st a = .exc e) ∧
                  (e.isException = false → r.2 = some e ∧ r.1.st a = .pending) := by
  intro a r
  have h1 : (newAction s0 fn).1.st a = .pending := by simp [a, newAction, alloc, State.setAct, State.st]
  have h2 : (newAction s0 fn).1.acts a = some { fn := some fn, calls := 0 } := by simp [a, newAction, alloc, State.setAct]
  have he : (newAction s0 fn).1.errs = s0.errs := by simp [newAction, alloc, State.setAct]
  have := run_fresh h1 h2
  cases fn with
  | ret v => simp only at this; exact ⟨this.2.2.1, by rw [← he]; exact this.2.2.2, this.1, this.2.1⟩
  | raise e =>
    simp only at this
    by_cases hx : e.isException = true
    · have t := this.1 hx
      exact ⟨t.2.2.1, by rw [← he]; exact t.2.2.2, fun _ => ⟨t.1, t.2.1⟩, fun h => by rw [hx] at h; simp at h⟩
    · have hx' : e.isException = false := by simpa using hx
      have t := this.2 hx'
      exact ⟨t.2.2.1, by rw [← he]; exact t.2.2.2, fun h => by rw [hx'] at h; simp at h, fun _ => ⟨t.1, t.2.1⟩⟩

/-- **C20, `create_task`** -/
theorem C20_create_task_captures (N : Nat) (d : FId → St) (hd : ∀ f, N ≤ f → d f = .pending) (c : Coro) (hc : c.wf N)
    (pre post : List Ev) (fuel : Nat) :
    let s1 := envRun d fuel (newFutures .aio N {}) pre
    let fut := (createTask s1 c).2
    let s3 := envRun d fuel (createTask s1 c).1 post
    s3.errs = [] ∧ s3.fuelOut = false ∧
    (s3.st fut = .pending ∨ s3.st fut = taskRef s3.st c) ∧
    (s3.ready = [] → s3.st fut = taskRef s3.st c) ∧
    (s3.st fut = .pending → s3.sets.count fut = 0) ∧ (s3.st fut ≠ .pending → s3.sets.count fut = 1) := by
  intro s1 fut s3
  have hpre : EPre N d s1 := epre_envRun hd fuel pre _ (epre_init N d)
  obtain ⟨hf, hinv⟩ := task_wrap c hpre
  obtain ⟨hb, hpos⟩ : TInv N d c s3 := task_envRun hc hd fuel post _ hinv
  have hf' : fut = N := hf
  rw [hf']
  rcases hpos with ⟨hl, hr, _⟩ | ⟨f, k, hl, haw, hfN, hpf, _, _, hr⟩ | ⟨f, k, hl, hfN, hr, _⟩ | ⟨_, hr, _, _, hst, hu1, hu2⟩
  · refine ⟨hb.errs, hb.fuel, .inl hl.fpend, fun h => by simp [hr] at h, fun _ => List.count_eq_zero.mpr hl.unset,
      fun h => absurd hl.fpend h⟩
  · have hp : taskRef s3.st c = .pending := by rw [hl.passed.taskRef_eq]; exact taskRef_awaiting haw hpf
    refine ⟨hb.errs, hb.fuel, .inl hl.fpend, fun _ => by rw [hp]; exact hl.fpend,
      fun _ => List.count_eq_zero.mpr hl.unset, fun h => absurd hl.fpend h⟩
  · refine ⟨hb.errs, hb.fuel, .inl hl.fpend, fun h => by simp [hr] at h, fun _ => List.count_eq_zero.mpr hl.unset,
      fun h => absurd hl.fpend h⟩
  · exact ⟨hb.errs, hb.fuel, .inr hst, fun _ => hst, fun h => List.count_eq_zero.mpr (hu1 h), hu2⟩

/-- **C20, `Process._schedule_rpc`** -/
theorem C20_schedule_rpc_unwraps (n : Nat) (o : Outcome) (pre post : List Ev) (fuel : Nat) (hfuel : n + 2 ≤ fuel) :
    let d := chainD n o
    let s1 := envRun d fuel (newFutures .aio (n + 1) {}) pre
    let kf := (scheduleRpc s1 (.ret (.ref 0))).2
    let s3 := envRun d fuel (scheduleRpc s1 (.ret (.ref 0))).1 post
    s3.errs = [] ∧ s3.fuelOut = false ∧
    (s3.st kf = .pending ∨ s3.st kf = o.toSt) ∧
    (s3.st n = .pending → s3.st kf = .pending) ∧
    ((∀ i, i ≤ n → s3.st i ≠ .pending) → s3.ready = [] → s3.st kf = o.toSt) ∧
    (s3.st kf = .pending → s3.sets.count kf = 0) ∧ (s3.st kf ≠ .pending → s3.sets.count kf = 1) ∧
    (∀ i, i ≤ n → Ev.complete i ∈ pre ++ post → s3.st i ≠ .pending) := by
  intro d s1 kf s3
  have hpre : UPre .aio n o s1 := upre_envRun fuel pre _ (upre_init .aio n o)
  obtain ⟨hk, hinv⟩ := rpc_wrap hpre (upre_ntasks fuel pre)
  obtain ⟨hb, hpos⟩ : RInv n o s3 := rpc_envRun fuel hfuel post _ hinv
  have hk' : kf = n + 1 := hk
  have hdone : ∀ i, i ≤ n → Ev.complete i ∈ pre ++ post → s3.st i ≠ .pending := by
    intro i hi hmem
    have hd : d i ≠ .pending := chainD_ne_pending hi
    rcases List.mem_append.mp hmem with h | h
    · have h1 : s1.st i ≠ .pending :=
        envRun_complete_done d fuel i hd pre _ (by rw [(upre_init .aio n o).next]; omega) h
      have hm : Mono s1 s3 := (mono_scheduleRpc s1 _).trans (mono_envRun d fuel post _)
      exact done_of_mono hm (by rw [hpre.next]; omega) h1
    · refine envRun_complete_done d fuel i hd post _ ?_ h
      rw [hinv.1.next]; omega
  rw [hk']
  have hlive : RLive n s3 → _ := fun hl =>
    (⟨hb.errs, hb.fuel, .inl hl.kpend, fun _ => hl.kpend, fun _ => List.count_eq_zero.mpr hl.unset,
      fun h => absurd hl.kpend h⟩ : s3.errs = [] ∧ s3.fuelOut = false ∧ (s3.st (n + 1) = .pending ∨ s3.st (n + 1) = o.toSt) ∧
      (s3.st n = .pending → s3.st (n + 1) = .pending) ∧ (s3.st (n + 1) = .pending → s3.sets.count (n + 1) = 0) ∧
      (s3.st (n + 1) ≠ .pending → s3.sets.count (n + 1) = 1))
  rcases hpos with ⟨hl, _, hr, _⟩ | ⟨j, hj, hl, _, _, hpj, _, _, _⟩ | ⟨j, hj, hl, _, _, hr, _⟩ | ⟨_, _, _, hall, hst, hcnt⟩
  · obtain ⟨a, b, c, e, f, g⟩ := hlive hl
    exact ⟨a, b, c, e, fun _ h => by simp [hr] at h, f, g, hdone⟩
  · obtain ⟨a, b, c, e, f, g⟩ := hlive hl
    exact ⟨a, b, c, e, fun hall _ => absurd hpj (hall j hj), f, g, hdone⟩
  · obtain ⟨a, b, c, e, f, g⟩ := hlive hl
    exact ⟨a, b, c, e, fun _ h => by simp [hr] at h, f, g, hdone⟩
  · have hnp : s3.st (n + 1) ≠ .pending := by rw [hst]; exact Outcome.toSt_ne_pending o
    refine ⟨hb.errs, hb.fuel, .inr hst, fun hp => ?_, fun _ _ => hst, fun h => absurd h hnp, fun _ => hcnt, hdone⟩
    exact absurd hp (by rw [hall n (Nat.le_refl _)]; exact chainD_ne_pending (Nat.le_refl _))

end Futures
