import PlumpyModel.PM.Proof9
import PlumpyModel.PM.LProof13
/-!
# C02 — all reports of a terminated process's outcome agree

Model: `PMF`.  `Cfg.fut` is the process future (`pending | result | exc e | cancelled`; `result` stands for "resolved to
the outputs"), `closed` / `cleanups` the close flag and the number of times the registered cleanups ran, `notif` the log
of listener notifications.  `outcomeOf st` is what the future must hold for a terminal state object: FINISHED ↦ result,
KILLED ↦ KilledError, EXCEPTED e ↦ the exception `e` itself.

Proved for every program, every number of awaited futures and every history of events (ticks in any order, pause, play,
kill, resume, fail, call_soon callbacks, cancellation of the future, completion of awaitables).
"step_until_terminated() returns" is proved in two parts that are not yet joined by an invariant over histories
(`C02_stepper_returns_full` states what is missing; the correspondence check and the Python monitor decide it on every
explored schedule): from a terminated configuration whose stepping coroutine is not blocked on an unreleased future,
finitely many wake-ups end it normally (`C02_stepper_returns_partial`); and the two transitions that could leave it
blocked release it (`C02_termination_releases_pause`, `C02_leaving_waiting_completes_wait`: repairs G and J).
-/
namespace PMF

/-- **agreement at termination**: in every reachable terminal configuration the future holds exactly the outcome of
the state object (FINISHED: the outputs; EXCEPTED: the original exception; KILLED: KilledError), the process is closed,
the cleanups ran exactly once and listeners received exactly one terminal notification. -/
theorem C02_outcome_agrees (P : Prog) (nf : Nat) (evs : List Ev)
    (ht : terminal (run P (init nf) evs).st.label = true) :
    let c := run P (init nf) evs
    outcomeOf c.st = some c.fut ∧ c.closed = true ∧ c.cleanups = 1 ∧ termCount c.notif = 1 := by
  have h := (run_inv2 P (init nf) evs (inv2_init nf)).term ht
  exact ⟨h.2.2.2, h.1, h.2.1, h.2.2.1⟩

/-- **… conversely, nothing is reported early**: while the process is live its future is unresolved (pending, or
cancelled by the environment — the process itself never resolves it), it is not closed, no cleanup has run and no
terminal notification has been sent. -/
theorem C02_nothing_reported_while_live (P : Prog) (nf : Nat) (evs : List Ev)
    (hl : terminal (run P (init nf) evs).st.label = false) :
    let c := run P (init nf) evs
    (c.fut = .pending ∨ c.fut = .cancelled) ∧ c.closed = false ∧ c.cleanups = 0 ∧ termCount c.notif = 0 :=
  (run_inv2 P (init nf) evs (inv2_init nf)).live hl

/-- the three cases spelled out -/
theorem C02_finished_future (P : Prog) (nf : Nat) (evs : List Ev) (v : Option Val) (ok : Bool)
    (h : (run P (init nf) evs).st = .finished v ok) : (run P (init nf) evs).fut = .result := by
  have := (C02_outcome_agrees P nf evs (by rw [h]; simp [SObj.label, terminal, allowed])).1
  rw [h] at this; simpa [outcomeOf] using this.symm

theorem C02_excepted_future (P : Prog) (nf : Nat) (evs : List Ev) (e : Exc)
    (h : (run P (init nf) evs).st = .excepted e) : (run P (init nf) evs).fut = .exc e := by
  have := (C02_outcome_agrees P nf evs (by rw [h]; simp [SObj.label, terminal, allowed])).1
  rw [h] at this; simpa [outcomeOf] using this.symm

theorem C02_killed_future (P : Prog) (nf : Nat) (evs : List Ev)
    (h : (run P (init nf) evs).st = .killed) : (run P (init nf) evs).fut = .exc .killedErr := by
  have := (C02_outcome_agrees P nf evs (by rw [h]; decide)).1
  rw [h] at this; simpa [outcomeOf] using this.symm

/-- the future of a process is resolved exactly when the process has terminated (cancellation aside) -/
theorem C02_future_resolved_iff_terminated (P : Prog) (nf : Nat) (evs : List Ev) :
    let c := run P (init nf) evs
    (c.fut ≠ .pending ∧ c.fut ≠ .cancelled) ↔ terminal c.st.label = true := by
  intro c
  constructor
  · intro hf
    cases ht : terminal c.st.label with
    | true => rfl
    | false =>
      rcases (C02_nothing_reported_while_live P nf evs ht).1 with h | h
      · exact absurd h hf.1
      · exact absurd h hf.2
  · intro ht
    have h := (C02_outcome_agrees P nf evs ht).1
    have hne : ∀ (st : SObj) (f : PFut), outcomeOf st = some f → f ≠ .pending ∧ f ≠ .cancelled := by
      intro st f hf
      cases st <;> simp [outcomeOf] at hf <;> subst hf <;> exact ⟨(fun h => nomatch h), (fun h => nomatch h)⟩
    exact hne _ _ h


/-- the full statement: in every reachable terminated configuration the stepping task ends after finitely many of its
own wake-ups.  Not proved: it needs the invariant linking the coroutine's program counter to the current state object
(`pc = awaitWaiting wf` ⇒ `wf` is the future of the current WAITING state or is completed, `pc = awaitPaused pf` ⇒ `pf`
is the current pause future or is released, the interrupt action is never run twice) across all events. -/
def C02_stepper_returns_full : Prop :=
  ∀ (P : Prog) (nf : Nat) (evs : List Ev), terminal (run P (init nf) evs).st.label = true →
    ∃ n, (ticks P n (run P (init nf) evs)).pc = .done

/-- **step_until_terminated() returns (partial)**: from ANY terminated configuration in which the stepping coroutine has
not crashed and is not blocked on an unreleased future (the pause future it awaits and the current one are released,
the waiting future it awaits is completed), finitely many wake-ups of the stepping task end it normally. -/
theorem C02_stepper_returns_partial (P : Prog) (c : Cfg) (ht : terminal c.st.label = true) (hcr : ∀ e, c.pc ≠ .crashed e)
    (hpz : ∀ pf, c.paused = some pf → c.pfs[pf]? = some true)
    (hap : ∀ pf, c.pc = .awaitPaused pf → c.pfs[pf]? = some true)
    (haw : ∀ wf, c.pc = .awaitWaiting wf → ∃ w, c.wfs[wf]? = some w ∧ w ≠ .pending) :
    ∃ n, (ticks P n c).pc = .done :=
  stepper_returns P c ht hcr hpz hap haw

/-- termination releases a stepping coroutine that is blocked on the pause (repair G): after `on_terminated` the current
pause future is resolved -/
theorem C02_termination_releases_pause (d : Cfg) (pf : Nat) (hp : (onTerminated d).paused = some pf)
    (hv : (d.pfs[pf]?).isSome = true) : (onTerminated d).pfs[pf]? = some true :=
  onTerminated_releases_pause d pf hp hv

/-- leaving the WAITING state (kill, fail, a failing callback) completes its wait, so a step still awaiting it returns
(repair J) -/
theorem C02_leaving_waiting_completes_wait (c : Cfg) (fn wf : Nat) (wk : Option WF) (aw : List (Nat × Nat))
    (hst : c.st = .waiting fn wf wk aw) (hv : (c.wfs[wf]?).isSome = true) :
    ∃ w, (exitState c).wfs[wf]? = some w ∧ w ≠ .pending :=
  exitState_completes_wait c fn wf wk aw hst hv

-- non-vacuity: each terminal state is reached by a concrete history, with kill while paused and kill during a step
section
private def async1 : Prog := fun _ _ _ _ => ⟨1, .ret (.stop (some 3) true)⟩
example : (run async1 (init 0) [.tick, .tick]).st = .finished (some 3) true := by decide +kernel
example : (run async1 (init 0) [.pause, .kill]).st = .killed := by decide +kernel
example : (run async1 (init 0) [.tick, .kill, .tick]).st = .killed := by decide +kernel
example : (run async1 (init 0) [.tick, .fail (.user 2), .tick]).st = .excepted (.user 2) := by decide +kernel
-- kill while paused: the stepping task, blocked on the pause, ends after one wake-up
example : (ticks async1 1 (run async1 (init 0) [.tick, .pause, .tick, .kill])).pc = .done := by decide +kernel
end

/-!
## with control requests issued DURING transitions (listeners, state-event callbacks)

Model: `PMF.L` (lean/PlumpyModel/PM/Listener.lean; see the section of the same name in `Props/C04.lean`).  The exiting / entering
callbacks run exactly where the invariant is temporarily broken (the future is resolved by `on_entering` before the new state object
is assigned); the requests made there are deferred or refused and change nothing the reports of the outcome depend on.
-/
namespace L

/-- **agreement at termination, with listeners**: for every program, every plan of `pause()` / `play()` / `kill()` calls made from
inside notifications and every history of events, in every terminal configuration reached the future holds exactly the outcome of
the state object, the process is closed, the cleanups ran exactly once and listeners received exactly one terminal notification —
also when a listener's `kill()` arrived during the transition into FINISHED (it is not enacted: the process stays FINISHED with its
outputs), or during the enactment of another request. -/
theorem C02_listener_outcome_agrees (P : Prog) (nf : Nat) (plan : Plan) (evs : List Ev)
    (ht : terminal (runL P (initL nf plan) evs).c.st.label = true) :
    let c := (runL P (initL nf plan) evs).c
    outcomeOf c.st = some c.fut ∧ c.closed = true ∧ c.cleanups = 1 ∧ termCount c.notif = 1 := by
  have h := (runL_inv2 P (initL nf plan) evs (inv2_init nf)).term ht
  exact ⟨h.2.2.2, h.1, h.2.1, h.2.2.1⟩

/-- … and nothing is reported while the process is live -/
theorem C02_listener_nothing_reported_while_live (P : Prog) (nf : Nat) (plan : Plan) (evs : List Ev)
    (hl : terminal (runL P (initL nf plan) evs).c.st.label = false) :
    let c := (runL P (initL nf plan) evs).c
    (c.fut = .pending ∨ c.fut = .cancelled) ∧ c.closed = false ∧ c.cleanups = 0 ∧ termCount c.notif = 0 :=
  (runL_inv2 P (initL nf plan) evs (inv2_init nf)).live hl

-- non-vacuity: a kill from the entering phase of the transition into FINISHED; a kill from `on_process_running`
section
private def one : Prog := fun _ _ _ _ => ⟨0, .ret (.stop (some 3) true)⟩
example : (runL one (initL 0 [(.entering, 2, .kill)]) [.tick]).c.st = .finished (some 3) true ∧
    (runL one (initL 0 [(.entering, 2, .kill)]) [.tick]).c.fut = .result := by decide +kernel
example : (runL one (initL 0 [(.running, 1, .kill)]) [.tick]).c.st = .killed ∧
    (runL one (initL 0 [(.running, 1, .kill)]) [.tick]).c.fut = .exc .killedErr ∧
    (runL one (initL 0 [(.running, 1, .kill)]) [.tick]).c.cleanups = 1 := by decide +kernel
end

end L

end PMF
