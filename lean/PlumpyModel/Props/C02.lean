import PlumpyModel.PM.Proof10
import PlumpyModel.PM.LProof13
import PlumpyModel.PM.LProof18
/-!
# C02 — all reports of a terminated process's outcome agree

Model: `PMF`.  `Cfg.fut` is the process future (`pending | result | exc e | cancelled`; `result` stands for "resolved to
the outputs"), `closed` / `cleanups` the close flag and the number of times the registered cleanups ran, `notif` the log
of listener notifications.  `outcomeOf st` is what the future must hold for a terminal state object: FINISHED ↦ result,
KILLED ↦ KilledError, EXCEPTED e ↦ the exception `e` itself.

Proved for every program, every number of awaited futures and every history of events (ticks in any order, pause, play,
kill, resume, fail, call_soon callbacks, cancellation of the future, completion of awaitables).
"step_until_terminated() returns" is proved for every history as well (`C02_stepper_returns`): in every reachable
terminated configuration finitely many wake-ups of the stepping task end it normally.  It rests on the linking invariant
`Inv10` of `PM/Proof10.lean` over all reachable configurations, of which the readable parts are restated here: the
stepping task never crashes (`C02_stepper_never_crashes`), a task blocked on a waiting future will be woken
(`C02_waiting_stepper_is_released`), a task blocked on a pause future holds the current one or a released one, and the
current one is released once the process has terminated (`C02_paused_stepper_is_released`).  The configuration-level
statement `C02_stepper_returns_partial` (any terminated configuration, reachable or not, whose coroutine is not blocked
on an unreleased future) and the two release lemmas (`C02_termination_releases_pause`,
`C02_leaving_waiting_completes_wait`: repairs G and J) are kept.
-/
namespace PMF

/-- **agreement at termination**: in every reachable terminal configuration the future holds exactly the outcome of
the state object (FINISHED: the outputs; EXCEPTED: the original exception; KILLED: KilledError), the process is closed,
the cleanups ran exactly once and listeners received exactly one terminal notification. -/
theorem C02_outcome_agrees (P : Prog) (nf : Nat) (evs : List Ev)
    (ht : terminal (run P (init nf) evs).st.label = true) :
    let c := run P (init nf) evs
    outcomeOf c.st = some c.fut ∧ c.closed = true ∧ c.cleanups = 1 ∧ termCount c.notif = 1 := by
  have h := (run_inv2 P (init nf) evs (inv2_init nf)).term ht
  exact ⟨h.2.2.2, h.1, h.2.1, h.2.2.1⟩

/-- **… conversely, nothing is reported early**: while the process is live its future is unresolved (pending, or
cancelled by the environment — the process itself never resolves it), it is not closed, no cleanup has run and no
terminal notification has been sent. -/
theorem C02_nothing_reported_while_live (P : Prog) (nf : Nat) (evs : List Ev)
    (hl : terminal (run P (init nf) evs).st.label = false) :
    let c := run P (init nf) evs
    (c.fut = .pending ∨ c.fut = .cancelled) ∧ c.closed = false ∧ c.cleanups = 0 ∧ termCount c.notif = 0 :=
  (run_inv2 P (init nf) evs (inv2_init nf)).live hl

/-- the three cases spelled out -/
theorem C02_finished_future (P : Prog) (nf : Nat) (evs : List Ev) (v : Option Val) (ok : Bool)
    (h : (run P (init nf) evs).st = .finished v ok) : (run P (init nf) evs).fut = .result := by
  have := (C02_outcome_agrees P nf evs (by rw [h]; simp [SObj.label, terminal, allowed])).1
  rw [h] at this; simpa [outcomeOf] using this.symm

theorem C02_excepted_future (P : Prog) (nf : Nat) (evs : List Ev) (e : Exc)
    (h : (run P (init nf) evs).st = .excepted e) : (run P (init nf) evs).fut = .exc e := by
  have := (C02_outcome_agrees P nf evs (by rw [h]; simp [SObj.label, terminal, allowed])).1
  rw [h] at this; simpa [outcomeOf] using this.symm

theorem C02_killed_future (P : Prog) (nf : Nat) (evs : List Ev)
    (h : (run P (init nf) evs).st = .killed) : (run P (init nf) evs).fut = .exc .killedErr := by
  have := (C02_outcome_agrees P nf evs (by rw [h]; decide)).1
  rw [h] at this; simpa [outcomeOf] using this.symm

/-- the future of a process is resolved exactly when the process has terminated (cancellation aside) -/
theorem C02_future_resolved_iff_terminated (P : Prog) (nf : Nat) (evs : List Ev) :
    let c := run P (init nf) evs
    (c.fut ≠ .pending ∧ c.fut ≠ .cancelled) ↔ terminal c.st.label = true := by
  intro c
  constructor
  · intro hf
    cases ht : terminal c.st.label with
    | true => rfl
    | false =>
      rcases (C02_nothing_reported_while_live P nf evs ht).1 with h | h
      · exact absurd h hf.1
      · exact absurd h hf.2
  · intro ht
    have h := (C02_outcome_agrees P nf evs ht).1
    have hne : ∀ (st : SObj) (f : PFut), outcomeOf st = some f → f ≠ .pending ∧ f ≠ .cancelled := by
      intro st f hf
      cases st <;> simp [outcomeOf] at hf <;> subst hf <;> exact ⟨(fun h => nomatch h), (fun h => nomatch h)⟩
    exact hne _ _ h


/-- **step_until_terminated() returns**: for every program, every number of awaited futures and every history of events
(ticks of the stepping task and of scheduled callbacks in any order, pause, play, kill, resume, fail, call_soon,
cancellation of the future, completion of awaitables), if the configuration reached is terminated then finitely many
further wake-ups `ticks P n` of the stepping task bring its program counter to `done`: whoever awaits
`step_until_terminated()` is released, and the task ends normally, not by an exception. -/
theorem C02_stepper_returns (P : Prog) (nf : Nat) (evs : List Ev)
    (ht : terminal (run P (init nf) evs).st.label = true) :
    ∃ n, (ticks P n (run P (init nf) evs)).pc = .done :=
  stepper_returns_reachable P nf evs ht

/-- **the stepping task never crashes**: in no reachable configuration (terminated or not) has the coroutine of
`step_until_terminated()` ended with an exception (neither "closed" from a step on a closed process nor the
interrupt action being run a second time). -/
theorem C02_stepper_never_crashes (P : Prog) (nf : Nat) (evs : List Ev) (e : Exc) :
    (run P (init nf) evs).pc ≠ .crashed e :=
  (run_inv10 P (init nf) evs (inv2_init nf) (inv10_init nf)).s.nocrash e

/-- **a stepper awaiting a waiting future will be woken** (the link that repair J maintains): in every reachable
configuration in which the stepping task is suspended on waiting future `wf`, that future exists and either the current
state object is the WAITING state that owns `wf` (so `resume`, an awaitable or leaving the state will complete it) or
`wf` is already completed (result, failure or interruption). -/
theorem C02_waiting_stepper_is_released (P : Prog) (nf : Nat) (evs : List Ev) (wf : Nat)
    (hpc : (run P (init nf) evs).pc = .awaitWaiting wf) :
    let c := run P (init nf) evs
    wf < c.wfs.length ∧ ((∃ fn wk aw, c.st = .waiting fn wf wk aw) ∨ c.wfs[wf]? ≠ some .pending) :=
  (run_inv10 P (init nf) evs (inv2_init nf) (inv10_init nf)).s.aw wf hpc

/-- **a stepper awaiting a pause future will be woken** (the link that repair G maintains): in every reachable
configuration in which the stepping task is suspended on pause future `pf`, that future exists and is the process's
current pause future (so `play` releases it) or is already released; and if the process has terminated, the current
pause future is released, hence so is `pf`. -/
theorem C02_paused_stepper_is_released (P : Prog) (nf : Nat) (evs : List Ev) (pf : Nat)
    (hpc : (run P (init nf) evs).pc = .awaitPaused pf) :
    let c := run P (init nf) evs
    pf < c.pfs.length ∧ (c.paused = some pf ∨ c.pfs[pf]? = some true) ∧
    (terminal c.st.label = true → c.pfs[pf]? = some true ∧ ∀ pf', c.paused = some pf' → c.pfs[pf']? = some true) := by
  intro c
  have h := run_inv10 P (init nf) evs (inv2_init nf) (inv10_init nf)
  obtain ⟨h1, h2⟩ := h.s.ap pf hpc
  refine ⟨h1, h2, fun ht => ⟨?_, h.s.tp pf hpc ht⟩⟩
  rcases h2 with hp | hp
  · exact h.s.tp pf hpc ht pf hp
  · exact hp

/-- **step_until_terminated() returns, configuration-level**: from ANY terminated configuration — reachable or not — in
which the stepping coroutine has not crashed and is not blocked on an unreleased future (the pause future it awaits and
the current one are released, the waiting future it awaits is completed), finitely many wake-ups of the stepping task
end it normally.  (`C02_stepper_returns` discharges these hypotheses for reachable configurations; this statement is
kept because it does not depend on how the configuration was reached.  The name keeps its historical `_partial`.) -/
theorem C02_stepper_returns_partial (P : Prog) (c : Cfg) (ht : terminal c.st.label = true) (hcr : ∀ e, c.pc ≠ .crashed e)
    (hpz : ∀ pf, c.paused = some pf → c.pfs[pf]? = some true)
    (hap : ∀ pf, c.pc = .awaitPaused pf → c.pfs[pf]? = some true)
    (haw : ∀ wf, c.pc = .awaitWaiting wf → ∃ w, c.wfs[wf]? = some w ∧ w ≠ .pending) :
    ∃ n, (ticks P n c).pc = .done :=
  stepper_returns P c ht hcr hpz hap haw

/-- termination releases a stepping coroutine that is blocked on the pause (repair G): after `on_terminated` the current
pause future is resolved -/
theorem C02_termination_releases_pause (d : Cfg) (pf : Nat) (hp : (onTerminated d).paused = some pf)
    (hv : (d.pfs[pf]?).isSome = true) : (onTerminated d).pfs[pf]? = some true :=
  onTerminated_releases_pause d pf hp hv

/-- leaving the WAITING state (kill, fail, a failing callback) completes its wait, so a step still awaiting it returns
(repair J) -/
theorem C02_leaving_waiting_completes_wait (c : Cfg) (fn wf : Nat) (wk : Option WF) (aw : List (Nat × Nat))
    (hst : c.st = .waiting fn wf wk aw) (hv : (c.wfs[wf]?).isSome = true) :
    ∃ w, (exitState c).wfs[wf]? = some w ∧ w ≠ .pending :=
  exitState_completes_wait c fn wf wk aw hst hv

-- non-vacuity: each terminal state is reached by a concrete history, with kill while paused and kill during a step
section
private def async1 : Prog := fun _ _ _ _ => ⟨1, .ret (.stop (some 3) true)⟩
example : (run async1 (init 0) [.tick, .tick]).st = .finished (some 3) true := by decide +kernel
example : (run async1 (init 0) [.pause, .kill]).st = .killed := by decide +kernel
example : (run async1 (init 0) [.tick, .kill, .tick]).st = .killed := by decide +kernel
example : (run async1 (init 0) [.tick, .fail (.user 2), .tick]).st = .excepted (.user 2) := by decide +kernel
-- kill while paused: the stepping task, blocked on the pause, ends after one wake-up
example : (ticks async1 1 (run async1 (init 0) [.tick, .pause, .tick, .kill])).pc = .done := by decide +kernel
-- the hypotheses of `C02_stepper_returns` / `C02_paused_stepper_is_released` hold non-trivially: after kill-while-paused
-- (pause, first wake-up, kill) the process is KILLED while the stepping task is still suspended on pause future 0, released
example : let c := run async1 (init 0) [.pause, .tick, .kill]
    c.st = .killed ∧ c.pc = .awaitPaused 0 ∧ c.paused = some 0 ∧ c.pfs[0]? = some true ∧
    (ticks async1 1 c).pc = .done := by decide +kernel
-- the current pause future of a terminated process can be unreleased only when nobody awaits it: a pause requested
-- during the last step is honoured after the transition to FINISHED; the stepping task has already returned
example : let c := run async1 (init 0) [.tick, .pause, .tick]
    c.st = .finished (some 3) true ∧ c.paused = some 0 ∧ c.pfs[0]? = some false ∧ c.pc = .done := by decide +kernel
-- `C02_waiting_stepper_is_released`: fail() during a waiting step leaves the task suspended on waiting future 0 of a
-- state object that is gone; the future was completed on exit, one wake-up ends the task
private def wait1 : Prog := fun fn _ _ _ => if fn = 0 then ⟨0, .ret (.wait 1)⟩ else ⟨0, .ret (.stop none true)⟩
example : let c := run wait1 (init 0) [.tick, .fail (.user 2)]
    c.st = .excepted (.user 2) ∧ c.pc = .awaitWaiting 0 ∧ c.wfs[0]? = some (.result none) ∧
    (ticks wait1 1 c).pc = .done := by decide +kernel
-- … and while the WAITING state is still current, the task is suspended on the future that state owns
example : let c := run wait1 (init 0) [.tick]
    c.st = .waiting 1 0 none [] ∧ c.pc = .awaitWaiting 0 ∧ c.wfs[0]? = some .pending := by decide +kernel
end

/-!
## with control requests issued DURING transitions (listeners, state-event callbacks)

Model: `PMF.L` (lean/PlumpyModel/PM/Listener.lean; see the section of the same name in `Props/C04.lean`).  The exiting / entering
callbacks run exactly where the invariant is temporarily broken (the future is resolved by `on_entering` before the new state object
is assigned); the requests made there are deferred or refused and change nothing the reports of the outcome depend on.
"step_until_terminated() returns" holds with listeners as well (`C02_listener_stepper_returns` and the readable parts of the
lifted linking invariant, `PM/LProof16..18.lean`), and the `while` loop of the closing part of a step ends by itself
(`C02_listener_closing_loop_ends`).
-/
namespace L

/-- **agreement at termination, with listeners**: for every program, every plan of `pause()` / `play()` / `kill()` calls made from
inside notifications and every history of events, in every terminal configuration reached the future holds exactly the outcome of
the state object, the process is closed, the cleanups ran exactly once and listeners received exactly one terminal notification —
also when a listener's `kill()` arrived during the transition into FINISHED (it is not enacted: the process stays FINISHED with its
outputs), or during the enactment of another request. -/
theorem C02_listener_outcome_agrees (P : Prog) (nf : Nat) (plan : Plan) (evs : List Ev)
    (ht : terminal (runL P (initL nf plan) evs).c.st.label = true) :
    let c := (runL P (initL nf plan) evs).c
    outcomeOf c.st = some c.fut ∧ c.closed = true ∧ c.cleanups = 1 ∧ termCount c.notif = 1 := by
  have h := (runL_inv2 P (initL nf plan) evs (inv2_init nf)).term ht
  exact ⟨h.2.2.2, h.1, h.2.1, h.2.2.1⟩

/-- … and nothing is reported while the process is live -/
theorem C02_listener_nothing_reported_while_live (P : Prog) (nf : Nat) (plan : Plan) (evs : List Ev)
    (hl : terminal (runL P (initL nf plan) evs).c.st.label = false) :
    let c := (runL P (initL nf plan) evs).c
    (c.fut = .pending ∨ c.fut = .cancelled) ∧ c.closed = false ∧ c.cleanups = 0 ∧ termCount c.notif = 0 :=
  (runL_inv2 P (initL nf plan) evs (inv2_init nf)).live hl

/-- **step_until_terminated() returns, with listeners**: for every program, every plan of `pause()` / `play()` / `kill()` calls
made from inside notifications (listeners, state-event callbacks; during transitions, during the enactment of other requests,
during or between steps) and every history of events, if the configuration reached is terminated then finitely many further
wake-ups of the stepping task (`ticksL P n`) bring its program counter to `done`: whoever awaits `step_until_terminated()` is
released, and the task ends normally, not by an exception.  (The linking invariant `Inv10` of `PM/Proof10.lean` lifted to the
model with listeners: `PM/LProof16–18.lean`, `runL_inv10L`.) -/
theorem C02_listener_stepper_returns (P : Prog) (nf : Nat) (plan : Plan) (evs : List Ev)
    (ht : terminal (runL P (initL nf plan) evs).c.st.label = true) :
    ∃ n, (ticksL P n (runL P (initL nf plan) evs)).c.pc = .done :=
  stepperL_returns P nf plan evs ht

/-- **the stepping task never crashes, with listeners**: in no configuration reached by `runL` (any plan, terminated or not) has
the coroutine of `step_until_terminated()` ended with an exception — neither a step on a closed process nor an interrupt action
run a second time (F22 was exactly that: a `kill()` from a listener during the transition performed by a pause action). -/
theorem C02_listener_stepper_never_crashes (P : Prog) (nf : Nat) (plan : Plan) (evs : List Ev) (e : Exc) :
    (runL P (initL nf plan) evs).c.pc ≠ .crashed e :=
  (runL_inv10L P (initL nf plan) evs (inv10L_init nf plan)).s.nocrash e

/-- **a stepper awaiting a waiting future will be woken, with listeners**: the future exists and the current state object is the
WAITING state that owns it, or it is already completed — also when the state was left by a `kill()` a listener issued. -/
theorem C02_listener_waiting_stepper_is_released (P : Prog) (nf : Nat) (plan : Plan) (evs : List Ev) (wf : Nat)
    (hpc : (runL P (initL nf plan) evs).c.pc = .awaitWaiting wf) :
    let c := (runL P (initL nf plan) evs).c
    wf < c.wfs.length ∧ ((∃ fn wk aw, c.st = .waiting fn wf wk aw) ∨ c.wfs[wf]? ≠ some .pending) :=
  (runL_inv10L P (initL nf plan) evs (inv10L_init nf plan)).s.aw wf hpc

/-- **a stepper awaiting a pause future will be woken, with listeners**: the future exists and is the process's current pause
future or is released — whatever sequence of `pause()` / `play()` listeners of `on_process_paused` / `on_process_played` issued —
and if the process has terminated, the current pause future is released. -/
theorem C02_listener_paused_stepper_is_released (P : Prog) (nf : Nat) (plan : Plan) (evs : List Ev) (pf : Nat)
    (hpc : (runL P (initL nf plan) evs).c.pc = .awaitPaused pf) :
    let c := (runL P (initL nf plan) evs).c
    pf < c.pfs.length ∧ (c.paused = some pf ∨ c.pfs[pf]? = some true) ∧
    (terminal c.st.label = true → c.pfs[pf]? = some true ∧ ∀ pf', c.paused = some pf' → c.pfs[pf']? = some true) := by
  intro c
  have h := runL_inv10L P (initL nf plan) evs (inv10L_init nf plan)
  obtain ⟨h1, h2⟩ := h.s.ap pf hpc
  refine ⟨h1, h2, fun ht => ⟨?_, h.s.tp pf hpc ht⟩⟩
  rcases h2 with hp | hp
  · exact h.s.tp pf hpc ht pf hp
  · exact hp

/-- **the closing part of a step returns**: the `while` loop of `Process.step()` (enact what a listener requested while the
previous request was being enacted) is never stopped by the model's bound: with ANY number of iterations above the number of
plan entries left it computes what it computes with `plan.length + 1` (the bound `dispatchL` uses), and it stops because nothing
is left to enact (`Quiet`: the slot is empty, or its action done, or the process terminated) — every iteration that leaves a
pending request behind has used up a plan entry. -/
theorem C02_listener_closing_loop_ends (n : Nat) (l : LCfg) (m : Nat) (hm : l.plan.length < m) :
    enactLoop (fireN n) m l = enactLoop (fireN n) (l.plan.length + 1) l ∧ Quiet (enactLoop (fireN n) m l) :=
  ⟨enactLoop_fuel (fireN_adv n) l m hm, enactLoop_quiet (fireN_adv n) m l hm⟩

-- non-vacuity: a kill from the entering phase of the transition into FINISHED; a kill from `on_process_running`
section
private def one : Prog := fun _ _ _ _ => ⟨0, .ret (.stop (some 3) true)⟩
example : (runL one (initL 0 [(.entering, 2, .kill)]) [.tick]).c.st = .finished (some 3) true ∧
    (runL one (initL 0 [(.entering, 2, .kill)]) [.tick]).c.fut = .result := by decide +kernel
example : (runL one (initL 0 [(.running, 1, .kill)]) [.tick]).c.st = .killed ∧
    (runL one (initL 0 [(.running, 1, .kill)]) [.tick]).c.fut = .exc .killedErr ∧
    (runL one (initL 0 [(.running, 1, .kill)]) [.tick]).c.cleanups = 1 := by decide +kernel
-- `C02_listener_stepper_returns` / `…_paused_stepper_is_released`, hypotheses satisfied non-trivially: the process is paused
-- between steps, the stepping task blocks on pause future 0; `play()` notifies `on_process_played`, whose listener kills: the
-- process is KILLED while the task is still suspended on pause future 0 (released); one wake-up ends it
private def async1' : Prog := fun _ _ _ _ => ⟨1, .ret (.stop (some 3) true)⟩
example : let l := runL async1' (initL 0 [(.played, 1, .kill)]) [.pause, .tick, .play]
    l.c.st = .killed ∧ l.c.pc = .awaitPaused 0 ∧ l.c.pfs[0]? = some true ∧ (ticksL async1' 1 l).c.pc = .done := by decide +kernel
-- a listener of `on_process_paused` plays, the listener of `on_process_played` pauses again and a third one kills, all inside
-- the enactment of a pause requested during a step: three iterations of the `while` loop, the step ends KILLED, the task is done
private def async2 : Prog := fun fn _ _ _ => if fn = 0 then ⟨1, .ret (.cont 1 [] [])⟩ else ⟨1, .ret (.stop (some 3) true)⟩
example : let l := runL async2 (initL 0 [(.paused, 1, .play), (.played, 1, .pause), (.paused, 2, .kill)]) [.tick, .pause, .tick]
    l.c.st = .killed ∧ l.c.pc = .done ∧ l.c.interrupt = none ∧ l.plan = [] ∧
    l.c.notif = [.killed, .paused, .played, .paused, .running, .running] ∧ l.c.paused = some 1 ∧ l.c.pfs[1]? = some true := by
  decide +kernel
end

end L

end PMF
