import PlumpyModel.PM.Proof6
/-!
# C02 — all reports of a terminated process's outcome agree

Model: `PMF`.  `Cfg.fut` is the process future (`pending | result | exc e | cancelled`; `result` stands for "resolved to
the outputs"), `closed` / `cleanups` the close flag and the number of times the registered cleanups ran, `notif` the log
of listener notifications.  `outcomeOf st` is what the future must hold for a terminal state object: FINISHED ↦ result,
KILLED ↦ KilledError, EXCEPTED e ↦ the exception `e` itself.

Proved for every program, every number of awaited futures and every history of events (ticks in any order, pause, play,
kill, resume, fail, call_soon callbacks, cancellation of the future, completion of awaitables).
Not yet proved as a theorem (decided by the correspondence check and the Python monitor on every explored schedule):
"step_until_terminated() returns" (the stepping task is done once the process terminated).
-/
namespace PMF

/-- **agreement at termination**: in every reachable terminal configuration the future holds exactly the outcome of
the state object (FINISHED: the outputs; EXCEPTED: the original exception; KILLED: KilledError), the process is closed,
the cleanups ran exactly once and listeners received exactly one terminal notification. -/
theorem C02_outcome_agrees (P : Prog) (nf : Nat) (evs : List Ev)
    (ht : terminal (run P (init nf) evs).st.label = true) :
    let c := run P (init nf) evs
    outcomeOf c.st = some c.fut ∧ c.closed = true ∧ c.cleanups = 1 ∧ termCount c.notif = 1 := by
  have h := (run_inv2 P (init nf) evs (inv2_init nf)).term ht
  exact ⟨h.2.2.2, h.1, h.2.1, h.2.2.1⟩

/-- **… conversely, nothing is reported early**: while the process is live its future is unresolved (pending, or
cancelled by the environment — the process itself never resolves it), it is not closed, no cleanup has run and no
terminal notification has been sent. -/
theorem C02_nothing_reported_while_live (P : Prog) (nf : Nat) (evs : List Ev)
    (hl : terminal (run P (init nf) evs).st.label = false) :
    let c := run P (init nf) evs
    (c.fut = .pending ∨ c.fut = .cancelled) ∧ c.closed = false ∧ c.cleanups = 0 ∧ termCount c.notif = 0 :=
  (run_inv2 P (init nf) evs (inv2_init nf)).live hl

/-- the three cases spelled out -/
theorem C02_finished_future (P : Prog) (nf : Nat) (evs : List Ev) (v : Option Val) (ok : Bool)
    (h : (run P (init nf) evs).st = .finished v ok) : (run P (init nf) evs).fut = .result := by
  have := (C02_outcome_agrees P nf evs (by rw [h]; simp [SObj.label, terminal, allowed])).1
  rw [h] at this; simpa [outcomeOf] using this.symm

theorem C02_excepted_future (P : Prog) (nf : Nat) (evs : List Ev) (e : Exc)
    (h : (run P (init nf) evs).st = .excepted e) : (run P (init nf) evs).fut = .exc e := by
  have := (C02_outcome_agrees P nf evs (by rw [h]; simp [SObj.label, terminal, allowed])).1
  rw [h] at this; simpa [outcomeOf] using this.symm

theorem C02_killed_future (P : Prog) (nf : Nat) (evs : List Ev)
    (h : (run P (init nf) evs).st = .killed) : (run P (init nf) evs).fut = .exc .killedErr := by
  have := (C02_outcome_agrees P nf evs (by rw [h]; decide)).1
  rw [h] at this; simpa [outcomeOf] using this.symm

/-- the future of a process is resolved exactly when the process has terminated (cancellation aside) -/
theorem C02_future_resolved_iff_terminated (P : Prog) (nf : Nat) (evs : List Ev) :
    let c := run P (init nf) evs
    (c.fut ≠ .pending ∧ c.fut ≠ .cancelled) ↔ terminal c.st.label = true := by
  intro c
  constructor
  · intro hf
    cases ht : terminal c.st.label with
    | true => rfl
    | false =>
      rcases (C02_nothing_reported_while_live P nf evs ht).1 with h | h
      · exact absurd h hf.1
      · exact absurd h hf.2
  · intro ht
    have h := (C02_outcome_agrees P nf evs ht).1
    have hne : ∀ (st : SObj) (f : PFut), outcomeOf st = some f → f ≠ .pending ∧ f ≠ .cancelled := by
      intro st f hf
      cases st <;> simp [outcomeOf] at hf <;> subst hf <;> exact ⟨(fun h => nomatch h), (fun h => nomatch h)⟩
    exact hne _ _ h

-- non-vacuity: each terminal state is reached by a concrete history, with kill while paused and kill during a step
section
private def async1 : Prog := fun _ _ _ _ => ⟨1, .ret (.stop (some 3) true)⟩
example : (run async1 (init 0) [.tick, .tick]).st = .finished (some 3) true := by decide +kernel
example : (run async1 (init 0) [.pause, .kill]).st = .killed := by decide +kernel
example : (run async1 (init 0) [.tick, .kill, .tick]).st = .killed := by decide +kernel
example : (run async1 (init 0) [.tick, .fail (.user 2), .tick]).st = .excepted (.user 2) := by decide +kernel
end

end PMF
