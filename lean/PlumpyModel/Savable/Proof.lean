import PlumpyModel.Savable.Model
/-! Helper lemmas for C19: class families (ownership of `_auto_persist` sets) and the save/load round trip. -/
namespace Sav

/-! ## Induction over values (nested through attribute lists) -/

theorem Val.ind {P : Val → Prop}
    (plain : ∀ p, P (.plain p)) (method : ∀ o n, P (.method o n))
    (obj : ∀ c a, (∀ n v, (n, v) ∈ a → P v) → P (.obj c a))
    (futPending : P .futPending) (futResult : ∀ v, P v → P (.futResult v)) (futExc : ∀ e, P (.futExc e))
    (futCancelled : P .futCancelled) (raw : ∀ s, P (.raw s)) : ∀ v, P v
  | .plain p => plain p
  | .method o n => method o n
  | .obj c a => obj c a (fun _ v _hm =>
      Val.ind plain method obj futPending futResult futExc futCancelled raw v)
  | .futPending => futPending
  | .futResult v => futResult v (Val.ind plain method obj futPending futResult futExc futCancelled raw v)
  | .futExc e => futExc e
  | .futCancelled => futCancelled
  | .raw s => raw s
termination_by v => sizeOf v
decreasing_by
  all_goals simp_wf
  · have := List.sizeOf_lt_of_mem _hm; simp at this; omega

/-! ## lookup -/

@[simp] theorem lookup_nil {α} (k : Name) : lookup k ([] : List (Name × α)) = none := rfl
theorem lookup_cons {α} (k k' : Name) (v : α) (r : List (Name × α)) :
    lookup k ((k', v) :: r) = if k' = k then some v else lookup k r := rfl

theorem lookup_mem {α} {k : Name} {v : α} {l : List (Name × α)} (h : lookup k l = some v) : (k, v) ∈ l := by
  induction l with
  | nil => simp at h
  | cons x r ih =>
    obtain ⟨k', v'⟩ := x
    rw [lookup_cons] at h
    by_cases hk : k' = k
    · simp [hk] at h; subst hk; subst h; simp
    · simp [hk] at h; exact List.mem_cons_of_mem _ (ih h)

/-! ## Class families -/

theorem lookupOwn_set_lt (own : List (Option Nat)) (c p : Nat) (x : Option Nat) (h : p < c) :
    lookupOwn (own.set c x) p = lookupOwn own p := by
  induction p with
  | zero => simp only [lookupOwn]; rw [List.getElem?_set_ne (by omega)]
  | succ p ih =>
    simp only [lookupOwn]
    rw [List.getElem?_set_ne (by omega), ih (by omega)]

theorem lookupOwn_set_self (own : List (Option Nat)) (c r : Nat) (h : c < own.length) :
    lookupOwn (own.set c (some r)) c = some r := by
  cases c with
  | zero => simp [lookupOwn, List.getElem?_set_self h]
  | succ c => simp [lookupOwn, List.getElem?_set_self h]

/-- the set object that `cls._auto_persist` evaluates to is the own attribute of the class or of an ancestor -/
theorem lookupOwn_owner {own : List (Option Nat)} {c r : Nat} (h : lookupOwn own c = some r) :
    ∃ c', c' ≤ c ∧ own[c']? = some (some r) := by
  induction c with
  | zero =>
    simp only [lookupOwn] at h
    refine ⟨0, Nat.le_refl _, ?_⟩
    cases h0 : own[0]? with
    | none => simp [h0] at h
    | some x => cases x <;> simp_all
  | succ c ih =>
    simp only [lookupOwn] at h
    cases h0 : own[c + 1]? with
    | none =>
      simp [h0] at h
      obtain ⟨c', h1, h2⟩ := ih h
      exact ⟨c', by omega, h2⟩
    | some x =>
      cases x with
      | none =>
        simp [h0] at h
        obtain ⟨c', h1, h2⟩ := ih h
        exact ⟨c', by omega, h2⟩
      | some r' =>
        simp [h0] at h
        subst h
        exact ⟨c + 1, Nat.le_refl _, h0⟩

/-- a class without an own attribute sees exactly what its base sees -/
theorem lookupOwn_inherit {own : List (Option Nat)} {c : Nat} (h : (own[c + 1]?).join = none) :
    lookupOwn own (c + 1) = lookupOwn own c := by
  simp only [lookupOwn, h]

/-- Ownership invariant: every own attribute points into the heap, and no set object is the own attribute of two
classes (every own attribute is created by allocating a fresh set). -/
structure Fam.WF (F : Fam) : Prop where
  bound : ∀ (c r : Nat), F.own[c]? = some (some r) → r < F.sets.length
  inj : ∀ (c c' r : Nat), F.own[c]? = some (some r) → F.own[c']? = some (some r) → c = c'

theorem Fam.WF.ref_bound {F : Fam} (h : F.WF) {c r : Nat} (hr : F.ref c = some r) : r < F.sets.length := by
  obtain ⟨c', _, h2⟩ := lookupOwn_owner hr
  exact h.bound c' r h2

theorem Fam.fresh_wf (n : Nat) : (Fam.fresh n).WF := by
  constructor
  · intro c r h
    simp only [Fam.fresh, List.getElem?_replicate] at h
    split at h <;> simp at h
  · intro c c' r h
    simp only [Fam.fresh, List.getElem?_replicate] at h
    split at h <;> simp at h

/-- allocating a fresh set for class `c` keeps the invariant -/
theorem Fam.WF.alloc {F : Fam} (h : F.WF) (c : Nat) (s : List Name) :
    Fam.WF { own := F.own.set c (some F.sets.length), sets := F.sets ++ [s] } := by
  constructor
  · intro c' r h'
    simp only [List.length_append, List.length_cons, List.length_nil] at *
    rw [List.getElem?_set] at h'
    split at h'
    · split at h'
      · simp at h'; omega
      · simp at h'
    · have := h.bound c' r h'; omega
  · intro c1 c2 r h1 h2
    simp only [List.getElem?_set] at h1 h2
    split at h1 <;> split at h2
    · omega
    · split at h1
      · simp at h1; subst h1
        have := h.bound c2 _ h2; omega
      · simp at h1
    · split at h2
      · simp at h2; subst h2
        have := h.bound c1 _ h1; omega
      · simp at h2
    · exact h.inj c1 c2 r h1 h2

theorem Fam.WF.modify {F : Fam} (h : F.WF) (r : Nat) (f : List Name → List Name) :
    Fam.WF { F with sets := F.sets.modify r f } := by
  constructor
  · intro c r' h'
    simp only [List.length_modify]
    exact h.bound c r' h'
  · exact h.inj

theorem Fam.WF.classmethod {F : Fam} (h : F.WF) (c : Nat) (ms : List Name) : (F.classmethod c ms).WF := by
  unfold Fam.classmethod
  split
  · exact h.alloc c _
  · exact h.modify _ _

theorem Fam.WF.decorate {F : Fam} (h : F.WF) (c : Nat) (ms : List Name) : (F.decorate c ms).WF := by
  unfold Fam.decorate
  exact (h.alloc c _).classmethod c ms

theorem Fam.WF.apply {F : Fam} (h : F.WF) (d : Decl) : (F.apply d).WF := by
  unfold Fam.apply
  cases d.kind
  · exact h.decorate _ _
  · exact h.classmethod _ _

theorem Fam.build_wf (n : Nat) (ds : List Decl) : (Fam.build n ds).WF := by
  unfold Fam.build
  have h0 : ∀ F0 : Fam, F0.WF → (ds.foldl Fam.apply F0).WF := by
    induction ds with
    | nil => intro F0 h; exact h
    | cons d ds ih => intro F0 h; exact ih _ (h.apply d)
  exact h0 _ (Fam.fresh_wf n)

/-- the classes in range: the operations never change how many classes there are -/
theorem Fam.classmethod_len (F : Fam) (c : Nat) (ms : List Name) : (F.classmethod c ms).own.length = F.own.length := by
  unfold Fam.classmethod; split <;> simp

theorem Fam.decorate_len (F : Fam) (c : Nat) (ms : List Name) : (F.decorate c ms).own.length = F.own.length := by
  unfold Fam.decorate; rw [Fam.classmethod_len]; simp

/-- **the classmethod, when a set is found along the MRO**: only that one set object changes -/
theorem Fam.classmethod_sets_of_ref {F : Fam} {c r : Nat} (ms : List Name) (hr : F.ref c = some r) :
    (F.classmethod c ms).own = F.own ∧ (F.classmethod c ms).sets = F.sets.modify r (insertAll · ms) := by
  unfold Fam.classmethod; simp [hr]

theorem Fam.classmethod_of_none {F : Fam} {c : Nat} (ms : List Name) (hr : F.ref c = none) :
    F.classmethod c ms = { own := F.own.set c (some F.sets.length), sets := F.sets ++ [insertAll [] ms] } := by
  unfold Fam.classmethod; simp [hr]

/-- after allocation of a fresh own set for `c`, every proper ancestor evaluates `_auto_persist` as before -/
theorem Fam.eff_alloc_lt {F : Fam} (h : F.WF) (c p : Nat) (s : List Name) (hp : p < c) :
    Fam.eff { own := F.own.set c (some F.sets.length), sets := F.sets ++ [s] } p = F.eff p := by
  unfold Fam.eff Fam.ref
  simp only [lookupOwn_set_lt _ _ _ _ hp]
  cases hr : lookupOwn F.own p with
  | none => rfl
  | some r =>
    have : r < F.sets.length := h.ref_bound hr
    simp [List.getElem?_append_left this]

theorem lookupOwn_of_own {own : List (Option Nat)} {c r : Nat} (h : own[c]? = some (some r)) : lookupOwn own c = some r := by
  cases c with
  | zero => simp [lookupOwn, h]
  | succ c => simp [lookupOwn, h]

/-- the classmethod when `cls._auto_persist` evaluates to the set object `r`: a class whose `_auto_persist`
evaluates to `rp` sees the new members iff `rp` is that very object -/
theorem Fam.eff_classmethod_of_ref {F : Fam} {c r p rp : Nat} (ms : List Name) (hr : F.ref c = some r)
    (hp : F.ref p = some rp) :
    (F.classmethod c ms).eff p = if r = rp then (F.eff p).map (insertAll · ms) else F.eff p := by
  obtain ⟨h1, h2⟩ := Fam.classmethod_sets_of_ref ms hr
  have hp' : (F.classmethod c ms).ref p = some rp := by unfold Fam.ref at *; rw [h1]; exact hp
  unfold Fam.eff
  rw [hp', hp]
  simp only [h2, List.getElem?_modify]
  by_cases hrr : r = rp
  · simp [hrr]
  · simp only [hrr, if_false]
    cases F.sets[rp]? <;> simp

theorem Fam.eff_classmethod_ref_none {F : Fam} {c r p : Nat} (ms : List Name) (hr : F.ref c = some r)
    (hp : F.ref p = none) : (F.classmethod c ms).eff p = F.eff p := by
  obtain ⟨h1, _⟩ := Fam.classmethod_sets_of_ref ms hr
  have hp' : (F.classmethod c ms).ref p = none := by unfold Fam.ref at *; rw [h1]; exact hp
  unfold Fam.eff
  rw [hp', hp]

/-- **classmethod on a class that has its own set**: no proper ancestor is affected -/
theorem Fam.eff_classmethod_own_lt {F : Fam} (h : F.WF) {c r p : Nat} (ms : List Name)
    (hown : F.own[c]? = some (some r)) (hp : p < c) : (F.classmethod c ms).eff p = F.eff p := by
  have hr : F.ref c = some r := lookupOwn_of_own hown
  cases hrp : F.ref p with
  | none => exact Fam.eff_classmethod_ref_none ms hr hrp
  | some rp =>
    rw [Fam.eff_classmethod_of_ref ms hr hrp]
    obtain ⟨c', hle, hc'⟩ := lookupOwn_owner hrp
    have hne : r ≠ rp := by
      intro heq
      subst heq
      have := h.inj c c' r hown hc'
      omega
    simp [hne]

/-- **classmethod on a class for which `_auto_persist` is still `None`** (no ancestor declared anything): a fresh set -/
theorem Fam.eff_classmethod_none_lt {F : Fam} (h : F.WF) {c p : Nat} (ms : List Name)
    (hnone : F.ref c = none) (hp : p < c) : (F.classmethod c ms).eff p = F.eff p := by
  rw [Fam.classmethod_of_none ms hnone]
  exact Fam.eff_alloc_lt h c p _ hp

/-- **the decorator**: a fresh copy is made first, so no proper ancestor is affected -/
theorem Fam.eff_decorate_lt {F : Fam} (h : F.WF) {c p : Nat} (ms : List Name)
    (hc : c < F.own.length) (hp : p < c) : (F.decorate c ms).eff p = F.eff p := by
  unfold Fam.decorate
  have hwf := h.alloc c ((F.eff c).getD [])
  have hown : (F.own.set c (some F.sets.length))[c]? = some (some F.sets.length) := List.getElem?_set_self hc
  rw [Fam.eff_classmethod_own_lt hwf ms hown hp]
  exact Fam.eff_alloc_lt h c p _ hp

/-- the decorator never mutates an existing set object (so classes that already hold a copy keep it) -/
theorem Fam.sets_decorate {F : Fam} {c : Nat} (ms : List Name) (hc : c < F.own.length) (r : Nat)
    (hr : r < F.sets.length) : (F.decorate c ms).sets[r]? = F.sets[r]? := by
  unfold Fam.decorate
  have hown : (F.own.set c (some F.sets.length))[c]? = some (some F.sets.length) := List.getElem?_set_self hc
  have href : Fam.ref { own := F.own.set c (some F.sets.length), sets := F.sets ++ [(F.eff c).getD []] } c
      = some F.sets.length := lookupOwn_of_own hown
  rw [(Fam.classmethod_sets_of_ref ms href).2]
  simp only [List.getElem?_modify]
  have : F.sets.length ≠ r := by omega
  simp [this, List.getElem?_append_left hr]

/-- what the decorated class itself ends up with: a copy of what it saw before, plus the new members -/
theorem Fam.eff_decorate_self {F : Fam} {c : Nat} (ms : List Name) (hc : c < F.own.length) :
    (F.decorate c ms).eff c = some (insertAll ((F.eff c).getD []) ms) := by
  unfold Fam.decorate
  have hown : (F.own.set c (some F.sets.length))[c]? = some (some F.sets.length) := List.getElem?_set_self hc
  have href : Fam.ref { own := F.own.set c (some F.sets.length), sets := F.sets ++ [(F.eff c).getD []] } c
      = some F.sets.length := lookupOwn_of_own hown
  rw [Fam.eff_classmethod_of_ref ms href href]
  generalize (F.eff c).getD [] = cur at href ⊢
  unfold Fam.eff
  rw [href]
  simp

/-! ## The round trip: specification devices -/

/-- keep the entries of `l` named by `ms`, in the order of `ms` -/
def select (ms : List Name) (l : List (Name × Val)) : List (Name × Val) :=
  match ms with
  | [] => []
  | m :: ms =>
    match lookup m l with
    | some v => (m, v) :: select ms l
    | none => select ms l

mutual
/-- What a round trip is expected to give back: the object restricted, hereditarily, to the declared members of its
class (undeclared attributes are not persisted); everything else unchanged. -/
def proj (W : World) : Val → Val
  | .obj c attrs =>
    match W.fam.eff c with
    | none => .obj c []
    | some ms => .obj c (select ms (projAttrs W attrs))
  | .futResult v => .futResult (proj W v)
  | .plain p => .plain p
  | .method o n => .method o n
  | .futPending => .futPending
  | .futExc e => .futExc e
  | .futCancelled => .futCancelled
  | .raw s => .raw s
def projAttrs (W : World) : List (Name × Val) → List (Name × Val)
  | [] => []
  | (n, v) :: r => (n, proj W v) :: projAttrs W r
end

mutual
/-- Well-formed input of the round-trip theorem, relative to the methods `meths` of the object holding the value:
every declared member is present (hereditarily); methods are bound to their holder and defined on its class; every
class involved is in the domain `dom` on which the loaders agree.  Undeclared attributes are unconstrained. -/
def wfVal (W : World) (dom : PyObj → Bool) (meths : List Name) : Val → Bool
  | .plain _ => true
  | .method own n => own && meths.contains n
  | .obj c attrs =>
    dom (.cls c) &&
    (match W.fam.eff c with
     | none => true
     | some ms => ms.all (fun m => lookup m (wfAttrs W dom (W.methods c) attrs) == some true))
  | .futPending => dom .future
  | .futExc _ => dom .future
  | .futCancelled => dom .future
  | .futResult v => dom .future && wfVal W dom [] v
  | .raw _ => false
def wfAttrs (W : World) (dom : PyObj → Bool) (meths : List Name) : List (Name × Val) → List (Name × Bool)
  | [] => []
  | (n, v) :: r => (n, wfVal W dom meths v) :: wfAttrs W dom meths r
end

def isSavable : Val → Bool
  | .obj _ _ | .futPending | .futResult _ | .futExc _ | .futCancelled => true
  | _ => false

/-- loader `A` names every object of `dom` by an identifier that loader `B` resolves to that same object -/
def RoundTrips (A B : Loader) (dom : PyObj → Bool) : Prop :=
  ∀ x, dom x = true → ∃ id, A.identify x = .ok id ∧ B.load id = some x

/-! ## lookup through the per-attribute maps -/

theorem lookup_saveAttrs (W : World) (ctx : Ctx) (m : Name) (attrs : List (Name × Val)) :
    lookup m (saveAttrs W ctx attrs) = (lookup m attrs).map (fun v => memberOut v (save W ctx v)) := by
  induction attrs with
  | nil => simp [saveAttrs]
  | cons x r ih =>
    obtain ⟨n, v⟩ := x
    simp only [saveAttrs, lookup_cons]
    split <;> simp [ih]

theorem lookup_projAttrs (W : World) (m : Name) (attrs : List (Name × Val)) :
    lookup m (projAttrs W attrs) = (lookup m attrs).map (proj W) := by
  induction attrs with
  | nil => simp [projAttrs]
  | cons x r ih =>
    obtain ⟨n, v⟩ := x
    simp only [projAttrs, lookup_cons]
    split <;> simp [ih]

theorem lookup_wfAttrs (W : World) (dom : PyObj → Bool) (meths : List Name) (m : Name) (attrs : List (Name × Val)) :
    lookup m (wfAttrs W dom meths attrs) = (lookup m attrs).map (wfVal W dom meths) := by
  induction attrs with
  | nil => simp [wfAttrs]
  | cons x r ih =>
    obtain ⟨n, v⟩ := x
    simp only [wfAttrs, lookup_cons]
    split <;> simp [ih]

theorem lookup_loadEntries (W : World) (L : Loader) (m : Name) (es : List (Name × SVal)) :
    lookup m (loadEntries W L es) = (lookup m es).map (loadWith W L) := by
  induction es with
  | nil => simp [loadEntries]
  | cons x r ih =>
    obtain ⟨n, v⟩ := x
    simp only [loadEntries, lookup_cons]
    split <;> simp [ih]

theorem saveMembers_ok (sa : List (Name × Saved)) (f : Name → Option Tag × SVal) :
    ∀ ms : List Name, (∀ m ∈ ms, lookup m sa = some (.ok (f m))) →
      saveMembers ms sa = .ok (ms.map fun m => (m, f m)) := by
  intro ms
  induction ms with
  | nil => intro _; rfl
  | cons m ms ih =>
    intro h
    have h1 := h m (by simp)
    have h2 := ih (fun m' hm' => h m' (by simp [hm']))
    simp [saveMembers, h1, h2]

theorem lookup_typesOf_map (f : Name → Option Tag × SVal) (m : Name) :
    ∀ ms : List Name, lookup m (typesOf (ms.map fun m => (m, f m))) = if m ∈ ms then (f m).1 else none := by
  intro ms
  induction ms with
  | nil => simp [typesOf]
  | cons a ms ih =>
    simp only [List.map_cons]
    cases hfa : f a with
    | mk t sv =>
      cases t with
      | none =>
        simp only [typesOf, ih]
        by_cases ham : a = m
        · subst ham; simp [hfa]
        · have : m ≠ a := fun h => ham h.symm
          simp [this]
      | some t =>
        simp only [typesOf, lookup_cons, ih]
        by_cases ham : a = m
        · subst ham; simp [hfa]
        · have : m ≠ a := fun h => ham h.symm
          simp [ham, this]

theorem lookup_entriesOf_map (f : Name → Option Tag × SVal) (m : Name) :
    ∀ ms : List Name, lookup m (entriesOf (ms.map fun m => (m, f m))) = if m ∈ ms then some (f m).2 else none := by
  intro ms
  induction ms with
  | nil => simp [entriesOf]
  | cons a ms ih =>
    simp only [List.map_cons, entriesOf, lookup_cons, ih]
    by_cases ham : a = m
    · subst ham; simp
    · have : m ≠ a := fun h => ham h.symm
      simp [ham, this]

theorem loadMembers_ok (methods : List Name) (types : List (Name × Tag)) (entries : List (Name × SVal))
    (loaded : List (Name × Except Err Val)) (g : Name → Val) :
    ∀ ms : List Name, (∀ m ∈ ms, getValue methods types entries loaded m = .ok (g m)) →
      loadMembers methods types entries loaded ms = .ok (ms.map fun m => (m, g m)) := by
  intro ms
  induction ms with
  | nil => intro _; rfl
  | cons m ms ih =>
    intro h
    have h1 := h m (by simp)
    have h2 := ih (fun m' hm' => h m' (by simp [hm']))
    simp [loadMembers, h1, h2]

theorem select_eq_map (l : List (Name × Val)) (g : Name → Val) :
    ∀ ms : List Name, (∀ m ∈ ms, lookup m l = some (g m)) → select ms l = ms.map fun m => (m, g m) := by
  intro ms
  induction ms with
  | nil => intro _; rfl
  | cons m ms ih =>
    intro h
    have h1 := h m (by simp)
    have h2 := ih (fun m' hm' => h m' (by simp [hm']))
    simp [select, h1, h2]

/-! ## The round trip: core induction -/

/-- the value `v`, held as a member by an object with methods `meths`, is written by `save_members` and read back by
`_get_value` as `proj v`, wherever it sits in the saved state -/
def MemberOK (W : World) (ctx : Ctx) (L : Loader) (meths : List Name) (v : Val) : Prop :=
  ∃ x, memberOut v (save W ctx v) = .ok x ∧
    ∀ (n : Name) (types : List (Name × Tag)) (entries : List (Name × SVal)) (loaded : List (Name × Except Err Val)),
      lookup n entries = some x.2 → lookup n types = x.1 → lookup n loaded = some (loadWith W L x.2) →
      getValue meths types entries loaded n = .ok (proj W v)

/-- the Savable `v` is saved (recording `rec`) and `load` with loader `L` gives `proj v` back -/
def SavOK (W : World) (ctx : Ctx) (rec : Option Ident) (L : Loader) (v : Val) : Prop :=
  ∃ s, save W ctx v = .ok s ∧ s.recorded = rec ∧ loadWith W L s = .ok (proj W v)

theorem memberOK_of_savOK {W : World} {ctx : Ctx} {rec : Option Ident} {L : Loader} {meths : List Name} {v : Val}
    (hs : isSavable v = true) (h : SavOK W ctx rec L v) : MemberOK W ctx L meths v := by
  obtain ⟨s, h1, _, h3⟩ := h
  refine ⟨(some .S, s), ?_, ?_⟩
  · cases v <;> simp [isSavable] at hs <;> simp [memberOut, h1, Except.map]
  · intro n types entries loaded he ht hl
    simp [getValue, he, ht, hl, h3]

theorem futureMembers_eq : futureMembers = ["_result", "_state"] := by decide

theorem saveFuture_eq {W : World} {ctx : Ctx} {rec : Option Ident} {TL : Loader} {cid : Ident}
    (hhead : saveHead W ctx = .ok (rec, TL)) (hid : TL.identify .future = .ok cid)
    (st : Plain) (xr : Option Tag × SVal) (extra : List (Name × SVal)) :
    saveFuture W ctx [("_state", .ok (none, .plain st)), ("_result", .ok xr)] extra
      = .ok (mkState rec cid [("_result", xr), ("_state", (none, .plain st))] extra) := by
  simp [saveFuture, hhead, hid, futureMembers_eq, saveMembers, lookup]

theorem loadWith_future {W : World} {L : Loader} {rec : Option Ident} {cid : Ident}
    (hl : L.load cid = some .future) (st : Plain) (xr : Option Tag × SVal) (extra : List (Name × SVal)) :
    loadWith W L (mkState rec cid [("_result", xr), ("_state", (none, .plain st))] extra)
      = recreateFuture ([("_result", xr.2), ("_state", .plain st)] ++ extra)
          (getValue [] (typesOf [("_result", xr), ("_state", (none, .plain st))])
            ([("_result", xr.2), ("_state", .plain st)] ++ extra)
            (loadEntries W L ([("_result", xr.2), ("_state", .plain st)] ++ extra)) "_result") := by
  simp [mkState, loadWith, hl, entriesOf]

theorem lookup_types_future (xr : Option Tag × SVal) (st : Plain) :
    lookup "_result" (typesOf [("_result", xr), ("_state", (none, .plain st))]) = xr.1 := by
  obtain ⟨t, sv⟩ := xr
  cases t <;> simp [typesOf, lookup]

theorem stCancelled_ne_pending : stCancelled ≠ stPending := by decide
theorem stCancelled_ne_finished : stCancelled ≠ stFinished := by decide
theorem stFinished_ne_pending : stFinished ≠ stPending := by decide

section core
variable {W : World} {ctx : Ctx} {rec : Option Ident} {TL L : Loader} {dom : PyObj → Bool}

theorem savOK_futSimple (hhead : saveHead W ctx = .ok (rec, TL)) (hrt : RoundTrips TL L dom)
    (hdom : dom .future = true) :
    SavOK W ctx rec L .futPending ∧ SavOK W ctx rec L .futCancelled ∧ ∀ e, SavOK W ctx rec L (.futExc e) := by
  obtain ⟨cid, hid, hl⟩ := hrt .future hdom
  refine ⟨?_, ?_, ?_⟩
  · refine ⟨mkState rec cid [("_result", (none, .plain pyNone)), ("_state", (none, .plain stPending))] [], ?_, rfl, ?_⟩
    · simp only [save]; exact saveFuture_eq hhead hid _ _ _
    · rw [loadWith_future hl]
      simp [recreateFuture, lookup, proj]
  · refine ⟨mkState rec cid [("_result", (none, .plain pyNone)), ("_state", (none, .plain stCancelled))] [], ?_, rfl, ?_⟩
    · simp only [save]; exact saveFuture_eq hhead hid _ _ _
    · rw [loadWith_future hl]
      simp [recreateFuture, lookup, proj, stCancelled_ne_pending, stCancelled_ne_finished]
  · intro e
    refine ⟨mkState rec cid [("_result", (none, .plain pyNone)), ("_state", (none, .plain stFinished))]
      [("exception", .exc e)], ?_, rfl, ?_⟩
    · simp only [save]; exact saveFuture_eq hhead hid _ _ _
    · rw [loadWith_future hl]
      simp [recreateFuture, lookup, proj, stFinished_ne_pending, getValue, typesOf, rawVal]

theorem savOK_futResult (hhead : saveHead W ctx = .ok (rec, TL)) (hrt : RoundTrips TL L dom)
    (hdom : dom .future = true) (v : Val) (hv : MemberOK W ctx L [] v) : SavOK W ctx rec L (.futResult v) := by
  obtain ⟨cid, hid, hl⟩ := hrt .future hdom
  obtain ⟨x, hx, hget⟩ := hv
  refine ⟨mkState rec cid [("_result", x), ("_state", (none, .plain stFinished))] [], ?_, rfl, ?_⟩
  · simp only [save, hx]; exact saveFuture_eq hhead hid _ _ _
  · rw [loadWith_future hl]
    have hg := hget "_result" (typesOf [("_result", x), ("_state", (none, .plain stFinished))])
      ([("_result", x.2), ("_state", .plain stFinished)] ++ [])
      (loadEntries W L ([("_result", x.2), ("_state", .plain stFinished)] ++ []))
      (by simp [lookup]) (lookup_types_future x _) (by simp [loadEntries, lookup])
    rw [hg]
    simp [recreateFuture, lookup, proj, stFinished_ne_pending]

theorem savOK_obj (hhead : saveHead W ctx = .ok (rec, TL)) (hrt : RoundTrips TL L dom) (c : Nat)
    (attrs : List (Name × Val)) (hdom : dom (.cls c) = true)
    (hmem : ∀ ms, W.fam.eff c = some ms → ∀ m ∈ ms, ∃ v, lookup m attrs = some v ∧ MemberOK W ctx L (W.methods c) v) :
    SavOK W ctx rec L (.obj c attrs) := by
  obtain ⟨cid, hid, hl⟩ := hrt (.cls c) hdom
  cases heff : W.fam.eff c with
  | none =>
    refine ⟨mkState rec cid [] [], ?_, rfl, ?_⟩
    · simp [save, hhead, hid, heff]
    · simp [mkState, loadWith, hl, heff, proj, typesOf, entriesOf]
  | some ms =>
    have hm := hmem ms heff
    -- what save_members writes for each member
    let f : Name → Option Tag × SVal := fun m =>
      match lookup m (saveAttrs W ctx attrs) with
      | some (.ok x) => x
      | _ => (none, .plain "")
    let g : Name → Val := fun m => ((lookup m attrs).map (proj W)).getD (.plain "")
    have hf : ∀ m ∈ ms, lookup m (saveAttrs W ctx attrs) = some (.ok (f m)) := by
      intro m hmm
      obtain ⟨v, hv, x, hx, _⟩ := hm m hmm
      have : lookup m (saveAttrs W ctx attrs) = some (.ok x) := by rw [lookup_saveAttrs, hv]; simp [hx]
      simp [f, this]
    have hsave := saveMembers_ok (saveAttrs W ctx attrs) f ms hf
    refine ⟨mkState rec cid (ms.map fun m => (m, f m)) [], ?_, rfl, ?_⟩
    · simp [save, hhead, hid, heff, hsave]
    · have hget : ∀ m ∈ ms, getValue (W.methods c) (typesOf (ms.map fun m => (m, f m)))
          (entriesOf (ms.map fun m => (m, f m)))
          (loadEntries W L (entriesOf (ms.map fun m => (m, f m)))) m = .ok (g m) := by
        intro m hmm
        obtain ⟨v, hv, x, hx, hgv⟩ := hm m hmm
        have hfx : f m = x := by
          have : lookup m (saveAttrs W ctx attrs) = some (.ok x) := by rw [lookup_saveAttrs, hv]; simp [hx]
          simp [f, this]
        have hgm : g m = proj W v := by simp [g, hv]
        rw [hgm]
        apply hgv
        · rw [lookup_entriesOf_map]; simp [hmm, hfx]
        · rw [lookup_typesOf_map]; simp [hmm, hfx]
        · rw [lookup_loadEntries, lookup_entriesOf_map]; simp [hmm, hfx]
      have hload := loadMembers_ok _ _ _ _ g ms hget
      have hsel : select ms (projAttrs W attrs) = ms.map fun m => (m, g m) := by
        apply select_eq_map
        intro m hmm
        obtain ⟨v, hv, _⟩ := hm m hmm
        rw [lookup_projAttrs, hv]; simp [g, hv]
      simp [mkState, loadWith, hl, heff, hload, proj, hsel]

/-- **core of C19**: by induction on the nesting of values -/
theorem roundtrip_core (hhead : saveHead W ctx = .ok (rec, TL)) (hrt : RoundTrips TL L dom) :
    ∀ v : Val, ∀ meths, wfVal W dom meths v = true →
      MemberOK W ctx L meths v ∧ (isSavable v = true → SavOK W ctx rec L v) := by
  intro v
  induction v using Val.ind with
  | plain p =>
    intro meths _
    refine ⟨⟨(none, .plain p), by simp [memberOut], ?_⟩, by simp [isSavable]⟩
    intro n types entries loaded he ht _
    simp [getValue, he, ht, rawVal, proj]
  | method o name =>
    intro meths hwf
    simp only [wfVal, Bool.and_eq_true, List.contains_iff_mem] at hwf
    obtain ⟨ho, hn⟩ := hwf
    subst ho
    refine ⟨⟨(some .m, .mname name), by simp [memberOut], ?_⟩, by simp [isSavable]⟩
    intro n types entries loaded he ht _
    simp [getValue, he, ht, hn, proj]
  | obj c attrs ih =>
    intro meths hwf
    simp only [wfVal, Bool.and_eq_true] at hwf
    obtain ⟨hdom, hall⟩ := hwf
    have hs : SavOK W ctx rec L (.obj c attrs) := by
      apply savOK_obj hhead hrt c attrs hdom
      intro ms heff m hmm
      rw [heff] at hall
      simp only [List.all_eq_true] at hall
      have := hall m hmm
      rw [lookup_wfAttrs] at this
      cases hv : lookup m attrs with
      | none => simp [hv] at this
      | some v =>
        simp [hv] at this
        exact ⟨v, rfl, (ih m v (lookup_mem hv) (W.methods c) this).1⟩
    exact ⟨memberOK_of_savOK rfl hs, fun _ => hs⟩
  | futPending =>
    intro meths hwf
    simp only [wfVal] at hwf
    have hs := (savOK_futSimple hhead hrt hwf).1
    exact ⟨memberOK_of_savOK rfl hs, fun _ => hs⟩
  | futResult v ih =>
    intro meths hwf
    simp only [wfVal, Bool.and_eq_true] at hwf
    have hs := savOK_futResult hhead hrt hwf.1 v (ih [] hwf.2).1
    exact ⟨memberOK_of_savOK rfl hs, fun _ => hs⟩
  | futExc e =>
    intro meths hwf
    simp only [wfVal] at hwf
    have hs := (savOK_futSimple hhead hrt hwf).2.2 e
    exact ⟨memberOK_of_savOK rfl hs, fun _ => hs⟩
  | futCancelled =>
    intro meths hwf
    simp only [wfVal] at hwf
    have hs := (savOK_futSimple hhead hrt hwf).2.1
    exact ⟨memberOK_of_savOK rfl hs, fun _ => hs⟩
  | raw s => intro meths hwf; simp [wfVal] at hwf

end core

theorem lookup_select (l : List (Name × Val)) (m : Name) :
    ∀ ms : List Name, lookup m (select ms l) = if m ∈ ms then lookup m l else none := by
  intro ms
  induction ms with
  | nil => simp [select]
  | cons a ms ih =>
    simp only [select]
    by_cases ham : a = m
    · subst ham
      cases h : lookup a l with
      | none => simp [ih, h]
      | some v => simp [lookup_cons]
    · have hne : m ≠ a := fun h => ham h.symm
      cases h : lookup a l with
      | none => simp [ih, hne]
      | some v => simp [lookup_cons, ham, ih, hne]

end Sav
