import PlumpyModel.Gen.Persist
/-!
# Savable: `auto_persist` declarations, `save` / `load`, META block, object loaders  (property C19)

Hand-written executable mirror of `src/plumpy/persistence.py` (`auto_persist`, `Savable`, `_ensure_object_loader`,
`SavableFuture`) and `src/plumpy/loaders.py`, one Lean function per Python method, same branch order, every `raise`
an explicit `Except.error`.  Core Lean only.

Assumed contracts (modelled, not verified; exercised by the correspondence check through the real library):
* `copy.deepcopy` of a plain value returns an equal value that shares nothing with the original.  The model is
  functional, so a value *is* its content at save time: `deepcopy v = v`.  That later mutation of the original does not
  show in the saved state or in the reloaded object is therefore decided by the correspondence check, not by a theorem.
* Python attribute lookup on a class follows the MRO; the families here are single-inheritance chains
  (class `i+1` derives from class `i`, class `0` derives from `Savable`, whose `_auto_persist` is `None`).
* A Python `set` has no order; the model keeps members in insertion order and the driver prints them sorted.
* `asyncio.Future`: `exception()` of a cancelled future raises, `_state` is one of `PENDING/FINISHED/CANCELLED`,
  `_result` is `None` unless a result was set.
* Objects are trees (no aliasing between members); the names of methods and of members are disjoint;
  `Savable.persist()` is the default no-op.
-/
namespace Sav

abbrev Name := String
/-- a plain (deep-copyable) Python value, as its canonical JSON text; opaque to save/load -/
abbrev Plain := String
abbrev Ident := String

inductive Err
  | valueError | typeError | attributeError | keyError | unboundLocalError
deriving DecidableEq, Repr, Inhabited

def Err.name : Err → String
  | .valueError => "ValueError" | .typeError => "TypeError" | .attributeError => "AttributeError"
  | .keyError => "KeyError" | .unboundLocalError => "UnboundLocalError"

/-! ## 1. Class families: who owns which `_auto_persist` set -/

/-- insert-if-absent, the model of `set.update` on an insertion-ordered duplicate-free list -/
def insertAll (s : List Name) : List Name → List Name
  | [] => s
  | m :: ms => insertAll (if m ∈ s then s else s ++ [m]) ms

/-- A chain of classes `0 … n-1` (`i+1` derives from `i`) and a heap of set objects.
`own[i] = some r`: class `i` has its own `_auto_persist` attribute, bound to the set object `sets[r]`;
`none`: the attribute is inherited (or is `Savable`'s `None`). -/
structure Fam where
  own : List (Option Nat) := []
  sets : List (List Name) := []
deriving Repr, DecidableEq

/-- `cls._auto_persist` evaluated on class `c`: the nearest own attribute along the MRO (`none` = Python `None`) -/
def lookupOwn (own : List (Option Nat)) : Nat → Option Nat
  | 0 => (own[0]?).join
  | c + 1 => match (own[c + 1]?).join with
    | some r => some r
    | none => lookupOwn own c

def Fam.ref (F : Fam) (c : Nat) : Option Nat := lookupOwn F.own c

/-- the effective member set of class `c` (`none` = `_auto_persist is None`: nothing is saved or loaded) -/
def Fam.eff (F : Fam) (c : Nat) : Option (List Name) :=
  match F.ref c with
  | none => none
  | some r => F.sets[r]?

/-- `Savable.auto_persist(cls, *members)` (the classmethod):
```
if cls._auto_persist is None: cls._auto_persist = set()     # a new own set
cls._auto_persist.update(members)                            # else: whatever set the MRO finds, possibly a base's
``` -/
def Fam.classmethod (F : Fam) (c : Nat) (ms : List Name) : Fam :=
  match F.ref c with
  | none => { own := F.own.set c (some F.sets.length), sets := F.sets ++ [insertAll [] ms] }
  | some r => { F with sets := F.sets.modify r (insertAll · ms) }

/-- the decorator `auto_persist(*members)(cls)`:
```
if savable._auto_persist is None: savable._auto_persist = set()
else: savable._auto_persist = set(savable._auto_persist)     # copy on inherit: always a fresh own set
savable.auto_persist(*members)
``` -/
def Fam.decorate (F : Fam) (c : Nat) (ms : List Name) : Fam :=
  let cur : List Name := (F.eff c).getD []
  let F1 : Fam := { own := F.own.set c (some F.sets.length), sets := F.sets ++ [cur] }
  F1.classmethod c ms

inductive DeclKind | decorator | classmethod
deriving DecidableEq, Repr

structure Decl where
  kind : DeclKind
  cls : Nat
  members : List Name
deriving Repr, DecidableEq

def Fam.apply (F : Fam) (d : Decl) : Fam :=
  match d.kind with
  | .decorator => F.decorate d.cls d.members
  | .classmethod => F.classmethod d.cls d.members

/-- `n` freshly created classes without declarations -/
def Fam.fresh (n : Nat) : Fam := { own := List.replicate n none, sets := [] }

def Fam.build (n : Nat) (ds : List Decl) : Fam := ds.foldl Fam.apply (Fam.fresh n)

/-! ## 2. Loaders -/

/-- module-level objects that an identifier can name -/
inductive PyObj
  | cls (c : Nat)          -- a generated Savable class of the family
  | future                 -- `plumpy.persistence.SavableFuture`
  | loaderCls (l : Nat)    -- an `ObjectLoader` class
  | other (n : Nat)        -- anything else
deriving DecidableEq, Repr, Inhabited

/-- an `ObjectLoader` instance: `identify_object` (may raise `ValueError`), `load_object` as a partial map
(`none` = `ValueError`), and the loader class it is an instance of -/
structure Loader where
  cls : Nat
  identify : PyObj → Except Err Ident
  load : Ident → Option PyObj

structure World where
  fam : Fam
  /-- names of the methods defined on (or inherited by) each class -/
  methods : Nat → List Name
  /-- `loaders.get_object_loader()` -/
  global : Loader
  /-- calling a loader class -/
  instantiate : Nat → Loader

/-- `LoadSaveContext.loader` is the only part of a context that save/load of members look at -/
abbrev Ctx := Option Loader

/-! ## 3. Values, saved states -/

inductive Tag | m | S
deriving DecidableEq, Repr

def Tag.str : Tag → String
  | .m => Gen.meta_type_method | .S => Gen.meta_type_savable

/-- what a saved state holds under a key.  `state` is a saved-state dict:
`{'!!meta': {'class_name': cls, 'user': {'object_loader': loader}, 'types': types}, **entries}` -/
inductive SVal where
  | plain (p : Plain)
  | mname (n : Name)                    -- `value.__name__` of a bound method
  | exc (e : String)                    -- the exception object of a failed future
  | state (cls : Option Ident) (loader : Option Ident) (types : List (Name × Tag)) (entries : List (Name × SVal))
deriving Repr, Inhabited

/-- attribute values of live objects -/
inductive Val where
  | plain (p : Plain)
  /-- a bound method; `own`: `value.__self__ is self` for the object holding it -/
  | method (own : Bool) (name : Name)
  | obj (c : Nat) (attrs : List (Name × Val))
  | futPending
  | futResult (v : Val)
  | futExc (e : String)
  | futCancelled
  /-- a raw saved value held as an attribute (what an untagged non-plain entry loads to) -/
  | raw (s : SVal)
deriving Repr, Inhabited

def lookup {α} (k : Name) : List (Name × α) → Option α
  | [] => none
  | (k', v) :: r => if k' = k then some v else lookup k r

/-! ## 4. `save` -/

/-- one iteration of the loop of `save_members`, given the outcome of `value.save(save_context)` -/
def memberOut (v : Val) (nested : Except Err SVal) : Except Err (Option Tag × SVal) :=
  match v with
  | .method own n =>
      if own then .ok (some .m, .mname n)      -- tagged 'm', stored by name
      else .error .typeError                   -- 'Cannot persist methods of other classes'
  | .obj _ _ | .futPending | .futResult _ | .futExc _ | .futCancelled =>
      nested.map (fun s => (some .S, s))       -- isinstance(value, Savable): tagged 'S', value.save(save_context)
  | .plain p => .ok (none, .plain p)           -- copy.deepcopy(value)
  | .raw s => .ok (none, s)

abbrev Saved := Except Err (Option Tag × SVal)

/-- `save_members(members, out_state, save_context)`: `getattr` of a missing member is an `AttributeError` -/
def saveMembers : List Name → List (Name × Saved) → Except Err (List (Name × Option Tag × SVal))
  | [], _ => .ok []
  | m :: ms, sa =>
      match lookup m sa with
      | none => .error .attributeError
      | some (.error e) => .error e
      | some (.ok x) =>
        match saveMembers ms sa with
        | .error e => .error e
        | .ok r => .ok ((m, x) :: r)

def typesOf : List (Name × Option Tag × SVal) → List (Name × Tag)
  | [] => []
  | (m, some t, _) :: r => (m, t) :: typesOf r
  | (_, none, _) :: r => typesOf r

def entriesOf : List (Name × Option Tag × SVal) → List (Name × SVal)
  | [] => []
  | (m, _, s) :: r => (m, s) :: entriesOf r

/-- the head of `Savable.save`: which loader is recorded under `!!meta/user/object_loader` and which one names the class
```
default_loader = loaders.get_object_loader()
if save_context.loader is not None:
    loader_class = default_loader.identify_object(save_context.loader.__class__)
    Savable.set_custom_meta(out_state, META__OBJECT_LOADER, loader_class); loader = save_context.loader
else: loader = default_loader
``` -/
def saveHead (W : World) (ctx : Ctx) : Except Err (Option Ident × Loader) :=
  match ctx with
  | some L =>
    match W.global.identify (.loaderCls L.cls) with
    | .error e => .error e
    | .ok lid => .ok (some lid, L)
  | none => .ok (none, W.global)

/-- the `_auto_persist` set of `SavableFuture`, from the generated table -/
def futureMembers : List Name :=
  ((Gen.autoPersist.find? (·.1 = "plumpy.persistence.SavableFuture")).map (·.2)).getD []

def jsonStr (s : String) : Plain := "\"" ++ s ++ "\""
def stPending : Plain := jsonStr "PENDING"
def stFinished : Plain := jsonStr "FINISHED"
def stCancelled : Plain := jsonStr "CANCELLED"
def pyNone : Plain := "null"

/-- assemble the saved state from the head, the class identifier and the saved members -/
def mkState (rec : Option Ident) (cid : Ident) (ts : List (Name × Option Tag × SVal)) (extra : List (Name × SVal)) : SVal :=
  .state (some cid) rec (typesOf ts) (entriesOf ts ++ extra)

mutual
/-- `Savable.save(self, save_context)` for a generated class, and `SavableFuture.save` (its `save_instance_state` adds
the `exception` key).  Values that are not Savables have no `save`: `AttributeError`. -/
def save (W : World) (ctx : Ctx) : Val → Except Err SVal
  | .obj c attrs =>
      match saveHead W ctx with
      | .error e => .error e
      | .ok (rec, ldr) =>
        match ldr.identify (.cls c) with
        | .error e => .error e
        | .ok cid =>
          match W.fam.eff c with
          | none => .ok (mkState rec cid [] [])             -- `_auto_persist is None`
          | some ms =>
            match saveMembers ms (saveAttrs W ctx attrs) with
            | .error e => .error e
            | .ok ts => .ok (mkState rec cid ts [])
  | .futPending => saveFuture W ctx [("_state", .ok (none, .plain stPending)), ("_result", .ok (none, .plain pyNone))] []
  | .futCancelled =>
      -- `if self.done() and not self.cancelled() and …`: no exception key
      saveFuture W ctx [("_state", .ok (none, .plain stCancelled)), ("_result", .ok (none, .plain pyNone))] []
  | .futExc e =>
      saveFuture W ctx [("_state", .ok (none, .plain stFinished)), ("_result", .ok (none, .plain pyNone))] [("exception", .exc e)]
  | .futResult v =>
      saveFuture W ctx [("_state", .ok (none, .plain stFinished)), ("_result", memberOut v (save W ctx v))] []
  | .plain _ => .error .attributeError
  | .method _ _ => .error .attributeError
  | .raw _ => .error .attributeError

/-- every attribute's contribution to `save_members`, computed attribute by attribute (only the declared ones are used) -/
def saveAttrs (W : World) (ctx : Ctx) : List (Name × Val) → List (Name × Saved)
  | [] => []
  | (n, v) :: r => (n, memberOut v (save W ctx v)) :: saveAttrs W ctx r

/-- common tail of saving a future, given its two persisted attributes -/
def saveFuture (W : World) (ctx : Ctx) (attrs : List (Name × Saved)) (extra : List (Name × SVal)) : Except Err SVal :=
  match saveHead W ctx with
  | .error e => .error e
  | .ok (rec, ldr) =>
    match ldr.identify .future with
    | .error e => .error e
    | .ok cid =>
      match saveMembers futureMembers attrs with
      | .error e => .error e
      | .ok ts => .ok (mkState rec cid ts extra)
end

/-! ## 5. `load` -/

/-- `_ensure_object_loader(context, saved_state)`: 1) the loader of the context, 2) the one recorded in the saved
state (found and instantiated through the global loader), 3) the global default. -/
def ensureLoader (W : World) (ctx : Ctx) (recorded : Option Ident) : Except Err Loader :=
  match ctx with
  | some L => .ok L
  | none =>
    match recorded with
    | none => .ok W.global                          -- get_custom_meta raised ValueError: fall back
    | some lid =>
      match W.global.load lid with
      | none => .error .valueError                  -- default_loader.load_object raised
      | some (.loaderCls l) => .ok (W.instantiate l)
      | some _ => .error .typeError                 -- the identifier does not name a loader class (outside the model)

/-- the loader recorded in a saved value (`Savable.get_custom_meta(saved_state, META__OBJECT_LOADER)`) -/
def SVal.recorded : SVal → Option Ident
  | .state _ rec _ _ => rec
  | _ => none

/-- an untagged entry is handed over as it is -/
def rawVal : SVal → Val
  | .plain p => .plain p
  | s => .raw s

/-- `_get_value(saved_state, name, load_context)` given the raw entries, the type map and, for every entry, the outcome
of `Savable.load(value, load_context)`; `methods`: what `getattr(self, <name>)` finds -/
def getValue (methods : List Name) (types : List (Name × Tag)) (entries : List (Name × SVal))
    (loaded : List (Name × Except Err Val)) (name : Name) : Except Err Val :=
  match lookup name entries with
  | none => .error .keyError                                  -- saved_state[name]
  | some raw =>
    match lookup name types with
    | some .m =>
      match raw with
      | .mname n => if n ∈ methods then .ok (.method true n) else .error .attributeError   -- getattr(self, value)
      | _ => .error .typeError
    | some .S =>
      match lookup name loaded with
      | some r => r                                            -- Savable.load(value, load_context)
      | none => .error .keyError
    | none => .ok (rawVal raw)

/-- `load_members(members, saved_state, load_context)` -/
def loadMembers (methods : List Name) (types : List (Name × Tag)) (entries : List (Name × SVal))
    (loaded : List (Name × Except Err Val)) : List Name → Except Err (List (Name × Val))
  | [] => .ok []
  | m :: ms =>
    match getValue methods types entries loaded m with
    | .error e => .error e
    | .ok v =>
      match loadMembers methods types entries loaded ms with
      | .error e => .error e
      | .ok r => .ok ((m, v) :: r)

/-- `SavableFuture.recreate_from`, given `_get_value(saved_state, '_result', load_context)` -/
def recreateFuture (entries : List (Name × SVal)) (result : Except Err Val) : Except Err Val :=
  match lookup "_state" entries with
  | none => .error .keyError
  | some st =>
    match st with
    | .plain p =>
      if p = stPending then .ok .futPending
      else if p = stFinished then
        match result with
        | .error e => .error e
        | .ok r =>
          match lookup "exception" entries with
          | some (.exc e) => .ok (.futExc e)
          | some _ => .error .typeError                       -- set_exception of a non-exception
          | none => .ok (.futResult r)
      else if p = stCancelled then .ok .futCancelled
      else .error .unboundLocalError                          -- no branch bound `obj`
    | _ => .error .unboundLocalError

mutual
/-- `Savable.load(saved_state, load_context)` once the context holds a loader `L` (every nested load: the context
loader outranks whatever the nested state records), followed by `recreate_from` of the class found:
```
try: class_name = Savable._get_class_name(saved_state); load_cls = load_context.loader.load_object(class_name)
except KeyError: raise ValueError('Class name not found in saved state')
else: return load_cls.recreate_from(saved_state, load_context)
``` -/
def loadWith (W : World) (L : Loader) : SVal → Except Err Val
  | .state cls _ types entries =>
    match cls with
    | none => .error .valueError                              -- KeyError → ValueError
    | some cid =>
      match L.load cid with
      | none => .error .valueError                            -- load_object raised: unknown class
      | some (.cls c) =>
          -- Savable.recreate_from: cls.__new__, load_instance_state
          match W.fam.eff c with
          | none => .ok (.obj c [])
          | some ms =>
            match loadMembers (W.methods c) types entries (loadEntries W L entries) ms with
            | .error e => .error e
            | .ok attrs => .ok (.obj c attrs)
      | some .future =>
          -- SavableFuture.recreate_from; `getattr(future, name)` finds none of the generated methods
          recreateFuture entries (getValue [] types entries (loadEntries W L entries) "_result")
      | some _ => .error .attributeError                      -- no `recreate_from` on that object
  | _ => .error .typeError                                    -- not a mapping

def loadEntries (W : World) (L : Loader) : List (Name × SVal) → List (Name × Except Err Val)
  | [] => []
  | (n, s) :: r => (n, loadWith W L s) :: loadEntries W L r
end

/-- `Savable.load(saved_state, load_context)` -/
def load (W : World) (ctx : Ctx) (s : SVal) : Except Err Val :=
  match ensureLoader W ctx s.recorded with
  | .error e => .error e
  | .ok L => loadWith W L s

/-! ## 6. Concrete loaders (used by the driver and by the non-vacuity examples)

`DefaultObjectLoader` names a module-level object `module:name` and resolves exactly the identifiers of that form whose
module imports and has the attribute; `identify_object` checks that the identifier loads.  The harness's custom loaders
use the scheme `<prefix>!module!name` and raise `ValueError` on anything else.  Both are modelled by a finite registry
of the module-level objects that exist. -/

structure Naming where
  modOf : PyObj → String
  nameOf : PyObj → String

def Naming.default (N : Naming) (x : PyObj) : Ident := N.modOf x ++ ":" ++ N.nameOf x
def Naming.custom (N : Naming) (pre : String) (x : PyObj) : Ident := pre ++ "!" ++ N.modOf x ++ "!" ++ N.nameOf x

/-- a loader of class `cls` that names the objects of `reg` by `ident` and resolves exactly those names -/
def regLoader (cls : Nat) (ident : PyObj → Ident) (reg : List PyObj) : Loader where
  cls := cls
  identify x := if reg.contains x then .ok (ident x) else .error .valueError
  load s := reg.find? (fun x => ident x == s)

/-! ## 7. Canonical rendering (the observation lines of the driver) -/

def insertSorted (x : String × String) : List (String × String) → List (String × String)
  | [] => [x]
  | y :: r => if x.1 < y.1 then x :: y :: r else y :: insertSorted x r

def sortByKey (l : List (String × String)) : List (String × String) := l.foldr insertSorted []

def renderKV (sep : String) (l : List (String × String)) : String :=
  ",".intercalate ((sortByKey l).map fun kv => kv.1 ++ sep ++ kv.2)

mutual
def SVal.render : SVal → String
  | .plain p => p
  | .mname n => jsonStr n
  | .exc e => "!" ++ e
  | .state cls rec types entries =>
      "{c=" ++ cls.getD "-" ++ ";l=" ++ rec.getD "-" ++ ";t=" ++ renderKV ":" (types.map fun (k, t) => (k, t.str))
        ++ ";e=" ++ renderKV "=" (SVal.renderEntries entries) ++ "}"
def SVal.renderEntries : List (Name × SVal) → List (String × String)
  | [] => []
  | (k, v) :: r => (k, SVal.render v) :: SVal.renderEntries r
end

mutual
def Val.render : Val → String
  | .plain p => p
  | .method own n => "meth:" ++ (if own then "1" else "0") ++ ":" ++ n
  | .obj c attrs => "K" ++ toString c ++ "{" ++ renderKV "=" (Val.renderAttrs attrs) ++ "}"
  | .futPending => "F.pending"
  | .futCancelled => "F.cancelled"
  | .futExc e => "F.exc:" ++ e
  | .futResult v => "F.result(" ++ Val.render v ++ ")"
  | .raw s => "raw" ++ s.render
def Val.renderAttrs : List (Name × Val) → List (String × String)
  | [] => []
  | (k, v) :: r => (k, Val.render v) :: Val.renderAttrs r
end

end Sav
