import PlumpyModel.Ports.Out
import Driver.Ports
namespace DrvPortsOut
open Ports DrvPorts

/-
`pmodel portsout` (C12): one case per line: the output spec, the emissions of the step function, how it returns.

  line : top OPS <k> (<path> value)* FIN <successful> <result>
  path : `p:` followed by the dotted port name as given to `out` (may contain empty segments)
observation (one line): per emission `ok d=<dynamic> ev=<path>;<value>;<dynamic> O=<outputs> S=<spec>` or
`err <Class> O=<outputs> S=<spec>`, then `fin <label> succ=<0|1> res=<result> fut=<tree> lis=<tree>`, joined by ` | `.
`S` is the tree of port names of the output spec (`name:L`, `name:N{...}`), which grows by dynamic creation.
-/

partial def showSpec (ports : PortList) : String :=
  let sorted := ports.toArray.qsort (fun a b => a.1 < b.1) |>.toList
  "{" ++ ",".intercalate (sorted.map fun (k, p) => match p with
    | .leaf _ => s!"{k}:L"
    | .ns _ sub => s!"{k}:N{showSpec sub}") ++ "}"

def pPath (tok : String) : Option (List String) :=
  if tok.startsWith "p:" then some ((tok.drop 2).toString.splitOn ".") else none

def pOps : Nat → List String → List (List String × V) → Option (List (List String × V) × List String)
  | 0, r, acc => some (acc.reverse, r)
  | m+1, p :: r, acc => do
      let path ← pPath p
      let (v, r') ← pValue r
      pOps m r' ((path, v) :: acc)
  | _, _, _ => none

def b01 (b : Bool) : String := if b then "1" else "0"
def showO (o : Option Items) : String := match o with | some items => showV (.dict false items) | none => "-"

def runOps (st : OutSt) : List (List String × V) → List String → OutSt × List String
  | [], acc => (st, acc.reverse)
  | (path, v) :: rest, acc =>
      let r := out theVd st path v
      let tail := s!"O={showV (.dict false r.1.outputs)} S={showSpec r.1.ports}"
      let line := match r.2 with
        | .ok d => s!"ok d={b01 d} ev={".".intercalate path};{showV v};{b01 d} {tail}"
        | .error e => (match e with | .validation _ => "err ValueError" | e => "err " ++ showErr e) ++ " " ++ tail
      runOps r.1 rest (line :: acc)

def handle (line : String) : String :=
  match (do
    let (top, ports, r) ← pTop (tokens line)
    match r with
    | "OPS" :: k :: r' => do
        let (ops, r'') ← pOps (← k.toNat?) r' []
        match r'' with
        | ["FIN", ok, res] => do
            let (okb, _) ← pBool [ok]
            some (top, ports, ops, okb, ← res.toNat?)
        | _ => none
    | _ => none) with
  | none => "bad"
  | some (top, ports, ops, ok, res) =>
      let st0 : OutSt := { top, ports, outputs := [], emitted := [] }
      let (st, obs) := runOps st0 ops []
      let f := toFinished theVd st res ok
      let fin := s!"fin {if f.label == .finished then "finished" else "excepted"} succ={b01 f.successful} res={f.result} fut={showO f.future} lis={showO f.listener}"
      " | ".intercalate (obs ++ [fin])

def main : IO Unit := do DrvPorts.loop (← IO.getStdin) handle
end DrvPortsOut
