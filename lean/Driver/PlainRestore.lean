import PlumpyModel.Persist.Plain
import Driver.PM
namespace DrvPlainRestore
open PMF

/-
`pmodel restoreplain` — a PLAIN process with crash points, driven as harness/props/c08.py drives the real one.

line   := <k> <c1> … <ck> ( | <id> <awaits> <outcome> )+
          c_j    = global index of the state entry at which the j-th checkpoint is taken (0 = the freshly created process;
                   strictly increasing), as counted by the harness: entries of all instances, a restored instance starting at
                   the index of its checkpoint
          outcome as in `pmodel pm` (`fn` lines)
output := trace=<call,…> state=<label> out=<outcome> restores=<n>

The environment is the one of the harness: run the stepping task while it has a callback ready; when nothing is ready and the
process waits, `resume(100 + index of the waiting callback)`; stop when terminated or stuck.  A checkpoint index that falls into
a callback becomes a cut of that callback (`CEv.tick cuts`, the definitions of lean/PlumpyModel/Persist/Plain.lean that the
theorems of Props/C08.lean are about): the least number of loop iterations after which the instance's ENTERED log has reached
that index; the checkpoint is taken only if the configuration there is a step boundary (`boundary`: live, as in the harness).
-/

def entryIndex (base : Nat) (c : Cfg) : Nat := base + c.entered.length - 1

/-- least `n ≤ bound` such that the callback cut after `n` iterations has reached entry `k` -/
def findCut (P : Prog) (c : Cfg) (base k : Nat) : Nat → Nat → Option Nat
  | 0, _ => none
  | g+1, n => if entryIndex base (tickF P n c) ≥ k then some n else findCut P c base k g (n + 1)

/-- the cuts of one callback: `(cuts, remaining checkpoints, base of the instance that finishes the callback)` -/
def cutsOf (P : Prog) : Nat → Cfg → Nat → List Nat → List Nat × List Nat × Nat
  | 0, _, base, todo => ([], todo, base)
  | g+1, c, base, todo =>
    match todo with
    | [] => ([], [], base)
    | k :: rest =>
      match findCut P c base k 64 0 with
      | none => ([], todo, base)
      | some n =>
        let b := tickF P n c
        if entryIndex base b = k ∧ boundary b then
          let (cs, todo', base') := cutsOf P g (restoreCfg (saveCfg b)) k rest
          (n :: cs, todo', base')
        else ([], todo, base)

def runnable (c : Cfg) : Bool :=
  match c.pc with
  | .notStarted => true
  | .inUser _ => true
  | .awaitWaiting wf => (match c.wfs[wf]? with | some .pending => false | some _ => true | none => false)
  | .awaitPaused pf => c.pfs[pf]? == some true
  | _ => false

def drive (P : Prog) : Nat → CState → Nat → List Nat → CState
  | 0, s, _, _ => s
  | g+1, s, base, todo =>
    if runnable s.cur then
      let (cuts, todo', base') := cutsOf P 16 s.cur base todo
      drive P g (cstep P s (.tick cuts)) base' todo'
    else if terminal s.cur.st.label then s
    else
      match s.cur.st with
      | .waiting fn wf _ _ =>
        if s.cur.paused.isNone && (match s.cur.wfs[wf]? with | some .pending => true | _ => false) then
          drive P g (cstep P s (.resume (some (100 + (fn : Int))))) base todo
        else s
      | _ => s

def showCall (a : Act) : String :=
  s!"{a.fn}({",".intercalate (a.args.map toString)};{",".intercalate (a.kw.map fun p => s!"{p.1}={p.2}")})"

def pFn (s : String) : Option (Nat × Body) :=
  let toks := (s.trimAscii.toString.splitOn " ").filter (· ≠ "")
  match toks with
  | id :: aw :: rest => do
      let o ← DrvPM.pOutcome rest
      some (← id.toNat?, ⟨← aw.toNat?, o⟩)
  | _ => none

def handle (line : String) : String :=
  match line.trimAscii.toString.splitOn " | " with
  | head :: fns =>
    let htoks := (head.splitOn " ").filter (· ≠ "")
    (match htoks with
     | k :: rest =>
       (match k.toNat?, rest.mapM String.toNat?, fns.mapM pFn with
        | some k, some cps, some t =>
          if cps.length ≠ k then "bad" else
          let P := DrvPM.progOfTable t
          let s := drive P 4000 cinit 0 cps
          s!"trace={" ".intercalate (s.trace.reverse.map showCall)} state={DrvPM.showLabel s.cur.st.label} " ++
          s!"out={DrvPM.showOutcome s.cur} restores={s.restores}"
        | _, _, _ => "bad")
     | [] => "bad")
  | [] => "bad"

partial def loop (h : IO.FS.Stream) : IO Unit := do
  let line ← h.getLine
  if line.isEmpty then return ()
  IO.println (handle line)
  loop h

def main : IO Unit := do loop (← IO.getStdin)
end DrvPlainRestore
