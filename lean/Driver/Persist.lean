import PlumpyModel.Persist.Model
import Driver.Outline
namespace DrvPersist
open Outline Persist

/-
`pmodel persist` — one view per line, prints the canonical bundle of `save` and the view after `load ∘ save`.

line    := loader cls kind view
loader  := D - -  |  G <prefix> <loaderClassId>  |  C <prefix> <loaderClassId>
           (D: default global loader; G: custom loader installed globally; C: custom loader in the save context;
            the custom loader identifies class c as <prefix>c)
kind    := P | W
view    := pid ctime status prePaused paused future listenerType listeners raw parsed nout (key val){nout} state [chain]
paused  := - | fut          fut := P | C | R:<val> | X:<val>
raw, parsed := - | val
state   := created in fn args kwargs | running in fn args kwargs | waiting in (cb|-) msg data (awaiting|-)
         | finished in result successful | excepted in exc | killed in msg
chain   := ctx stepper block           (kind W only; block as in `pmodel outline`)
stepper := _ | st          st := l | n <pos> 0 | n <pos> 1 st
val     := N | i<nat> | T | F | s<text> | L (live awaitable) | any other token (opaque)

output  := <path=val | path={ ...sorted> | <view>      or  err:<kind>  when `save` raises in the real code
-/

def pVal (t : String) : Val :=
  if t = "N" then .none
  else if t = "T" then .bool true
  else if t = "F" then .bool false
  else if t = "L" then .live
  else if t.startsWith "s" then .str (t.drop 1).toString
  else if t.startsWith "i" then
    (match (t.drop 1).toString.toNat? with
     | some n => if s!"i{n}" = t then .nat n else .opaque t
     | none => .opaque t)
  else .opaque t

def showVal : Val → String
  | .none => "N" | .nat n => s!"i{n}" | .bool true => "T" | .bool false => "F" | .str s => "s" ++ s
  | .opaque r => r | .live => "L"

def pOptVal (t : String) : Option Val := if t = "-" then none else some (pVal t)
def showOptVal : Option Val → String | none => "-" | some v => showVal v

def pFut (t : String) : Option FutV :=
  if t = "P" then some .pending
  else if t = "C" then some .cancelled
  else if t.startsWith "R:" then some (.result (pVal (t.drop 2).toString))
  else if t.startsWith "X:" then some (.exc (pVal (t.drop 2).toString))
  else none

def showFut : FutV → String
  | .pending => "P" | .cancelled => "C" | .result v => "R:" ++ showVal v | .exc e => "X:" ++ showVal e

partial def pSt : List String → Option (St × List String)
  | "l" :: r => some (.leaf, r)
  | "n" :: p :: "0" :: r => do some (.node (← p.toNat?) none, r)
  | "n" :: p :: "1" :: r => do
      let (c, r') ← pSt r
      some (.node (← p.toNat?) (some c), r')
  | _ => none

partial def showSt : St → String
  | .leaf => "l"
  | .node p none => s!"n {p} 0"
  | .node p (some c) => s!"n {p} 1 {showSt c}"

def pState : List String → Option (StateV × List String)
  | "created" :: i :: f :: a :: k :: r => some (.created (pVal i) f (pVal a) (pVal k), r)
  | "running" :: i :: f :: a :: k :: r => some (.running (pVal i) f (pVal a) (pVal k), r)
  | "waiting" :: i :: cb :: m :: d :: aw :: r =>
      some (.waiting (pVal i) (if cb = "-" then none else some cb) (pVal m) (pVal d) (pOptVal aw), r)
  | "finished" :: i :: res :: ok :: r => some (.finished (pVal i) (pVal res) (pVal ok), r)
  | "excepted" :: i :: e :: r => some (.excepted (pVal i) (pVal e), r)
  | "killed" :: i :: m :: r => some (.killed (pVal i) (pVal m), r)
  | _ => none

def showState : StateV → String
  | .created i f a k => s!"created {showVal i} {f} {showVal a} {showVal k}"
  | .running i f a k => s!"running {showVal i} {f} {showVal a} {showVal k}"
  | .waiting i cb m d aw => s!"waiting {showVal i} {cb.getD "-"} {showVal m} {showVal d} {showOptVal aw}"
  | .finished i r ok => s!"finished {showVal i} {showVal r} {showVal ok}"
  | .excepted i e => s!"excepted {showVal i} {showVal e}"
  | .killed i m => s!"killed {showVal i} {showVal m}"

def pOutputs : Nat → List String → List (String × Val) → Option (List (String × Val) × List String)
  | 0, r, acc => some (acc.reverse, r)
  | n+1, k :: v :: r, acc => pOutputs n r ((k, pVal v) :: acc)
  | _, _, _ => none

def showView (v : View) : String :=
  let outs := " ".intercalate (v.outputs.map (fun kv => s!"{kv.1} {showVal kv.2}"))
  let base := s!"{showVal v.pid} {showVal v.ctime} {showVal v.status} {showVal v.prePaused} " ++
    s!"{(v.paused.map showFut).getD "-"} {showFut v.future} {showVal v.eh.listenerType} {showVal v.eh.listeners} " ++
    s!"{showOptVal v.inputsRaw} {showOptVal v.inputsParsed} {v.outputs.length}" ++
    (if v.outputs.isEmpty then "" else " " ++ outs) ++ " " ++ showState v.state
  match v.chain with
  | none => base
  | some ch => base ++ s!" {showVal ch.ctx} " ++ (match ch.stepper with | none => "_" | some s => showSt s)

def prefixLoader (pre name : String) : Loader :=
  { name := name, ident := fun c => pre ++ c,
    resolve := fun s => if s.startsWith pre then some (s.drop pre.length).toString else none }

def fnName (f : Nat) : String := s!"s{f}"

def mkEnv (mode pre name : String) : Option (Env × Option Loader) :=
  let L := prefixLoader pre name
  let find := fun n => if n = name then some L else none
  if mode = "D" then some ({ glob := defaultLoader, find := fun _ => none, fnName := fnName }, none)
  else if mode = "G" then some ({ glob := L, find := find, fnName := fnName }, none)
  else if mode = "C" then some ({ glob := defaultLoader, find := find, fnName := fnName }, some L)
  else none

def showErr : Err → String
  | .keyMissing k => s!"err:keyMissing:{k}" | .classNotFound _ => "err:classNotFound" | .unsavable => "err:unsavable"
  | .attribute n => s!"err:attribute:{n}" | .unknownKey k => s!"err:unknownKey:{k}" | .badState => "err:badState"
  | .index => "err:index" | .foreign w => s!"err:foreign:{w}"

partial def flatten (pre : String) : Bundle → Except Err (List String)
  | [] => .ok []
  | (k, v) :: r => do
    let path := if pre = "" then k else pre ++ "/" ++ k
    let here ← (match v with
      | .plain x => .ok [s!"{path}={showVal x}"]
      | .poison e => .error e
      | .dict kv => do let sub ← flatten path kv; .ok (s!"{path}=\{" :: sub) : Except Err (List String))
    let rest ← flatten pre r
    .ok (here ++ rest)

def sortStrings (l : List String) : List String := (l.toArray.qsort (· < ·)).toList

def handle (line : String) : String :=
  let toks := (line.trimAscii.toString.splitOn " ").filter (· ≠ "")
  match toks with
  | mode :: pre :: lname :: cls :: kind :: pid :: ct :: st :: pps :: paused :: fut :: lt :: ls :: raw :: parsed :: nout :: rest =>
    (match mkEnv mode pre lname, nout.toNat?, pFut fut with
     | some (E, ctx), some n, some f =>
       (match pOutputs n rest [] with
        | none => "bad"
        | some (outs, rest) =>
          match pState rest with
          | none => "bad"
          | some (state, rest) =>
            let pausedV : Option (Option FutV) := if paused = "-" then some none else (pFut paused).map some
            match pausedV with
            | none => "bad"
            | some pv =>
              let base : View :=
                { pid := pVal pid, ctime := pVal ct, status := pVal st, prePaused := pVal pps, paused := pv, future := f,
                  eh := { listenerType := pVal lt, listeners := pVal ls }, inputsRaw := pOptVal raw,
                  inputsParsed := pOptVal parsed, outputs := outs, state := state, chain := none }
              let go (C : Cls) (v : View) : String :=
                let b := save E C ctx v
                match flatten "" b with
                | .error e => showErr e
                | .ok fl =>
                  let bs := " ".intercalate (sortStrings fl)
                  let r1 := load E C none b
                  let r2 := load E C ctx b
                  match r1, r2 with
                  | .ok v1, .ok v2 =>
                    if showView v1 = showView v2 then s!"{bs} | {showView v1}" else s!"{bs} | err:ctxdiff"
                  | .error e, _ => s!"{bs} | {showErr e}"
                  | _, .error e => s!"{bs} | {showErr e}"
              if kind = "P" then
                (if rest.isEmpty then go { name := cls, outline := none } base else "bad")
              else if kind = "W" then
                (match rest with
                 | cx :: rest =>
                   let stp : Option (Option St × List String) :=
                     (match rest with
                      | "_" :: r => some (none, r)
                      | _ => (pSt rest).map (fun (s, r) => (some s, r)))
                   (match stp with
                    | none => "bad"
                    | some (s, rest) =>
                      match DrvOutline.pBlock rest with
                      | some (is, []) =>
                        go { name := cls, outline := some is } { base with chain := some { ctx := pVal cx, stepper := s } }
                      | _ => "bad")
                 | _ => "bad")
              else "bad")
     | _, _, _ => "bad")
  | _ => "bad"

partial def loop (f : String → String) (h : IO.FS.Stream) : IO Unit := do
  let line ← h.getLine
  if line.isEmpty then return ()
  IO.println (f line)
  loop f h

def main : IO Unit := do loop handle (← IO.getStdin)

/-
`pmodel restore` — an outline chain with crash points.
line   := <k> <c1> … <ck> <outline case line as in `pmodel outline`>
          c_j = number of `_do_step` calls completed when the j-th checkpoint is taken (strictly increasing)
output := trace=<ev,…> result=<ret> restores=<n>  |  err
-/
def gaps : Nat → List Nat → List Nat
  | _, [] => []
  | prev, c :: cs => (c - prev) :: gaps c cs

def handleRestore (line : String) : String :=
  let toks := (line.trimAscii.toString.splitOn " ").filter (· ≠ "")
  match toks with
  | k :: rest =>
    (match k.toNat? with
     | none => "bad"
     | some k =>
       match (rest.take k).mapM String.toNat? with
       | none => "bad"
       | some cps =>
         match DrvOutline.pBlock (rest.drop k) with
         | none => "bad"
         | some (is, rest) =>
           match DrvOutline.pTabs rest {} with
           | none => "bad"
           | some t =>
             if is.isEmpty then "err" else
             let E : Env := { glob := defaultLoader, find := fun _ => none, fnName := fnName }
             let W := DrvOutline.world t
             let n := (cps.filter (fun c => match runSteps W is c (createBlock is) {} with | .running .. => true | _ => false)).length
             match runCrash E W is 100000 (gaps 0 cps) (createBlock is) {} with
             | some (r, h) => s!"trace={",".intercalate h.events.reverse} result={DrvOutline.showRet r} restores={n}"
             | none => "err")
  | _ => "bad"

def mainRestore : IO Unit := do loop handleRestore (← IO.getStdin)

end DrvPersist
