import PlumpyModel.PM.Listener
import Driver.PM
namespace DrvPML
open PMF PMF.L DrvPM

/-
Line protocol of the process-control model with listeners (`pmodel pml`): the protocol of `pmodel pm` plus

  plan <hook>:<occurrence>:<request> ...        the oracle of the case (after `case`, before the first op)
      hook := run | wai | pau | pla | exi | ent      request := pause | play | kill
  entryfails                                    the program's successful FINISHED state fails its output validation (it is
                                                presented as an unsuccessful stop; the exit phase runs twice)

`case`, `fn`, `plan` and `entryfails` lines are echoed; every other line prints the observation after the op (same format as `pm`).
-/

def pHook : String → Option Hook
  | "run" => some .running | "wai" => some .waiting | "pau" => some .paused | "pla" => some .played
  | "exi" => some .exiting | "ent" => some .entering | _ => none

def pReq : String → Option Req
  | "pause" => some .pause | "play" => some .play | "kill" => some .kill | _ => none

def pEntry (s : String) : Option (Hook × Nat × Req) :=
  match s.splitOn ":" with
  | [h, n, r] => do some (← pHook h, ← n.toNat?, ← pReq r)
  | _ => none

partial def loop (h : IO.FS.Stream) (t : Table) (l : LCfg) : IO Unit := do
  let line ← h.getLine
  if line.isEmpty then return ()
  let toks := (line.trimAscii.toString.splitOn " ").filter (· ≠ "")
  match toks with
  | ["case", nf] =>
      IO.println s!"case {nf}"
      loop h [] (initL (nf.toNat?.getD 0) [])
  | "fn" :: id :: aw :: rest =>
      match id.toNat?, aw.toNat?, pOutcome rest with
      | some i, some a, some o => IO.println s!"fn {i}"; loop h (t ++ [(i, ⟨a, o⟩)]) l
      | _, _, _ => IO.println "bad-fn"; loop h t l
  | ["entryfails"] => IO.println "entryfails"; loop h t { l with entryFails := true }
  | "plan" :: rest =>
      match rest.mapM pEntry with
      | some p => IO.println s!"plan {p.length}"; loop h t { l with plan := p }
      | none => IO.println "bad-plan"; loop h t l
  | _ =>
    match parseEv toks with
    | none => IO.println "bad-op"; loop h t l
    | some ev =>
      let (l', r) := stepL (progOfTable t) l ev
      IO.println (obs l'.c r)
      loop h t l'

def main : IO Unit := do loop (← IO.getStdin) [] (initL 0 [])
end DrvPML
