import PlumpyModel.Expose.Model
namespace DrvExpose
open Expose

/-- parse `count` entries: `L name` | `N name count entries…` -/
partial def parseEntries : Nat → List String → Option (List (Name × PT) × List String)
  | 0, toks => some ([], toks)
  | n+1, "L" :: name :: rest =>
      match parseEntries n rest with
      | some (es, r) => some ((name, .leaf 0) :: es, r)
      | none => none
  | n+1, "N" :: name :: cnt :: rest =>
      match cnt.toNat? with
      | none => none
      | some k =>
        match parseEntries k rest with
        | none => none
        | some (sub, r1) =>
          match parseEntries n r1 with
          | some (es, r2) => some ((name, .ns 0 sub) :: es, r2)
          | none => none
  | _, _ => none

def parseRules (s : String) : Option (List Rule) :=
  if s = "-" then none
  else if s = "()" then some []
  else some ((s.splitOn ",").map (fun r => r.splitOn "."))

def handle (line : String) : String :=
  match (line.trimAscii.toString.splitOn " ").filter (· ≠ "") with
  | ex :: inc :: cnt :: rest =>
      match cnt.toNat? with
      | none => "bad"
      | some n =>
        match parseEntries n rest with
        | some (ports, []) =>
            let out := absorbPorts (parseRules ex) (parseRules inc) ports
            " ".intercalate ((leafPaths out).map (".".intercalate ·))
        | _ => "bad"
  | _ => "bad"

partial def loop (h : IO.FS.Stream) : IO Unit := do
  let line ← h.getLine
  if line.isEmpty then return ()
  IO.println (handle line)
  loop h

def main : IO Unit := do loop (← IO.getStdin)
end DrvExpose
