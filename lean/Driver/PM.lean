import PlumpyModel.PM.Model
namespace DrvPM
open PMF

/-
Line protocol of the process-control model (`pmodel pm`).

  case <nfut>                                    start a new case with <nfut> pending external awaitables
  fn <id> <awaits> <outcome>                     declare a step function of the program
      outcome := cont <fn> <nargs> <int>* <nkw> <key>=<int>*
               | wait <fn> | waiton <fn> <n> <fut>:<key>* | stop <int|-> <0|1> | kill | raise <n>
  tick stepper | tick adone <f> | tick trykill   run one ready callback
  pause | play | kill | resume <int|-> | fail | cancelfut | complete <f> ok <int> | complete <f> exc <n>
  callsoon <ok|raise> | tick usercb <ok|raise>

`case` and `fn` lines are echoed; every other line prints the observation after the op.
-/

def showLabel (l : Label) : String := l.name

def showExc : Exc → String
  | .user n => s!"user{n}" | .invalidState => "InvalidStateError" | .noTransition _ _ => "RuntimeError"
  | .killedErr => "KilledError" | .assertion => "AssertionError" | .eventError => "EventError"
  | .closedErr => "ClosedError" | .alreadyRan => "InvalidStateError"

def showRet : RetV → String
  | .bool true => "T" | .bool false => "F" | .action _ => "fut" | .raised e => s!"raised:{showExc e}" | .none => "none"

def showFut : PFut → String
  | .pending => "pending" | .result => "result" | .exc e => s!"exc:{showExc e}" | .cancelled => "cancelled"

def showStatus : AStatus → String
  | .pending => "P" | .cancelled => "C" | .done => "D" | .failed _ => "E"

def showTask : Pc → String
  | .done => "done" | .crashed _ => "crashed" | _ => "pending"

def showNotif : Notif → String
  | .finished => "fin" | .excepted => "exc" | .killed => "kil" | .paused => "pau" | .played => "pla" | .running => "run" | .waiting => "wai"

def showAct (a : Act) : String :=
  s!"{a.fn}({",".intercalate (a.args.map toString)};{",".intercalate (a.kw.map fun p => s!"{p.1}={p.2}")})@{if a.paused then 1 else 0}"

def showOutcome (c : Cfg) : String :=
  match c.st with
  | .finished v ok => s!"finished:{match v with | some x => toString x | none => "-"}:{if ok then 1 else 0}"
  | .excepted e => s!"excepted:{showExc e}"
  | .killed => "killed"
  | _ => "live"

def obs (c : Cfg) (r : RetV) : String :=
  let b (x : Bool) := if x then "1" else "0"
  s!"ret={showRet r} st={showLabel c.st.label} paused={b c.paused.isSome} stepping={b c.stepping} closed={b c.closed} " ++
  s!"fut={showFut c.fut} task={showTask c.pc} acts={"".intercalate (c.handed.reverse.map fun i => showStatus (actionStatus c i))} " ++
  s!"trace={" ".intercalate (c.trace.reverse.map showAct)} notif={",".intercalate (c.notif.reverse.map showNotif)} " ++
  s!"cleanups={c.cleanups} ctx={",".intercalate ((c.ctx.toArray.qsort (fun a b => a.1 < b.1)).toList.map fun p => s!"{p.1}:{p.2}")} " ++
  s!"entered={",".intercalate (c.entered.reverse.map showLabel)} out={showOutcome c}"

def pOptInt (s : String) : Option (Option Int) := if s = "-" then some none else s.toInt?.map some

def pKw (s : String) : Option (Nat × Int) :=
  match s.splitOn "=" with
  | [k, v] => do some (← k.toNat?, ← v.toInt?)
  | _ => none

def pAw (s : String) : Option (Nat × Nat) :=
  match s.splitOn ":" with
  | [f, k] => do some (← f.toNat?, ← k.toNat?)
  | _ => none

def pOutcome : List String → Option Outcome
  | "cont" :: fn :: n :: rest => do
      let k ← n.toNat?
      let args ← (rest.take k).mapM (·.toInt?)
      match rest.drop k with
      | m :: rest' => do
          let j ← m.toNat?
          let kws ← (rest'.take j).mapM pKw
          some (.ret (.cont (← fn.toNat?) args kws))
      | [] => none
  | ["wait", fn] => do some (.ret (.wait (← fn.toNat?)))
  | "waiton" :: fn :: n :: rest => do
      let k ← n.toNat?
      let aw ← (rest.take k).mapM pAw
      some (.ret (.waitOn (← fn.toNat?) aw))
  | ["stop", v, ok] => do some (.ret (.stop (← pOptInt v) (ok = "1")))
  | ["kill"] => some (.ret .kill)
  | ["raise", n] => do some (.raise (.user (← n.toNat?)))
  | _ => none

abbrev Table := List (Nat × Body)

def progOfTable (t : Table) : Prog := fun fn _ _ _ =>
  match t.find? (·.1 = fn) with
  | some (_, b) => b
  | none => ⟨0, .ret (.stop none true)⟩

def parseEv (toks : List String) : Option Ev :=
  match toks with
  | ["tick", "stepper"] => some .tick
  | ["tick", "adone", f] => f.toNat?.map fun n => .tickCb (.adone n)
  | ["tick", "trykill"] => some (.tickCb .trykill)
  | ["tick", "usercb", r] => some (.tickCb (.usercb (r = "raise")))
  | ["callsoon", r] => some (.callSoon (r = "raise"))
  | ["pause"] => some .pause
  | ["play"] => some .play
  | ["kill"] => some .kill
  | ["resume", v] => (pOptInt v).map .resume
  | ["fail"] => some (.fail (.user 9))
  | ["cancelfut"] => some .cancelFut
  | ["complete", f, "ok", v] => do some (.complete (← f.toNat?) (.result (← v.toInt?)))
  | ["complete", f, "killed"] => do some (.complete (← f.toNat?) (.exc .killedErr))
  | ["complete", f, "exc", n] => do some (.complete (← f.toNat?) (.exc (.user (← n.toNat?))))
  | _ => none

partial def loop (h : IO.FS.Stream) (t : Table) (c : Cfg) : IO Unit := do
  let line ← h.getLine
  if line.isEmpty then return ()
  let toks := (line.trimAscii.toString.splitOn " ").filter (· ≠ "")
  match toks with
  | ["case", nf] =>
      IO.println s!"case {nf}"
      loop h [] (init (nf.toNat?.getD 0))
  | "fn" :: id :: aw :: rest =>
      match id.toNat?, aw.toNat?, pOutcome rest with
      | some i, some a, some o => IO.println s!"fn {i}"; loop h (t ++ [(i, ⟨a, o⟩)]) c
      | _, _, _ => IO.println "bad-fn"; loop h t c
  | _ =>
    match parseEv toks with
    | none => IO.println "bad-op"; loop h t c
    | some ev =>
      let (c', r) := step (progOfTable t) c ev
      IO.println (obs c' r)
      loop h t c'

def main : IO Unit := do loop (← IO.getStdin) [] (init 0)
end DrvPM
