import PlumpyModel.PM.Model
namespace DrvPM
open PMF

def showLabel : Label → String
  | .created => "created" | .running => "running" | .waiting => "waiting"
  | .finished => "finished" | .excepted => "excepted" | .killed => "killed"

def showExc : Exc → String
  | .user n => s!"user{n}" | .invalidState => "InvalidStateError" | .noTransition _ _ => "RuntimeError"
  | .killedErr => "KilledError" | .assertion => "AssertionError" | .eventError => "EventError"
  | .closedErr => "ClosedError" | .alreadyRan => "InvalidStateError"

def showRet : RetV → String
  | .bool true => "T" | .bool false => "F" | .action _ => "fut" | .raised e => s!"raised:{showExc e}" | .none => "none"

def showFut : PFut → String
  | .pending => "pending" | .result => "result" | .exc e => s!"exc:{showExc e}" | .cancelled => "cancelled"

def showStatus : AStatus → String
  | .pending => "P" | .cancelled => "C" | .done => "D" | .failed _ => "E"

def showTask : Pc → String
  | .done => "done" | .crashed _ => "crashed" | _ => "pending"

def showNotif : Notif → String
  | .finished => "fin" | .excepted => "exc" | .killed => "kil" | .paused => "pau" | .played => "pla" | .running => "run" | .waiting => "wai"

def showAct (a : Act) : String :=
  s!"{a.fn}({",".intercalate (a.args.map toString)};{",".intercalate (a.kw.map fun p => s!"{p.1}={p.2}")})@{if a.paused then 1 else 0}"

def obs (c : Cfg) (r : RetV) : String :=
  let b (x : Bool) := if x then "1" else "0"
  s!"ret={showRet r} st={showLabel c.st.label} paused={b c.paused.isSome} stepping={b c.stepping} closed={b c.closed} " ++
  s!"fut={showFut c.fut} task={showTask c.pc} acts={"".intercalate (c.handed.reverse.map fun i => showStatus (actionStatus c i))} " ++
  s!"trace={" ".intercalate (c.trace.reverse.map showAct)} notif={",".intercalate (c.notif.reverse.map showNotif)} " ++
  s!"cleanups={c.cleanups} ctx={",".intercalate (c.ctx.map fun p => s!"{p.1}:{p.2}")} entered={",".intercalate (c.entered.reverse.map showLabel)}"

def parseEv (toks : List String) : Option Ev :=
  match toks with
  | ["tick", "stepper"] => some .tick
  | ["tick", "adone", f] => f.toNat?.map fun n => .tickCb (.adone n)
  | ["tick", "trykill"] => some (.tickCb .trykill)
  | ["pause"] => some .pause
  | ["play"] => some .play
  | ["kill"] => some .kill
  | ["resume"] => some (.resume (some 5))
  | ["fail"] => some (.fail (.user 9))
  | ["cancelfut"] => some .cancelFut
  | ["complete"] => some (.complete 0 (.result 11))
  | _ => none

partial def loop (h : IO.FS.Stream) (P : Prog) (c : Cfg) : IO Unit := do
  let line ← h.getLine
  if line.isEmpty then return ()
  let toks := (line.trimAscii.toString.splitOn " ").filter (· ≠ "")
  match toks with
  | ["case", name] =>
      IO.println s!"case {name}"
      loop h (progOf name) (init name)
  | _ =>
    match parseEv toks with
    | none => IO.println "bad-op"; loop h P c
    | some ev =>
      let (c', r) := step P c ev
      IO.println (obs c' r)
      loop h P c'

def main : IO Unit := do loop (← IO.getStdin) (progOf "") {}
end DrvPM
