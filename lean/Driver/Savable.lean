import PlumpyModel.Savable.Model
namespace DrvSavable
open Sav

/-
line grammar (whitespace separated tokens, fixed order):
  line   := M <module> F <nclasses> <nmethods> D <k> decl{k} G <D|X> S <ldr> H <D|X> L <ldr> T <tamper> O val
  decl   := (d|c) <cls> <j> name{j}             d = decorator, c = classmethod; applied in the order given
  ldr    := - | D | X | Y                       save context loader / load context loader (- = no loader in the context)
  G / H  := global loader while saving / while loading
  tamper := none | cls | nocls | ldr | noldr | nested      applied to the saved state before loading
  val    := p <json> | m <0|1> <name> | o <cls> <k> (name val){k} | fp | fc | fe <exc> | fr val
output:
  fam=<own bits>|K0:<members|->;K1:… save=<state|err:E> via=<D|X|Y|-> load=<value|err:E|->
-/

partial def pVal : List String → Option (Val × List String)
  | "p" :: t :: r => some (.plain t, r)
  | "m" :: o :: n :: r => some (.method (o == "1") n, r)
  | "fp" :: r => some (.futPending, r)
  | "fc" :: r => some (.futCancelled, r)
  | "fe" :: e :: r => some (.futExc e, r)
  | "fr" :: r => do let (v, r') ← pVal r; some (.futResult v, r')
  | "o" :: c :: k :: r => do
      let c ← c.toNat?
      let k ← k.toNat?
      let rec attrs : Nat → List String → List (Name × Val) → Option (List (Name × Val) × List String)
        | 0, r, acc => some (acc.reverse, r)
        | n + 1, name :: r, acc => do let (v, r') ← pVal r; attrs n r' ((name, v) :: acc)
        | _, _, _ => none
      let (a, r') ← attrs k r []
      some (.obj c a, r')
  | _ => none

partial def pDecls : Nat → List String → List Decl → Option (List Decl × List String)
  | 0, r, acc => some (acc.reverse, r)
  | n + 1, kind :: c :: j :: r, acc => do
      let k ← (if kind == "d" then some DeclKind.decorator else if kind == "c" then some DeclKind.classmethod else none)
      let c ← c.toNat?
      let j ← j.toNat?
      if r.length < j then none else
      pDecls n (r.drop j) (⟨k, c, r.take j⟩ :: acc)
  | _, _, _ => none

def naming (mod : String) : Naming where
  modOf
    | .future => "plumpy.persistence"
    | .loaderCls 0 => "plumpy.loaders"
    | _ => mod
  nameOf
    | .cls c => "K" ++ toString c
    | .future => "SavableFuture"
    | .loaderCls 0 => "DefaultObjectLoader"
    | .loaderCls 1 => "LoaderX"
    | .loaderCls _ => "LoaderY"
    | .other n => "other" ++ toString n

def registry (n : Nat) : List PyObj :=
  (List.range n).map .cls ++ [.future, .loaderCls 0, .loaderCls 1, .loaderCls 2]

def loaderD (mod : String) (n : Nat) : Loader := regLoader 0 (naming mod).default (registry n)
def loaderX (mod : String) (n : Nat) : Loader := regLoader 1 ((naming mod).custom "cx") (registry n)
def loaderY (mod : String) (n : Nat) : Loader := regLoader 2 ((naming mod).custom "cy") (registry n)

def pickLoader (mod : String) (n : Nat) : String → Option (Option Loader)
  | "-" => some none
  | "D" => some (some (loaderD mod n))
  | "X" => some (some (loaderX mod n))
  | "Y" => some (some (loaderY mod n))
  | _ => none

def loaderName (l : Nat) : String := if l = 0 then "D" else if l = 1 then "X" else "Y"

def world (mod : String) (n nmeth : Nat) (fam : Fam) (g : Loader) : World where
  fam := fam
  methods := fun _ => (List.range nmeth).map fun i => "m" ++ toString i
  global := g
  instantiate := fun l => if l = 0 then loaderD mod n else if l = 1 then loaderX mod n else loaderY mod n

def unknownIdent (mod : String) : Ident := mod ++ ":Nope"

/-- the smallest key among the top-level entries that hold a nested saved state -/
def firstNestedKey (entries : List (Name × SVal)) : Option Name :=
  entries.foldl (fun best (k, v) =>
    match v with
    | .state .. => (match best with | none => some k | some b => if k < b then some k else some b)
    | _ => best) none

def tamper (mod : String) (t : String) : SVal → Option SVal
  | .state cls rec types entries =>
    match t with
    | "none" => some (.state cls rec types entries)
    | "cls" => some (.state (some (unknownIdent mod)) rec types entries)
    | "nocls" => some (.state none rec types entries)
    | "ldr" => some (.state cls (some (unknownIdent mod)) types entries)
    | "noldr" => some (.state cls none types entries)
    | "nested" =>
      match firstNestedKey entries with
      | none => some (.state cls rec types entries)
      | some k => some (.state cls rec types (entries.map fun (k', v) =>
          if k' = k then
            (match v with
             | .state _ r t e => (k', .state (some (unknownIdent mod)) r t e)
             | v => (k', v))
          else (k', v)))
    | _ => none
  | _ => none

def renderFam (n : Nat) (F : Fam) : String :=
  let bits := String.join ((List.range n).map fun c => if ((F.own[c]?).join).isSome then "1" else "0")
  let sets := ";".intercalate ((List.range n).map fun c =>
    "K" ++ toString c ++ ":" ++ (match F.eff c with
      | none => "-"
      | some ms => renderKV "" (ms.map fun m => (m, ""))))
  bits ++ "|" ++ sets

def errStr (e : Err) : String := "err:" ++ e.name

def handle (line : String) : String :=
  let toks := (line.trimAscii.toString.splitOn " ").filter (· ≠ "")
  let res : Option String := do
    match toks with
    | "M" :: mod :: "F" :: n :: nm :: "D" :: k :: rest =>
      let n ← n.toNat?
      let nm ← nm.toNat?
      let k ← k.toNat?
      let (ds, rest) ← pDecls k rest []
      match rest with
      | "G" :: g :: "S" :: s :: "H" :: h :: "L" :: l :: "T" :: t :: "O" :: rest =>
        let (o, rest) ← pVal rest
        if !rest.isEmpty then none else
        let gS ← (← pickLoader mod n g)
        let gL ← (← pickLoader mod n h)
        let sctx ← pickLoader mod n s
        let lctx ← pickLoader mod n l
        let fam := Fam.build n ds
        let famStr := "fam=" ++ renderFam n fam
        let WS := world mod n nm fam gS
        let WL := world mod n nm fam gL
        match save WS sctx o with
        | .error e => some (famStr ++ " save=" ++ errStr e ++ " via=- load=-")
        | .ok st =>
          let st' ← tamper mod t st
          let via := match ensureLoader WL lctx st'.recorded, st' with
            | .ok L, .state (some _) _ _ _ => loaderName L.cls
            | _, _ => "-"
          let ld := match load WL lctx st' with
            | .ok v => v.render
            | .error e => errStr e
          some (famStr ++ " save=" ++ st.render ++ " via=" ++ via ++ " load=" ++ ld)
      | _ => none
    | _ => none
  res.getD "bad"

partial def loop (h : IO.FS.Stream) : IO Unit := do
  let line ← h.getLine
  if line.isEmpty then return ()
  IO.println (handle line)
  loop h

def main : IO Unit := do loop (← IO.getStdin)
end DrvSavable
