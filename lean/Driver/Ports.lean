import PlumpyModel.Ports.Model
namespace DrvPorts
open Ports

/-
token grammar (prefix):
  value : A <ty> <id> | D <n> (<key> value)*
  optv  : - | value
  optn  : - | <nat>
  port  : L <req> <optn:type> <optv:default> <optn:validator>
        | N <req> <optn:type> <optv:default> <dyn> <pop> <optn:validator> <n> (<name> port)*
  line  : <top-dyn> <optn:top-type> <n> (<name> port)* RAW value
-/

partial def pValue : List String → Option (V × List String)
  | "A" :: t :: i :: rest => do some (.atom (← t.toNat?) (← i.toNat?), rest)
  | "D" :: n :: rest => do
      let k ← n.toNat?
      let rec go : Nat → List String → List (String × V) → Option (List (String × V) × List String)
        | 0, r, acc => some (acc.reverse, r)
        | m+1, key :: r, acc => do let (v, r') ← pValue r; go m r' ((key, v) :: acc)
        | _, _, _ => none
      let (items, r) ← go k rest []
      some (.dict items, r)
  | _ => none

def pOptV : List String → Option (Option V × List String)
  | "-" :: rest => some (none, rest)
  | toks => (pValue toks).map fun (v, r) => (some v, r)

def pOptN : List String → Option (Option Nat × List String)
  | "-" :: rest => some (none, rest)
  | n :: rest => n.toNat?.map fun k => (some k, rest)
  | [] => none

def pBool : List String → Option (Bool × List String)
  | "1" :: rest => some (true, rest) | "0" :: rest => some (false, rest) | _ => none

partial def pPort : List String → Option (Port × List String)
  | "L" :: rest => do
      let (req, r) ← pBool rest; let (ty, r) ← pOptN r; let (d, r) ← pOptV r; let (vd, r) ← pOptN r
      some (.leaf { required := req, validType := ty, default := d, validator := vd }, r)
  | "N" :: rest => do
      let (req, r) ← pBool rest; let (ty, r) ← pOptN r; let (d, r) ← pOptV r
      let (dyn, r) ← pBool r; let (pop, r) ← pBool r; let (vd, r) ← pOptN r
      let (ports, r) ← pPorts r
      some (.ns { required := req, validType := ty, default := d, dynamic := dyn, populate := pop, validator := vd } ports, r)
  | _ => none
where
  pPorts : List String → Option (List (String × Port) × List String)
    | n :: rest => do
        let k ← n.toNat?
        let rec go : Nat → List String → List (String × Port) → Option (List (String × Port) × List String)
          | 0, r, acc => some (acc.reverse, r)
          | m+1, name :: r, acc => do let (p, r') ← pPort r; go m r' ((name, p) :: acc)
          | _, _, _ => none
        go k rest []
    | [] => none

partial def showV : V → String
  | .atom t i => s!"A{t}:{i}"
  | .dict items =>
      let sorted := items.toArray.qsort (fun a b => a.1 < b.1) |>.toList
      "{" ++ ",".intercalate (sorted.map fun (k, v) => s!"{k}={showV v}") ++ "}"

def handle (line : String) : String :=
  let toks := (line.trimAscii.toString.splitOn " ").filter (· ≠ "")
  match (do
    let (dyn, r) ← pBool toks; let (ty, r) ← pOptN r
    let (ports, r) ← pPort.pPorts r
    match r with
    | "RAW" :: r' => do
        let (raw, r'') ← pValue r'
        if r''.isEmpty then some (dyn, ty, ports, raw) else none
    | _ => none) with
  | none => "bad"
  | some (dyn, ty, ports, raw) =>
      let top : NsA := { required := true, validType := ty, default := none, dynamic := dyn, populate := true, validator := none }
      match raw with
      | .dict items =>
          match construct top ports items with
          | .ok parsed => "ok " ++ showV (.dict parsed)
          | .error _ => "err"
      | _ => "bad"

partial def loop (h : IO.FS.Stream) : IO Unit := do
  let line ← h.getLine
  if line.isEmpty then return ()
  IO.println (handle line)
  loop h

def main : IO Unit := do loop (← IO.getStdin)
end DrvPorts
