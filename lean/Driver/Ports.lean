import PlumpyModel.Ports.Model
namespace DrvPorts
open Ports

/-
`pmodel ports` (C11): one case per line, one observation per line.

token grammar (prefix, whitespace separated):
  value : A <ty> <id> | D <n> (<key> value)* | F <n> (<key> value)*      (F: a frozen mapping)
  optv  : - | value
  optn  : - | <nat>
  port  : L <req> <optn:type> <optv:default> <callable> <optn:validator>
        | N <req> <optn:type> <optv:default> <dyn> <pop> <optn:validator> <n> (<name> port)*
  top   : <req> <dyn> <optn:type> <optn:validator> <n> (<name> port)*
  line  : top RAW value
observation: `define-err` | `ok <tree>` | `err TypeError` | `err ValueError <port path>`
tree: atoms `A<ty>:<id>`, plain dicts `{k=v,...}`, frozen mappings `<k=v,...>`, keys sorted.
-/

partial def pValue : List String → Option (V × List String)
  | "A" :: t :: i :: rest => do some (.atom (← t.toNat?) (← i.toNat?), rest)
  | d :: n :: rest => do
      if d ≠ "D" ∧ d ≠ "F" then none
      let k ← n.toNat?
      let rec go : Nat → List String → List (String × V) → Option (List (String × V) × List String)
        | 0, r, acc => some (acc.reverse, r)
        | m+1, key :: r, acc => do let (v, r') ← pValue r; go m r' ((key, v) :: acc)
        | _, _, _ => none
      let (items, r) ← go k rest []
      some (.dict (d == "F") items, r)
  | _ => none

def pOptV : List String → Option (Option V × List String)
  | "-" :: rest => some (none, rest)
  | toks => (pValue toks).map fun (v, r) => (some v, r)

def pOptN : List String → Option (Option Nat × List String)
  | "-" :: rest => some (none, rest)
  | n :: rest => n.toNat?.map fun k => (some k, rest)
  | [] => none

def pBool : List String → Option (Bool × List String)
  | "1" :: rest => some (true, rest) | "0" :: rest => some (false, rest) | _ => none

partial def pPort : List String → Option (Port × List String)
  | "L" :: rest => do
      let (req, r) ← pBool rest; let (ty, r) ← pOptN r; let (d, r) ← pOptV r; let (c, r) ← pBool r; let (vd, r) ← pOptN r
      some (.leaf { required := req, validType := ty, default := d, callable := c, validator := vd }, r)
  | "N" :: rest => do
      let (req, r) ← pBool rest; let (ty, r) ← pOptN r; let (d, r) ← pOptV r
      let (dyn, r) ← pBool r; let (pop, r) ← pBool r; let (vd, r) ← pOptN r
      let (ports, r) ← pPorts r
      some (.ns { required := req, validType := ty, default := d, dynamic := dyn, populate := pop, validator := vd } ports, r)
  | _ => none
where
  pPorts : List String → Option (List (String × Port) × List String)
    | n :: rest => do
        let k ← n.toNat?
        let rec go : Nat → List String → List (String × Port) → Option (List (String × Port) × List String)
          | 0, r, acc => some (acc.reverse, r)
          | m+1, name :: r, acc => do let (p, r') ← pPort r; go m r' ((name, p) :: acc)
          | _, _, _ => none
        go k rest []
    | [] => none

/-- the top-level namespace: attributes and ports -/
def pTop (toks : List String) : Option (NsA × PortList × List String) := do
  let (req, r) ← pBool toks; let (dyn, r) ← pBool r; let (ty, r) ← pOptN r; let (vd, r) ← pOptN r
  let (ports, r) ← pPort.pPorts r
  some ({ required := req, validType := ty, default := none, dynamic := dyn, populate := true, validator := vd }, ports, r)

partial def showV : V → String
  | .atom t i => s!"A{t}:{i}"
  | .dict fr items =>
      let sorted := items.toArray.qsort (fun a b => a.1 < b.1) |>.toList
      (if fr then "<" else "{") ++ ",".intercalate (sorted.map fun (k, v) => s!"{k}={showV v}") ++ (if fr then ">" else "}")

def theVd (n : Nat) (v : V) : Bool := v.mentions n

def showErr : Err → String
  | .typeError => "TypeError"
  | .valueError => "ValueError"
  | .attributeError => "AttributeError"
  | .validation p => s!"ValueError {p}"

def tokens (line : String) : List String := (line.trimAscii.toString.splitOn " ").filter (· ≠ "")

def handle (line : String) : String :=
  match (do
    let (top, ports, r) ← pTop (tokens line)
    match r with
    | "RAW" :: r' => do
        let (raw, r'') ← pValue r'
        if r''.isEmpty then some (top, ports, raw) else none
    | _ => none) with
  | none => "bad"
  | some (top, ports, raw) =>
      if !defineOk theVd ports then "define-err" else
      match raw with
      | .dict _ items =>
          match construct theVd top ports items with
          | .ok parsed => "ok " ++ showV parsed
          | .error e => "err " ++ showErr e
      | _ => "bad"

partial def loop (h : IO.FS.Stream) (f : String → String) : IO Unit := do
  let line ← h.getLine
  if line.isEmpty then return ()
  IO.println (f line)
  loop h f

def main : IO Unit := do loop (← IO.getStdin) handle
end DrvPorts
