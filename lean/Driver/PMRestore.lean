import PlumpyModel.Persist.Reload
import Driver.PM
namespace DrvPMRestore
open PMF

/-
`pmodel pmr` — the line protocol of `pmodel pm` (same `case` / `fn` lines, same ops, same observation line after every op) plus

  checkpoint <k> <m>     during the next callback of the stepping task, at the state entry that makes the ENTERED log of the
                         instance <k> entries long, a bundle is taken (`checkpointAt`, lean/PlumpyModel/Persist/Reload.lean);
                         the instance is abandoned and the bundle is loaded in a fresh event loop whose environment holds <m>
                         pending external futures (`restoreCfgN m`).  Prints the observation of the restored instance
                         (`ret=none`), or `bad-checkpoint` (and keeps the configuration) when that entry is not reached at a
                         step boundary.

  checkpointnow <m>      the bundle is taken BETWEEN two callbacks, from the configuration as it is (`saveCfg`; live processes only,
                         else `bad-checkpoint`), and loaded as above.  Whatever a bundle does not keep is lost: a pending pause /
                         kill action, scheduled callbacks, a step in flight (the restored instance runs that step again).
  quiescent              prints `ready=<callbacks still scheduled in the model>`: sent when the real event loop has nothing left to
                         run, where the answer must be `ready=` (a callback the model has scheduled and the real loop has not —
                         e.g. `try_killing` after `cancelfut` — would otherwise go unnoticed: the harness only names the
                         callbacks that the real loop runs)

Every later op acts on the restored instance (the theorems `C04_restored_*` of lean/PlumpyModel/Props/C04.lean are about
exactly these histories: any events after `restoreCfgN m b`).
-/

def showCb : Cb → String
  | .adone f => s!"adone {f}" | .trykill => "trykill" | .usercb r => s!"usercb {if r then "raise" else "ok"}"

partial def loop (h : IO.FS.Stream) (t : DrvPM.Table) (c : Cfg) : IO Unit := do
  let line ← h.getLine
  if line.isEmpty then return ()
  let toks := (line.trimAscii.toString.splitOn " ").filter (· ≠ "")
  match toks with
  | ["case", nf] =>
      IO.println s!"case {nf}"
      loop h [] (init (nf.toNat?.getD 0))
  | "fn" :: id :: aw :: rest =>
      match id.toNat?, aw.toNat?, DrvPM.pOutcome rest with
      | some i, some a, some o => IO.println s!"fn {i}"; loop h (t ++ [(i, ⟨a, o⟩)]) c
      | _, _, _ => IO.println "bad-fn"; loop h t c
  | ["quiescent"] =>
      IO.println s!"ready={",".intercalate (c.ready.map showCb)}"
      loop h t c
  | ["checkpointnow", m] =>
      match m.toNat? with
      | some m =>
        if live c then
          let c' := restoreCfgN m (saveCfg c)
          IO.println (DrvPM.obs c' .none)
          loop h t c'
        else IO.println "bad-checkpoint"; loop h t c
      | none => IO.println "bad-op"; loop h t c
  | ["checkpoint", k, m] =>
      match k.toNat?, m.toNat? with
      | some k, some m =>
        match checkpointAt (DrvPM.progOfTable t) c k with
        | some b =>
            let c' := restoreCfgN m b
            IO.println (DrvPM.obs c' .none)
            loop h t c'
        | none => IO.println "bad-checkpoint"; loop h t c
      | _, _ => IO.println "bad-op"; loop h t c
  | _ =>
    match DrvPM.parseEv toks with
    | none => IO.println "bad-op"; loop h t c
    | some ev =>
      let (c', r) := step (DrvPM.progOfTable t) c ev
      IO.println (DrvPM.obs c' r)
      loop h t c'

def main : IO Unit := do loop (← IO.getStdin) [] (init 0)
end DrvPMRestore
