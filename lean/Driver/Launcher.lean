import PlumpyModel.Launcher.Model
namespace DrvLauncher
open Launcher

/-
`pmodel launcher`: a stateful model launcher, one input line -> one observation line.

  case <none|mem|pickle> <default|custom|split|custom+ctx|custom+ctxdefault|ctxloader|ctx>
        new launcher, empty persister.  `custom`: `ProcessLauncher(loader=L)` and `InMemoryPersister(loader=L)`;
        `split`: `ProcessLauncher()` (no loader) with `InMemoryPersister(loader=L)`;
        `custom+ctx`: `custom` plus `load_context=LoadSaveContext(loop=…)`;
        `custom+ctxdefault`: `custom` plus `load_context=LoadSaveContext(loader=<the default loader>)`;
        `ctxloader`: `ProcessLauncher(load_context=LoadSaveContext(loader=L))` with `InMemoryPersister(loader=L)`;
        `ctx`: `ProcessLauncher(load_context=LoadSaveContext(loop=…))`, no loader anywhere.      -> `case`
  ckpt <Cls> <n|none> (<j> <tag|none>)+
        (harness-made checkpoints) construct ONE `Cls`; for each pair step it until `j` `Process.step()` iterations have
        been performed in total, then save it under `tag`
                                                                                                   -> `ckpt #k keys=…`
  t <type|~> <A|N|X> <ident|~> <n|none|~> <persist 0|1|~> <nowait 0|1|~> <pid #k|?|~> <tag name|none|~> <act ~|kill|resume>
        a task body; `~` = key absent; A/N/X = the `args` entry is a dict / absent / not a dict.
        `act`: what the environment does to the process of this task once it WAITS (class `Hold` waits until then).
        identifiers: `d.<Cls>` (the default loader's identifier of the class), `a.<Cls>` (known to the custom loader only),
        anything else is unknown to both                                                          -> observation line

observation:  <reply> keys=<#k/tag,…> now=<#k:event,…> later=<#k:event,…>      (`-` for an empty list)
  reply := pid:#k | out:<name>=<int>,… | err:<ExceptionClass> | rejected

Concrete runtime (mirrors harness/launcher_procs.py): per class the user step run in each `Process.step()` iteration.
-/

def iterations (cls : ClassId) : List (Option String) :=
  if cls = "Out" ∨ cls = "Alt" ∨ cls = "Raise" then [none, some "run"]
  else if cls = "Steps" then [none, some "run", some "s2", some "s3"]
  else if cls = "Wait" ∨ cls = "Hold" then [none, some "run", none, some "s2"]
  else []

def classes : List ClassId := ["Out", "Alt", "Raise", "Steps", "Wait", "Hold", "Bad"]

/-- what the environment does to a process that waits for it -/
inductive Act where
  | none | kill | resume
  deriving DecidableEq

/-- a `Hold` process that has not got past its wait (iteration 2) stays there until the environment acts -/
def holds (p : Proc) : Bool := p.cls = "Hold" && p.pos ≤ 2

def argN (init : CtorArgs) : Int :=
  match init.2 with
  | .dict kv => match lookup "inputs" kv with
    | some (.dict kv') => match lookup "n" kv' with
      | some (.int n) => n
      | _ => 0
    | _ => 0
  | _ => 0

def runtime (act : Act) : Runtime where
  construct cls _ := if cls = "Bad" then .error "RuntimeError" else .ok ()
  complete p :=
    if holds p then
      match act with
      | .kill => .killed
      | .resume => .outputs [("final", argN p.init), ("partial", argN p.init)]
      | .none => .raised "NeverTerminates"   -- the harness never leaves a waiting process alone
    else if p.cls = "Hold" then .outputs [("final", argN p.init), ("partial", argN p.init)] else
    -- the outputs are emitted by `run` (iteration 1): by the class that ran it, before or after the checkpoint
    let emitter := if p.pos ≥ 2 then p.origin else p.cls
    if emitter = "Raise" then .raised "ValueError"
    else if emitter = "Alt" then .outputs [("alt", argN p.init)]
    else .outputs [("v", argN p.init)]

def stripPrefix (pre s : String) : Option String :=
  if s.startsWith pre then some (s.drop pre.length).toString else none

def loaders : Loaders where
  load k ident :=
    let dflt := (stripPrefix "d." ident).filter (classes.contains ·)
    match k with
    | .default => dflt
    | .fresh => dflt      -- a default-constructed instance of the custom loader's class knows no aliases
    | .custom =>
      match stripPrefix "a." ident with
      | some c => if classes.contains c then some c else none
      | none => if ident = "d.Out" then some "Alt" else dflt
  identify k cls :=
    match k with
    | .default => "d." ++ cls
    | .fresh => "d." ++ cls
    | .custom => if cls = "Out" then "a.Out" else "d." ++ cls

def showTag : Tag → String
  | none => "-"
  | some t => t

def showList (l : List String) : String := if l.isEmpty then "-" else ",".intercalate l

def showKeys (s : Store) : String :=
  let ks := s.keys.map (fun k => (k.1, showTag k.2))
  let sorted := ks.toArray.qsort (fun a b => a.1 < b.1 || (a.1 == b.1 && a.2 < b.2)) |>.toList
  showList (sorted.map fun k => s!"#{k.1}/{k.2}")

def showEvent (act : Act) : Event → List String
  | .constructed p => [s!"#{p.pid}:create:{p.cls}"]
  | .recreated p => [s!"#{p.pid}:load:{p.cls}"]
  | .ran p =>
    -- a killed `Hold` process runs what comes before its wait only
    let its := if holds p && act = .kill then (iterations p.cls).take 2 else iterations p.cls
    (its.drop p.pos).filterMap (fun o => o.map fun n => s!"#{p.pid}:{n}")
  | _ => []

def showEvents (act : Act) (l : List Event) : String := showList (l.flatMap (showEvent act))

def showErr (cfg : Config) : Err → String
  | .missingTaskKey => "KeyError"
  | .badArguments => "TypeError"
  | .badValue => "BadValue"
  | .unknownIdentifier => "ValueError"
  | .noCheckpoint => match cfg.persister with
    | some .pickle => "FileNotFoundError"
    | _ => "KeyError"
  | .ctor e => e
  | .proc e => e
  | .killed => "KilledError"

def showReply (cfg : Config) : Reply → String
  | .pid p => s!"pid:#{p}"
  | .outputs o => "out:" ++ showList (o.map fun kv => s!"{kv.1}={kv.2}")
  | .error e => "err:" ++ showErr cfg e
  | .rejected => "rejected"

def showStep (cfg : Config) (act : Act) (st : Step) : String :=
  s!"{showReply cfg st.reply} keys={showKeys st.st.pers} now={showEvents act st.now} later={showEvents act st.later}"

def pAct (s : String) : Option Act :=
  if s = "~" then some .none else if s = "kill" then some .kill else if s = "resume" then some .resume else none

def pBool (s : String) : Option (Option Val) :=
  if s = "~" then some none else if s = "0" then some (some (.bool false)) else if s = "1" then some (some (.bool true)) else none

def pInit (s : String) : Option (List (String × Val)) :=
  if s = "~" then some []
  else if s = "none" then some [(Gen.comms_args_key, .none), (Gen.comms_kwargs_key, .none)]
  else s.toInt?.map fun n =>
    [(Gen.comms_args_key, .none), (Gen.comms_kwargs_key, .dict [("inputs", .dict [("n", .int n)])])]

def pPid (s : String) : Option (Option Val) :=
  if s = "~" then some none
  else if s = "?" then some (some (.str "?"))
  else (stripPrefix "#" s).bind (·.toNat?) |>.map (fun n => some (.pid n))

def pTagVal (s : String) : Option Val := if s = "~" then none else if s = "none" then some .none else some (.str s)

def entry (k : String) (v : Option Val) : List (String × Val) := match v with | some x => [(k, x)] | none => []

/-- the task body denoted by a `t` line -/
def pBody : List String → Option Dict
  | [ty, ak, ident, n, persist, nowait, pid, tag] => do
    let p ← pBool persist
    let w ← pBool nowait
    let init ← pInit n
    let pd ← pPid pid
    let args : Dict :=
      entry Gen.comms_process_class_key (if ident = "~" then none else some (.str ident)) ++
      entry Gen.comms_persist_key p ++ entry Gen.comms_nowait_key w ++ init ++
      entry Gen.comms_pid_key pd ++ entry Gen.comms_tag_key (pTagVal tag)
    let argsEntry ← if ak = "A" then some [(Gen.comms_task_args, Val.dict args)]
                    else if ak = "N" then some []
                    else if ak = "X" then some [(Gen.comms_task_args, Val.int 5)]
                    else none
    some ((if ty = "~" then [] else [(Gen.comms_task_key, Val.str ty)]) ++ argsEntry)
  | _ => none

def pConfig : List String → Option Config
  | [p, l] => do
    -- (launcher loader, persister loader, loader in the caller's load context)
    let lk : Option LoaderKind × Option LoaderKind × Option LoaderKind ←
      if l = "default" ∨ l = "ctx" then some (none, none, none)
      else if l = "custom" ∨ l = "custom+ctx" then some (some .custom, some .custom, none)
      else if l = "custom+ctxdefault" then some (some .custom, some .custom, some .default)
      else if l = "split" then some (none, some .custom, none)
      else if l = "ctxloader" then some (none, some .custom, some .custom)
      else none
    let pers ← if p = "none" then some none else if p = "mem" then some (some (PersKind.mem lk.2.1))
               else if p = "pickle" then some (some PersKind.pickle) else none
    some { persister := pers, loader := lk.1, ctxLoader := lk.2.2 }
  | _ => none

/-- `(j tag)+` -/
def pPairs : List String → Option (List (Nat × Tag))
  | [] => some []
  | j :: tag :: r => do
    let jn ← j.toNat?
    let rest ← pPairs r
    some ((jn, if tag = "none" then none else some tag) :: rest)
  | _ => none

/-- the harness steps ONE process further and further and saves it under each tag: the position never decreases and
stops at the end of the program -/
def saveAll (cfg : Config) (pid : Pid) (cls : ClassId) (init : CtorArgs) : List (Nat × Tag) → Nat → Store → Store
  | [], _, s => s
  | (j, tg) :: r, done, s =>
    let pos := min (max done j) (iterations cls).length
    saveAll cfg pid cls init r pos (s.put (pid, tg) (bundle loaders cfg.saveLoader { pid := pid, cls := cls, origin := cls, init := init, pos := pos }))

structure Sess where
  cfg : Config := { persister := none, loader := none, ctxLoader := none }
  st : State := { pers := [], next := 0 }

def handle (ss : Sess) (line : String) : Sess × String :=
  let toks := (line.trimAscii.toString.splitOn " ").filter (· ≠ "")
  match toks with
  | "case" :: rest =>
    match pConfig rest with
    | some cfg => ({ cfg := cfg, st := { pers := [], next := 0 } }, "case")
    | none => (ss, "bad")
  | "ckpt" :: cls :: n :: pairs =>
    match pInit n, pPairs pairs with
    | some init, some ps =>
      if !classes.contains cls || cls = "Bad" || ps.isEmpty then (ss, "bad") else
      let pid := ss.st.next
      let pers := if ss.cfg.persister.isSome then saveAll ss.cfg pid cls (ctorArgs init) ps 0 ss.st.pers else ss.st.pers
      ({ ss with st := { pers := pers, next := pid + 1 } }, s!"ckpt #{pid} keys={showKeys pers}")
    | _, _ => (ss, "bad")
  | "t" :: rest =>
    match pBody (rest.take 8), (rest.drop 8 : List String) with
    | some body, [a] =>
      match pAct a with
      | some act =>
        let r := call ss.cfg loaders (runtime act) ss.st body
        ({ ss with st := r.st }, showStep ss.cfg act r)
      | none => (ss, "bad")
    | _, _ => (ss, "bad")
  | _ => (ss, "bad")

partial def loop (h : IO.FS.Stream) (ss : Sess) : IO Unit := do
  let line ← h.getLine
  if line.isEmpty then return ()
  let (ss', out) := handle ss line
  IO.println out
  loop h ss'

def main : IO Unit := do loop (← IO.getStdin) {}
end DrvLauncher
