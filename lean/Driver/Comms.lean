import PlumpyModel.Comms.Model
import Driver.PM
namespace DrvComms
open PMF Comms

/-
line protocol (whitespace separated tokens, one observation line per input line):

  case <prog> <fail>          prog: a program of `Comms.progOf`; fail: `-` | `<idx>:<ExceptionClass>` (broadcast_send raises it
                              at that transition index)         -> observation of the construction
  tick stepper | tick trykill | tick adone <f>                  a callback of the process ran
  tick recv <id>              the subscriber callback of message <id> ran (message_receive / broadcast_receive)
  tick call <id>              the callback scheduled by _schedule_rpc for message <id> ran
  rpc <intent>                rpc_send(pid, {intent: <intent>})
  bcast <subject>             broadcast_send(body, subject=<subject>)
  direct pause|play|kill|status      the direct call
  env resume                  process.resume(5) (not part of remote control; needed by the wait/resume programs)
  end                         -> `replies=<id>:<value>,… announced=<n> blog=<idx>:<subject>:<sender>,…`

observation: `ret=<r> st=<label> paused=<0|1> fut=<…> task=<pending|done|crashed> sub=<rpc><bc> blog+=<subject,…|->`
or `hookfail` when a non-tolerated exception left on_entered during this op (the modelled run ends there; later ops print `dead`).
-/

def b01 (x : Bool) : String := if x then "1" else "0"

def showCall : Call → String
  | .play => "play" | .pause => "pause" | .kill => "kill" | .status => "status"

def showObs : Obs → String
  | .ret r => DrvPM.showRet r
  | .status l p => s!"status:{DrvPM.showLabel l}:{b01 p}"
  | .sent id => s!"sent:{id}"
  | .unroutable => "unroutable"
  | .nosub => "nosub"
  | .filtered => "filtered"
  | .scheduled _ => "sched"
  | .ignored => "ignored"
  | .rejected cls => s!"rejected:{cls}"
  | .called k r => s!"called:{showCall k}:{DrvPM.showRet r}"
  | .disabled => "disabled"

def showRVal : RVal → String
  | .pending => "pending" | .bool true => "T" | .bool false => "F" | .cancelled => "cancelled"
  | .exc cls => s!"exc:{cls}" | .status l p => s!"status:{DrvPM.showLabel l}:{b01 p}" | .none => "none"

def line (c0 c : Comms.Cfg) (o : Obs) : String :=
  if c.ch.failed.isSome then (if c0.ch.failed.isSome then "dead" else "hookfail") else
  let fresh := (c.ch.blog.take (c.ch.blog.length - c0.ch.blog.length)).reverse
  let bl := if fresh.isEmpty then "-" else ",".intercalate (fresh.map (·.subject))
  s!"ret={showObs o} st={DrvPM.showLabel c.p.st.label} paused={b01 c.p.paused.isSome} fut={DrvPM.showFut c.p.fut} " ++
  s!"task={DrvPM.showTask c.p.pc} sub={b01 c.ch.subRpc}{b01 c.ch.subBc} blog+={bl}"

def endLine (c : Comms.Cfg) : String :=
  if c.ch.failed.isSome then "dead" else
  let reps := c.replies.reverse.map fun e => s!"{e.1}:{showRVal (replyVal c.p e.2)}"
  let bl := c.ch.blog.reverse.map fun b => s!"{b.idx}:{b.subject}:{b.sender}"
  s!"replies={",".intercalate reps} announced={c.ch.announced} blog={",".intercalate bl}"

def parseEv (toks : List String) : Option Comms.Ev :=
  match toks with
  | ["tick", "recv", id] => id.toNat?.map Comms.Ev.recv
  | ["tick", "call", id] => id.toNat?.map Comms.Ev.call
  | ["tick", "stepper"] => some (.pm .tick)
  | ["tick", "trykill"] => some (.pm (.tickCb .trykill))
  | ["tick", "adone", f] => f.toNat?.map fun n => .pm (.tickCb (.adone n))
  | ["rpc", w] => some (.rpc w)
  | ["bcast", s] => some (.bcast s)
  | ["direct", "pause"] => some (.pm .pause)
  | ["direct", "play"] => some (.pm .play)
  | ["direct", "kill"] => some (.pm .kill)
  | ["direct", "status"] => some .status
  | ["env", "resume"] => some (.pm (.resume (some 5)))
  | _ => none

def parseFail (s : String) : Option Oracle :=
  if s = "-" then some allOk else
  match s.splitOn ":" with
  | [i, cls] => i.toNat?.map fun n => failAt n cls
  | _ => none

partial def loop (h : IO.FS.Stream) (O : Oracle) (P : Prog) (c : Comms.Cfg) : IO Unit := do
  let ln ← h.getLine
  if ln.isEmpty then return ()
  let toks := (ln.trimAscii.toString.splitOn " ").filter (· ≠ "")
  match toks with
  | ["case", name, fail] =>
      match parseFail fail with
      | none => IO.println "bad"; loop h O P c
      | some O' =>
        let c' := create O' 0 "pid"
        let blank : Comms.Cfg := {}
        IO.println (line blank c' (.ret .none))
        loop h O' (Comms.progOf name) c'
  | ["end"] => IO.println (endLine c); loop h O P c
  | _ =>
    match parseEv toks with
    | none => IO.println "bad"; loop h O P c
    | some ev =>
      let (c', o) := Comms.step O P c ev
      IO.println (line c c' o)
      loop h O P c'

def main : IO Unit := do loop (← IO.getStdin) allOk (Comms.progOf "") {}
end DrvComms
