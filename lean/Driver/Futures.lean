import PlumpyModel.Futures.Model
namespace DrvFutures
open Futures

/-
One case per line: a whitespace separated list of ops, each op one token with `:`-separated fields.  Futures are named by
*handles*: the n-th future handed to the harness (hidden futures allocated by an adapter get no handle).

  nk | na                     new kiwi / asyncio future owned by the environment           (+1 handle)
  res:h:n  ref:h:g  exc:h:n  can:h     set_result(n) / set_result(future g) / set_exception(user n) / cancel()
  unwrap:h                    unwrap_kiwi_future(h)                                         (+1 handle)
  mirror:h                    plum_to_kiwi_future(h)                                        (+1 handle)
  task:<coro>                 create_task(coro)                                             (+1 handle)
  rpc:<call>                  Process._schedule_rpc(callback)                               (+1 handle)
  comm:<coro>                 LoopCommunicator(LocalCommunicator).rpc_send to a subscriber  (+1 handle: the reply future)
  act:[k]<call>               CancellableAction(fn); `k`: fn cancels its own action while running (+1 handle)
  run:h                       action.run()
  drain                       run the event loop until nothing is ready
  coro := r<n> | f<h> | x<n> | c | a<h>.<coro> | w<h> | W<h>       call := r<n> | f<h> | x<n> | b<n>

Output: one token per op, `<ret>|<obs of handle 0>,<obs of handle 1>,..|c<k>l<k>` where ret is `ok`, `E` (the environment's
set was rejected: InvalidStateError) or `E<exc>` (raised by run()), obs is the deep state of the future
(`P` pending, `C` cancelled, `X<exc>`, `V<n>`, `Rk(..)`/`Ra(..)` resolved to a kiwi/asyncio future), prefixed by `A<calls>:`
for an action; c/l count the exceptions that escaped from callbacks (concurrent.futures logger / loop exception handler).
-/

structure D where
  s : State := {}
  handles : Array FId := #[]
  bad : Bool := false

def FUEL : Nat := 100000

def showExc : Exc → String
  | .user n => s!"u{n}"
  | .base n => s!"b{n}"
  | .cancelledError => "cerr"
  | .invalidState => "inv"
  | .actionInvalid => "act"
  | .notCallable => "type"
  | .notAwaitable => "type"
  | .notDone => "notdone"
  | .rpcWrapped n => s!"w{n}"

def describe (s : State) : Nat → FId → String
  | 0, _ => "..."
  | n+1, f =>
    match s.st f with
    | .pending => "P"
    | .cancelled => "C"
    | .exc e => "X" ++ showExc e
    | .result (.plain v) => s!"V{v}"
    | .result (.ref g) =>
      (match (s.heap g).kind with | .kiwi => "Rk(" | .aio => "Ra(") ++ describe s n g ++ ")"

def observe (d : D) : String :=
  let hs := d.handles.toList.map fun f =>
    (match d.s.acts f with | some a => s!"A{a.calls}:" | none => "") ++ describe d.s 24 f
  let c := (d.s.errs.filter (·.1 == .inline)).length
  let l := (d.s.errs.filter (·.1 == .loop)).length
  ",".intercalate hs ++ s!"|c{c}l{l}" ++ (if d.s.fuelOut then "|fuel" else "")

def handle? (d : D) (t : String) : Option FId := do
  let i ← t.toNat?
  d.handles[i]?

partial def pCoro (d : D) (t : String) : Option Coro :=
  if t == "c" then some (.raise .cancelledError) else
  let hd := t.take 1 |>.toString
  let tl := t.drop 1 |>.toString
  if hd == "r" then tl.toNat?.map (fun n => .ret (.plain n))
  else if hd == "f" then (handle? d tl).map (fun g => .ret (.ref g))
  else if hd == "x" then tl.toNat?.map (fun n => .raise (.user n))
  else if hd == "w" || hd == "W" then (handle? d tl).map .retAwait
  else if hd == "a" then
    match tl.splitOn "." with
    | h :: rest@(_ :: _) => do
        let g ← handle? d h
        let k ← pCoro d (".".intercalate rest)
        some (.await g k)
    | _ => none
  else none

def pCall (d : D) (t : String) : Option Call :=
  let hd := t.take 1 |>.toString
  let tl := t.drop 1 |>.toString
  if hd == "r" then tl.toNat?.map (fun n => .ret (.plain n))
  else if hd == "f" then (handle? d tl).map (fun g => .ret (.ref g))
  else if hd == "x" then tl.toNat?.map (fun n => .raise (.user n))
  else if hd == "b" then tl.toNat?.map (fun n => .raise (.base n))
  else none

def push (d : D) (r : State × FId) : D := { d with s := runStack FUEL r.1, handles := d.handles.push r.2 }

/-- the environment sets a future; `ret` says whether the set was rejected -/
def envSet (d : D) (f : FId) (o : St) : D × String :=
  let r := complete d.s f o
  ({ d with s := runStack FUEL r.1 }, if r.2 then "ok" else "E")

/-- `LoopCommunicator.add_rpc_subscriber(cb)` + `rpc_send`: `convert_to_comm` schedules the subscriber with `create_task`,
mirrors the task future with `plum_to_kiwi_future`, and `LocalCommunicator.fire_rpc` sets the reply future to that mirror -/
def comm (s : State) (c : Coro) : State × FId :=
  let t := createTask s c
  let k := plumToKiwi t.1 t.2
  let l := alloc k.1 .kiwi
  ((setOutcome l.1 l.2 (.result (.ref k.2))).1, l.2)

def op (d : D) (tok : String) : Option (D × String) :=
  match tok.splitOn ":" with
  | ["nk"] => some (push d (alloc d.s .kiwi), "ok")
  | ["na"] => some (push d (alloc d.s .aio), "ok")
  | ["res", h, n] => do some (envSet d (← handle? d h) (.result (.plain (← n.toNat?))))
  | ["ref", h, g] => do some (envSet d (← handle? d h) (.result (.ref (← handle? d g))))
  | ["exc", h, n] => do some (envSet d (← handle? d h) (.exc (.user (← n.toNat?))))
  | ["can", h] => do some (envSet d (← handle? d h) .cancelled)
  | ["unwrap", h] => do some (push d (unwrapKiwi d.s (← handle? d h)), "ok")
  | ["mirror", h] => do some (push d (plumToKiwi d.s (← handle? d h)), "ok")
  | ["task", c] => do some (push d (createTask d.s (← pCoro d c)), "ok")
  | ["rpc", c] => do some (push d (scheduleRpc d.s (← pCall d c)), "ok")
  | ["comm", c] => do some (push d (comm d.s (← pCoro d c)), "ok")
  | ["act", c] =>
      if c.startsWith "k" then do some (push d (newAction d.s { cancels := true, out := ← pCall d (c.drop 1).toString }), "ok")
      else do some (push d (newAction d.s { out := ← pCall d c }), "ok")
  | ["run", h] => do
      let a ← handle? d h
      if (d.s.acts a).isNone then none else
      let r := runAction d.s a
      some ({ d with s := runStack FUEL r.1 }, match r.2 with | none => "ok" | some e => "E" ++ showExc e)
  | ["drain"] => some ({ d with s := drain FUEL 100000 d.s }, "ok")
  | _ => none

def handleLine (line : String) : String :=
  let toks := (line.trimAscii.toString.splitOn " ").filter (· ≠ "")
  let rec go (d : D) (acc : List String) : List String → String
    | [] => " ".intercalate acc.reverse
    | t :: rest =>
      match op d t with
      | none => "bad"
      | some (d', ret) => go d' ((ret ++ "|" ++ observe d') :: acc) rest
  go {} [] toks

partial def loop (h : IO.FS.Stream) : IO Unit := do
  let line ← h.getLine
  if line.isEmpty then return ()
  IO.println (handleLine line)
  loop h

def main : IO Unit := do loop (← IO.getStdin)
end DrvFutures
