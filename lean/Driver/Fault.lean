import PlumpyModel.Fault.Model
namespace DrvFault
open Fault PMF

/-
one transition per line:  <from> <target> <target-exception-is-fault 0|1> <phase|none> <before|after|->
output: label=<l> excfault=<0|1> fut=<pending|result|exc-fault|exc-other|killed> closed=<0|1> cleanups=<n> raised=<none|fault|internal>
-/
def pLabel (s : String) : Option Label := Label.all.find? (·.name = s)

def pPhase : String → Option Phase
  | "exiting" => some .exiting | "entering" => some .entering | "entered" => some .entered
  | "terminated" => some .terminated | "close" => some .close | _ => none

def showFut : Fut → String
  | .pending => "pending" | .result => "result" | .exc true => "exc-fault" | .exc false => "exc-other" | .killedErr => "killed"

/-
further line shapes (the small models of user code that is not a lifecycle hook of a transition):
  construct <before|after|none>                        -> constructed=<0|1> raised=<none|fault>
  outcall <emitting|emitted|none> <before|after|->     -> stored=<0|1> notified=<0|1> raised=<none|fault>
  callall <0|1>*                                       -> ran=<n> logged=<k>      (one flag per callback: it raises)
-/
def showErr : Option Err → String
  | none => "none" | some true => "fault" | some false => "internal"

def handle (line : String) : String :=
  let b (x : Bool) := if x then "1" else "0"
  match (line.trimAscii.toString.splitOn " ").filter (· ≠ "") with
  | ["construct", v] =>
      let f : Option Bool := if v = "before" then some false else if v = "after" then some true else none
      let r := construct f
      s!"constructed={b r.1.isSome} raised={showErr r.2}"
  | ["outcall", hk, v] =>
      let f : Option (OHook × Bool) :=
        if hk = "emitting" then some (.emitting, v = "after") else if hk = "emitted" then some (.emitted, v = "after") else none
      let r := outCall f
      s!"stored={b r.1.stored} notified={b r.1.notified} raised={showErr r.2}"
  | "callall" :: flags =>
      let cbs : List (Callback Nat) := flags.map fun fl => { eff := (· + 1), raises := fl = "1" }
      let r := callAll cbs 0
      s!"ran={r.1} logged={r.2.2}"
  | [fr, tg, isf, ph, var] =>
    match pLabel fr, pLabel tg with
    | some l, some t =>
      let f : Option FaultPt := (pPhase ph).map fun p => ⟨p, var = "after"⟩
      if ph ≠ "none" && f.isNone then "bad" else
      let (c, e) := transitionTo f (liveCfg l) { label := t, isFault := isf = "1" }
      let b (x : Bool) := if x then "1" else "0"
      s!"label={c.label.name} excfault={b c.excIsFault} fut={showFut c.fut} closed={b c.closed} cleanups={c.cleanups} " ++
      s!"raised={match e with | none => "none" | some true => "fault" | some false => "internal"}"
    | _, _ => "bad"
  | _ => "bad"

partial def loop (h : IO.FS.Stream) : IO Unit := do
  let line ← h.getLine
  if line.isEmpty then return ()
  IO.println (handle line)
  loop h

def main : IO Unit := do loop (← IO.getStdin)
end DrvFault
