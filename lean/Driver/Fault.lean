import PlumpyModel.Fault.Model
namespace DrvFault
open Fault PMF

/-
one transition per line:  <from> <target> <target-exception-is-fault 0|1> <phase|none> <before|after|->
output: label=<l> excfault=<0|1> fut=<pending|result|exc-fault|exc-other|killed> closed=<0|1> cleanups=<n> raised=<none|fault|internal>
-/
def pLabel (s : String) : Option Label := Label.all.find? (·.name = s)

def pPhase : String → Option Phase
  | "exiting" => some .exiting | "entering" => some .entering | "entered" => some .entered
  | "terminated" => some .terminated | "close" => some .close | _ => none

def showFut : Fut → String
  | .pending => "pending" | .result => "result" | .exc true => "exc-fault" | .exc false => "exc-other" | .killedErr => "killed"

def handle (line : String) : String :=
  match (line.trimAscii.toString.splitOn " ").filter (· ≠ "") with
  | [fr, tg, isf, ph, var] =>
    match pLabel fr, pLabel tg with
    | some l, some t =>
      let f : Option FaultPt := (pPhase ph).map fun p => ⟨p, var = "after"⟩
      if ph ≠ "none" && f.isNone then "bad" else
      let (c, e) := transitionTo f (liveCfg l) { label := t, isFault := isf = "1" }
      let b (x : Bool) := if x then "1" else "0"
      s!"label={c.label.name} excfault={b c.excIsFault} fut={showFut c.fut} closed={b c.closed} cleanups={c.cleanups} " ++
      s!"raised={match e with | none => "none" | some true => "fault" | some false => "internal"}"
    | _, _ => "bad"
  | _ => "bad"

partial def loop (h : IO.FS.Stream) : IO Unit := do
  let line ← h.getLine
  if line.isEmpty then return ()
  IO.println (handle line)
  loop h

def main : IO Unit := do loop (← IO.getStdin)
end DrvFault
