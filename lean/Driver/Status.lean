import PlumpyModel.Status.Model
namespace DrvStatus
open StatusM

/-
one history per line, ops separated by spaces:   S<tok> = set_status, P<tok> = on_paused(msg), Y = on_playing
<tok>: `-` = None, `=<text>` = the string <text> (no spaces; `=` alone is the empty string)
output: the status token after every op, separated by spaces
-/
def pTok (s : String) : Option (Option String) :=
  if s = "-" then some none
  else if s.startsWith "=" then some (some (s.drop 1).toString)
  else none

def showTok : Option String → String
  | none => "-"
  | some t => "=" ++ t

def pOp (w : String) : Option Op :=
  if w = "Y" then some .onPlaying
  else if w.startsWith "S" then (pTok (w.drop 1).toString).map .setStatus
  else if w.startsWith "P" then (pTok (w.drop 1).toString).map .onPaused
  else none

def handle (line : String) : String :=
  let ws := (line.trimAscii.toString.splitOn " ").filter (· ≠ "")
  let rec go (s : St) (ws : List String) (acc : List String) : String :=
    match ws with
    | [] => " ".intercalate acc.reverse
    | w :: rest =>
      match pOp w with
      | none => "bad"
      | some o => let s' := step s o; go s' rest (showTok s'.status :: acc)
  go {} ws []

partial def loop (h : IO.FS.Stream) : IO Unit := do
  let line ← h.getLine
  if line.isEmpty then return ()
  IO.println (handle line)
  loop h

def main : IO Unit := do loop (← IO.getStdin)
end DrvStatus
