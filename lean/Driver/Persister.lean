import PlumpyModel.Persister.Model
namespace DrvPersister
open Persister

/-
line protocol (whitespace separated tokens, one operation per line):
  case <label> P <id>* T <id>*     start a history: empty persisters, every process at value 0; the ids after P and T span
                                   the universe of keys (pids × (None + tags)) that is probed after every operation
  save <id> <tag> | load <id> <tag> | del <id> <tag> | listp <id> | delp <id> | list | progress <id>
  id  := i:<int> | u:<uuid> | s:<str>        (kind prefix + str() of the value)
  tag := - | id                               (`-` is None)
output, one line per input line:
  case      -> ok
  operation -> mem:<res>;<dump> pkl:<res>;<dump> spec:<res>;<dump> wf=<0|1>
    res  := ok | ok:<n> | missing | [<key>,...]                (listings sorted)
    dump := L[<key>,...]S[<key>=<n>,...]                        (get_checkpoints sorted; every universe key that loads)
    key  := <id>/<tag>
    wf   := the side condition of C14 holds for the history so far
  anything else -> bad
-/

def pId (s : String) : Option Ident :=
  let body := (s.drop 2).toString
  if s.startsWith "i:" then some ⟨.int, body⟩
  else if s.startsWith "u:" then some ⟨.uuid, body⟩
  else if s.startsWith "s:" then some ⟨.str, body⟩
  else none

def pTag (s : String) : Option Tag :=
  if s = "-" then some none else (pId s).map some

def showId (i : Ident) : String :=
  (match i.kind with | .int => "i:" | .uuid => "u:" | .str => "s:") ++ i.repr

def showTag : Tag → String
  | none => "-"
  | some t => showId t

def showKey (k : Key) : String := showId k.1 ++ "/" ++ showTag k.2

def sortStr (l : List String) : List String := l.mergeSort (fun a b => !(decide (b < a)))

def showKeys (l : List Key) : String := "[" ++ ",".intercalate (sortStr (l.map showKey)) ++ "]"

def showRes : Res → String
  | .done => "ok"
  | .loaded (.ok n) => s!"ok:{n}"
  | .loaded (.error .missing) => "missing"
  | .listed l => showKeys l

structure St where
  univ : List Key := []
  cur : List (Pid × Nat) := []
  m : InMem := memImpl.init
  d : Dir := pklImpl.init
  f : Flat := flatImpl.init
  kinds : List Kind := [.int, .uuid, .str]
  started : Bool := false

def St.curFn (s : St) : Cur := fun p => ((s.cur.find? (·.1 = p)).map (·.2)).getD 0

def dump {σ} (I : Impl σ) (x : σ) (univ : List Key) : String :=
  let loads := univ.filterMap (fun k =>
    match I.load x k.1 k.2 with
    | .ok n => some s!"{showKey k}={n}"
    | .error _ => none)
  "L" ++ showKeys (I.list x) ++ "S[" ++ ",".intercalate loads ++ "]"

def obs {σ} (I : Impl σ) (c : Cur) (x : σ) (op : Op) (univ : List Key) : σ × String :=
  let r := stepRes I x op
  let x' := stepSt I c x op
  (x', showRes r ++ ";" ++ dump I x' univ)

def applyOp (s : St) (op : Op) : St × String :=
  let c := s.curFn
  let (m', om) := obs memImpl c s.m op s.univ
  let (d', od) := obs pklImpl c s.d op s.univ
  let (f', ofl) := obs flatImpl c s.f op s.univ
  let kinds := s.kinds.filter (fun K => wfOp K op)
  let cur := match op with
    | .progress p v => (p, v) :: s.cur.filter (·.1 ≠ p)
    | _ => s.cur
  ({ s with m := m', d := d', f := f', kinds := kinds, cur := cur },
   s!"mem:{om} pkl:{od} spec:{ofl} wf={if kinds.isEmpty then 0 else 1}")

def splitPT : List String → Option (List String × List String)
  | "P" :: rest =>
    let ps := rest.takeWhile (· ≠ "T")
    match rest.dropWhile (· ≠ "T") with
    | "T" :: ts => some (ps, ts)
    | _ => none
  | _ => none

def parseOp (s : St) : List String → Option Op
  | ["save", p, t] => do some (.save (← pId p) (← pTag t))
  | ["load", p, t] => do some (.load (← pId p) (← pTag t))
  | ["del", p, t] => do some (.del (← pId p) (← pTag t))
  | ["listp", p] => do some (.listp (← pId p))
  | ["delp", p] => do some (.delp (← pId p))
  | ["list"] => some .list
  | ["progress", p] => do
      let q ← pId p
      some (.progress q (s.curFn q + 1))
  | _ => none

def handle (s : St) (line : String) : St × String :=
  let toks := (line.trimAscii.toString.splitOn " ").filter (· ≠ "")
  match toks with
  | "case" :: _ :: rest =>
    match splitPT rest with
    | none => (s, "bad")
    | some (ps, ts) =>
      match ps.mapM pId, ts.mapM pId with
      | some pids, some tags =>
        let keys : List Key := pids.flatMap (fun p => (none :: tags.map some).map (fun t => (p, t)))
        let sorted := sortStr (keys.map showKey).eraseDups
        let univ := sorted.filterMap (fun r => keys.find? (fun k => showKey k = r))
        ({ univ := univ, started := true }, "ok")
      | _, _ => (s, "bad")
  | _ =>
    if !s.started then (s, "bad") else
    match parseOp s toks with
    | none => (s, "bad")
    | some op => applyOp s op

partial def loop (h : IO.FS.Stream) (s : St) : IO Unit := do
  let line ← h.getLine
  if line.isEmpty then return ()
  let (s', out) := handle s line
  IO.println out
  loop h s'

def main : IO Unit := do loop (← IO.getStdin) {}
end DrvPersister
