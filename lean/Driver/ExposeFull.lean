import PlumpyModel.Expose.Full
import Driver.Expose
namespace DrvExposeFull
open Expose Expose.Full

/-
`pmodel exposefull` (C15, full model): one case per line, one observation line per case.

  line    : DST root SRC root (SRC root)* CALL call (CALL call)*
  root    : <props> <n> entry*n
  entry   : L <name> <attr> | N <name> <props> <n> entry*n
  props   : comma separated atoms (natural numbers), in the enumeration order of the mutable PortNamespace properties
  call    : <source index> <namespace> <exclude> <include> <options>
  namespace : -  (None)  |  =<string>  (the string, possibly empty, split at '.')
  exclude/include : -  (None) | () (empty sequence) | rule,rule,…
  options : - (None) | () (empty dict) | <property index>:<atom>,…      (indices >= 100: names that are no property)

Identities: the objects of the destination are numbered in pre-order from 0 (root = 0), then the objects of the sources in
the order given; the allocation counter starts after them.

Observation: for every call, separated by ` | `:  `names=<n1,n2,…|-> err=<-|exclusive|unknownopt|occupied|emptyname>`
followed by the dump of the whole destination after that call, one token per port object in pre-order, dict order:
`<dotted path or @ for the root>:N:<props>:<class>` or `<path>:L:<attr>:<class>`, class = `D<i>` (i-th object of the
destination before the first call), `S<i>` (i-th source object), `F<k>` (created by the k-th call).
-/

def pProps (s : String) : Option Props :=
  if s = "-" then some [] else (s.splitOn ",").mapM (·.toNat?)

/-- parse `count` entries, allocating identities in pre-order -/
partial def pEntries : Nat → List String → Nat → Option (Ports × List String × Nat)
  | 0, toks, c => some ([], toks, c)
  | n+1, "L" :: name :: attr :: rest, c => do
      let a ← attr.toNat?
      let (es, r, c') ← pEntries n rest (c + 1)
      some ((name, .leaf c a) :: es, r, c')
  | n+1, "N" :: name :: props :: cnt :: rest, c => do
      let p ← pProps props
      let k ← cnt.toNat?
      let (sub, r1, c1) ← pEntries k rest (c + 1)
      let (es, r2, c2) ← pEntries n r1 c1
      some ((name, .ns c p sub) :: es, r2, c2)
  | _, _, _ => none

def pRoot : List String → Nat → Option (Ns × List String × Nat)
  | props :: cnt :: rest, c => do
      let p ← pProps props
      let k ← cnt.toNat?
      let (sub, r, c') ← pEntries k rest (c + 1)
      some (⟨c, p, sub⟩, r, c')
  | _, _ => none

partial def pSources : List String → Nat → List Ns → Option (List Ns × List String × Nat)
  | "SRC" :: rest, c, acc => do
      let (s, r, c') ← pRoot rest c
      pSources r c' (acc ++ [s])
  | toks, c, acc => some (acc, toks, c)

def pNs (s : String) : Option (List Name) :=
  if s = "-" then none else some ((s.drop 1).toString.splitOn ".")

def pOpts (s : String) : Option (Option Opts) :=
  if s = "-" then some none
  else if s = "()" then some (some [])
  else do
    let kv ← (s.splitOn ",").mapM fun e => match e.splitOn ":" with
      | [k, v] => do some ((← k.toNat?), (← v.toNat?))
      | _ => none
    some (some kv)

partial def pCalls (srcs : List Ns) : List String → List Call → Option (List Call)
  | [], acc => some acc
  | "CALL" :: si :: ns :: ex :: inc :: opts :: rest, acc => do
      let i ← si.toNat?
      let s ← srcs[i]?
      let o ← pOpts opts
      pCalls srcs rest (acc ++ [{ src := s, nsp := pNs ns, ex := DrvExpose.parseRules ex, inc := DrvExpose.parseRules inc, opts := o }])
  | _, _ => none

def showNats (l : List Nat) : String := if l.isEmpty then "-" else ",".intercalate (l.map toString)

/-- identity class: `bounds` = counter after each call -/
def cls (nd c0 : Nat) (bounds : List Nat) (i : Nat) : String :=
  if i < nd then s!"D{i}" else if i < c0 then s!"S{i - nd}"
  else
    let rec go : List Nat → Nat → String
      | [], k => s!"F{k}"
      | b :: bs, k => if i < b then s!"F{k}" else go bs (k + 1)
    go bounds 1

partial def dumpPorts (cl : Nat → String) (pre : String) : Ports → List String
  | [] => []
  | (n, .leaf i a) :: rest => s!"{pre}{n}:L:{a}:{cl i}" :: dumpPorts cl pre rest
  | (n, .ns i p sub) :: rest =>
      (s!"{pre}{n}:N:{showNats p}:{cl i}" :: dumpPorts cl s!"{pre}{n}." sub) ++ dumpPorts cl pre rest

def dumpNs (cl : Nat → String) (d : Ns) : String :=
  " ".intercalate (s!"@:N:{showNats d.props}:{cl d.id}" :: dumpPorts cl "" d.ports)

def showErr : Err → String
  | .exclusive => "exclusive" | .unknownOption => "unknownopt" | .occupied => "occupied" | .emptyName => "emptyname"

def runCalls (nd c0 : Nat) : List Call → Ns → Nat → List Nat → List String → List String
  | [], _, _, _, acc => acc
  | k :: rest, dst, c, bounds, acc =>
      let r := exposePorts k.src k.nsp k.ex k.inc k.opts dst c
      let bounds' := bounds ++ [r.2.1]
      let head := match r.2.2 with
        | .ok names => s!"names={if names.isEmpty then "-" else ",".intercalate names} err=-"
        | .error e => s!"names=- err={showErr e}"
      runCalls nd c0 rest r.1 r.2.1 bounds' (acc ++ [head ++ " " ++ dumpNs (cls nd c0 bounds') r.1])

def handle (line : String) : String :=
  match (line.trimAscii.toString.splitOn " ").filter (· ≠ "") with
  | "DST" :: rest =>
      match pRoot rest 0 with
      | none => "bad dst"
      | some (dst, r, nd) =>
        match pSources r nd [] with
        | none => "bad src"
        | some (srcs, r2, c0) =>
          match pCalls srcs r2 [] with
          | none => "bad call"
          | some calls => " | ".intercalate (runCalls nd c0 calls dst c0 [] [])
  | _ => "bad"

partial def loop (h : IO.FS.Stream) : IO Unit := do
  let line ← h.getLine
  if line.isEmpty then return ()
  IO.println (handle line)
  loop h

def main : IO Unit := do loop (← IO.getStdin)
end DrvExposeFull
