import PlumpyModel.ProcStack.Model
namespace DrvProcStack
open ProcStack

/-
line grammar (whitespace separated tokens):
  scn <ntop> cls{ntop} <nclasses> class{nclasses} <ncbs> code{ncbs} [<nraise> cb{nraise}]    -- resets the state
  class := <nsteps> step{nsteps}        step := (N|W|F|R|B) code      code := <nacts> act{nacts}
  act   := o | a | u | c<k> | l<k> | x<k> | i<k> | p<k>  -- i: child of class k awaited inline; B: step ends with a BaseException
                                                         -- p: callback k scheduled on the creator of the running process (if any)
  the optional trailer lists the callbacks that end with `raise Boom()` (sample `h.callback_excepted` after their scope)
  tick <tid> | resume <tid> | kill <tid> | ext <pid> <cb>      -- ext: `pid.call_soon(cb)` from code outside any task
  cancel <tid>                                                 -- `task.cancel()` from code outside any task
output, one line per input line:
  obs=<owner>:<kind>:<cur|->:<stack bottom first, '.' separated>,...  ready=<tid,..> parked=<tid,..> loop=<cur|->
  `err:<name>` once the model state carries an error, `bad` for unparsable input or an ill-formed scenario
-/

def pAct (s : String) : Option Act :=
  if s = "o" then some .obs
  else if s = "a" then some .await
  else if s = "u" then some .out
  else
    let k := (s.drop 1).toString.toNat?
    if s.startsWith "c" then k.map .callSoon
    else if s.startsWith "l" then k.map .launch
    else if s.startsWith "x" then k.map .execute
    else if s.startsWith "i" then k.map .inline
    else if s.startsWith "p" then k.map .callSoonCreator
    else none

def pCode : List String → Option (List Act × List String)
  | n :: rest => do
      let k ← n.toNat?
      if rest.length < k then none else
      let acts ← (rest.take k).mapM pAct
      some (acts, rest.drop k)
  | [] => none

def pEnd (s : String) : Option End :=
  if s = "N" then some .next else if s = "W" then some .wait else if s = "F" then some .finish
  else if s = "R" then some .raise else if s = "B" then some .raiseBase else none

def pSteps : Nat → List String → List Step → Option (List Step × List String)
  | 0, r, acc => some (acc.reverse, r)
  | m+1, e :: r, acc => do
      let en ← pEnd e
      let (c, r') ← pCode r
      pSteps m r' (⟨c, en⟩ :: acc)
  | _, _, _ => none

def pClasses : Nat → List String → List (List Step) → Option (List (List Step) × List String)
  | 0, r, acc => some (acc.reverse, r)
  | m+1, n :: r, acc => do
      let (s, r') ← pSteps (← n.toNat?) r []
      pClasses m r' (s :: acc)
  | _, _, _ => none

def pCbs : Nat → List String → List (List Act) → Option (List (List Act) × List String)
  | 0, r, acc => some (acc.reverse, r)
  | m+1, r, acc => do
      let (c, r') ← pCode r
      pCbs m r' (c :: acc)

def pScn (toks : List String) : Option (Scenario × List Nat) :=
  match toks with
  | nt :: rest => do
      let k ← nt.toNat?
      if rest.length < k then none else
      let top ← (rest.take k).mapM (·.toNat?)
      match rest.drop k with
      | nc :: r => do
          let (cls, r') ← pClasses (← nc.toNat?) r []
          match r' with
          | nb :: r'' => do
              let (cbs, r3) ← pCbs (← nb.toNat?) r'' []
              match r3 with
              | [] => some ({ classes := cls, cbs := cbs }, top)
              | nr :: r4 => do
                  let n ← nr.toNat?
                  if r4.length ≠ n then none else
                  let raising ← r4.mapM (·.toNat?)
                  some ({ classes := cls, cbs := cbs, cbRaise := raising }, top)
          | [] => none
      | [] => none
  | [] => none

def hookName : Hook → String
  | .on_create => "on_create" | .on_entering => "on_entering" | .on_entered => "on_entered"
  | .on_exiting => "on_exiting" | .on_run => "on_run" | .on_running => "on_running"
  | .on_exit_running => "on_exit_running" | .on_wait => "on_wait" | .on_waiting => "on_waiting"
  | .on_exit_waiting => "on_exit_waiting" | .on_finish => "on_finish" | .on_finished => "on_finished"
  | .on_except => "on_except" | .on_excepted => "on_excepted" | .on_kill => "on_kill" | .on_killed => "on_killed"
  | .on_terminated => "on_terminated" | .on_close => "on_close"
  | .on_output_emitting => "on_output_emitting" | .on_output_emitted => "on_output_emitted"
  | .callback_excepted => "callback_excepted"

def kindName : Kind → String
  | .seg => "seg" | .aw => "aw" | .o => "o" | .cbseg => "cbseg" | .cbaw => "cbaw" | .lret => "lret"
  | .xret => "xret" | .csret => "csret" | .pcret => "pcret" | .uret => "uret" | .iret => "iret" | .absorbed => "absorbed" | .hook h => "h." ++ hookName h

def showCur : Option Pid → String
  | none => "-" | some p => toString p

def showObs (o : Obs) : String :=
  s!"{o.owner}:{kindName o.kind}:{showCur o.cur}:{".".intercalate (o.stack.reverse.map toString)}"

def errName : Err → String
  | .scopeAssertion => "scopeAssertion" | .badRef => "badRef" | .notReady => "notReady" | .fuel => "fuel"

def showState (before : Nat) (σ : State) : String :=
  match σ.err with
  | some e => "err:" ++ errName e
  | none =>
    let newObs := (σ.log.take (σ.log.length - before)).reverse
    let idx := List.range σ.tasks.length
    let rd := idx.filter (ready σ)
    let pk := idx.filter (fun t => (σ.tasks[t]?.map (·.parked)).getD false)
    s!"obs={",".intercalate (newObs.map showObs)} ready={",".intercalate (rd.map toString)} parked={",".intercalate (pk.map toString)} loop={showCur (loopCurrent σ)}"

def handle (st : Option State) (line : String) : Option State × String :=
  let toks := (line.trimAscii.toString.splitOn " ").filter (· ≠ "")
  match toks with
  | "scn" :: rest =>
    match pScn rest with
    | none => (none, "bad")
    | some (scn, top) =>
      if !scn.wf top then (none, "bad") else
      let σ := init scn top
      (some σ, showState 0 σ)
  | ["tick", t] =>
    match st, t.toNat? with
    | some σ, some t => let σ' := step σ (.tick t); (some σ', showState σ.log.length σ')
    | _, _ => (st, "bad")
  | ["resume", t] =>
    match st, t.toNat? with
    | some σ, some t => let σ' := step σ (.resume t); (some σ', showState σ.log.length σ')
    | _, _ => (st, "bad")
  | ["kill", t] =>
    match st, t.toNat? with
    | some σ, some t => let σ' := step σ (.kill t); (some σ', showState σ.log.length σ')
    | _, _ => (st, "bad")
  | ["cancel", t] =>
    match st, t.toNat? with
    | some σ, some t => let σ' := step σ (.cancel t); (some σ', showState σ.log.length σ')
    | _, _ => (st, "bad")
  | ["ext", p, cb] =>
    match st, p.toNat?, cb.toNat? with
    | some σ, some p, some cb => let σ' := step σ (.callSoon p cb); (some σ', showState σ.log.length σ')
    | _, _, _ => (st, "bad")
  | _ => (st, "bad")

partial def loop (h : IO.FS.Stream) (out : IO.FS.Stream) (st : Option State) : IO Unit := do
  let line ← h.getLine
  if line.isEmpty then return ()
  let (st', o) := handle st line
  out.putStrLn o
  loop h out st'

def main : IO Unit := do loop (← IO.getStdin) (← IO.getStdout) none
end DrvProcStack
