import PlumpyModel.Outline.Model
namespace DrvOutline
open Outline

/-
line grammar (prefix, whitespace separated):
  line   := block (S <f> <n> ret{n} | P <p> <n> bit{n})*
  block  := <n> instr{n}
  instr  := C <f> | R (-|<int>) | W <p> block | I <nb> branch{nb}
  branch := (P <p> | E) block
  ret    := n | t | v<int>
output: `trace=<ev,ev,..> result=<ret>`  |  `err`  |  `fuel`
-/

mutual
partial def pBlock : List String → Option (Block × List String)
  | n :: rest => do
      let k ← n.toNat?
      pInstrs k rest []
  | [] => none
partial def pInstrs : Nat → List String → List Instr → Option (Block × List String)
  | 0, r, acc => some (acc.reverse, r)
  | m+1, r, acc => do let (i, r') ← pInstr r; pInstrs m r' (i :: acc)
partial def pInstr : List String → Option (Instr × List String)
  | "C" :: f :: rest => do some (.call (← f.toNat?), rest)
  | "R" :: "-" :: rest => some (.ret none, rest)
  | "R" :: c :: rest => do some (.ret (some (← c.toInt?)), rest)
  | "W" :: p :: rest => do
      let (b, r) ← pBlock rest
      some (.while_ (← p.toNat?) b, r)
  | "I" :: nb :: rest => do
      let (bs, r) ← pBranches (← nb.toNat?) rest []
      some (.ite bs, r)
  | _ => none
partial def pBranches : Nat → List String → List Branch → Option (List Branch × List String)
  | 0, r, acc => some (acc.reverse, r)
  | m+1, "P" :: p :: rest, acc => do
      let (b, r) ← pBlock rest
      pBranches m r ((some (← p.toNat?), b) :: acc)
  | m+1, "E" :: rest, acc => do
      let (b, r) ← pBlock rest
      pBranches m r ((none, b) :: acc)
  | _, _, _ => none
end

def pRet (s : String) : Option Ret :=
  if s = "n" then some .none
  else if s = "t" then some (.toCtx 0)
  else if s.startsWith "v" then (s.drop 1).toString.toInt?.map .val
  else none

structure Tabs where
  steps : List (Nat × List Ret) := []
  preds : List (Nat × List Bool) := []

partial def pTabs : List String → Tabs → Option Tabs
  | [], t => some t
  | "S" :: f :: n :: rest, t => do
      let k ← n.toNat?
      let vals ← (rest.take k).mapM pRet
      pTabs (rest.drop k) { t with steps := t.steps ++ [(← f.toNat?, vals)] }
  | "P" :: p :: n :: rest, t => do
      let k ← n.toNat?
      let vals : List Bool := (rest.take k).map (fun x => x == "1")
      pTabs (rest.drop k) { t with preds := t.preds ++ [(← p.toNat?, vals)] }
  | _, _ => none

/-- the world state is the history: events newest first and per-function call counters -/
structure Hist where
  events : List String := []
  sc : List (Nat × Nat) := []
  pc : List (Nat × Nat) := []

def count (l : List (Nat × Nat)) (k : Nat) : Nat := ((l.find? (·.1 = k)).map (·.2)).getD 0
def bump (l : List (Nat × Nat)) (k : Nat) : List (Nat × Nat) := (k, count l k + 1) :: l.filter (·.1 ≠ k)

def showRet : Ret → String
  | .none => "n" | .toCtx _ => "t" | .val v => s!"v{v}"

def world (t : Tabs) : World Hist where
  stepFn h f :=
    let i := count h.sc f
    let r := (((t.steps.find? (·.1 = f)).map (·.2)).getD [])[i]?.getD .none
    ({ h with events := s!"s{f}:{showRet r}" :: h.events, sc := bump h.sc f }, r)
  pred h p :=
    let i := count h.pc p
    let b := (((t.preds.find? (·.1 = p)).map (·.2)).getD [])[i]?.getD false
    ({ h with events := s!"p{p}:{if b then 1 else 0}" :: h.events, pc := bump h.pc p }, b)

def handle (line : String) : String :=
  let toks := (line.trimAscii.toString.splitOn " ").filter (· ≠ "")
  match pBlock toks with
  | none => "bad"
  | some (is, rest) =>
    match pTabs rest {} with
    | none => "bad"
    | some t =>
      if is.isEmpty then "err" else
      match runChain (world t) is 100000 (createBlock is) {} with
      | some (r, h) => s!"trace={",".intercalate h.events.reverse} result={showRet r}"
      | none => "err"

partial def loop (h : IO.FS.Stream) : IO Unit := do
  let line ← h.getLine
  if line.isEmpty then return ()
  IO.println (handle line)
  loop h

def main : IO Unit := do loop (← IO.getStdin)
end DrvOutline
