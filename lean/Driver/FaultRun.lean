import PlumpyModel.Fault.Process
import Driver.PML
namespace DrvFaultRun
open PMF PMF.L PMF.FP DrvPM DrvPML

/-
Line protocol of the process-control model with one injected fault (`pmodel faultrun`): the protocol of `pmodel pml` plus

  fault hook <name> <occurrence> <before|after>    arm the fault: the <occurrence>-th call of the user hook raises before / after super()
      name := on_exit_running | on_exit_waiting | on_run | on_wait | on_finish | on_kill | on_running | on_waiting | on_finished
            | on_killed | on_terminated | on_close | on_pausing | on_paused | on_playing
  fault step <fn> <seg>                            step function <fn> raises the fault after <seg> await points
  fault callback                                   the raising call_soon callback raises the fault (ops `callsoon raise`, `tick usercb raise`)
  fault none                                       (listener / cleanup faults: swallowed, nothing to tell the model)

after `case` / `fn` / `plan`, before the first op.  Every op prints the observation of `pmodel pm` followed by
  fired=<0|1> excfault=<0|1> actsx=<P|C|D|E:exc,…> rep=<req:raised:exc,…> loop=<exc,…> trans=<0|1>
-/

def pHK : String → Option HK
  | "on_exit_running" => some .exitRunning | "on_exit_waiting" => some .exitWaiting
  | "on_run" => some .onRun | "on_wait" => some .onWait | "on_finish" => some .onFinish | "on_kill" => some .onKill
  | "on_running" => some .onRunning | "on_waiting" => some .onWaiting | "on_finished" => some .onFinished
  | "on_killed" => some .onKilled | "on_terminated" => some .onTerminated | "on_close" => some .onClose
  | "on_pausing" => some .onPausing | "on_paused" => some .onPaused | "on_playing" => some .onPlaying
  | _ => none

def showReq : Req → String
  | .pause => "pause" | .play => "play" | .kill => "kill"

def showStatusX : AStatus → String
  | .pending => "P" | .cancelled => "C" | .done => "D" | .failed e => s!"E:{showExc e}"

structure St where
  t : Table := []
  x : FCfg := initX 0 [] none
  stepFault : Option (Nat × Nat) := none
  fexc : Exc := faultExc                -- the exception object of the case's fault
  twins : Bool := false                 -- a hook fault is armed at the start: the run is the twins' (`runF`), else `runL`

def progOf (s : St) : Prog :=
  match s.stepFault with
  | some (fn, seg) => withStepFault (progOfTable s.t) fn seg
  | none => progOfTable s.t

def obsX (s : St) (x : FCfg) (r : RetV) : String :=
  let b (v : Bool) := if v then "1" else "0"
  let c := x.l.c
  let isf := match c.st with | .excepted e => e = s.fexc | _ => false
  obs c r ++ s!" fired={b x.fired} excfault={b isf} " ++
  s!"actsx={",".intercalate (c.handed.reverse.map fun i => showStatusX (actionStatus c i))} " ++
  s!"rep={",".intercalate (x.rep.reverse.map fun p => s!"{showReq p.1}:{showRet p.2}")} " ++
  s!"loop={",".intercalate (c.loopErrs.reverse.map showExc)} trans={b x.l.trans.isSome}"

partial def loop (h : IO.FS.Stream) (s : St) : IO Unit := do
  let line ← h.getLine
  if line.isEmpty then return ()
  let toks := (line.trimAscii.toString.splitOn " ").filter (· ≠ "")
  match toks with
  | ["case", nf] =>
      IO.println s!"case {nf}"
      loop h { x := initX (nf.toNat?.getD 0) [] none }
  | "fn" :: id :: aw :: rest =>
      match id.toNat?, aw.toNat?, pOutcome rest with
      | some i, some a, some o => IO.println s!"fn {i}"; loop h { s with t := s.t ++ [(i, ⟨a, o⟩)] }
      | _, _, _ => IO.println "bad-fn"; loop h s
  | "plan" :: rest =>
      match rest.mapM pEntry with
      | some p => IO.println s!"plan {p.length}"; loop h { s with x := s.x.updL fun l => { l with plan := p } }
      | none => IO.println "bad-plan"; loop h s
  | ["fault", "hook", name, occ, var] =>
      match pHK name, occ.toNat? with
      | some hk, some (n+1) =>
          IO.println "fault hook"
          loop h { s with x := { s.x with arm := some { hk := hk, left := n, after := var = "after" } }, twins := true }
      | _, _ => IO.println "bad-fault"; loop h s
  | ["fault", "step", fn, seg] =>
      match fn.toNat?, seg.toNat? with
      | some f, some g => IO.println "fault step"; loop h { s with stepFault := some (f, g) }
      | _, _ => IO.println "bad-fault"; loop h s
  | ["fault", "callback"] => IO.println "fault callback"; loop h { s with fexc := .user 8 }
  | ["fault", "none"] => IO.println "fault none"; loop h s
  | _ =>
    match parseEv toks with
    | none => IO.println "bad-op"; loop h s
    | some ev =>
      let (x', r) :=
        if s.twins then stepF (progOf s) s.x ev
        else ({ s.x with l := (stepL (progOf s) s.x.l ev).1 }, (stepL (progOf s) s.x.l ev).2)
      IO.println (obsX s x' r)
      loop h { s with x := x' }

def main : IO Unit := do loop (← IO.getStdin) {}
end DrvFaultRun
