"""A caller that gives up WAITING for a kill (it cancels the action future kill() handed back - what
`asyncio.wait_for(proc.kill(), timeout)` does on a timeout) must not make the process unkillable: a further kill() still terminates it."""
import asyncio, sys
import plumpy

class P(plumpy.Process):
    async def run(self):
        await asyncio.sleep(0)
        await asyncio.sleep(0)
        return plumpy.Wait(self.after)
    def after(self, *a):
        return 1

def once(loop):
    loop.call_soon(loop.stop); loop.run_forever()

problems = []
loop = asyncio.new_event_loop(); asyncio.set_event_loop(loop)
p = P(loop=loop)
task = loop.create_task(p.step_until_terminated())
once(loop); once(loop)            # a step is in flight
k = p.kill('first')
assert asyncio.isfuture(k)
k.cancel()                        # the caller stops waiting for it
for _ in range(10): once(loop)
if p.has_terminated():
    print('ok (the kill went through anyway)'); sys.exit(0)
k2 = p.kill('second')
for _ in range(10): once(loop)
if not p.killed():
    problems.append(f'a further kill() did not terminate the live process: state={p.state}, kill returned {k2!r}, is_killing={p.is_killing}')
print('\n'.join(problems) or 'ok'); sys.exit(1 if problems else 0)
