"""pause()/kill() requested while a step is in flight, on a process that lives on a loop of its own (Process(loop=...)):
the action future they return must belong to the process's loop, not to whatever loop is current in the calling thread."""
import asyncio, sys
import plumpy

class P(plumpy.Process):
    async def run(self):
        await asyncio.sleep(0)
        await asyncio.sleep(0)
        return None

def once(loop):
    loop.call_soon(loop.stop); loop.run_forever()

problems = []
for mode in ('foreign', 'none'):
    for what in ('pause', 'kill'):
        own = asyncio.new_event_loop()
        other = asyncio.new_event_loop()
        asyncio.set_event_loop(own)
        p = P(loop=own)
        own.create_task(p.step_until_terminated())
        once(own); once(own)              # the step is in flight, suspended at its first await
        asyncio.set_event_loop(other if mode == 'foreign' else None)
        try:
            fut = getattr(p, what)()
        except Exception as e:
            problems.append(f'{mode}/{what}: the request raised {type(e).__name__}: {e}')
            continue
        if asyncio.isfuture(fut) and fut.get_loop() is not own:
            problems.append(f'{mode}/{what}: the action future belongs to another loop than the process')
        async def waiter():
            return await fut
        t = own.create_task(waiter())
        for _ in range(10): once(own)
        if not t.done() or t.exception() is not None:
            problems.append(f'{mode}/{what}: a task of the process loop cannot await the action: {t}')
        if what == 'pause': p.play()
        for _ in range(10): once(own)
print('\n'.join(problems) or 'ok')
sys.exit(1 if problems else 0)
