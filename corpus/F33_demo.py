"""Exposing copies ports independently of the source: a later in-place change of a NAMESPACE's default on one side must not show
through to the other side (it does not for a leaf port, whose default is deep-copied)."""
import sys
import plumpy
from plumpy.ports import PortNamespace, InputPort


class Src(plumpy.Process):
    @classmethod
    def define(cls, spec):
        super().define(spec)
        spec.inputs.default = {'top': 1}
        spec.input_namespace('ns', default={'x': 1}, dynamic=True)
        spec.input('leaf', default={'y': 1})


class Dst(plumpy.Process):
    @classmethod
    def define(cls, spec):
        super().define(spec)
        spec.expose_inputs(Src, namespace='sub')


problems = []
src, dst = Src.spec().inputs, Dst.spec().inputs['sub']
src['leaf'].default['y'] = 99
if dst['leaf'].default != {'y': 1}:
    problems.append(f"leaf default shows through: {dst['leaf'].default}")
src['ns'].default['x'] = 99
if dst['ns'].default != {'x': 1}:
    problems.append(f"nested namespace default changed in the source shows through to the copy: {dst['ns'].default}")
dst.default['top'] = 77
if src.default != {'top': 1}:
    problems.append(f"default of the target namespace changed in the destination shows through to the source: {src.default}")
print('\n'.join(problems) or 'ok')
sys.exit(1 if problems else 0)
