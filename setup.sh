#!/bin/sh
# Build the framework from files on disk only (offline): regenerate the tables, build the Lean library
# (models + proofs) and the native model driver, byte-compile the harness.
set -e
HERE="$(cd "$(dirname "$0")" && pwd)"
cd "$HERE"
/venv/bin/python harness/gen_tables.py "${PLUMPY_REPO:-/repo}" lean/PlumpyModel/Gen > /dev/null
(cd lean && lake build PlumpyModel pmodel)
/venv/bin/python -m compileall -q harness > /dev/null || true
echo "setup ok"
